import J5V.Rules.ProofsC04
import J5V.Rules.Root
import J5V.Rules.SrcFacts
/-!
# C04 — schema read back from compiled proto equals the j5s source schema

Only property theorems and non-vacuity examples. `writeField` models the writer
(`internal/j5s/j5convert/fields.go`), `readField` the reader (`lib/j5schema/schema_from_proto.go`),
`roundtrip p = writeField p >>= readField`. "Equals" is equality with the normal form `normField p`
(normalisations N1–N6, each a semantic no-op of the schema language; see `J5V/Rules/Norm.lean`).
The text path (printed-and-reparsed .proto) is the composition with C05 and is checked on the Go
side only.
-/
namespace J5V.Props.C04
open J5V.Go J5V.Rules

/-- **C04, field level.** For every covered declaration — every rule, flag and format set to
arbitrary admissible values — compiling the property and reflecting the compiled field gives back
the declared property (name, proto field number, required / optional, description, type and
format, every rule with its inclusivity, item counts and uniqueness, enum in / not-in, key format
and entity key, flatten, list rules).

`_partial` of `C04_full` (below): `WFField` (`Rules/Norm.lean`) excludes, beside the inadmissible
declarations (compile errors: rule values, required + optional), exactly these classes, each with a
proved counterexample below and confirmed on the real code:
* `StringField.format` (`C04_string_format_counterexample`);
* array items / map values whose own `(j5.ext.v1.field)` annotation is replaced by the array
  annotation / sits on the map entry's value field: keys without uuid / id62 format or with an
  entity, strings with a well-known pattern, date / decimal rules, **`flatten` objects**
  (`C04_container_flatten_counterexample`), **`any` with `onlyDefined` / `types`**
  (`C04_container_any_counterexample`) (`C04_array_key_…`, `C04_string_id62_pattern_…`,
  `C04_custom_id62_key_lr_…`, `C04_map_value_annotations_…`);
* list rules on map values (`C04_map_value_annotations_counterexample`);
* **`? array` / `? map`** — accepted by the compiler, `explicitlyOptional` is not carried by a repeated
  / map field (`C04_optional_container_counterexample`).
(`WFField` also leaves out arrays of keys that carry an entity although they round-trip: harmless
over-exclusion.) -/
theorem C04_field_roundtrip_partial (p : Property) (h : WFField p = true) :
    roundtrip p = .ok (normField p) :=
  field_roundtrip p h

/-- the reader never panics and never fails on what the writer produced from a covered declaration -/
theorem C04_reader_total (p : Property) (h : WFField p = true) :
    ∃ a q, writeField p = .ok a ∧ readField a = .ok q := by
  have hr := field_roundtrip p h
  unfold roundtrip at hr
  cases hw : writeField p with
  | ok a => rw [hw] at hr; exact ⟨a, _, rfl, hr⟩
  | err t => rw [hw] at hr; cases hr
  | panic w => rw [hw] at hr; cases hr

/-! ## property names: json_name carries the declared name, the proto name is its snake_case -/

/-- the compiler stores the declared j5s name in `json_name` and snake-cases it (`strcase.ToSnake`,
as modelled byte by byte in `J5V/Compile/Strcase.lean`) for the proto field name -/
theorem C04_json_and_proto_name (p : Property) (a : Annot) (h : writeField p = .ok a) :
    a.jsonName = p.name ∧ a.protoName = snakeName p.name := by
  unfold writeField at h
  split at h <;> try (simp at h)
  split at h <;> simp at h
  subst h
  exact ⟨rfl, rfl⟩

/-- the reader names every property — single field, array and map alike — by `json_name`, never
by the proto name -/
theorem C04_reader_uses_json_name (a : Annot) (q : Property) (h : readField a = .ok q) :
    q.name = a.jsonName := by
  unfold readField at h
  simp only at h
  split at h
  · split at h <;> simp at h
    subst h; rfl
  · split at h
    · split at h <;> simp at h
      subst h; rfl
    · split at h <;> simp at h
      subst h; rfl

/-- `strcase.ToLowerCamel` of the proto name — what `jsonFieldName(field.Name())` would give — is
NOT the declared name as soon as the name is not canonical lowerCamel (acronyms, digits): naming a
property from its proto name loses `htmlURLs`, `labelsByID`, `x2y`, `URL`. -/
def lowerCamelOfProtoName (declared : String) : String :=
  J5V.Compile.Str.toString (J5V.Compile.toLowerCamel ((snakeName declared).toList.map Char.toNat))

example : snakeName "htmlURLs" = "html_ur_ls" ∧ lowerCamelOfProtoName "htmlURLs" = "htmlUrLs" ∧
    snakeName "labelsByID" = "labels_by_id" ∧ lowerCamelOfProtoName "labelsByID" = "labelsById" ∧
    snakeName "x2y" = "x_2_y" ∧ lowerCamelOfProtoName "x2y" = "x2Y" ∧
    snakeName "URL" = "url" ∧ lowerCamelOfProtoName "URL" = "url" ∧
    lowerCamelOfProtoName "tagNames" = "tagNames" := by
  decide

/-! ## objects / oneofs as a whole: names, order, proto paths, descriptions, entity and any-membership

`RootDecl`, `writeRoot`, `readRoot`, `WFRoot` live in `J5V/Rules/Root.lean` (the driver runs them). -/

theorem C04_properties_roundtrip (ps : List Property) (h : ps.all WFField = true) :
    ∃ as, writeAll ps = .ok as ∧ readAll as = .ok (ps.map normField) := by
  induction ps with
  | nil => exact ⟨[], rfl, rfl⟩
  | cons p rest ih =>
    simp only [List.all_cons, Bool.and_eq_true] at h
    obtain ⟨as, hw, hr⟩ := ih h.2
    obtain ⟨a, q, hwa, hra⟩ := C04_reader_total p h.1
    have hq : q = normField p := by
      have := C04_field_roundtrip_partial p h.1
      simp only [roundtrip, hwa, hra, Outcome.ok.injEq] at this
      exact this
    subst hq
    exact ⟨a :: as, by simp only [writeAll, hwa, hw], by simp only [readAll, hra, hr, List.map_cons]⟩

/-- **C04, root level.** For every object or oneof declaration whose properties are covered:
the reflected root has the same kind, name and description, the same entity annotation and
any-membership, and the same properties in the same order with the same proto field numbers, each
in normal form. `env` gives the `(j5.ext.v1.psm)` annotation of referenced object types. -/
theorem C04_root_roundtrip (env : RefPsm) (r : RootDecl) (h : WFRoot env r = true) :
    rootRoundtrip env r = .ok { r with properties := r.properties.map normField } := by
  obtain ⟨kind, name, desc, ent, anym, props⟩ := r
  simp only [WFRoot, Bool.and_eq_true] at h
  obtain ⟨hp, hk⟩ := h
  obtain ⟨as, hw, hr⟩ := C04_properties_roundtrip props hp
  cases kind with
  | oneof =>
    simp only [Bool.and_eq_true, Option.isNone_iff_eq_none, List.isEmpty_iff] at hk
    obtain ⟨he, ha⟩ := hk
    subst he; subst ha
    simp [rootRoundtrip, writeRoot, hw, readRoot, hr]
  | object =>
    cases ent with
    | some e =>
      simp [rootRoundtrip, writeRoot, hw, readRoot, hr, findPsm]
    | none =>
      have hk' : keysLookup env props = none := by simpa using hk
      simp [rootRoundtrip, writeRoot, hw, readRoot, hr, findPsm, hk']

theorem C04_names_order_paths (env : RefPsm) (r : RootDecl) (h : WFRoot env r = true) :
    ∃ q, rootRoundtrip env r = .ok q ∧ q.kind = r.kind ∧ q.name = r.name ∧ q.description = r.description ∧
      q.entity = r.entity ∧ q.anyMember = r.anyMember ∧
      q.properties.map (fun p => (p.name, p.number, p.description)) =
        r.properties.map (fun p => (p.name, p.number, p.description)) := by
  refine ⟨_, C04_root_roundtrip env r h, rfl, rfl, rfl, rfl, rfl, ?_⟩
  simp [List.map_map, Function.comp_def, normField]

/-- Open finding `schema-diff:root:entity:invented[keys-field]`: the reader's legacy lookup. An
object WITHOUT entity annotation that has a field `keys` of an entity-annotated object type is
reflected as if it were part of that entity. -/
theorem C04_root_entity_invented_counterexample :
    let env : RefPsm := fun ref => if ref = "foo.v1.Bar" then some { entityName := "Widget", entityPart := some 1 } else none
    let r : RootDecl := { name := "Foo", properties := [{ name := "keys", number := 2, schema := .single (.object "foo.v1.Bar" false false) }] }
    rootRoundtrip env r = .ok { r with entity := some { entity := "Widget", part := 1 } } := by
  decide

/-- non-vacuity: an entity object with any-membership, and a oneof -/
example :
    let env : RefPsm := fun _ => none
    WFRoot env { name := "Foo", description := "the foo", entity := some { entity := "Thing", part := 1 },
                 anyMember := ["alpha"],
                 properties := [{ name := "a", number := 2, required := true, schema := .single (.string none none none) },
                                { name := "m", number := 3, schema := .map (.bool none none) (some { minPairs := some 1 }) none }] } = true ∧
    WFRoot env { kind := .oneof, name := "Foo",
                 properties := [{ name := "a", number := 1, schema := .single (.object "foo.v1.Bar" false false) },
                                { name := "b", number := 2, schema := .single (.integer .i32 (some { minimum := some 3 }) none) }] } = true := by
  decide

/-! ## the normal form means the same -/

/-- N2: dropping `exclusive… = false` does not change which integers are allowed
("bounds with their inclusivity") -/
theorem C04_norm_int_meaning (r : IntRules) (v : Int) : intOk (normIntRules r) v = intOk r v := by
  obtain ⟨mn, mx, emn, emx⟩ := r
  cases mn <;> cases mx <;> (rcases emn with _ | _ | _) <;> (rcases emx with _ | _ | _) <;>
    simp [intOk, normIntRules, normExcl, optAll]

/-- **The reflected schema means what the declared one means**: for every covered non-enum
declaration, the schema read back from the compiled descriptors allows exactly the values the
source declaration allows (normalisations N1–N4, N6 are semantic no-ops; enum names are compared
by number, see `C12_equiv`). -/
theorem C04_reflected_same_meaning (M : Matcher) (hM : ∀ x, M.run id62Pattern x = id62Shape x)
    (optPres : Bool) (p q : Property) (h : WFField p = true) (hne : p.schema.item.isEnum = false)
    (hq : roundtrip p = .ok q) (v : FieldVal) :
    j5Accepts M optPres q v = j5Accepts M optPres p v := by
  rw [field_roundtrip p h] at hq
  cases hq
  exact j5Accepts_norm M hM optPres p hne v

/-- normalisation is idempotent on integer rules -/
theorem C04_norm_int_idem (r : IntRules) : normIntRules (normIntRules r) = normIntRules r := by
  obtain ⟨mn, mx, emn, emx⟩ := r
  (rcases emn with _ | _ | _) <;> (rcases emx with _ | _ | _) <;> rfl

/-! ## recorded open findings: the full statement, its refutation, and what `WFField` excludes -/

/-- declarations that are admissible in the sense of the property (no exclusion of the recorded
defect classes): rule values admissible, not both required and optional -/
def Admissible (p : Property) : Bool :=
  schemaWF p.schema.item && !(p.explicitlyOptional && p.effRequired)

/-- the full-strength statement -/
def C04_full : Prop := ∀ p : Property, Admissible p = true → roundtrip p = .ok (normField p)

/-- `schema-diff:str:sfmt:dropped`: `StringField.format` is ignored by the writer -/
theorem C04_string_format_counterexample :
    roundtrip { name := "s", number := 2, schema := .single (.string (some "email") none none) }
      = .ok { name := "s", number := 2, schema := .single (.string none none none) } := by
  decide

theorem C04_full_counterexample : ¬ C04_full := by
  intro h
  have := h { name := "s", number := 2, schema := .single (.string (some "email") none none) } (by decide)
  rw [C04_string_format_counterexample] at this
  exact absurd this (by decide)

/-- `schema-diff:array:key:kind:key->str`: the array annotation replaces the item's key annotation -/
theorem C04_array_key_counterexample :
    roundtrip { name := "k", number := 2, schema := .array (.key none none none) none none }
      = .ok { name := "k", number := 2, schema := .array (.string none none none) none none } := by
  decide

/-- `schema-diff:array:str:kind:str->key[id62-pattern]` (the non-array case is fixed by b1eebc1:
the reader keeps a field marked as J5 string a string): array items lose the mark -/
theorem C04_string_id62_pattern_counterexample :
    roundtrip { name := "s", number := 2,
                schema := .array (.string none (some { pattern := some id62Pattern }) none) none none }
      = .ok { name := "s", number := 2, schema := .array (.key (some .id62) none none) (some {}) none } := by
  decide

/-- `reader-error:array:key[kf=cus,id62-pattern,lr]` (non-array case fixed by b1eebc1) -/
theorem C04_custom_id62_key_lr_counterexample :
    (roundtrip { name := "k", number := 2,
                 schema := .array (.key (some (.custom id62Pattern)) none (some { text := "f1/df/s0/ds0/q0/qi-" })) none none }).isErr = true := by
  decide

/-- fixed findings (b1eebc1), now inside `WFField`: a string whose pattern is the id62 pattern,
also with list rules, and a custom key with that pattern and list rules, read back as declared -/
example :
    let s : Property := {
      name := "s", number := 2,
      schema := .single (.string none (some { pattern := some id62Pattern }) (some { text := "f0/df/s0/ds0/q1/qi-" })) }
    let k : Property := {
      name := "k", number := 2,
      schema := .single (.key (some (.custom id62Pattern)) none (some { text := "f1/df/s0/ds0/q0/qi-" })) }
    WFField s = true ∧ WFField k = true ∧ normField k = k := by
  decide

/-- `schema-diff:map:key:kind:key->str[kf=]` and `schema-diff:map:value-list-rules:dropped`: the
annotations of a map's values sit on the entry's value field, which the reader never consults -/
theorem C04_map_value_annotations_counterexample :
    roundtrip { name := "m", number := 2, schema := .map (.key none none none) none none }
      = .ok { name := "m", number := 2, schema := .map (.string none none none) none none } ∧
    roundtrip { name := "m", number := 2,
                schema := .map (.bool none (some { text := "f1/df/s0/ds0/q0/qi-" })) none none }
      = .ok { name := "m", number := 2, schema := .map (.bool none none) none none } := by
  constructor <;> decide

/-- `schema-diff:array:any:od:1->0` / `…:types:dropped` (and `map:`): `onlyDefined` / `types` of `any`
items / values travel in the item's `(j5.ext.v1.field).any`, which the array annotation replaces and
which for maps sits on the entry's value field. Real code (probe, 4dfe9b2): `array:any {
items.any.onlyDefined = true  items.any.types = ["foo.v1.Bar"] }` reflects with `od=0 types=~`. -/
theorem C04_container_any_counterexample :
    roundtrip { name := "a", number := 2, schema := .array (.any true ["foo.v1.Bar"] none) none none }
      = .ok { name := "a", number := 2, schema := .array (.any false [] none) none none } ∧
    roundtrip { name := "a", number := 2, schema := .map (.any true [] none) none none }
      = .ok { name := "a", number := 2, schema := .map (.any false [] none) none none } := by
  constructor <;> decide

/-- `schema-diff:array:obj:flat:1->0` (and `map:`): `items.object.flatten = true` is written in the
item's `(j5.ext.v1.field).object`, lost like the other item annotations. Real code: reflects `flat=0`. -/
theorem C04_container_flatten_counterexample :
    roundtrip { name := "o", number := 2, schema := .array (.object "Bar" true false) none none }
      = .ok { name := "o", number := 2, schema := .array (.object "Bar" false false) none none } ∧
    roundtrip { name := "o", number := 2, schema := .map (.object "Bar" true false) none none }
      = .ok { name := "o", number := 2, schema := .map (.object "Bar" false false) none none } := by
  constructor <;> decide

/-- `schema-diff:array:<kind>:opt:1->0` (and `map:`): `field x ? array:string` / `? map:string`
compile (no error), the descriptor of a repeated / map field cannot carry `optional`, and the schema
read back is not explicitly optional. Real code: reflects `opt=0`, in memory and through the text. -/
theorem C04_optional_container_counterexample :
    roundtrip { name := "s", number := 2, explicitlyOptional := true, schema := .array (.string none none none) none none }
      = .ok { name := "s", number := 2, schema := .array (.string none none none) none none } ∧
    roundtrip { name := "s", number := 2, explicitlyOptional := true, schema := .map (.string none none none) none none }
      = .ok { name := "s", number := 2, schema := .map (.string none none none) none none } ∧
    Admissible { name := "s", number := 2, explicitlyOptional := true, schema := .array (.string none none none) none none } = true ∧
    normField { name := "s", number := 2, explicitlyOptional := true, schema := .array (.string none none none) none none }
      ≠ { name := "s", number := 2, schema := .array (.string none none none) none none } := by
  refine ⟨by decide, by decide, by decide, by decide⟩

/-! ## non-vacuity -/

/-- maps (writer fix d9448b1, reader fix ff3022c): required, pair counts, singleForm, value rules -/
example : WFField {
    name := "m", number := 5, required := true, description := "a map",
    schema := .map (.string none (some { minLength := some 2, pattern := some "^[a-z]+$" }) none)
                (some { minPairs := some 1, maxPairs := some 3 }) (some "thing") } = true ∧
  WFField {
    name := "m", number := 5,
    schema := .map (.enum { name := "En", defaultPrefix := "EN_", options := ["A", "B"] } (some { inn := ["A"] }) none) none none } = true := by
  decide


example : WFField {
    name := "i", number := 2, required := true, description := "count",
    schema := .single (.integer .u32 (some { minimum := some 1, maximum := some 10, exclusiveMaximum := some false }) (some { text := "f1/df/s1/ds0/q0/qi-" })) } = true := by
  decide

example : WFField {
    name := "k", number := 3,
    schema := .single (.key (some (.custom "^x$")) (some { typ := .foreign "foo.v1.thing", tenantKey := some "t" }) (some { text := "f1/df/s0/ds0/q0/qi-" })) } = true := by
  decide

example : WFField {
    name := "e", number := 4,
    schema := .array (.enum { name := "En", defaultPrefix := "EN_", options := ["A", "B", "C"] }
                (some { inn := ["A", "EN_B"], notIn := ["C"] }) none) (some { minItems := some 1, uniqueItems := some true }) none } = true := by
  decide

/-- list rules of an enum field with default filters naming options (with and without prefix) -/
example : WFField {
    name := "e", number := 4,
    schema := .single (.enum { name := "En", defaultPrefix := "EN_", options := ["A", "B", "C"] } none
                (some { text := "f1/df41+454e5f42/s0/ds0/q0/qi-", defaultFilters := ["A", "EN_B"] })) } = true := by
  decide

/-- ... and the inadmissible neighbour: a default filter that is no option of the enum does not
compile (b6c593a), so there is nothing to read back -/
example : (roundtrip {
    name := "e", number := 4,
    schema := .single (.enum { name := "En", defaultPrefix := "EN_", options := ["A", "B", "C"] } none
                (some { text := "f1/df61/s0/ds0/q0/qi-", defaultFilters := ["a"] })) }).isErr = true := by
  decide

/-- **Enum declarations.** The canonical declaration the reader returns for ANY declared enum:
the effective prefix (declared, or the default), and as options `UNSPECIFIED` = 0 followed by the
declared options in order, numbered from 1, as short names — whether they were written with or
without the prefix, and whether or not `UNSPECIFIED` was declared explicitly first; the enum's
description; and one description per option: the declared one, where the zero option has one only
if it was declared explicitly. -/
theorem C04_enum_decl_normal_form (d : EnumDecl) :
    normDecl d = { name := d.name, declPrefix := some d.pfx, defaultPrefix := d.pfx,
                   options := "UNSPECIFIED" :: d.rest.map (normEnumName d),
                   description := d.description,
                   descs := if d.isExplicit then d.optDescs else "" :: d.optDescs } := by
  have hnum : ∀ (k : Nat) (l : List String),
      (numberFrom d.pfx k l).map (fun v => trimPrefix d.pfx v.1) = l.map (normEnumName d) := by
    intro k l
    induction l generalizing k with
    | nil => rfl
    | cons o r ih => simp [numberFrom, normEnumName, ih]
  simp only [normDecl, values_general d, List.map_cons, trimPrefix_append, hnum, EnumDecl.valueDescs]

/-- **Option descriptions survive the trip through the comments.** The writer files each option's
description as a leading comment under the value's *number* (`comments`), the reader looks comments
up by the value's *index* in the descriptor (`commentAt … i`): for every declaration — implicit
zero, explicit zero with or without description, descriptions on some or all options — every
compiled value gets back exactly the description declared for it. -/
theorem C04_enum_option_descriptions (d : EnumDecl) :
    (List.range d.values.length).map (commentAt d.comments) = d.valueDescs ∧
    d.valueDescs.length = d.values.length := by
  refine ⟨descs_read d, ?_⟩
  have hl := rest_length d
  have ho := optDescs_length d
  rw [values_general d]
  simp only [List.length_cons, numberFrom_length, EnumDecl.valueDescs]
  cases he : d.isExplicit <;> simp [he] at hl ⊢ <;> omega

/-- the witness of seeded change C04-m6: explicit UNSPECIFIED with a description. Filing the
comment under the number (0) is what makes it come back on the zero option. -/
example :
    let d : EnumDecl := { name := "En", defaultPrefix := "EN_", options := ["UNSPECIFIED", "A", "B"],
                          description := "the enum", descs := ["zero", "", "bee"] }
    d.comments = [(0, "zero"), (2, "bee")] ∧ (normDecl d).descs = ["zero", "", "bee"] ∧
    (normDecl d).description = "the enum" := by
  decide

/-- … and with the implicit zero option the declared descriptions shift by one -/
example :
    let d : EnumDecl := { name := "En", defaultPrefix := "EN_", options := ["A", "B"], descs := ["ay", "bee"] }
    d.comments = [(1, "ay"), (2, "bee")] ∧ (normDecl d).descs = ["", "ay", "bee"] := by
  decide

/-- enum declarations of every spelling are inside `WFField`: declared prefix, an option written
with the prefix, explicit leading UNSPECIFIED; rule names and default filters in both spellings -/
example : WFField {
    name := "e", number := 4,
    schema := .single (.enum { name := "En", declPrefix := some "XX_", defaultPrefix := "EN_",
                               options := ["XX_UNSPECIFIED", "A", "XX_B", "C"] }
                (some { inn := ["A", "XX_B"], notIn := ["UNSPECIFIED"] })
                (some { text := "f1/df43/s0/ds0/q0/qi-", defaultFilters := ["XX_C"] })) } = true := by
  decide

example : normDecl { name := "En", declPrefix := some "XX_", defaultPrefix := "EN_",
                     options := ["XX_UNSPECIFIED", "A", "XX_B", "C"] }
    = { name := "En", declPrefix := some "XX_", defaultPrefix := "XX_", options := ["UNSPECIFIED", "A", "B", "C"],
        descs := ["", "", "", ""] } := by
  decide

/-- the normal form is not the identity: e.g. `exclusiveMaximum = false` disappears -/
example : normField {
    name := "i", number := 2,
    schema := .single (.integer .i32 (some { maximum := some 10, exclusiveMaximum := some false }) none) }
    = { name := "i", number := 2, schema := .single (.integer .i32 (some { maximum := some 10 }) none) } := by
  decide

/-! ## Source-fact obligations (regenerated by `extract/rules.go` on every check)

`J5V/Generated/RulesFacts.lean` lists, per branch of the writer (`buildProperty` / `buildField`,
internal/j5s/j5convert/fields.go) and of the reader (lib/j5schema/schema_from_proto.go), what is
read and every copy `(target, source, text, guards)`. The hand-written side — which option field
carries which schema field and where the reader picks it up again — is `J5V/Rules/SrcFacts.lean`.
A new / renamed / dropped field, a changed guard or an unrecognised construct produces a text the
tables do not contain, and the obligation fails. -/
section Src
open J5V.Rules.Src
set_option maxRecDepth 100000

/-- every member of the `schema.Field.type` oneof has a branch in the writer (`buildField`, or
`buildProperty` for array / map) and a producer in the reader; both writer switches keep their
error `default` -/
theorem C04_src_branches :
    everyMemberHasWriterBranch = true ∧ everyMemberHasReaderProducer = true ∧ writerDefaultsPresent = true := by
  decide +kernel

/-- every field of every j5 field message (and of its `Rules` message) is read by the writer's
branch for that kind, except the explicit list `schemaExceptions` -/
theorem C04_src_schema_fields_read : everySchemaFieldIsReadOrListed = true := by decide +kernel

/-- … and that list is exact: each listed field exists and is not read (repairing one of them has
to shorten the list). Its open-finding part is `StringField.format` (`schema-diff:str:sfmt:dropped`
and its array / map variants); the other entries are outside the property, with the reason given. -/
theorem C04_src_exceptions_exact :
    exceptionsAreExact = true ∧ openSchemaExceptions = [("StringField", "Format")] := by decide +kernel

/-- every option field the writer fills from the declared schema is a slot of the table (a new
copy needs a reader slot), and no table row is stale -/
theorem C04_src_writer_copies_have_slots : everyWriterCopyHasSlot = true ∧ everySlotIsWritten = true := by
  decide +kernel

/-- every slot is read back by the reader from that very option field into the paired schema
field (for enum in / notIn: under the guard on that option field); every field of a typed `Ext`
message copied by `setJ5Ext` is read back from `(j5.ext.v1.field).<member>` -/
theorem C04_src_slots_read_back : everySlotIsReadBack = true ∧ everyExtFieldIsReadBack = true := by decide +kernel

/-- the two container branches — and no other branch — set a member of `(j5.ext.v1.field)` around
an item built by `buildField`: `array` replaces the item's annotation on the same field (open
findings `…:array:…`), `map` annotates the map field while the item's annotations stay on the
entry's value field, which no reader consults (open findings `…:map:…`). A third wrapper, or a
repair that moves the item annotation elsewhere, changes this list. -/
theorem C04_src_container_annotations :
    containerExtCalls = [("buildProperty/Field_Map", "setJ5Ext(\"map\")"),
                         ("buildProperty/Field_Array", "setJ5Ext(\"array\")")] := by decide +kernel

/-- the reader inverts the writer's inclusivity table exactly as `readIntRules` does: per integer
format and per member of `less_than` / `greater_than`, the bound is read from that member, and the
exclusive flag is set (to true) in the `Lt` / `Gt` cases only -/
theorem C04_src_reader_inclusivity : readerInclusivityMatchesModel = true := by decide +kernel

/-- list rules: the member of `(j5.list.v1.field)` a key's list rules are written to, per key
format, is the model's `keyListExt` (unique_string for no / informal / custom format, id62, uuid);
float list rules go to `double` for FLOAT64 and to `float` otherwise; integer list rules to the
member of their format -/
theorem C04_src_list_slots : listSlotFacts = true := by decide +kernel

/-- roots: an object root carries exactly entity name, entity part and any-membership into its
message options and each is read back from that very option field; the `object` / `oneof` mark of
`(j5.ext.v1.message).type` is written by the two visitors and decides `isOneofWrapper` first -/
theorem C04_src_root_annotations : rootFacts = true := by decide +kernel

/-- the writer's enum declaration (`visitEnumNode`, `enumBuilder.addValue`): default prefix, implicit /
explicit UNSPECIFIED = 0 and numbering from 1, prefixing of option names, and the source-location
paths of descriptions — an option's under its NUMBER (`EnumDecl.comments`, `C04_enum_option_descriptions`),
a property's under its index -/
theorem C04_src_enum_writer : enumWriterFacts = true := by decide +kernel

/-- the reader's legacy entity lookup through a field called `keys` is present, and is the only
re-assignment of the PSM options: the open finding `schema-diff:root:entity:invented[keys-field]`
(`C04_root_entity_invented_counterexample`); repairing it changes this fact -/
theorem C04_src_legacy_keys_lookup : legacyKeysLookupFacts = true := by decide +kernel

/-- `Required` / `ExplicitlyOptional` are read as the model's `readField` reads them (array and map
properties: `(buf.validate.field).required` only), and every property builder names the property
by `json_name` (`C04_reader_uses_json_name`) -/
theorem C04_src_required_and_names : readerRequiredFacts = true ∧ readerNameFacts = true := by decide +kernel

end Src

end J5V.Props.C04
