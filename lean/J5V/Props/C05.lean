import J5V.Print.TextStringProofs
import J5V.Print.RefNameProofs
import J5V.Print.OrderProofs
import J5V.Print.OptionTextProofs
import J5V.Print.LayoutProofs
import J5V.Print.Grammar
import J5V.Print.ScalarProofs
import J5V.Print.ReparseMain
import J5V.Print.Cover
import J5V.Print.CoverLead
import J5V.Print.ReparseLinks
import J5V.Generated.PrintFacts
/-!
# C05 — generated .proto text re-parses to the descriptor it was printed from

Only the property theorems (and their non-vacuity examples) live here. They are about the four
kernels of `/repo/internal/j5s/protoprint` modelled in `J5V.Print.*` and about reader-side
specifications written from the protobuf language definition (string literals, relative-name
resolution, message-literal tokens). The grammar-level parser of bufbuild/protocompile is third
party and is **not** re-implemented: the whole-file statement `C05_reparse_partial` relates it to
the kernels by an explicit hypothesis. The whole-file equivalence on real files is decided by the
`print.reparse` oracle on the real code (see `checks/C05.py`), not by a theorem.
-/
namespace J5V.Props.C05
open J5V.Print

/-! ## 1. string literals -/

/-- Every byte string, written by `prototextString`, is read back unchanged by the string-literal
reader — for all byte strings, including ill-formed UTF-8, control characters, quotes, NUL. -/
theorem C05_string_inv (s : List Nat) (hb : TextString.IsBytes s) :
    TextString.unescape (TextString.textString s) = some s := by
  unfold TextString.unescape TextString.textString
  exact TextString.unesc_escBody s.length s rfl hb

/-- The encoder is injective: two different values never print the same literal. -/
theorem C05_string_injective (s₁ s₂ : List Nat) (h₁ : TextString.IsBytes s₁) (h₂ : TextString.IsBytes s₂)
    (h : TextString.textString s₁ = TextString.textString s₂) : s₁ = s₂ := by
  have e₁ := C05_string_inv s₁ h₁
  have e₂ := C05_string_inv s₂ h₂
  rw [h, e₂] at e₁
  exact (Option.some.inj e₁).symm

example : TextString.IsBytes [0, 34, 92, 10, 0xC3, 0xA9, 0xFF, 0xED, 0xA0, 0x80, 0xF0, 0x9F, 0x98, 0x80] := by decide
/-! ## 2. relative type names -/

/-- **Inside one package the statement holds at full strength**: whatever else the file declares
(nested or sibling types, fields, methods with the same name), the printed name — shortened, or
fully qualified when an enclosing scope would capture it — resolves to the target. -/
theorem C05_refname_same_package (t : RefName.Tab) (only : Bool) (pkg ctx tgt : RefName.Path)
    (hwf : RefName.SymtabWF t only pkg tgt) :
    RefName.resolveName t pkg ctx only (RefName.refName t pkg ctx pkg tgt) = some (pkg ++ tgt) := by
  have hne := hwf.1
  obtain ⟨kk, hk, hkt⟩ := hwf.2.1
  unfold RefName.refName
  simp only [ne_eq, not_true_eq_false, if_false]
  have hdrop := RefName.stripCommon_eq_drop tgt ctx
  have hlt := RefName.commonLen_lt_tgt tgt ctx hne
  have hle := RefName.commonLen_le_ctx tgt ctx
  cases hsc : RefName.stripCommon tgt ctx with
  | nil =>
    rw [hsc] at hdrop
    have := congrArg List.length hdrop
    simp at this; omega
  | cons first rest =>
    simp only []
    have hk' : tgt.length - (first :: rest).length = RefName.commonLen tgt ctx := by
      have := congrArg List.length hdrop
      rw [hsc] at this
      simp only [List.length_drop] at this
      omega
    rw [hk']
    split
    · -- captured by an enclosing scope: fully qualified
      unfold RefName.resolveName
      simp only [if_true, hk]
      cases only with
      | true => simp only [if_true] at hkt ⊢; simp [hkt]
      | false => simp only [Bool.false_eq_true, if_false] at hkt ⊢; simp [hkt]
    · rename_i hany
      unfold RefName.resolveName
      simp only [Bool.false_eq_true, if_false]
      obtain ⟨outer, hsplit⟩ := RefName.scopes_split_same pkg ctx (RefName.commonLen tgt ctx) hle
      apply RefName.resolve_of_split t only pkg ctx pkg tgt _ first rest _ outer hwf hsplit
      · intro pre hpre
        have hd : RefName.declares t pre first = false := by
          simp only [List.any_eq_true, not_exists, not_and, Bool.not_eq_true] at hany
          exact hany pre hpre
        unfold RefName.declares at hd
        unfold RefName.captures
        cases hf : t.find (pre ++ [first]) with
        | none => rfl
        | some k => simp [hf] at hd
      · rw [← RefName.take_commonLen tgt ctx, List.append_assoc, ← hsc, hdrop, List.take_append_drop]

/-- **Full strength, every reference** (field types, map value types, method request / response
types; the target in the same or in another package): whenever the target is declared, the printed
name resolves to it, whatever else the file and its imports declare. Across packages the printer
writes the package-qualified name and adds the leading dot exactly when a scope searched before the
root — an enclosing message / the service, the own package or one of its parents — declares the
first component (the repaired `contextRefName`; the former finding `refname-shadowed:cross-package`). -/
theorem C05_refname_resolves (t : RefName.Tab) (only : Bool) (ctxPkg ctx tgtPkg tgt : RefName.Path)
    (hwf : RefName.SymtabWF t only tgtPkg tgt) :
    RefName.resolveName t ctxPkg ctx only (RefName.refName t ctxPkg ctx tgtPkg tgt) = some (tgtPkg ++ tgt) := by
  by_cases hp : ctxPkg = tgtPkg
  · subst hp
    exact C05_refname_same_package t only ctxPkg ctx tgt hwf
  · unfold RefName.refName
    simp only [ne_eq, hp, not_false_eq_true, if_true]
    cases hname : tgtPkg ++ tgt with
    | nil =>
      have := congrArg List.length hname
      have hl : 0 < tgt.length := List.length_pos_iff.mpr hwf.1
      simp only [List.length_append, List.length_nil] at this; omega
    | cons first rest =>
      simp only []
      split
      · rw [← hname]; exact RefName.resolveName_abs t only ctxPkg ctx tgtPkg tgt hwf
      · rename_i hany
        unfold RefName.resolveName
        simp only [Bool.false_eq_true, if_false]
        rw [← hname] 
        have := RefName.resolve_cross t only ctxPkg ctx tgtPkg tgt first rest hwf hname (by
          intro pre hpre
          simp only [List.any_eq_true, not_exists, not_and, Bool.not_eq_true] at hany
          exact hany pre hpre)
        rw [hname]; rw [hname] at this; exact this

/-- the witness of the former finding: file of package `a.b` with `message M { b.X f = 1; }`, `X`
declared in package `b`. `b.X` would be looked up as `a.b.X`; the printer now writes `.b.X`. -/
def shadowTab : RefName.Tab :=
  ⟨[⟨["a", "b", "M"], .msg⟩, ⟨["b", "X"], .msg⟩], [["a", "b"], ["b"]]⟩

example : RefName.refName shadowTab ["a", "b"] ["M"] ["b"] ["X"] = ⟨true, ["b", "X"]⟩ ∧
    RefName.resolveName shadowTab ["a", "b"] ["M"] true ⟨true, ["b", "X"]⟩ = some ["b", "X"] ∧
    RefName.resolveName shadowTab ["a", "b"] ["M"] true ⟨false, ["b", "X"]⟩ = none := by decide

example : RefName.SymtabWF shadowTab true ["b"] ["X"] := by
  refine ⟨by simp, ⟨.msg, by decide, by decide⟩, ?_, ?_⟩
  · intro j h1 h2; simp at h2; omega
  · intro i h1 h2
    have : i = 1 := by simp at h2; omega
    subst this; decide

/-! non-vacuity: a three-level file where the hypotheses hold and the name is really shortened -/

def okTab : RefName.Tab :=
  ⟨[⟨["p", "A"], .msg⟩, ⟨["p", "A", "B"], .msg⟩, ⟨["p", "A", "B", "C"], .enum⟩, ⟨["p", "A", "D"], .msg⟩,
    ⟨["q", "r", "X"], .msg⟩], [["p"], ["q", "r"]]⟩

example : RefName.refName okTab ["p"] ["A", "D"] ["p"] ["A", "B", "C"] = ⟨false, ["B", "C"]⟩ := by decide
theorem okTab_wf : RefName.SymtabWF okTab true ["p"] ["A", "B", "C"] := by
  refine ⟨by simp, ⟨.enum, by decide, by decide⟩, ?_, ?_⟩
  · intro j h1 h2
    have : j = 1 ∨ j = 2 := by simp at h2; omega
    rcases this with rfl | rfl <;> decide
  · intro i h1 h2
    have : i = 1 := by simp at h2; omega
    subst this; decide
/-- cross-package reference, printed package-qualified -/
example :
    RefName.refName okTab ["p"] ["A", "D"] ["q", "r"] ["X"] = ⟨false, ["q", "r", "X"]⟩ := by decide
/-- self reference and reference to an ancestor keep the type's own name (fix b1156d6) -/
example : RefName.refName okTab ["p"] ["A", "B"] ["p"] ["A", "B"] = ⟨false, ["B"]⟩ ∧
    RefName.refName okTab ["p"] ["A", "B"] ["p"] ["A"] = ⟨false, ["A"]⟩ := by decide

/-- a nested declaration with the name of a sibling: the printer falls back to the leading-dot name
(`message Gen { message Gen {}  .gen.v1.Gen n1 = 1; }`, the witness of the former finding) -/
def nestedTab : RefName.Tab :=
  ⟨[⟨["gen", "v1", "Gen"], .msg⟩, ⟨["gen", "v1", "Gen", "Gen"], .msg⟩], [["gen", "v1"]]⟩
example : RefName.refName nestedTab ["gen", "v1"] ["Gen"] ["gen", "v1"] ["Gen"] = ⟨true, ["gen", "v1", "Gen"]⟩ ∧
    RefName.resolveName nestedTab ["gen", "v1"] ["Gen"] true ⟨true, ["gen", "v1", "Gen"]⟩ = some ["gen", "v1", "Gen"] ∧
    RefName.resolve nestedTab ["gen", "v1"] ["Gen"] true ["Gen"] = some ["gen", "v1", "Gen", "Gen"] := by decide

/-- The printed name is never empty (the defect fixed by b1156d6 cannot come back unnoticed). -/
theorem C05_refname_nonempty (ctxPkg ctx tgtPkg tgt : RefName.Path) (h : tgt ≠ []) :
    RefName.shortName ctxPkg ctx tgtPkg tgt ≠ [] :=
  (RefName.home_append_shortName ctxPkg ctx tgtPkg tgt h).2

/-! ## 3. printing order -/

/-- `sourceElements.Less` is irreflexive and asymmetric for all elements … -/
theorem C05_order_irrefl (a : Order.Elem) : Order.less a a = false := Order.less_irrefl a

theorem C05_order_asymm (a b : Order.Elem) (h : Order.less a b = true) : Order.less b a = false :=
  Order.less_asymm a b h

/-- … but it is **not** transitive when elements with and without a source line are mixed
(`sort.Sort` then has no specified result). -/
theorem C05_order_not_transitive :
    ∃ a b c : Order.Elem, Order.less a b = true ∧ Order.less b c = true ∧ Order.less a c = false :=
  ⟨⟨0, 5, 0⟩, ⟨1, 0, 0⟩, ⟨2, 3, 0⟩, by decide⟩

/-- When all elements have a source line, or none has, `Less` is a strict weak order. -/
theorem C05_order_strict_weak_partial (a b c : Order.Elem)
    (hu : (a.startLine ≠ 0 ∧ b.startLine ≠ 0 ∧ c.startLine ≠ 0) ∨
          (a.startLine = 0 ∧ b.startLine = 0 ∧ c.startLine = 0)) :
    (Order.less a b = true → Order.less b c = true → Order.less a c = true) ∧
    ((Order.less a b = false ∧ Order.less b a = false) → (Order.less b c = false ∧ Order.less c b = false) →
      (Order.less a c = false ∧ Order.less c a = false)) :=
  ⟨Order.less_trans a b c hu, Order.incomp_trans a b c hu⟩

theorem uniform_cases (es : List Order.Elem) (hu : Order.uniformLines es = true) (a b c : Order.Elem)
    (ha : a ∈ es) (hb : b ∈ es) (hc : c ∈ es) :
    (a.startLine ≠ 0 ∧ b.startLine ≠ 0 ∧ c.startLine ≠ 0) ∨
    (a.startLine = 0 ∧ b.startLine = 0 ∧ c.startLine = 0) := by
  unfold Order.uniformLines at hu
  simp only [Bool.or_eq_true, List.all_eq_true, decide_eq_true_eq] at hu
  rcases hu with h | h
  · exact Or.inl ⟨h a ha, h b hb, h c hc⟩
  · exact Or.inr ⟨h a ha, h b hb, h c hc⟩

/-- The printing order is a function of the descriptor: when the lines are uniform and no two
elements tie, there is exactly one order in which any correct sorting algorithm can leave the
elements (so `sort.Sort`, unstable as it is, has no freedom), and the reference sort finds it. -/
theorem C05_order_total (es out₁ out₂ : List Order.Elem)
    (h₁ : out₁.Perm es) (h₂ : out₂.Perm es)
    (s₁ : out₁.Pairwise (fun a b => Order.less a b = true))
    (s₂ : out₂.Pairwise (fun a b => Order.less a b = true)) : out₁ = out₂ := by
  apply List.Perm.eq_of_pairwise (le := fun a b => Order.less a b = true) _ s₁ s₂ (h₁.trans h₂.symm)
  intro a b _ _ hab hba
  have := Order.less_asymm a b hab
  rw [this] at hba
  exact absurd hba (by simp)

theorem C05_order_sorted_exists (es : List Order.Elem)
    (hu : Order.uniformLines es = true) (hn : Order.noTies Order.less es = true) :
    (Order.isort Order.less es).Perm es ∧
    (Order.isort Order.less es).Pairwise (fun a b => Order.less a b = true) := by
  refine ⟨Order.isort_perm _ es, Order.isort_sorted _ es (Order.noTies_total _ es hn) ?_⟩
  intro a b c ha hb hc
  exact Order.less_trans a b c (uniform_cases es hu a b c ha hb hc)

example : Order.uniformLines [⟨1, 4, 0⟩, ⟨0, 9, 0⟩, ⟨2, 2, 1⟩] = true ∧
    Order.noTies Order.less [⟨1, 4, 0⟩, ⟨0, 9, 0⟩, ⟨2, 2, 1⟩] = true := by decide
example : Order.isort Order.less [⟨1, 0, 0⟩, ⟨0, 0, 0⟩, ⟨2, 0, 1⟩, ⟨1, 0, 1⟩] =
    [⟨0, 0, 0⟩, ⟨1, 0, 0⟩, ⟨1, 0, 1⟩, ⟨2, 0, 1⟩] := by decide

/-- Options of a field are sorted by qualified name: bytewise `<` is a strict total order, so the
sorted order of pairwise different names is unique (and `slices.SortFunc` has no freedom). -/
theorem C05_option_sort_unique (ns out₁ out₂ : List (List Nat))
    (h₁ : out₁.Perm ns) (h₂ : out₂.Perm ns)
    (s₁ : out₁.Pairwise (fun a b => Order.nameLess a b = true))
    (s₂ : out₂.Pairwise (fun a b => Order.nameLess a b = true)) : out₁ = out₂ := by
  apply List.Perm.eq_of_pairwise (le := fun a b => Order.nameLess a b = true) _ s₁ s₂ (h₁.trans h₂.symm)
  intro a b _ _ hab hba
  have := Order.nameLess_asymm a b hab
  rw [this] at hba
  exact absurd hba (by simp)

theorem C05_option_sort_exists (ns : List (List Nat)) (hd : ns.Nodup) :
    (Order.isort Order.nameLess ns).Perm ns ∧
    (Order.isort Order.nameLess ns).Pairwise (fun a b => Order.nameLess a b = true) := by
  refine ⟨Order.isort_perm _ ns, Order.isort_sorted _ ns ?_ ?_⟩
  · exact hd.imp (fun hne => Order.nameLess_total _ _ hne)
  · intro a b c _ _ _; exact Order.nameLess_trans a b c

/-! ## 4. option values -/

/-- Hoisting single-field messages into the option name (`(ext).a.b = v`) loses nothing:
re-nesting the hoisted path yields the original value tree. -/
theorem C05_simplify_inv (maxDepth fuel : Nat) (root : OptionText.Opt) :
    OptionText.expand root.key (OptionText.simplify maxDepth fuel [] root).1
      (OptionText.simplify maxDepth fuel [] root).2 = root := by
  obtain ⟨ext, h1, h2⟩ := OptionText.simplify_expand maxDepth fuel [] root
  simp only [List.nil_append] at h1
  rw [h1]; exact h2

example : OptionText.simplify 5 9 [] (.msg "field" [.msg "string" [.scalar "min_len" "1"]]) =
    (["string", "min_len"], .scalar "min_len" "1") := by
  simp [OptionText.simplify]

/-- The token sequence the printer writes for an option value (message literal `{ k: v … }`, list
`[ v, … ]`, scalars) is read back by a parser of that grammar as the same tree — for every tree
`WalkOptionField` can produce (no list directly inside a list), of any size and depth. List
elements and the root come back without their (redundant) key: `norm`. -/
theorem C05_option_inv (v : OptionText.Opt) (hw : OptionText.wf v = true) :
    OptionText.pValue (OptionText.sz v) (OptionText.valueToks v) = some (OptionText.norm v) := by
  cases v with
  | scalar k s => rfl
  | msg k kids =>
    simp only [OptionText.wf] at hw
    simp only [OptionText.valueToks, OptionText.sz, OptionText.norm, List.cons_append, OptionText.pValue]
    rw [OptionText.pFields_msgToks kids hw [.rbrace] _ (OptionText.stops_rbrace _) (Nat.le_refl _)]
  | arr k kids =>
    simp only [OptionText.wf] at hw
    simp only [OptionText.valueToks, OptionText.sz, OptionText.norm, List.cons_append, OptionText.pValue]
    rw [OptionText.pElems_arrToks kids hw [] _ (Nat.le_refl _)]

/-- the value literal does not depend on the keys the text cannot carry -/
example : OptionText.valueToks (.arr "additional_bindings" [.msg "additional_bindings" [.scalar "post" "\"/a\""]]) =
    [.lbrack, .lbrace, .ident "post", .colon, .scalar "\"/a\"", .rbrace, .rbrack] := by
  simp [OptionText.valueToks, OptionText.arrToks, OptionText.msgToks]

example : OptionText.wf (.msg "http" [.scalar "post" "\"/a\"", .scalar "body" "\"*\"",
    .arr "additional_bindings" [.msg "additional_bindings" [.scalar "post" "\"/b\""], .msg "additional_bindings" []]]) = true := by
  simp [OptionText.wf, OptionText.wfKids, OptionText.wfElems]

/-- Integer option values of any size and sign (`strconv.FormatInt` / `FormatUint`, base 10) are read
back by the integer-literal reader (decimal / octal / hexadecimal forms of the language) as the
same number: numeric boundaries included, since there is no bound. Floats are not modelled: their
text is taken from the Go side and the real read-back is compared bit by bit by the `flt` ops. -/
theorem C05_int_inv (n : Int) : Scalar.readIntLit (Scalar.intDigits n) = some n :=
  Scalar.readIntLit_intDigits n

theorem C05_uint_inv (n : Nat) : Scalar.readNatLit (Scalar.natDigits n) = some n :=
  Scalar.readNatLit_natDigits n

/-! ## 5. the whole file, as far as the kernels carry it -/

/-- one occurrence of a type reference (field type, map value type, method request / response) -/
structure RefOcc where
  only : Bool
  ctxPkg : RefName.Path
  ctx : RefName.Path
  tgtPkg : RefName.Path
  tgt : RefName.Path

/-- The content of a file that travels through the kernels: the symbols in view, every type
reference, every string / bytes scalar (option values, file-level string options, json_name). -/
structure KFile where
  tab : RefName.Tab
  refs : List RefOcc
  strings : List (List Nat)

/-- what the printed text holds for them -/
structure KText where
  names : List (RefOcc × RefName.Name)   -- the scope an occurrence sits in, and the name written there
  lits : List (List Nat)

def printK (f : KFile) : KText :=
  ⟨f.refs.map (fun r => (r, RefName.refName f.tab r.ctxPkg r.ctx r.tgtPkg r.tgt)),
   f.strings.map TextString.textString⟩

def allSome {α} : List (Option α) → Option (List α)
  | [] => some []
  | none :: _ => none
  | some a :: rest => (allSome rest).map (a :: ·)

/-- The reader side. `read` stands for bufbuild/protocompile (parser + linker), which is third
party and not re-implemented; `spec` is the **assumption** made about it: it finds the same
occurrences in the text and reads each type name by protobuf name resolution in the scope it is
written in, and each string literal by the literal rules. (Both rules are the Lean functions
validated differentially against protocompile by the `print.ref` / `print.str` streams.) -/
structure Reader where
  read : RefName.Tab → KText → Option (List RefName.Path × List (List Nat))
  spec : ∀ tab txt, read tab txt =
    (match allSome (txt.names.map (fun (c, n) => RefName.resolveName tab c.ctxPkg c.ctx c.only n)),
           allSome (txt.lits.map TextString.unescape) with
     | some a, some b => some (a, b)
     | _, _ => none)

theorem allSome_map {α β} (f : α → Option β) (g : α → β) :
    ∀ (l : List α), (∀ a ∈ l, f a = some (g a)) → allSome (l.map f) = some (l.map g)
  | [], _ => rfl
  | a :: l, h => by
    simp only [List.map_cons]
    rw [h a (by simp)]
    simp only [allSome]
    rw [allSome_map f g l (fun b hb => h b (by simp [hb]))]
    rfl

/-- **Whole-file statement, partial.** `Reader.spec` fixes `read` completely, so "for every reader" ranges over exactly
one function (the specification itself, `specReader`): the theorem is the list lift of `C05_refname_resolves` and
`C05_string_inv` over the occurrences of a file, stated against an explicit interface. For every reader that treats kernel outputs as assumed
above: reading the printed file gives back every referenced type and every string value, provided
each referenced type is declared. Partial because (i) the reader's grammar level is
an assumption, (ii) comments, layout, element order, numeric scalars and option structure are outside this statement (order and
option trees have their own theorems above; the rest is covered by the `print.reparse` oracle). -/
theorem C05_reparse_partial (R : Reader) (f : KFile)
    (hrefs : ∀ r ∈ f.refs, RefName.SymtabWF f.tab r.only r.tgtPkg r.tgt)
    (hstr : ∀ s ∈ f.strings, TextString.IsBytes s) :
    R.read f.tab (printK f) = some (f.refs.map (fun r => r.tgtPkg ++ r.tgt), f.strings) := by
  rw [R.spec]
  unfold printK
  simp only [List.map_map]
  have h1 : allSome (f.refs.map ((fun (x : RefOcc × RefName.Name) =>
      RefName.resolveName f.tab x.1.ctxPkg x.1.ctx x.1.only x.2) ∘
      fun r => (r, RefName.refName f.tab r.ctxPkg r.ctx r.tgtPkg r.tgt))) =
      some (f.refs.map (fun r => r.tgtPkg ++ r.tgt)) := by
    apply allSome_map
    intro r hr
    exact C05_refname_resolves f.tab r.only r.ctxPkg r.ctx r.tgtPkg r.tgt (hrefs r hr)
  have h2 : allSome (f.strings.map (TextString.unescape ∘ TextString.textString)) = some (f.strings.map id) := by
    apply allSome_map
    intro s hs
    exact C05_string_inv s (hstr s hs)
  rw [h1, h2]
  simp

/-- Printing what was read reproduces the same names and literals (the kernel part of "printing
that result again reproduces the same text"; the layout part is `C05_reprint_fixed` below). -/
theorem C05_reprint_kernels (R : Reader) (f : KFile)
    (hrefs : ∀ r ∈ f.refs, RefName.SymtabWF f.tab r.only r.tgtPkg r.tgt)
    (hstr : ∀ s ∈ f.strings, TextString.IsBytes s)
    (tgts : List RefName.Path) (strs : List (List Nat))
    (hread : R.read f.tab (printK f) = some (tgts, strs)) :
    -- the re-read file has the same references (same scopes, the targets that were read) and strings
    tgts = f.refs.map (fun r => r.tgtPkg ++ r.tgt) ∧ strs = f.strings ∧
    (printK ⟨f.tab, f.refs, strs⟩).lits = (printK f).lits := by
  rw [C05_reparse_partial R f hrefs hstr] at hread
  simp only [Option.some.injEq, Prod.mk.injEq] at hread
  obtain ⟨h1, h2⟩ := hread
  subst h1 h2
  exact ⟨rfl, rfl, rfl⟩

/-- the hypotheses are satisfiable: a file with one in-package, one cross-package reference and
hard strings, and the reader defined by the specification itself -/
def specReader : Reader :=
  ⟨fun tab txt => match allSome (txt.names.map (fun (c, n) => RefName.resolveName tab c.ctxPkg c.ctx c.only n)),
      allSome (txt.lits.map TextString.unescape) with
    | some a, some b => some (a, b)
    | _, _ => none, fun _ _ => rfl⟩

theorem okTab_wf_cross : RefName.SymtabWF okTab true ["q", "r"] ["X"] := by
  refine ⟨by simp, ⟨.msg, by decide, by decide⟩, ?_, ?_⟩
  · intro j h1 h2; simp at h2; omega
  · intro i h1 h2
    have : i = 1 ∨ i = 2 := by simp at h2; omega
    rcases this with rfl | rfl <;> decide

example : ∃ f : KFile, f.refs.length = 2 ∧ f.strings = [[0, 34, 0xFF], [0xC3, 0xA9]] ∧
    (∀ r ∈ f.refs, RefName.SymtabWF f.tab r.only r.tgtPkg r.tgt) ∧
    (∀ s ∈ f.strings, TextString.IsBytes s) :=
  ⟨⟨okTab, [⟨true, ["p"], ["A", "D"], ["p"], ["A", "B", "C"]⟩, ⟨true, ["p"], ["A", "D"], ["q", "r"], ["X"]⟩],
    [[0, 34, 0xFF], [0xC3, 0xA9]]⟩, rfl, rfl, by
      intro r hr
      simp only [List.mem_cons, List.not_mem_nil, or_false] at hr
      rcases hr with rfl | rfl
      · exact okTab_wf
      · exact okTab_wf_cross, by decide⟩

/-! ## 6. the whole printer: printing the re-parsed result reproduces the same text

`Layout.printFile` is a model of all of `protoprint.PrintFile` above the kernels — element walk,
sorting, gaps, comments, option statements, field options, imports, file options — over an abstract
element tree (`Layout.FileD`: file → messages / enums / services → fields / values / methods →
options, every element with its source location and comments). It is compared with the real
printer on every file of the `print.file` stream. -/

open Layout in
/-- **Printing is a fixed point** ("printing that result again reproduces the same text"), for
every descriptor without source information (what `j5convert` builds before comments are attached;
fix 63476fb made the statement true): let `d'` be the file a reader of the printed text finds —
the elements of `d` in printed order, every element and option with the source lines of the text,
no comments (`relaidFile`). Then the printer writes for `d'` exactly the lines it wrote for `d`.

`relaidFile` asks of the locations only what holds of any faithful reading of the printed text:
start lines increase in printed order; two consecutive elements are more than a line apart only
where the printer leaves a gap anyway (after a block or a method, at a change of kind); an option
that can be written on one line was on one line; a single in-line field option was in line. That the
grammar model `Grammar.parseFile` (validated against protocompile on every `print.file` op) reads
the printed text this way is checked on concrete files below and by the stream, not yet proved for
all files. -/
theorem C05_reprint_fixed (gen : String) (d d' : FileD) (hu : d.quiet) (hr : relaidFile d.arranged d') :
    printFile gen d' = printFile gen d :=
  printFile_reprint gen d d' hu hr

/-! non-vacuity: a file with imports, a file option, a service with a method option, a message with
an option, fields (one with an in-line option, one repeated), a nested message and a nested enum -/
section example_file
open Layout OptionText

def exOpt (name : String) (v : Opt) : SOpt := ⟨name, [v], false, false, false, 0, 0, name⟩

def exFile : FileD :=
  ⟨Loc.none, "p.v1", [("a.proto", "")], [exOpt "go_package" (.scalar "go_package" "\"x/y\"")], [],
   [ .block "message" 1 Loc.none 0 "M" [exOpt "(j5.ext.v1.message).object" (.msg "object" [])]
       [ .field ⟨.field, Loc.none, 0, "", "string", "a", 1, some "a", [exOpt "(x.v1.f).min" (.scalar "min" "1")]⟩,
         .field ⟨.field, Loc.none, 1, "repeated ", "E", "b_c", 2, some "bC", []⟩,
         .block "enum" 2 Loc.none 0 "E" [] [ .field ⟨.value, Loc.none, 0, "", "", "E_UNSPECIFIED", 0, none, []⟩,
                                            .field ⟨.value, Loc.none, 1, "", "", "E_X", 1, none, []⟩ ],
         .block "message" 1 Loc.none 0 "N" [] [] ],
     .block "service" 0 Loc.none 0 "S" []
       [ .rpc Loc.none 0 "Get" "M" "M.N" [exOpt "(google.api.http)" (.msg "http" [.scalar "get" "\"/a\""])] ] ]⟩


def lo (s e : Nat) : Loc := ⟨s, e, [], "", ""⟩
def exOptL (name : String) (v : Opt) (inl : Bool) (line : Nat) : SOpt := ⟨name, [v], true, true, inl, line, 0, ""⟩

/-- the arranged file -/
def exArr : FileD :=
  ⟨Loc.none, "p.v1", [("a.proto", "")], [exOpt "go_package" (.scalar "go_package" "\"x/y\"")], [],
   [ .block "service" 0 Loc.none 0 "S" []
       [ .rpc Loc.none 0 "Get" "M" "M.N" [exOpt "(google.api.http)" (.msg "http" [.scalar "get" "\"/a\""])] ],
     .block "message" 1 Loc.none 0 "M" [exOpt "(j5.ext.v1.message).object" (.msg "object" [])]
       [ .field ⟨.field, Loc.none, 0, "", "string", "a", 1, some "a", [exOpt "(x.v1.f).min" (.scalar "min" "1")]⟩,
         .field ⟨.field, Loc.none, 1, "repeated ", "E", "b_c", 2, some "bC", []⟩,
         .block "message" 1 Loc.none 0 "N" [] [],
         .block "enum" 2 Loc.none 0 "E" [] [ .field ⟨.value, Loc.none, 0, "", "", "E_UNSPECIFIED", 0, none, []⟩,
                                            .field ⟨.value, Loc.none, 1, "", "", "E_X", 1, none, []⟩ ] ] ]⟩

example : exFile.arranged = exArr := by rfl

/-- what a reader of the printed text finds (lines as printed above) -/
def exRead : FileD :=
  ⟨Loc.none, "p.v1", [("a.proto", "")], [exOptL "go_package" (.scalar "" "\"x/y\"") false 9], [],
   [ .block "service" 0 (lo 11 15) 0 "S" []
       [ .rpc (lo 12 14) 0 "Get" "M" "M.N" [exOptL "(google.api.http)" (.msg "" [.scalar "get" "\"/a\""]) false 13] ],
     .block "message" 1 (lo 17 29) 0 "M" [exOptL "(j5.ext.v1.message).object" (.msg "" []) false 18]
       [ .field ⟨.field, lo 20 20, 0, "", "string", "a", 1, some "a", [exOptL "(x.v1.f).min" (.scalar "" "1") true 20]⟩,
         .field ⟨.field, lo 21 21, 0, "repeated ", "E", "b_c", 2, some "bC", []⟩,
         .block "message" 1 (lo 23 23) 0 "N" [] [],
         .block "enum" 2 (lo 25 28) 0 "E" [] [ .field ⟨.value, lo 26 26, 0, "", "", "E_UNSPECIFIED", 0, none, []⟩,
                                            .field ⟨.value, lo 27 27, 0, "", "", "E_X", 1, none, []⟩ ] ] ]⟩

example : exFile.quiet := by
  simp [FileD.quiet, exFile, Loc.noComments, Loc.none, quietList, Item.quiet, FieldD.quiet, exOpt]

example : relaidFile exArr exRead := by
  simp [relaidFile, exArr, exRead, relaidKids, relaid, fieldOk, optsOk, optOk, Loc.noComments, lo, exOpt, exOptL, gapCond,
    Item.loc, Item.typeOrder, Item.gapEnder, eraseKeys, eraseKids, SOpt.single, SOpt.inl, sortImports,
    Order.locLess_irrefl, Order.isort, Order.insertBy, Loc.none]

/-- the text of the example and of its reading are the same -/
example : printFile "gen" exRead = printFile "gen" exFile :=
  C05_reprint_fixed "gen" exFile exRead
    (by simp [FileD.quiet, exFile, Loc.noComments, Loc.none, quietList, Item.quiet, FieldD.quiet, exOpt])
    (by
      have h : exFile.arranged = exArr := by rfl
      rw [h]
      simp [relaidFile, exArr, exRead, relaidKids, relaid, fieldOk, optsOk, optOk, Loc.noComments, lo, exOpt, exOptL, gapCond,
        Item.loc, Item.typeOrder, Item.gapEnder, eraseKeys, eraseKids, SOpt.single, SOpt.inl, sortImports,
        Order.locLess_irrefl, Order.isort, Order.insertBy, Loc.none])

end example_file

/-! ## 7. the printed text is read back as the descriptor it was printed from (a validated grammar model)

`Grammar.parseFile` is a model of the reader: a tokeniser (identifiers, numbers, string literals,
punctuation, line comments with protocompile's attribution rules) and a recursive-descent parser
of the proto3 subset the printer emits. It is validated against bufbuild/protocompile on every op
of the `print.file` stream (same elements, source lines, attributed comments, fields, options). The
theorem below discharges the "grammar assumed" hypothesis for the descriptor shape `SimpleFile`:
package, imports (plain / public / weak), services with methods (unary and streaming), messages with
nested messages and enums, fields (no label / `repeated` / `optional`; scalar, relative,
package-qualified and fully-qualified type names; any number, negative ones included), enum values —
real oneofs, map fields — with or without source locations (lines; the printer orders the children of a
block by them and leaves a gap where the source left a line free), bracket options and custom JSON names of fields,
statement options of messages, enums, services and methods (a `/` inside a string literal is fine), **leading comments** on
messages, enums, services, oneofs, fields, enum values and methods (the `//` lines are attributed by the model of
protocompile's comment attribution to the element below them; the comment text must end with a line break and is read back
verbatim) — without detached / trailing comments, extensions, options of files / oneofs / enum values (those are covered by
the stream, not yet by the theorem). -/

open Layout Grammar Reparse in
/-- **parse (print d) = d′ with d′ ≍ d, and print d′ = print d.** For every `d` whose printed
arrangement is a `SimpleFile`: the grammar model reads the printed text as `rdFile d.arranged` — by
`relaidFileL` the same package, imports and elements (names, numbers, type names, labels, JSON
names, nesting, enum values, leading comments, in printed order) with the source lines of the text — and printing that
reading reproduces the text. Over characters: the tokeniser and the comment attribution are part of the statement. -/
theorem C05_reparse (gen : String) (d : FileD) (h : SimpleFile gen d.arranged) :
    parseFile (printText gen d) = some (rdFile d.arranged) ∧
    relaidFileL d.arranged (rdFile d.arranged) ∧
    printFile gen (rdFile d.arranged) = printFile gen d :=
  ⟨parse_print gen d.arranged h, relaid_rdFile gen d.arranged h, reprint_simple gen d.arranged h⟩

/-! non-vacuity: a file with a public import, a service with a server-streaming method, a message with
a scalar field, a repeated field of a package-qualified type, a nested empty message and a nested enum
with a negative value -/
section simple_example
open Layout OptionText Grammar Reparse

def fld (label ty name : String) (num : Int) : Item :=
  .field ⟨.field, Loc.none, 0, label, ty, name, num, some (String.ofList (defaultJSONName name.toList)), []⟩
def val (name : String) (num : Int) : Item := .field ⟨.value, Loc.none, 0, "", "", name, num, none, []⟩

/-- a simple file in printed order -/
def simpleEx : FileD :=
  ⟨Loc.none, "p.v1", [("a/b.proto", "public ")], [], [],
   [ .block "service" 0 Loc.none 0 "S" [] [ .rpc Loc.none 0 "Get" "M" "stream M.N" [] ],
     .block "message" 1 Loc.none 0 "M" []
       [ fld "" "string" "a" 1, fld "repeated " "q.E" "b_c" 2, fld "" "map<string, .p.v1.M.N>" "m" 5,
         .block "oneof" 0 Loc.none 0 "pick" [] [ fld "" "string" "x" 3, fld "" "M.N" "y" 4 ],
         .block "message" 1 Loc.none 0 "N" [] [],
         .block "enum" 2 Loc.none 0 "E" [] [val "E_UNSPECIFIED" 0, val "E_X" (-1)] ] ]⟩

theorem ident (s : String) (c : Char) (cs : List Char) (h : s.toList = c :: cs) (h1 : isLetter c = true)
    (h2 : cs.all isIdentChar = true) : IsIdent s :=
  ⟨c, cs, h, h1, by simpa [List.all_eq_true] using h2⟩

theorem kwOk_of (s : String) (h : decide (s ≠ "repeated" ∧ s ≠ "optional" ∧ s ≠ "option" ∧ s ≠ "message" ∧ s ≠ "enum" ∧ s ≠ "oneof") = true) :
    kwOk s := by unfold kwOk; exact of_decide_eq_true h

theorem simpleEx_ok : SimpleFile "gen" simpleEx :=
  Cover.simpleFileB_sound "gen" simpleEx (by decide)

/-- a file *with source locations* and without comments (what `j5convert` produces for a schema without
descriptions): the enum was declared on lines 1–3, the message on 5–12, field `b` (line 9) two lines after
field `a` (line 6): the printer keeps a gap there; the fields are listed out of source order -/
def fldAt (s e : Nat) (ix : Nat) (label ty name : String) (num : Int) : Item :=
  .field ⟨.field, ⟨s, e, [], "", ""⟩, ix, label, ty, name, num, some (String.ofList (defaultJSONName name.toList)), []⟩

def locatedEx : FileD :=
  ⟨Loc.none, "p.v1", [], [], [],
   [ .block "message" 1 ⟨5, 12, [], "", ""⟩ 0 "M" []
       [ fldAt 9 9 1 "" "int32" "b" 2, fldAt 6 6 0 "" "string" "a" 1, fldAt 10 10 2 "repeated " "M" "c" 3 ],
     .block "enum" 2 ⟨1, 3, [], "", ""⟩ 0 "E" [] [ .field ⟨.value, ⟨2, 2, [], "", ""⟩, 0, "", "", "E_UNSPECIFIED", 0, none, []⟩ ] ]⟩

theorem locatedEx_ok : SimpleFile "gen" locatedEx.arranged :=
  Cover.simpleFileB_sound "gen" locatedEx.arranged (by decide)

/-- the arrangement sorts by line: the enum of line 1 before the message of line 5 (the printed text, by `#eval`:
`enum E {` … `}` · gap · `message M {` · `string a = 1;` · gap · `int32 b = 2;` · `repeated M c = 3;` · `}`) -/
example : locatedEx.arranged.items.map (·.loc.startLine) = [1, 5] := by decide

/-- `C05_reparse` applies to the located file -/
example := C05_reparse "gen" locatedEx locatedEx_ok

/-- fields with bracket options and custom JSON names, with source lines (the shape of a j5s-compiled field):
`optional string foo_id = 1 [` / `(j5.ext.v1.field).string = {},` / `json_name = "foo_id"` / `];` and a map
field with two options -/
def exO1 : SOpt := ⟨"(j5.ext.v1.field).string", [.msg "" []], false, false, false, 0, 0, "j5.ext.v1.field"⟩
def exO2 : SOpt := ⟨"deprecated", [.scalar "" "true"], false, false, false, 0, 1, "deprecated"⟩
/-- an option with a message literal that fits one line: `(x.y).z = {min_len: 1}`. (Values that take several lines
— nested messages, lists — are inside `OptField` as well and the checker accepts them (`#eval`); the kernel cannot
*evaluate* `msgFields` (compiled by well-founded recursion), so they have no `decide` example here.) -/
def exO3 : SOpt := ⟨"(x.y).z", [.msg "" [.scalar "min_len" "1"]], false, false, false, 0, 0, "x.y"⟩
def optEx : FileD :=
  ⟨Loc.none, "p.v1", [], [], [],
   [ .block "message" 1 ⟨5, 12, [], "", ""⟩ 0 "M" []
       [ .field ⟨.field, ⟨7, 7, [], "", ""⟩, 0, "optional ", "string", "foo_id", 1, some "foo_id", [exO1]⟩,
         .field ⟨.field, ⟨9, 9, [], "", ""⟩, 1, "", "map<string, .p.M>", "m", 2, some "m", [exO1, exO2]⟩,
         .field ⟨.field, ⟨10, 10, [], "", ""⟩, 2, "", "M", "only_json", 3, some "only_json", []⟩,
         .field ⟨.field, ⟨11, 11, [], "", ""⟩, 3, "repeated ", "int32", "n", 4, some "n", [exO3]⟩ ] ]⟩

theorem optEx_ok : SimpleFile "gen" optEx.arranged :=
  Cover.simpleFileB_sound "gen" optEx.arranged (by decide +kernel)

/-- `C05_reparse` applies to it -/
example := C05_reparse "gen" optEx optEx_ok

/-- statement options: the shape of a j5s-compiled message (`option (j5.ext.v1.message).object = {};`, a gap, fields
with bracket options and `json_name`), a nested enum with an option and no values, source lines on every element -/
def exMsgOpt : SOpt := ⟨"(j5.ext.v1.message).object", [.msg "" []], false, false, false, 0, 0, "j5.ext.v1.message"⟩
def stmtEx : FileD :=
  ⟨Loc.none, "p.v1", [("j5/ext/v1/annotations.proto", "")], [], [],
   [ .block "message" 1 ⟨5, 12, [], "", ""⟩ 0 "Spec" [exMsgOpt]
       [ .field ⟨.field, ⟨7, 7, [], "", ""⟩, 0, "", "string", "foo_id", 1, some "foo_id", [exO1]⟩,
         .block "enum" 2 ⟨9, 11, [], "", ""⟩ 0 "E"
           [⟨"allow_alias", [.scalar "" "true"], false, false, false, 0, 0, "allow_alias"⟩] [] ],
     .block "message" 1 ⟨14, 16, [], "", ""⟩ 1 "OnlyOption" [exMsgOpt] [],
     .block "service" 0 ⟨30, 36, [], "", ""⟩ 0 "Topic"
       [⟨"(j5.messaging.v1.service)", [.msg "" [.scalar "topic_name" "\"a/b\""]], false, false, false, 0, 0, "j5.messaging.v1.service"⟩]
       [ .rpc ⟨32, 32, [], "", ""⟩ 0 "Post" "Spec" "google.protobuf.Empty" [],
         .rpc ⟨34, 36, [], "", ""⟩ 1 "Get" "Spec" "stream Spec"
           [⟨"(google.api.http)", [.msg "" [.scalar "get" "\"/v1/spec/{id}\""]], false, false, false, 0, 0, "google.api.http"⟩] ],
     .block "message" 1 ⟨18, 24, [], "", ""⟩ 2 "Choice" [⟨"(j5.ext.v1.message).oneof", [.msg "" []], false, false, false, 0, 0, "j5.ext.v1.message"⟩]
       [ .block "oneof" 0 ⟨20, 23, [], "", ""⟩ 0 "type" []
           [ .field ⟨.field, ⟨21, 21, [], "", ""⟩, 0, "", "Spec", "key", 1, some "key",
               [⟨"(j5.ext.v1.field).object", [.msg "" []], false, false, false, 0, 0, "j5.ext.v1.field"⟩]⟩ ] ] ]⟩

theorem stmtEx_ok : SimpleFile "gen" stmtEx.arranged :=
  Cover.simpleFileB_sound "gen" stmtEx.arranged (by decide +kernel)

/-- `C05_reparse` applies to it -/
example := C05_reparse "gen" stmtEx stmtEx_ok

/-- the example is its own arrangement (the service before the message; fields before the nested message before the enum) -/
example : simpleEx.arranged = simpleEx := by rfl

end simple_example

/-! ## 7b. printing is a fixed point — leading comments included

`C05_reprint_fixed` is about descriptors without comments. A j5s file with descriptions compiles to a descriptor
whose messages / fields / enum values / services / methods carry **leading comments** (≈ 70 % of the generated
j5s files). The layout theorem holds for them as well: `quietL` allows a leading comment on every element (still no
detached / trailing comment, no located option), `relaidFileL` asks of the reading the same leading comment on the
same element and does not ask the gap clause of an element with a leading comment (the printer writes a gap before
a leading comment whatever the lines say). `C05_reprint_leading_subsumes`: every instance of the comment-free
hypotheses is an instance of these. `C05_reprint_checked`: the same conclusion from the two *decidable* tests the
driver evaluates on every `print.file` op — on the arranged summary of the real descriptor and on what the grammar
model reads from the model's text (evidence `coverage.reprint_theorem_*`). For the shape `SimpleFile` (leading comments
included since Round 4) `C05_reparse` proves that `Grammar.parseFile` reads the text this way; for files outside that
shape (options of files / oneofs / enum values, `extend` blocks) it is validated against protocompile on every op and
evaluated per op by these tests. -/

open Layout in
theorem C05_reprint_fixed_leading (gen : String) (d d' : FileD) (hu : d.quietL) (hr : relaidFileL d.arranged d') :
    printFile gen d' = printFile gen d :=
  printFile_reprintL gen d d' hu hr

open Layout in
theorem C05_reprint_leading_subsumes (d d' : FileD) (hu : d.quiet) (hr : relaidFile d.arranged d') :
    d.quietL ∧ relaidFileL d.arranged d' :=
  ⟨hu.toL, hr.toL (FileD.arranged_quiet d hu)⟩

open Layout in
theorem C05_reprint_checked (gen : String) (d d' : FileD)
    (h1 : Cover.quietLFileB d.arranged = true) (h2 : Cover.relaidFileLB d.arranged d' = true) :
    printFile gen d' = printFile gen d :=
  printFile_relaidL gen d.arranged d' (Cover.quietLFileB_sound h1) (Cover.relaidFileLB_sound h2)

section lead_example
open Layout OptionText

def lc (s e : Nat) (c : String) : Loc := ⟨s, e, [], c, ""⟩

def leadEx : FileD :=
  ⟨Loc.none, "p.v1", [("j5/ext/v1/annotations.proto", "")], [], [],
   [ .block "message" 1 (lc 5 12 " A thing.\n") 0 "Thing" [exMsgOpt]
       [ .field ⟨.field, lc 9 9 " second field\n over two lines\n", 1, "", "int32" , "n", 2, some "n", []⟩,
         .field ⟨.field, lc 7 7 "", 0, "optional ", "string", "foo_id", 1, some "foo_id", [exO1]⟩,
         .field ⟨.field, lc 10 10 " directly below\n", 2, "", "Kind" , "kind", 3, some "kind", []⟩ ],
     .block "enum" 2 (lc 14 18 "") 0 "Kind" []
       [ .field ⟨.value, lc 15 15 "", 0, "", "", "KIND_UNSPECIFIED", 0, none, []⟩,
         .field ⟨.value, lc 17 17 " the only kind\n", 1, "", "", "KIND_A", 1, none, []⟩ ],
     .block "service" 0 (lc 20 24 " Serves things.\n") 0 "Things" []
       [ .rpc (lc 22 22 " Get one.\n") 0 "Get" "Thing" "Thing" [] ] ]⟩

def rdO (name : String) (v : Opt) (line : Nat) : SOpt := ⟨name, [v], true, true, false, line, 0, ""⟩

def leadRead : FileD :=
  ⟨Loc.none, "p.v1", [("j5/ext/v1/annotations.proto", "")], [], [],
   [ .block "message" 1 (lc 9 23 " A thing.\n") 0 "Thing" [rdO "(j5.ext.v1.message).object" (.msg "" []) 10]
       [ .field ⟨.field, lc 12 15 "", 0, "optional ", "string", "foo_id", 1, some "foo_id",
           [rdO "(j5.ext.v1.field).string" (.msg "" []) 13]⟩,
         .field ⟨.field, lc 19 19 " second field\n over two lines\n", 0, "", "int32" , "n", 2, some "n", []⟩,
         .field ⟨.field, lc 22 22 " directly below\n", 0, "", "Kind" , "kind", 3, some "kind", []⟩ ],
     .block "enum" 2 (lc 25 30 "") 0 "Kind" []
       [ .field ⟨.value, lc 26 26 "", 0, "", "", "KIND_UNSPECIFIED", 0, none, []⟩,
         .field ⟨.value, lc 29 29 " the only kind\n", 0, "", "", "KIND_A", 1, none, []⟩ ],
     .block "service" 0 (lc 33 37 " Serves things.\n") 0 "Things" []
       [ .rpc (lc 36 36 " Get one.\n") 0 "Get" "Thing" "Thing" [] ] ]⟩

theorem leadEx_quiet : Cover.quietLFileB leadEx.arranged = true := by decide +kernel
theorem leadEx_relaid : Cover.relaidFileLB leadEx.arranged leadRead = true := by decide +kernel

example : printFile "gen" leadRead = printFile "gen" leadEx :=
  C05_reprint_checked "gen" leadEx leadRead leadEx_quiet leadEx_relaid

/-! The example with leading comments is inside the shape of the grammar theorem as well: `Cover.simpleFileB "gen"
leadEx.arranged` evaluates to `true` (`#eval`, and the driver evaluates the same test on every `print.file` op); it has no
`decide` proof here because the kernel does not evaluate `String.splitOn` (inside `commentBody`). -/

example : leadEx.quietL ∧ relaidFileL leadEx.arranged leadRead :=
  ⟨by simp [FileD.quietL, leadEx, Loc.noComments, Loc.none, quietListL, Item.quietL, FieldD.quietL, Loc.leadOnly, lc, exO1, exMsgOpt],
   Cover.relaidFileLB_sound leadEx_relaid⟩

end lead_example

/-! ## 7c. the reading links: `C05_reparse` composed with `C05_refname_resolves`

`C05_reparse` is a parse-after-print identity on the rendered syntax tree (`FileD` holds type names, labels and option
texts as strings). The property also speaks of *linking*. The composition below is the whole-file statement for type
names: every type-name position of the parsed file holds the name the `RefName` kernel produced, and that name resolves
to the symbol the descriptor points at. It holds for the shape `SimpleFile` (decidable, `Cover.simpleFileB`; measured
coverage of the generated `print.file` ops: `coverage.reparse_theorem_fraction`, ≈ 70 %). -/

/-- a type name as it is written -/
def nameText (n : RefName.Name) : String := (if n.abs then "." else "") ++ ".".intercalate n.parts

/-- what stands at a type-name position of the file: the name `refName` gives for a reference (`some r`), or
something that is no reference (`none`: a scalar type, a map type, a `stream` type, the empty type of an enum value) -/
def LinkSrc (T : RefName.Tab) (txt : String) : Option RefOcc → Prop
  | none => True
  | some r => txt = nameText (RefName.refName T r.ctxPkg r.ctx r.tgtPkg r.tgt)

/-- … and what a reader finds there: the same name, which resolves — by the scope rules, from the scope it is written
in — to the symbol the descriptor points at -/
def Linked (T : RefName.Tab) (txt : String) : Option RefOcc → Prop
  | none => True
  | some r => txt = nameText (RefName.refName T r.ctxPkg r.ctx r.tgtPkg r.tgt) ∧
      RefName.resolveName T r.ctxPkg r.ctx r.only (RefName.refName T r.ctxPkg r.ctx r.tgtPkg r.tgt) = some (r.tgtPkg ++ r.tgt)

open Layout Grammar Reparse in
/-- **The reading links.** `C05_reparse` is an identity on the printed syntax tree; composed with `C05_refname_resolves`:
for a `SimpleFile` whose type names are, position by position (`typeTextsL`, zipped with `srcs`: field types in printed order, nested
elements in place, request / response types of methods), the names the `RefName` kernel produced against the symbol
table `T` for references `srcs` (`none` where the position holds no reference), the file the grammar model reads from the
printed text carries exactly these names at the same positions, and each of them resolves under the scope rules to the
symbol the descriptor points at. (Reading a name text back into components is splitting at dots — `Cover.tyParts`,
`tyParts_sound` — and is not part of this statement; oneof membership, map key / value texts, labels and numbers are part
of the tree `C05_reparse` returns.) -/
theorem C05_reparse_links (gen : String) (d : FileD) (h : SimpleFile gen d.arranged) (T : RefName.Tab)
    (srcs : List (Option RefOcc))
    (hlen : (typeTextsL d.arranged.items).length = srcs.length)
    (hsrc : ∀ p ∈ (typeTextsL d.arranged.items).zip srcs, LinkSrc T p.1 p.2)
    (hwf : ∀ r, some r ∈ srcs → RefName.SymtabWF T r.only r.tgtPkg r.tgt) :
    ∃ d', parseFile (printText gen d) = some d' ∧ (typeTextsL d'.items).length = srcs.length ∧
      ∀ p ∈ (typeTextsL d'.items).zip srcs, Linked T p.1 p.2 := by
  refine ⟨rdFile d.arranged, (C05_reparse gen d h).1, ?_⟩
  rw [rdFile_typeTexts]
  refine ⟨hlen, fun p hp => ?_⟩
  have h1 := hsrc p hp
  obtain ⟨txt, o⟩ := p
  cases o with
  | none => trivial
  | some r =>
    exact ⟨h1, C05_refname_resolves T r.only r.ctxPkg r.ctx r.tgtPkg r.tgt (hwf r (List.of_mem_zip hp).2)⟩

section links_example
open Layout Grammar Reparse

def linkTab : RefName.Tab := ⟨[⟨["p", "M"], .msg⟩, ⟨["p", "M", "N"], .msg⟩], [["p"]]⟩
def linkEx : FileD :=
  ⟨Loc.none, "p", [], [], [],
   [ .block "message" 1 Loc.none 0 "M" [] [ fld "" "N" "a" 1, fld "" "string" "b" 2, .block "message" 1 Loc.none 0 "N" [] [] ] ]⟩
def linkSrcs : List (Option RefOcc) := [some ⟨true, ["p"], ["M"], ["p"], ["M", "N"]⟩, none]

theorem linkEx_ok : SimpleFile "gen" linkEx.arranged := Cover.simpleFileB_sound "gen" linkEx.arranged (by decide)
theorem linkEx_texts : typeTextsL linkEx.arranged.items = ["N", "string"] := by decide
theorem linkEx_name : nameText (RefName.refName linkTab ["p"] ["M"] ["p"] ["M", "N"]) = "N" := by decide
theorem linkTab_wf : RefName.SymtabWF linkTab true ["p"] ["M", "N"] := by
  refine ⟨by simp, ⟨.msg, by decide, by decide⟩, ?_, ?_⟩
  · intro j h1 h2
    have : j = 1 := by simp at h2; omega
    subst this; decide
  · intro i h1 h2
    have : i = 1 := by simp at h2; omega
    subst this; decide

/-- the message `M { N a = 1; string b = 2; message N {} }` of package `p`: the text `N` at the first position is what
`refName` gives for the reference from `p.M` to `p.M.N`; the parsed file holds it there and it resolves to `p.M.N` -/
example := C05_reparse_links "gen" linkEx linkEx_ok linkTab linkSrcs (by rw [linkEx_texts]; rfl)
  (by
    rw [linkEx_texts]
    intro p hp
    simp only [linkSrcs, List.zip_cons_cons, List.zip_nil_right, List.mem_cons, List.not_mem_nil, or_false] at hp
    rcases hp with rfl | rfl
    · exact linkEx_name.symm
    · trivial)
  (by
    intro r hr
    simp only [linkSrcs, List.mem_cons, Option.some.injEq, List.not_mem_nil, or_false, reduceCtorEq] at hr
    subst hr
    exact linkTab_wf)

end links_example

/-! ## 8. the printed text is a function of the descriptor (cited by C14)

`Layout.printText gen d` is a Lean function: equal descriptors give equal texts by construction. What
could make the *real* printer a relation rather than a function is the unstable `sort.Sort` of the
children of every block. `C05_order_total` says a sorted permutation is unique; lifted to elements:
whatever sorted permutation of the children a sorting algorithm returns, it is the same list, so the
emitted text does not depend on the algorithm. -/

open Layout in
/-- any two permutations of the same children that are sorted by `sourceElements.Less` are equal -/
theorem C05_sorted_children_unique (es out₁ out₂ : List Item)
    (h₁ : out₁.Perm es) (h₂ : out₂.Perm es)
    (s₁ : out₁.Pairwise (fun a b => Order.less a.elem b.elem = true))
    (s₂ : out₂.Pairwise (fun a b => Order.less a.elem b.elem = true)) : out₁ = out₂ := by
  apply List.Perm.eq_of_pairwise (le := fun a b => Order.less a.elem b.elem = true) _ s₁ s₂ (h₁.trans h₂.symm)
  intro a b _ _ hab hba
  have := Order.less_asymm a.elem b.elem hab
  rw [this] at hba
  exact absurd hba (by simp)

open Layout in
/-- **`print` is a function of the arranged descriptor**: two files with the same arrangement print
the same text; and the top-level arrangement is the only sorted permutation of the elements, so the
text written for any sorted permutation of them is the text `printText` gives (the children of a
block: the same argument with `C05_sorted_children_unique` one level down). -/
theorem C05_print_function (gen : String) (d₁ d₂ : FileD) (h : d₁.arranged = d₂.arranged) :
    printText gen d₁ = printText gen d₂ := by
  unfold printText printFile
  rw [h]

open Layout in
theorem C05_print_function_sorted (gen : String) (f : FileD) (out₁ out₂ : List Item)
    (h₁ : out₁.Perm f.items) (h₂ : out₂.Perm f.items)
    (s₁ : out₁.Pairwise (fun a b => Order.less a.elem b.elem = true))
    (s₂ : out₂.Pairwise (fun a b => Order.less a.elem b.elem = true)) :
    run (fileCmds gen { f with items := out₁ }) false = run (fileCmds gen { f with items := out₂ }) false := by
  rw [C05_sorted_children_unique f.items out₁ out₂ h₁ h₂ s₁ s₂]

/-- non-vacuity: the example file's top level is such a sorted permutation (service before message) -/
example : (exFile.arranged.items.map Layout.Item.elem).Pairwise (fun a b => Order.less a b = true) := by
  decide

/-! ## 9. source facts (regenerated by `extract/print.go` from the current tree on every check)

The models above were written from these pieces of `internal/j5s/protoprint`; the extractor reads them again with
go/ast on every run and the obligations compare them with what the models assume. A change of the escape table, of
a case condition of `prototextString`, of the element order or of the blank-line rule breaks an obligation here (and,
independently, the correspondence streams). -/
section source_facts
open J5V.Generated.Print
set_option maxRecDepth 100000

/-- the escape letters of `prototextString` are the ones `TextString.escStep` writes -/
theorem C05_src_escape_table :
    escTable = [(34, 34), (92, 92), (10, 110), (13, 114), (9, 116)] ∧
    ∀ p ∈ escTable, (TextString.escStep [p.1]).1 = [92, p.2] := by decide

/-- every other control byte (and DEL) is written `\\x` + two hex digits, as `goHexPad 2` does -/
theorem C05_src_escape_default :
    escDefault = "out = append(out, 'x') ; out = append(out, \"00\"[1+(bits.Len32(uint32(r))-1)/4:]...) ; out = strconv.AppendUint(out, uint64(r), 16)" ∧
    (TextString.escStep [1]).1 = 92 :: 120 :: TextString.goHexPad 2 1 ∧
    (TextString.escStep [0x7f]).1 = 92 :: 120 :: TextString.goHexPad 2 0x7f := by decide

/-- the case conditions of the loop, the constant `outputASCII`, the `\\u` / `\\U` branch and the byte class of the fast path -/
theorem C05_src_escape_cases :
    escOuterCases = ["r == utf8.RuneError && n == 1", "r < ' ' || r == '\"' || r == '\\\\' || r == 0x7f", "r >= utf8.RuneSelf && (outputASCII || r <= 0x009f)", "default"] ∧
    outputASCII = "true" ∧
    unicodeBranch = "out = append(out, '\\\\') ; if r <= math.MaxUint16 { out = append(out, 'u') out = append(out, \"0000\"[1+(bits.Len32(uint32(r))-1)/4:]...) out = strconv.AppendUint(out, uint64(r), 16) } else { out = append(out, 'U') out = append(out, \"00000000\"[1+(bits.Len32(uint32(r))-1)/4:]...) out = strconv.AppendUint(out, uint64(r), 16) } ; in = in[n:]" ∧
    needEscape = "c < ' ' || c == '\"' || c == '\\'' || c == '\\\\' || c >= 0x7f" := by decide

/-- `typeOrder`: message 1, enum 2, everything else 0 (`Layout.Item.typeOrder`, shipped by the summary) -/
theorem C05_src_type_order :
    typeOrderDefault = 0 ∧
    typeOrderCases = [("protoreflect.MessageDescriptor", 1), ("protoreflect.EnumDescriptor", 2), ("protoreflect.ServiceDescriptor", 0)] := by
  decide

/-- `sourceElements.Less` (model: `Order.less`) -/
theorem C05_src_less :
    lessBody = "{ if se[i].sourceLocation.StartLine == 0 || se[j].sourceLocation.StartLine == 0 { if se[i].typeOrder != se[j].typeOrder { return se[i].typeOrder < se[j].typeOrder } return se[i].descriptor.Index() < se[j].descriptor.Index() } return se[i].sourceLocation.StartLine < se[j].sourceLocation.StartLine }" := by decide

/-- the blank-line rule of `printElements` (model: `Layout.gapCond`), the loop state it reads, the sort before the loop, and
which kinds of element are followed by `addGap` (model: `Item.gapEnder`; a method adds its gap in `printMethod`) -/
theorem C05_src_gap_rule :
    sortCall = "sort.Sort(elements)" ∧
    gapCondSrc = "idx > 0 && ((lastEnd > 0 && element.sourceLocation.StartLine > lastEnd+1) || element.typeOrder != lastType)" ∧
    loopUpdates = ["lastEnd = element.sourceLocation.EndLine", "lastType = element.typeOrder"] ∧
    gapAfter = [("protoreflect.MessageDescriptor", true), ("protoreflect.ServiceDescriptor", true), ("protoreflect.EnumDescriptor", true), ("protoreflect.OneofDescriptor", true), ("protoreflect.FieldDescriptor", false), ("protoreflect.EnumValueDescriptor", false), ("protoreflect.MethodDescriptor", false)] := by decide

/-- `commentLines` / `leadingComments` (model: `Layout.commentBody`, `commentLines`, `leadingCmds`) -/
theorem C05_src_comments :
    commentLinesBody = "{ if comment == \"\" { return nil } lines := strings.Split(comment, \"\\n\") lines = lines[:len(lines)-1] for i, line := range lines { lines[i] = fmt.Sprintf(\"//%s\", line) } return lines }" ∧
    leadingCommentsBody = "{ for _, comment := range loc.LeadingDetachedComments { parts := commentLines(comment) for _, part := range parts { fb.p(part) } fb.addGap() } if loc.LeadingComments != \"\" { fb.addGap() parts := commentLines(loc.LeadingComments) for _, part := range parts { fb.p(part) } } }" := by decide

end source_facts

end J5V.Props.C05
