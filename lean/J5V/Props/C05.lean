import J5V.Print.TextString
import J5V.Print.RefName
import J5V.Print.OptionText
import J5V.Print.Order
/-! # C05 — placeholder, being written -/
namespace J5V.Props.C05
open J5V.Print

theorem C05_order_irrefl (a : Order.Elem) : Order.less a a = false := by
  unfold Order.less; simp

end J5V.Props.C05
