import J5V.Pipe.Proofs
import J5V.Pipe.WalkProofs
import J5V.Pipe.ListProofs
import J5V.Pipe.FlattenProofs
import J5V.Pipe.ListRequestProofs
import J5V.Pipe.JoinProofs
import J5V.Pipe.EntityProofs
import J5V.Pipe.ClientProofs
import J5V.Pipe.Swagger
import J5V.Pipe.SwaggerDocProofs
import J5V.Pipe.SwaggerProto
import J5V.Generated.PipeFacts
/-!
# C16 — everything the compiler emits is consumable by the rest of the toolchain

Only the property theorems (and their non-vacuity examples) live here; lemmas are in
`J5V/Pipe/Proofs.lean`.
-/
namespace J5V.Props.C16
open J5V.Go J5V.Pipe
open J5V.Compile (Str toCamel toSnake toLowerCamel toScreamingSnake splitOnByte joinWith pathJoin pathClean
  hasPrefix hasSuffix trimSuffix)

/-! ## the http path: `:name → {snake}` (compiler) and `{snake} → :jsonName` (structure) -/

/-- **Path round trip.** For the request message the compiler emits (proto name `ToSnake n`,
explicit JSON name `n` for each declared property `n`), the consumer's rewrite undoes the
producer's: whatever path the compiler accepts, the client API shows exactly that (resolved)
path. The one side condition on identifiers: distinct request properties have distinct proto
field names (`SnakeInjective`, decidable; protobuf's linker rejects the message otherwise, e.g.
`fooId` next to `foo_id`). Full strength since `fix:` 5ac34d8 (compiler rejects literal parts
containing `{ } * :`); before it this needed the extra hypothesis `LiteralsClean`. -/
theorem C16_path_inverse (props : List Str) (path p' : Str) (hinj : SnakeInjective props)
    (h : rewrite props path = .ok p') : unrewrite (fieldsOf props) p' = .ok path :=
  path_roundtrip props path p' hinj h

/-- the witnesses of the repaired finding (`path:literal-rejected-downstream`,
`path:roundtrip-differs`; replays: kernel ops `pp 2f613a62`, `pp 2f7b787d 78`): the compiler now
rejects them, while the consumer still reads them the way that made them findings -/
theorem C16_path_literal_rejected :
    (rewrite [] b!"/a:b").isErr = true ∧ (rewrite [b!"x"] b!"/{x}").isErr = true
    ∧ (unrewrite (fieldsOf []) b!"/a:b").isErr = true
    ∧ unrewrite (fieldsOf [b!"x"]) b!"/{x}" = .ok b!"/:x" := by
  decide

/-- the accepted paths are exactly those whose parameters name properties and whose literal
parts are clean -/
theorem C16_path_accepted_iff (props : List Str) (path : Str) :
    (∃ p', rewrite props path = .ok p') ↔
      (LiteralsClean path ∧ ∀ n ∈ pathParamNames path, n ∈ props) := by
  constructor
  · rintro ⟨p', h⟩
    obtain ⟨hparam, hlit, _⟩ := rewrite_ok props path p' h
    refine ⟨hlit, ?_⟩
    intro n hn
    obtain ⟨part, hp, hpn⟩ := (mem_pathParamNames path n).mp hn
    exact hparam part hp n hpn
  · rintro ⟨hlit, hparam⟩
    exact ⟨_, rewrite_ok_of_params props path hparam hlit⟩

/-- the compiler accepts a path only if every path parameter names a request property -/
theorem C16_path_params_named (props : List Str) (path p' : Str) (h : rewrite props path = .ok p') :
    ∀ n ∈ pathParamNames path, n ∈ props := by
  intro n hn
  obtain ⟨part, hp, hpn⟩ := (mem_pathParamNames path n).mp hn
  exact (rewrite_ok props path p' h).1 part hp n hpn

/-- `buildMethod`'s slice expression `part[1:len(part)-1]` is never out of range: the consumer
never panics, on any pattern and any request message -/
theorem C16_path_no_panic (fields : List PField) (pattern : Str) (w : String) :
    unrewrite fields pattern ≠ .panic w := by
  unfold unrewrite
  cases h : unrewriteParts fields (splitOnByte 47 pattern) with
  | ok qs => simp
  | err e => simp
  | panic w' => exact absurd h (unrewriteParts_no_panic fields _ w')

/-! ## names -/

/-- **Every name the producer can emit passes the consumer's test**: `<N>Service` is built as a
service, `ToCamel(n)Topic` as a topic (never mistaken for a service or dropped as `…Events`),
`<M>Request` / `<M>Response` / `google.api.HttpBody` pass `buildMethod`, `<M>Message` /
`google.protobuf.Empty` pass `buildTopicMethod`, and a `<M>Response` is never taken for the raw
`HttpBody` marker by `methodFromSource` while the real one always is. -/
theorem C16_names_accepted (pkg n m : Str) (hasResp : Bool) :
    classify (serviceName n) = .service
    ∧ classify (topicName n) = .topic
    ∧ acceptMethod pkg m { pkg := pkg, name := requestName m } (producedOutput pkg m hasResp) = true
    ∧ acceptTopicMethod pkg m { pkg := pkg, name := messageName m }
        { pkg := b!"google.protobuf", name := b!"Empty" } = true
    ∧ isRawResponse (responseName m) = false
    ∧ isRawResponse (producedOutput pkg m false).name = true :=
  ⟨classify_service n, classify_topic n, acceptMethod_produced pkg m hasResp,
    acceptTopicMethod_produced pkg m, responseName_not_raw m, httpBody_is_raw pkg m⟩

/-! ## request split -/

/-- **fillRequest is a partition.** Every request property lands in exactly one of path / query /
body (the three parts together are a permutation of the properties, so nothing is lost or
duplicated); the path part is exactly the properties named by a `:param` of the path; GET puts the
rest into the query and has no body, every other verb puts the rest into the body and has no
query; order is kept. -/
theorem C16_split_partition (verb : Verb) (path : Str) (props : List Str) :
    let r := fillRequest verb.hasBody path props
    r.all.Perm props
    ∧ (∀ x, x ∈ r.path ↔ x ∈ props ∧ x ∈ pathParamNames path)
    ∧ (∀ x, x ∈ r.query ++ r.body.getD [] ↔ x ∈ props ∧ x ∉ pathParamNames path)
    ∧ (verb = .get → r.body = none)
    ∧ (verb ≠ .get → r.query = [] ∧ r.body.isSome = true)
    ∧ r.path.Sublist props ∧ (r.query ++ r.body.getD []).Sublist props := by
  intro r
  refine ⟨fillRequest_all_perm _ _ _, ?_, ?_, ?_, ?_, ?_, ?_⟩
  · intro x
    show x ∈ (fillRequest verb.hasBody path props).path ↔ _
    rw [fillRequest_path, List.mem_filter]
    simp
  · intro x
    show x ∈ (fillRequest verb.hasBody path props).query ++ (fillRequest verb.hasBody path props).body.getD [] ↔ _
    rw [fillRequest_rest, List.mem_filter]
    simp
  · intro hv; subst hv; rfl
  · intro hv
    cases verb <;> first | exact absurd rfl hv | exact ⟨rfl, rfl⟩
  · show (fillRequest verb.hasBody path props).path.Sublist props
    rw [fillRequest_path]; exact List.filter_sublist
  · show ((fillRequest verb.hasBody path props).query ++ (fillRequest verb.hasBody path props).body.getD []).Sublist props
    rw [fillRequest_rest]; exact List.filter_sublist

/-- each path parameter of an accepted path names a request property, and that property is a path
parameter of the client method -/
theorem C16_split_path_params (verb : Verb) (props : List Str) (path p' : Str)
    (h : rewrite props path = .ok p') :
    ∀ n ∈ pathParamNames path, n ∈ (fillRequest verb.hasBody path props).path := by
  intro n hn
  rw [fillRequest_path, List.mem_filter]
  exact ⟨C16_path_params_named props path p' h n hn, List.contains_iff_mem.mpr hn⟩

/-! ## schema walks -/

/-- **The defect that was there** (pinned commit, before `fix:` 93cab0c): `walkSchemaFields`
without a memory of the schemas it is in never finishes on the one-schema cycle
`object A { field a object:A }` — no amount of fuel gives an answer. On the real code this was a
fatal stack overflow in `j5client.APIFromSource` (replay: kernel op `graph N0 1 N0 o 1 a d N0`). -/
theorem C16_walk_old_diverges : ∀ fuel path, walkOld selfLoop fuel 0 path = none :=
  walkOld_selfLoop_diverges

/-- **Termination of the repaired walk, for every finite schema graph**: the recursion depth
never exceeds the number of schemas + 1, so `walk` (fuel `|g| + 1`) always returns, and any larger
fuel returns the same. No bound on the graph, cycles allowed. -/
theorem C16_walk_terminates (g : Graph) (root : Nat) :
    (∃ r, walk g root = some r)
    ∧ ∀ fuel, g.length + 1 ≤ fuel → walkFuel g fuel root [] [] = walk g root := by
  have h := walkFuel_isSome g (g.length + 1) root [] [] ⟨List.nodup_nil, by simp⟩ (by simp)
  obtain ⟨r, hr⟩ := Option.isSome_iff_exists.mp h
  refine ⟨⟨r, hr⟩, ?_⟩
  intro fuel hf
  unfold walk
  rw [hr]
  exact walkFuel_mono g _ fuel root [] [] r hf hr

/-- **No error from the list-request walk**: on a linked schema graph (every reference resolved —
what `assertRefsLink` has established before) the walk returns its visits from every schema,
recursive or not -/
theorem C16_walk_ok (g : Graph) (hl : Linked g) (root : Nat) (hroot : root < g.length) :
    ∃ vs, walk g root = some (.ok vs) :=
  walkFuel_ok g hl (g.length + 1) root [] [] ⟨List.nodup_nil, by simp⟩ hroot (by simp)

/-- `collectPackageRefs` terminates on every finite schema graph -/
theorem C16_refs_terminates (g : Graph) (roots : List Field) : ∃ s, collect g roots = some s :=
  collect_isSome g roots

/-- `assertRefsLink` (run when the schema set is built from the source API) terminates on every
finite schema graph, linked or not -/
theorem C16_link_terminates (g : Graph) : ∃ r, linkAll g = some r :=
  Option.isSome_iff_exists.mp (linkRoots_isSome g _ [] ⟨List.nodup_nil, by simp⟩)

/-- **Every schema reachable from a method or entity is present**: whatever can be reached from
the root fields (request / response / path / query properties, entity keys / state / event
properties) through object, oneof and enum references, directly or inside arrays and maps, is in
the collected set. -/
theorem C16_refs_complete (g : Graph) (roots : List Field) (s : List Nat)
    (h : collect g roots = some s) : ∀ n, Reach g roots n → n ∈ s :=
  collect_complete g roots s h

/-! ## list request: enum default filters (finding `client:err:list-enum-default`, repaired by `fix:` b6c593a) -/

/-- **Whatever the compiler accepts as default filters of an enum field, the client accepts.**
For every prefix, every list of declared options and every list of default filters: if
`EnumRef.mapValues` (run by `buildField` on `listRules.filtering.defaultFilters` since `fix:`
b6c593a) succeeds on the enum the compiler emits, then the schema reader recovers that enum from
the descriptor (`buildEnum`: same prefix, the trimmed value names) and `buildListRequest`'s
`OptionByName` lookup succeeds for every default filter — in either spelling, with or without the
prefix. Full strength; before the repair the compiler did not look at the default filters at all
and this was false (`defaultFilters = ["BOGUS"]`). -/
theorem C16_list_defaults_accepted (pfx : Str) (opts defaults : List Str)
    (h : compileDefaultsOk pfx (enumValueNames pfx opts) defaults = true) :
    ∃ os, readEnum (enumValueNames pfx opts) = some (pfx, os) ∧ defaultFiltersOk pfx os defaults = true :=
  ⟨_, readEnum_enumValueNames pfx opts, defaultFiltersOk_of_compile pfx _ defaults h⟩

/-- the same on the composed function the driver runs: the outcome "compiler accepts, client
refuses" does not exist -/
theorem C16_list_defaults_chain (pfx : Str) (opts defaults : List Str) :
    enumDefaultsChain pfx opts defaults ≠ some false :=
  enumDefaultsChain_ne_false pfx opts defaults

/-- the witness of the repaired finding (replay: the corpus op with `shade fD R e Color`): the
compiler now rejects `BOGUS` on `enum Color { RED BLUE }`, the client-side check still would;
both spellings of a real option pass both checks, and an explicit `UNSPECIFIED` first option is
the zero value itself -/
theorem C16_list_defaults_rejected :
    enumDefaultsChain b!"COLOR_" [b!"RED", b!"BLUE"] [b!"BOGUS"] = none
    ∧ defaultFiltersOk b!"COLOR_" [b!"UNSPECIFIED", b!"RED", b!"BLUE"] [b!"BOGUS"] = false
    ∧ enumDefaultsChain b!"COLOR_" [b!"RED", b!"BLUE"] [b!"RED", b!"COLOR_BLUE", b!"UNSPECIFIED"] = some true
    ∧ enumValueNames b!"COLOR_" [b!"UNSPECIFIED", b!"COLOR_RED", b!"BLUE"]
        = [b!"COLOR_UNSPECIFIED", b!"COLOR_RED", b!"COLOR_BLUE"] := by
  decide

/-- non-vacuity of `C16_list_defaults_accepted`: defaults in both spellings are accepted by the compiler -/
example : compileDefaultsOk b!"COLOR_" (enumValueNames b!"COLOR_" [b!"RED", b!"BLUE"]) [b!"RED", b!"COLOR_BLUE"] = true := by
  decide

/-! ## OpenAPI conversion -/

/-- **`convertSchema` is total on well-formed schemas**, for every field type and any nesting of
arrays, maps, inline objects and inline oneofs: it returns a schema exactly when every oneof
wrapper of the input is set and no field pointer is nil — never an error, never a panic on what
the schema reflection produces. (That the code has the fifteen arms this model has is the
source-fact obligation `C16_src_swagger_arms` below.) -/
theorem C16_swagger_convert_total (f : SField) :
    (∃ t, convertSchema f = .ok t) ↔ f.wellFormed = true :=
  ⟨fun ⟨t, h⟩ => convertSchema_ok_wf f t h, convertSchema_total f⟩

/-! ## the chain, composed, for declared services -/

/-- **Client API exactness** on the composed models compile → structure → client, full strength
for declared services: whenever the compiler accepts the service (`compileService` succeeds) and
distinct request properties have distinct proto field names, the chain succeeds and yields
exactly `<Name>Service` with the declared methods in order, each with the declared verb, the
declared (base-path-resolved) path, the request properties split by that path and verb, and the
declared response (none for a raw `HttpBody` method). Not in this model: services generated from
entities (C17's model), schemas / auth / options of the methods. -/
theorem C16_client_exact (pkg : Str) (s : ServiceDecl) (d : DService)
    (hinj : ∀ m ∈ s.methods, SnakeInjective m.req) (hacc : compileService pkg s = .ok d) :
    chainService pkg s = .ok (declaredService s) :=
  chainService_valid pkg s (validService_of_compiled pkg s d hinj hacc)

/-- the same from the decidable description of what the compiler checks -/
theorem C16_client_exact_valid (pkg : Str) (s : ServiceDecl) (h : ValidService s) :
    chainService pkg s = .ok (declaredService s) :=
  chainService_valid pkg s h

/-- the chain never panics on the service part, whatever is declared -/
theorem C16_chain_no_panic (pkg : Str) (s : ServiceDecl) (hinj : ∀ m ∈ s.methods, SnakeInjective m.req)
    (w : String) : chainService pkg s ≠ .panic w := by
  cases hc : compileService pkg s with
  | ok d => rw [C16_client_exact pkg s d hinj hc]; simp
  | err e => unfold chainService; rw [hc]; simp
  | panic w' => exact absurd hc (compileService_no_panic pkg s w')

/-! ## flattened object fields (`ClientProperties()`) -/

/-- **`ClientProperties()` terminates on every schema graph**, whatever is marked `flatten`
(an object flattening itself, two objects flattening each other, …): the client view of the whole
schema set is computed with fuel `|g| + 1` per object and never runs out. -/
theorem C16_flatten_terminates (g : Graph) : ∃ r, clientGraph g = some r :=
  Option.isSome_iff_exists.mp (clientNodesFrom_isSome g g 0)

/-- … and is total where the schema reader's output lives (`FlatLinked`: a flattened field refers
to an object of the set): no error, no panic; the client view has the same schemas (number, order,
kinds), each property of it is a property of some schema of the set, and resolved references stay
resolved -/
theorem C16_flatten_total (g : Graph) (h : FlatLinked g) :
    ∃ cg, clientGraph g = some (.ok cg) ∧ cg.length = g.length
      ∧ (∀ c ∈ cg, ∀ p ∈ c.props, ∃ node ∈ g, p ∈ node.props) ∧ (Linked g → Linked cg) := by
  obtain ⟨cg, hcg, hv⟩ := clientGraph_ok g h
  exact ⟨cg, hcg, hv.len, hv.props, hv.linked⟩

/-- the list-request walk (`asClient = true`) over the client view: returns its visits from every
schema, recursive and / or flattened or not -/
theorem C16_client_walk_ok (g : Graph) (hf : FlatLinked g) (hl : Linked g) (root : Nat)
    (hroot : root < g.length) : ∃ cg vs, clientGraph g = some (.ok cg) ∧ walk cg root = some (.ok vs) := by
  obtain ⟨cg, hcg, hv⟩ := clientGraph_ok g hf
  obtain ⟨vs, hvs⟩ := C16_walk_ok cg (hv.linked hl) root (by rw [hv.len]; exact hroot)
  exact ⟨cg, vs, hcg, hvs⟩

/-- **Request split with flattened object fields**: path and query parameters are exactly those of
the unflattened split (`C16_split_partition` applies to them); the body shows, for each body
property in order, the property itself or — for a flattened object field — the client properties
of its object; without flattened fields it is the plain split -/
theorem C16_split_flat (verb : Verb) (path : Str) (props : List ReqProp) :
    let r := fillRequestFlat verb.hasBody path props
    let plain := fillRequest verb.hasBody path (props.map (·.name))
    r.path = plain.path ∧ r.query = plain.query
    ∧ r.body = (if verb.hasBody then
        some (bodyNames (props.filter (fun p => !(pathParamNames path).contains p.name))) else none)
    ∧ ((∀ p ∈ props, p.flat = none) → r = plain) :=
  ⟨fillRequestFlat_path _ _ _, fillRequestFlat_query _ _ _, fillRequestFlat_body _ _ _,
    fillRequestFlat_unflat _ _ _⟩

/-! ## `buildListRequest` -/

/-- `buildListRequest` terminates for every schema graph and every response -/
theorem C16_list_request_terminates (g : Graph) (resp : Option (List Prop')) :
    ∃ r, buildListRequest g resp = some r :=
  Option.isSome_iff_exists.mp (buildListRequest_isSome g resp)

/-- **Whatever the compiler accepts as the response of a list method, the client accepts**
(finding `client:err:list-response-shape`, repaired by `fix:` 57821b0: `checkListMethod` demands a
response with exactly one array property, of objects, of every method whose request takes a
`j5.list.v1.QueryRequest`): `buildListRequest`'s own shape checks (`no array found`,
`found multiple arrays`, `expected object schema`, and the missing response body of d14b8cb) then
all pass — given what the schema reader establishes, that the object field of the array's items
refers to an object of the schema set (`ItemRefsOk`). -/
theorem C16_list_shape_accepted (g : Graph) (props : List Prop')
    (h : compileListShapeOk (some props) = true) (hk : ItemRefsOk g props) :
    ListShaped g (some props) = true :=
  listShaped_of_compile g props h hk

/-- … and so the list request of every compiled list method is built: no error, no panic, through
recursive and flattened schemas alike, on a linked schema set (`NoBadDefaults`: what
`C16_list_defaults_accepted` gives for everything the compiler accepts). Full strength since
57821b0; before it this needed `ListShaped` as an extra hypothesis. -/
theorem C16_list_request_accepted (g : Graph) (resp : Option (List Prop'))
    (hc : compileListShapeOk resp = true) (hk : ∀ props, resp = some props → ItemRefsOk g props)
    (hf : FlatLinked g) (hl : Linked g) (hb : NoBadDefaults g) :
    ∃ lr, buildListRequest g resp = some (.ok lr) := by
  cases resp with
  | none => simp [compileListShapeOk] at hc
  | some props =>
    exact buildListRequest_ok g (some props) (listShaped_of_compile g props hc (hk props rfl)) hf hl hb

/-- the witnesses of the repaired finding (replays: the corpus ops `chain … Search GET … query - X
j5.list.v1 QueryRequest …`): no response body, no array, two arrays, an array of scalars — the
compiler now rejects each, the client-side checks still would -/
theorem C16_list_shape_rejected :
    compileListShapeOk none = false
    ∧ compileListShapeOk (some [{ name := b!"name", field := .scalar }]) = false
    ∧ compileListShapeOk (some [{ name := b!"a", field := .array (.object 0) }, { name := b!"b", field := .array (.object 0) }]) = false
    ∧ compileListShapeOk (some [{ name := b!"xs", field := .array .scalar }]) = false
    ∧ buildListRequest [] none = some (.err "no-response-body")
    ∧ buildListRequest [] (some [{ name := b!"name", field := .scalar }]) = some (.err "no-array-found") := by
  decide

/-- **every collected path resolves in the response item schema**: each filterable / sortable /
searchable field path of the list request leads, from the item object through the client
properties of objects and the properties of oneofs, to a property (`Resolves`) -/
theorem C16_list_request_resolves (g : Graph) (props : List Prop') (lr : ListRequest)
    (h : buildListRequest g (some props) = some (.ok lr)) :
    ∃ cg root, clientGraph g = some (.ok cg) ∧ listItemSchema g props = .ok root ∧
      ∀ path ∈ lr.filter ++ lr.sort ++ lr.search, ∃ f t, Resolves cg root path f t :=
  buildListRequest_resolves g props lr h

/-! ## entity-generated services -/

/-- **Client API exactness for the services an entity generates** (query service first, then the
command services in order: `J5V.Compile.Entity.queryService` / `commandService` of the compile
cluster's model of `sourcewalk/entity.go`): whenever the compiler accepts every generated service,
the chain turns the entity into exactly those services — `<Entity>QueryService` /
`<Name>CommandService` with the generated methods in order, each with its verb, base-path-resolved
path, request split and response.
Scope of the quantifier: `entityServiceDecls` is `(query :: commands).filterMap id` — a generated
service that has no `ServiceDecl` form (a command service without a name, a method whose verb is
unspecified or which has no request) is *not in the list*, so the theorem is silent about it. The
query service is always there (`C16_entity_query_shape`); `C16_entity_services_none_dropped` says
when no command service is dropped. The compiler itself refuses the dropped shapes (C17's model:
a method needs a verb and a request), which is why the stream never sees one. -/
theorem C16_entity_client_exact (pkg sub : Str) (e : J5V.Compile.Entity)
    (hinj : ∀ s ∈ entityServiceDecls pkg e, ∀ m ∈ s.methods, SnakeInjective m.req)
    (hacc : ∀ s ∈ entityServiceDecls pkg e, ∃ d, compileService sub s = .ok d) :
    mapMOutcome (chainService sub) (entityServiceDecls pkg e)
      = .ok ((entityServiceDecls pkg e).map declaredService) := by
  apply mapMOutcome_ok
  intro s hs
  obtain ⟨d, hd⟩ := hacc s hs
  exact C16_client_exact sub s d (hinj s hs) hd

/-- nothing is dropped from `entityServiceDecls` when every command service has a `ServiceDecl` form
(a name, every method a specified verb and a request): the list is the query service followed by
one service per declared command service -/
theorem C16_entity_services_none_dropped (pkg : Str) (e : J5V.Compile.Entity)
    (h : ∀ d ∈ entityCommandDecls pkg e, d.isSome = true) (hq : (entityQueryDecl pkg e).isSome = true) :
    (entityServiceDecls pkg e).length = e.commands.length + 1 := by
  have key : ∀ l : List (Option ServiceDecl), (∀ d ∈ l, d.isSome = true) → (l.filterMap id).length = l.length := by
    intro l
    induction l with
    | nil => intro _; rfl
    | cons x xs ih =>
      intro hx
      cases x with
      | none => have := hx none (by simp); simp at this
      | some v => simp [ih (fun d hd => hx d (List.mem_cons_of_mem _ hd))]
  unfold entityServiceDecls
  rw [key _ (by
    intro d hd
    rcases List.mem_cons.mp hd with rfl | hd
    · exact hq
    · exact h d hd)]
  simp [entityCommandDecls]

/-- the query service of every entity: `<Entity>Query` under `/<pkg path>/<entity>/q` with
`<Entity>Get` (request = the primary / shard keys), `<Entity>List` (shard keys, page, query) and
`<Entity>Events` (keys, page, query), all `GET`, all with a response -/
theorem C16_entity_query_shape (pkg : Str) (e : J5V.Compile.Entity) :
    entityQueryDecl pkg e = some
      { name := toCamel e.name ++ b!"Query", base := some (entityQueryBase pkg e),
        methods := [entityGetDecl e, entityListDecl e, entityEventsDecl e] }
    ∧ (entityGetDecl e).req = propNames (J5V.Compile.Entity.getKeys e)
    ∧ ([entityGetDecl e, entityListDecl e, entityEventsDecl e].all fun m => m.verb = .get ∧ m.hasResp) = true := by
  refine ⟨entityQueryDecl_eq pkg e, rfl, by simp [entityGetDecl, entityListDecl, entityEventsDecl]⟩

/-- **primary keys are the path parameters**: when no key name contains `/` and the entity's base
path has no parameter component, the path parameters of `Get` and `Events` (after `path.Join` with
the base path) are exactly the Get keys, those of `List` the shard keys, in key order — so (by
`C16_split_partition`) exactly these request properties are path parameters of the client method
and `page` / `query` are query parameters -/
theorem C16_entity_key_paths (pkg : Str) (e : J5V.Compile.Entity)
    (hbase : ∀ c ∈ splitOnByte 47 (entityQueryBase pkg e), paramName? c = none)
    (hkeys : ∀ k ∈ e.keys, (47 : Nat) ∉ k.prop.name) :
    let base := some (entityQueryBase pkg e)
    pathParamNames (resolvedPath base (entityGetDecl e).path) = propNames (J5V.Compile.Entity.getKeys e)
    ∧ pathParamNames (resolvedPath base (entityListDecl e).path) = propNames (J5V.Compile.Entity.listKeys e)
    ∧ pathParamNames (resolvedPath base (entityEventsDecl e).path) = propNames (J5V.Compile.Entity.getKeys e) := by
  have hget : ∀ k ∈ J5V.Compile.Entity.getKeys e, (47 : Nat) ∉ k.name := by
    intro k hk
    simp only [J5V.Compile.Entity.getKeys, List.mem_filterMap] at hk
    obtain ⟨kd, hkd, hsome⟩ := hk
    have := hkeys kd hkd
    split at hsome
    · cases hsome; exact this
    · split at hsome
      · cases hsome; exact this
      · cases hsome
    · cases hsome
  have hlist : ∀ k ∈ J5V.Compile.Entity.listKeys e, (47 : Nat) ∉ k.name := by
    intro k hk
    simp only [J5V.Compile.Entity.listKeys, List.mem_filterMap] at hk
    obtain ⟨kd, hkd, hsome⟩ := hk
    have := hkeys kd hkd
    split at hsome
    · split at hsome
      · cases hsome; exact this
      · cases hsome
    · cases hsome
  have hb := entityQueryBase_ne_nil pkg e
  refine ⟨?_, ?_, ?_⟩
  · have := entity_path_params (entityQueryBase pkg e) (J5V.Compile.Entity.getKeys e) [] hb hbase hget
      (by intro t ht; simp at ht)
    simpa [entityGetDecl] using this
  · have := entity_path_params (entityQueryBase pkg e) (J5V.Compile.Entity.listKeys e) [] hb hbase hlist
      (by intro t ht; simp at ht)
    simpa [entityListDecl] using this
  · have := entity_path_params (entityQueryBase pkg e) (J5V.Compile.Entity.getKeys e) [b!"events"] hb hbase hget
      (by
        intro t ht
        simp at ht; subst ht
        exact ⟨⟨⟨by decide, by decide, by decide⟩, by decide⟩, rfl⟩)
    simpa [entityEventsDecl] using this

/-- an entity with one event (non-vacuity of `C16_entity_events_partial`) -/
def exampleEntityWithEvent : J5V.Compile.Entity :=
  { name := b!"Foo", baseUrl := [], keys := [], data := [], statuses := [], events := [.mk b!"Create" [] [] none],
    commands := [], summaries := [], query := none, nested := [] }

/-- full strength: the event oneof every entity expands to is a valid proto oneof -/
def EntityEventsFull : Prop := ∀ e : J5V.Compile.Entity, eventOneofValid e = true

/-- false of the code as it is (open finding `api:err:empty-event-oneof`, the C16 face of C17's open
finding): an entity without events compiles, its `…EventType` message has an empty oneof, and
`structure.APIFromImage` refuses the image (replay: the corpus op `chain foo.v1 0 0 0 1 Foo … 0 0`) -/
theorem C16_entity_events_counterexample : ¬ EntityEventsFull := by
  intro h
  have := h { name := b!"Foo", baseUrl := [], keys := [], data := [], statuses := [], events := [], commands := [],
              summaries := [], query := none, nested := [] }
  revert this
  decide

/-- … and holds for every entity that declares at least one event -/
theorem C16_entity_events_partial (e : J5V.Compile.Entity) (h : e.events ≠ []) : eventOneofValid e = true := by
  unfold eventOneofValid J5V.Compile.Entity.eventOneof
  cases he : e.events with
  | nil => exact absurd he h
  | cons a rest => simp [J5V.Compile.ObjDecl.props]

example : exampleEntityWithEvent.events ≠ [] := by decide

/-! ## schemas of the client API -/

/-- `collectPackageRefs` over the client view terminates for every schema graph and package -/
theorem C16_client_schemas_terminates (g : Graph) (p : PackageRoots) : ∃ r, clientSchemas g p = some r :=
  Option.isSome_iff_exists.mp (clientSchemas_isSome g p)

/-- **Every schema reachable from a method or entity is present in the client API**
(`C16_refs_complete` lifted to the package): for every method of the package — of a declared
service, of an entity's query service or command services — and every request or response
property of it, and for every property of an entity's keys, state and event schemas, whatever is
reachable through object / oneof / enum references (directly, in arrays, in maps; objects seen
through their client properties) is in the schema set the client API gets. -/
theorem C16_client_schemas_complete (g cg : Graph) (p : PackageRoots) (s : List Nat)
    (hcg : clientGraph g = some (.ok cg)) (h : clientSchemas g p = some (.ok s)) :
    (∀ m ∈ p.methods, ∀ f ∈ m.fields, ∀ n, Reach cg [f] n → n ∈ s)
    ∧ (∀ e ∈ p.entities, ∀ f ∈ e.keys ++ e.state ++ e.event, ∀ n, Reach cg [f] n → n ∈ s) := by
  have hall := clientSchemas_complete g cg p s hcg h
  constructor
  · intro m hm f hf n hr
    exact hall n (hr.mono (by
      intro x hx
      have hxf : x = f := by simpa using hx
      rw [hxf]; exact mem_fields_of_method p m hm f hf))
  · intro e he f hf n hr
    exact hall n (hr.mono (by
      intro x hx
      have hxf : x = f := by simpa using hx
      rw [hxf]; exact mem_fields_of_entity p e he f hf))

/-- on a `FlatLinked` schema set the schema set is computed (no error, no panic) -/
theorem C16_client_schemas_total (g : Graph) (p : PackageRoots) (hf : FlatLinked g) :
    ∃ cg s, clientGraph g = some (.ok cg) ∧ clientSchemas g p = some (.ok s) :=
  clientSchemas_ok g p hf

/-! ## J5 JSON rendering of the client API — interface only

`codec.ProtoToJSON(client API)` is the codec cluster's model (C01 / C08: what the encoder writes for
a message of a given schema, and that it is well-formed JSON). C16 adds nothing to it: the client
API is an ordinary `j5.client.v1.API` message (objects, oneofs, enums, arrays, maps, strings, a
timestamp), and the `pipe.chain` stream checks on every generated package that the stage returns
without error or panic and that its output is well-formed JSON (`json.Valid`). No theorem here. -/

/-! ## OpenAPI paths -/

/-- **Path grouping of `BuildSwagger`** (`addMethod`'s loop + `OrderedMap`): for every list of
operations, every operation is in the document under its own path; no path key occurs twice in
the `paths` object; a path item holds only operations of its path; nothing is lost or duplicated. -/
theorem C16_swagger_paths (ops : List SOp) :
    let items := groupOps ops
    (∀ o ∈ ops, ∃ item ∈ items, PathItem.key item = o.path ∧ o ∈ item)
    ∧ (items.map PathItem.key).Nodup
    ∧ (∀ item ∈ items, item ≠ [] ∧ ∀ o ∈ item, o.path = PathItem.key item)
    ∧ items.flatten.Perm ops := by
  obtain ⟨hinv, hmem, hperm⟩ := foldl_addOp_spec ops [] ⟨by simp, by simp, by simp⟩
  refine ⟨fun o ho => hmem o (Or.inr ho), hinv.nodup, fun item hi => ⟨hinv.nonempty item hi, hinv.same item hi⟩, ?_⟩
  simpa [groupOps] using hperm

/-! ## Non-vacuity -/

/-- a service with a base path, a parameter whose JSON name is not the protoc default
(`barID` ↔ `bar_id`), a snake-case name, a trailing slash and a method without response -/
def exampleService : ServiceDecl :=
  { name := b!"Foo", base := some b!"/foo/v1/",
    methods := [
      { name := b!"GetFoo", verb := .get, path := b!"/bars/:barID/x/:foo_bar", req := [b!"q", b!"barID", b!"foo_bar"], hasResp := true },
      { name := b!"Download", verb := .post, path := b!"dl/:id", req := [b!"id", b!"body"], hasResp := false }] }

example : ValidService exampleService := by decide
example : chainService b!"foo.v1.service" exampleService = .ok (declaredService exampleService) :=
  C16_client_exact_valid _ _ (by decide)
example : (compileService b!"foo.v1.service" exampleService).isOk = true ∧
    ∀ m ∈ exampleService.methods, SnakeInjective m.req := by decide
/-- … and the declared client really has the resolved path and the split one expects -/
example : (declaredService exampleService).methods.map (fun m => (m.path, m.request)) =
    [(b!"/foo/v1/bars/:barID/x/:foo_bar", { path := [b!"barID", b!"foo_bar"], query := [b!"q"], body := none }),
     (b!"/foo/v1/dl/:id", { path := [b!"id"], query := [], body := some [b!"body"] })] := by decide
example : rewrite [b!"q", b!"barID"] b!"/bars/:barID" = .ok b!"/bars/{bar_id}" := by decide
example : LiteralsClean b!"/bars/:barID/x" ∧ SnakeInjective [b!"q", b!"barID"] := by decide
example : ¬ LiteralsClean b!"/files/*" := by decide
example : ¬ SnakeInjective [b!"fooId", b!"foo_id"] := by decide

example : (SField.objInline [.key, .array (.map .timestamp), .oneofInline [.bytes, .decimal, .enumRef], .date]).wellFormed = true := by
  decide
example : convertSchema (.array (.objInline [.str, .oneofUnset])) = .err "unknown-schema-type" := by decide
example : convertSchema (.map .nil) = .panic "nil-pointer" := by decide

/-- a graph with a self loop, a two-cycle through a oneof, an enum leaf and an array edge -/
def exampleGraph : Graph :=
  [ { kind := .object, props := [{ name := b!"name", field := .scalar }, { name := b!"self", field := .object 0 },
                                 { name := b!"alt", field := .oneof 1 }] },
    { kind := .oneof, props := [{ name := b!"back", field := .object 0 }, { name := b!"kind", field := .enum 2 },
                                { name := b!"many", field := .array (.object 3) }] },
    { kind := .enum, props := [] },
    { kind := .object, props := [{ name := b!"x", field := .scalar }] } ]

example : (walk exampleGraph 0).map (fun o => o.map (fun vs => vs.map (·.path))) =
    some (.ok [[b!"name"], [b!"self"], [b!"alt"], [b!"alt", b!"back"], [b!"alt", b!"kind"], [b!"alt", b!"many"]]) := by
  decide
example : Linked exampleGraph := by decide
example : (linkAll exampleGraph).map (·.isOk) = some true := by decide
example : (linkAll [{ kind := .object, props := [{ name := b!"a", field := .array (.object 7) }] }]).map (·.isErr) =
    some true := by decide
example : collect exampleGraph [.object 0] = some [3, 2, 1, 0] := by decide
example : Reach exampleGraph [.object 0] 3 :=
  .step (.step (.root (f := .object 0) (by simp) rfl (by decide)) ⟨_, rfl, _, by simp [Node.walkProps]; exact Or.inr (Or.inr rfl), rfl, by decide⟩)
    ⟨_, rfl, { name := b!"many", field := .array (.object 3) }, by simp [Node.walkProps], rfl, by decide⟩

/-! ### flatten, list request, client schemas -/

/-- `A { name, self: flatten A, b: flatten B, plain: C }`, `B { bName (searchable), back: flatten A, c: flatten C }`,
`C { cName (searchable) }`: an object flattening itself, two objects flattening each other, a
plain nested object -/
def flatGraph : Graph :=
  [ { kind := .object, props := [{ name := b!"name", field := .scalar },
                                 { name := b!"self", field := .object 0, flat := true },
                                 { name := b!"b", field := .object 1, flat := true },
                                 { name := b!"plain", field := .object 2 }] },
    { kind := .object, props := [{ name := b!"bName", field := .scalar, tag := 4 },
                                 { name := b!"back", field := .object 0, flat := true },
                                 { name := b!"c", field := .object 2, flat := true }] },
    { kind := .object, props := [{ name := b!"cName", field := .scalar, tag := 4 }] } ]

example : FlatLinked flatGraph ∧ Linked flatGraph ∧ NoBadDefaults flatGraph := by decide
/-- the client view: `self` stays a nested object (A is being flattened), `b` expands to B's client
properties, in which `back` stays nested and `c` expands -/
example : (clientGraph flatGraph).map (fun o => o.map (fun cg => cg.map (fun n => n.props.map (·.name)))) =
    some (.ok [[b!"name", b!"self", b!"bName", b!"back", b!"cName", b!"plain"],
               [b!"bName", b!"name", b!"self", b!"b", b!"plain", b!"cName"],
               [b!"cName"]]) := by decide
/-- an unlinked flattened field is the nil dereference of `propType.Schema()` -/
example : clientGraph [{ kind := .object, props := [{ name := b!"x", field := .object 5, flat := true }] }]
    = some (.panic "nil-schema") := by decide
example : ¬ FlatLinked [{ kind := .object, props := [{ name := b!"x", field := .object 5, flat := true }] }] := by
  decide

/-- list method over `A`: response `{ items: array of A, page: object (unlinked: another package) }` -/
def flatResponse : List Prop' :=
  [{ name := b!"items", field := .array (.object 0) }, { name := b!"page", field := .scalar }]

example : compileListShapeOk (some flatResponse) = true ∧ ItemRefsOk flatGraph flatResponse
    ∧ ListShaped flatGraph (some flatResponse) = true := by
  refine ⟨by decide, ?_, by decide⟩
  intro r hr
  have : r = 0 := by simpa [flatResponse, arrayElems] using hr
  subst this
  exact ⟨_, rfl, rfl⟩
example : buildListRequest flatGraph (some flatResponse) =
    some (.ok { filter := [], sort := [], search := [[b!"bName"], [b!"cName"], [b!"plain", b!"cName"]] }) := by
  decide
example : buildListRequest flatGraph none = some (.err "no-response-body") := by decide
example : buildListRequest flatGraph (some [{ name := b!"a", field := .array (.object 0) },
    { name := b!"b", field := .array .scalar }]) = some (.err "found-multiple-arrays") := by decide
example : buildListRequest flatGraph (some [{ name := b!"b", field := .array .scalar }])
    = some (.err "expected-object-schema") := by decide
example : Resolves flatGraph 0 [b!"plain", b!"cName"] .scalar 4 :=
  .deeper (p := { name := b!"plain", field := .object 2 }) rfl (by simp [Node.walkProps]) rfl
    (.leaf (p := { name := b!"cName", field := .scalar, tag := 4 }) rfl (by simp [Node.walkProps]))

example : fillRequestFlat true b!"/as/:x" [{ name := b!"b", flat := some [b!"bName", b!"cName"] }, { name := b!"x" }]
    = { path := [b!"x"], query := [], body := some [b!"bName", b!"cName"] } := by decide

/-- a package with one declared method and one entity over `flatGraph` -/
def examplePackage : PackageRoots :=
  { entities := [{ keys := [.scalar], state := [.object 1], event := [.oneof 7], query := [{ request := [.scalar], response := some [.object 2] }],
                   commands := [] }],
    services := [[{ request := [.scalar, .map (.object 2)], response := none }]] }

example : clientSchemas flatGraph examplePackage = some (.ok [2, 0, 1]) := by decide
example : ∃ cg, clientGraph flatGraph = some (.ok cg) ∧ Reach cg [.object 1] 0 := by
  obtain ⟨cg, hcg, hv⟩ := clientGraph_ok flatGraph (by decide)
  refine ⟨cg, hcg, ?_⟩
  have hcg' : clientGraph flatGraph = some (.ok
    [ { kind := .object, props := [{ name := b!"name", field := .scalar }, { name := b!"self", field := .object 0, flat := true },
        { name := b!"bName", field := .scalar, tag := 4 }, { name := b!"back", field := .object 0, flat := true },
        { name := b!"cName", field := .scalar, tag := 4 }, { name := b!"plain", field := .object 2 }] },
      { kind := .object, props := [{ name := b!"bName", field := .scalar, tag := 4 }, { name := b!"name", field := .scalar },
        { name := b!"self", field := .object 0, flat := true }, { name := b!"b", field := .object 1, flat := true },
        { name := b!"plain", field := .object 2 }, { name := b!"cName", field := .scalar, tag := 4 }] },
      { kind := .object, props := [{ name := b!"cName", field := .scalar, tag := 4 }] } ]) := by decide
  rw [hcg'] at hcg
  cases hcg
  exact .step (.root (f := .object 1) (by simp) rfl (by decide))
    ⟨_, rfl, { name := b!"self", field := .object 0, flat := true }, by simp [Node.walkProps], rfl, by decide⟩

/-! ### entities -/

/-- `entity Foo { key fooId key:id62 { primary = true }  key accountId key:id62 (shard)  … }` in `foo.v1`,
with one command service -/
def exampleEntity : J5V.Compile.Entity :=
  { name := b!"Foo", baseUrl := [],
    keys := [{ prop := .mk b!"fooId" true false (.key .id62 (.ek (.primary true) none) [] false), shard := false },
             { prop := .mk b!"accountId" false false (.key .id62 .nokey [] false), shard := true }],
    data := [], statuses := [b!"ACTIVE"], events := [],
    commands := [{ name := some b!"Foo", basePath := none,
                   methods := [{ name := b!"CreateFoo", verb := .post, path := b!"/:fooId/create",
                                 request := some [.mk b!"fooId" true false (.string [] false), .mk b!"name" false false (.string [] false)],
                                 response := some [] }] }],
    summaries := [], query := none, nested := [] }

example : (entityServiceDecls b!"foo.v1" exampleEntity).map (·.name) = [b!"FooQuery", b!"FooCommand"] := by decide
example : (∀ s ∈ entityServiceDecls b!"foo.v1" exampleEntity, ∀ m ∈ s.methods, SnakeInjective m.req)
    ∧ ∀ s ∈ entityServiceDecls b!"foo.v1" exampleEntity, (compileService b!"foo.v1.service" s).isOk = true := by
  decide
/-- … and the client services are what one expects: keys in the path, `page` / `query` in the query -/
example : ((entityServiceDecls b!"foo.v1" exampleEntity).map declaredService).map
      (fun s => (s.name, s.methods.map (fun m => (m.name, m.path, m.request)))) =
    [(b!"FooQueryService",
       [(b!"FooGet", b!"/foo/v1/foo/q/:fooId/:accountId", { path := [b!"fooId", b!"accountId"], query := [], body := none }),
        (b!"FooList", b!"/foo/v1/foo/q/:accountId", { path := [b!"accountId"], query := [b!"page", b!"query"], body := none }),
        (b!"FooEvents", b!"/foo/v1/foo/q/:fooId/:accountId/events",
          { path := [b!"fooId", b!"accountId"], query := [b!"page", b!"query"], body := none })]),
     (b!"FooCommandService",
       [(b!"CreateFoo", b!"/foo/v1/foo/c/:fooId/create", { path := [b!"fooId"], query := [], body := some [b!"name"] })])] := by
  decide
example : (∀ c ∈ splitOnByte 47 (entityQueryBase b!"foo.v1" exampleEntity), paramName? c = none)
    ∧ ∀ k ∈ exampleEntity.keys, (47 : Nat) ∉ k.prop.name := by decide

/-! ### OpenAPI paths -/
example : groupOps [{ verb := "get", path := b!"/a" }, { verb := "post", path := b!"/b" }, { verb := "put", path := b!"/a" }] =
    [[{ verb := "get", path := b!"/a" }, { verb := "put", path := b!"/a" }], [{ verb := "post", path := b!"/b" }]] := by
  decide

/-! ## the OpenAPI document: `BuildSwagger` on the client API (`Pipe/SwaggerDoc.lean`) -/

/-- **The document is built for every client API of the model's type** (partial: see scope).
Scope: `ClientAPI` can only hold fields that are scalars or *references* (`Field.toSField` sends
every object / oneof / enum field to `…Ref`, every scalar to `.str`) and a `Request` that is always
there. The inputs on which the Go code returns an error or panics — a field whose `type` oneof is
unset (`unknown schema type`, convert.go `default:` arms), an enum / object / oneof field whose
`schema` oneof is unset, a root schema of no kind (`expected root schema`), a nil `*Field`, a nil
`method.Request` — are not values of this type: for them the error arms are unreachable *by the
input type*, not by this proof. That `j5client` only ever emits reference-or-scalar fields and a
non-nil request is read from `ObjectField/OneofField/EnumField.ToJ5Field()` and `Method.ToJ5Proto`
and validated by the correspondence stream; the version over the proto-level input type, where the
error arms ARE reachable and `ToJ5Proto` is a function whose image is proved well formed, is
`C16_swagger_document_total` below; for single fields it is `C16_swagger_convert_total` (`convertSchema f = .ok ↔ f.wellFormed`), and
`Field.toSField_wf` is the one-line bridge. Statement: `buildSwagger` (= `BuildSwagger` +
`addService` + `addMethod` + `ConvertRootSchema` over `convertSchema`) returns `.ok` — no error
arm, no panic arm — for *every* `ClientAPI` value: any services, methods, parameters, bodies (or
none: raw responses), any schema map, over any schema graph (recursive, unlinked references
included: references are leaves for `convertSchema`). And the document is what it should be:
its operations are exactly the operations of the methods of the declared services, each with the
method's verb and path, parameters = path parameters (`in: path`, required) then query parameters
(`in: query`) by name and in order, a request body / a response content iff the method has one, with
the same set of property names, each once (`Properties` is a Go map: a later property replaces an
earlier one of the same name — `lastWins`); the paths object is `groupOps` of the methods' (verb, path) list (so
`C16_swagger_paths` applies to it); the component keys are the keys of the schema map. -/
theorem C16_swagger_document_total_partial (api : ClientAPI) :
    ∃ doc, buildSwagger api = .ok doc ∧
      (∀ o, o ∈ doc.paths.flatten ↔
        ∃ s ∈ api.services, ∃ m ∈ s.methods, buildOperation s.name m = .ok o ∧ OperationOf s.name m o) ∧
      doc.paths.map (·.map DOperation.toSOp) = groupOps api.sops ∧
      doc.componentKeys = api.schemas.map (·.1) := by
  obtain ⟨doc, hdoc, hops, hkeys, _⟩ := buildSwagger_ok api
  refine ⟨doc, hdoc, ?_, buildSwagger_paths api doc hdoc, hkeys⟩
  intro o
  rw [hops o]
  constructor
  · rintro ⟨s, hs, m, hm, h⟩
    obtain ⟨o', ho', hof⟩ := buildOperation_ok s.name m
    rw [h] at ho'; cases ho'
    exact ⟨s, hs, m, hm, h, hof⟩
  · rintro ⟨s, hs, m, hm, h, _⟩
    exact ⟨s, hs, m, hm, h⟩

/-- **Every `$ref` of the document names a component that is present.** For the client API the
model's client builder produces (`buildClient`: request split, bodies and responses through
`ToJ5ClientObject()`, schema map = `collectPackageRefs` over the client view, any entities beside
the declared services) from a schema set whose references are linked (`RefsLinked` on the client
view, `PropsLinked` for the request / response messages: what `assertRefsLink` establishes for a
source API), every reference anywhere in the document — parameters, request bodies (flattened
fields expanded), responses, and the properties of every component, through arrays and maps, enum
references included — is the key of a component of `components.schemas`. -/
theorem C16_swagger_refs_resolve (g cg : Graph) (services : List ServiceIn) (entities : List EntityRoots)
    (api : ClientAPI) (doc : Document)
    (hcg : clientGraph g = some (.ok cg)) (hl : RefsLinked cg)
    (hm : ∀ s ∈ services, ∀ m ∈ s.methods, PropsLinked cg (m.req ++ m.resp.getD []))
    (hb : buildClient g services entities = some (.ok api)) (hd : buildSwagger api = .ok doc) :
    ∀ r ∈ doc.refs, r ∈ doc.componentKeys :=
  swagger_refs_resolve g cg services entities api doc hcg hl hm hb hd

/-- a service over `flatGraph`: `POST /as/:x` with a flattened `B` in the body and a response
holding an array of `A`; `GET /as/:x` (same path: one path item) with a query parameter referring
to `C` and no response body -/
def exampleServices : List ServiceIn :=
  [{ name := b!"AService", methods :=
      [{ name := b!"Put", verb := .post, path := b!"/as/:x",
         req := [{ name := b!"x", field := .scalar }, { name := b!"b", field := .object 1, flat := true }],
         resp := some [{ name := b!"items", field := .array (.object 0) }] },
       { name := b!"Get", verb := .get, path := b!"/as/:x",
         req := [{ name := b!"x", field := .scalar }, { name := b!"c", field := .map (.object 2) }],
         resp := none }] }]

def exampleCG : Graph := match clientGraph flatGraph with | some (.ok cg) => cg | _ => []
def exampleApi : ClientAPI := match buildClient flatGraph exampleServices [] with
  | some (.ok api) => api | _ => { services := [], schemas := [] }
def exampleDoc : Document := match buildSwagger exampleApi with | .ok d => d | _ => { paths := [], components := [] }

/-- the hypotheses of `C16_swagger_refs_resolve` hold for it, the document exists, has one path item
with both operations, the body of `Put` shows B's client properties, and its references are 0, 1, 2 -/
example : clientGraph flatGraph = some (.ok exampleCG) ∧ RefsLinked exampleCG ∧
    (∀ s ∈ exampleServices, ∀ m ∈ s.methods, PropsLinked exampleCG (m.req ++ m.resp.getD [])) ∧
    buildClient flatGraph exampleServices [] = some (.ok exampleApi) ∧ buildSwagger exampleApi = .ok exampleDoc ∧
    exampleDoc.paths.map (·.map (·.verb.lower)) = [["post", "get"]] ∧
    exampleDoc.paths.flatten.map (fun o => o.params.map (·.name)) = [[b!"x"], [b!"x", b!"c"]] ∧
    exampleDoc.paths.flatten.map (fun o => (o.body.getD []).map (·.1)) =
      [[b!"bName", b!"name", b!"self", b!"b", b!"plain", b!"cName"], []] ∧
    exampleDoc.paths.flatten.map (·.response.isSome) = [true, false] ∧
    exampleDoc.refs.eraseDups = [0, 1, 2] ∧ exampleDoc.componentKeys = [2, 0, 1] := by
  refine ⟨by decide, by decide, ?_, by decide, by decide, by decide, by decide, by decide, by decide, by decide, by decide⟩
  intro s hs m hm
  simp only [exampleServices, List.mem_singleton] at hs
  subst hs
  simp only [List.mem_cons, List.not_mem_nil, or_false] at hm
  rcases hm with rfl | rfl <;> decide

/-- two body properties of one name (a flattened child named like a sibling): the later one is kept -/
example : lastWins [(b!"a", ⟨"string", none⟩), (b!"b", ⟨"ref", some 1⟩), (b!"a", ⟨"ref", some 2⟩)] =
    [(b!"b", ⟨"ref", some 1⟩), (b!"a", ⟨"ref", some 2⟩)] := by decide

/-- an unlinked reference (another API's schema) is a dangling `$ref`: the hypothesis is needed -/
def danglingServices : List ServiceIn :=
  [{ name := b!"S", methods :=
      [{ name := b!"M", verb := .get, path := b!"/m", req := [{ name := b!"q", field := .object 9 }], resp := none }] }]
example : (match buildClient [] danglingServices [] with
    | some (.ok api) => (match buildSwagger api with | .ok doc => some (doc.refs, doc.componentKeys) | _ => none)
    | _ => none) = some ([9], []) := by
  decide

/-- **The model's client builder is total** on schema sets in which `flatten` only sits on fields
whose object is in the set (`FlatLinked`, `ServicesFlatOk`: what the schema reader produces), for
any services, methods and entities; and every method of the result is the declared method: name,
verb, path, path / query parameter names = `fillRequest`'s split (`C16_split_partition`,
`C16_split_path_params` apply), a body iff the verb has one, a response iff one is declared. -/
theorem C16_client_build_total (g : Graph) (hl : FlatLinked g) (services : List ServiceIn)
    (entities : List EntityRoots) (hs : ServicesFlatOk g services) :
    (∃ api, buildClient g services entities = some (.ok api) ∧ api.services.length = services.length) ∧
    ∀ s ∈ services, ∀ m ∈ s.methods, ∃ am, buildMethod g m = some (.ok am) ∧
      am.name = m.name ∧ am.verb = m.verb ∧ am.path = m.path ∧
      am.pathParams.map (·.name) = (fillRequest m.verb.hasBody m.path (m.req.map (·.name))).path ∧
      am.queryParams.map (·.name) = (fillRequest m.verb.hasBody m.path (m.req.map (·.name))).query ∧
      am.body.isSome = m.verb.hasBody ∧ am.response.isSome = m.resp.isSome :=
  ⟨buildClient_ok g hl services entities hs,
   fun s hsm m hmm => buildMethod_ok g hl m (hs s hsm m hmm).1 (hs s hsm m hmm).2⟩

/-- **Every reference of the client API names a schema of its schema map** — what the J5 JSON
rendering of the API (`codec.ProtoToJSON`, field by field) shows: parameters, request bodies
(flattened fields expanded), responses and the properties of every schema, through arrays and
maps, enum references included. Same hypotheses as `C16_swagger_refs_resolve`. (The converse
direction — every reachable schema is present — is `C16_client_schemas_complete`.) -/
theorem C16_client_refs_resolve (g cg : Graph) (services : List ServiceIn) (entities : List EntityRoots)
    (api : ClientAPI)
    (hcg : clientGraph g = some (.ok cg)) (hl : RefsLinked cg)
    (hm : ∀ s ∈ services, ∀ m ∈ s.methods, PropsLinked cg (m.req ++ m.resp.getD []))
    (hb : buildClient g services entities = some (.ok api)) :
    ∀ r ∈ api.refs, r ∈ api.schemaKeys :=
  client_refs_resolve g cg services entities api hcg hl hm hb

/-- **Source set to document, composed** (partial in the same sense as
`C16_swagger_document_total_partial`: over the model's client-API type): for a `FlatLinked` schema set with linked references and
any declared services / entities, the client API exists, the document exists, and every `$ref` of
the document names one of its components. -/
theorem C16_swagger_chain_partial (g : Graph) (hfl : FlatLinked g) (services : List ServiceIn)
    (entities : List EntityRoots) (hs : ServicesFlatOk g services)
    (hl : ∀ cg, clientGraph g = some (.ok cg) → RefsLinked cg ∧
      ∀ s ∈ services, ∀ m ∈ s.methods, PropsLinked cg (m.req ++ m.resp.getD [])) :
    ∃ api doc, buildClient g services entities = some (.ok api) ∧ buildSwagger api = .ok doc ∧
      ∀ r ∈ doc.refs, r ∈ doc.componentKeys := by
  obtain ⟨api, hapi, _⟩ := buildClient_ok g hfl services entities hs
  obtain ⟨doc, hdoc, _⟩ := buildSwagger_ok api
  obtain ⟨cg, hcg, _⟩ := clientGraph_ok g hfl
  obtain ⟨h1, h2⟩ := hl cg hcg
  exact ⟨api, doc, hapi, hdoc, swagger_refs_resolve g cg services entities api doc hcg h1 h2 hapi hdoc⟩

example : ServicesFlatOk flatGraph exampleServices ∧ exampleApi.refs.eraseDups = [0, 1, 2] ∧
    exampleApi.schemaKeys = [2, 0, 1] := by
  refine ⟨?_, by decide, by decide⟩
  intro s hs m hm
  simp only [exampleServices, List.mem_singleton] at hs
  subst hs
  simp only [List.mem_cons, List.not_mem_nil, or_false] at hm
  rcases hm with rfl | rfl <;> decide

/-! ### the array search is over the response's *own* properties, on both sides

`checkListMethod` (compiler) and `buildListRequest` (client) both look for the one array among
`Response.Properties` / `responseObj.Properties` — `arrayElems` on the declared properties, not on
`ClientProperties()`. That both do is what `C16_list_shape_accepted` rests on: a flattened object
field of the response that holds an array is invisible to both. (Seeded change C16-m8 made the
client side range over the client properties.) -/

/-- `A { name }`, `Env { tags: array of scalar }`; response `{ env: flatten Env, items: array of A }` -/
def envelopeGraph : Graph :=
  [ { kind := .object, props := [{ name := b!"name", field := .scalar, tag := 4 }] },
    { kind := .object, props := [{ name := b!"tags", field := .array .scalar }] } ]
def envelopeResponse : List Prop' :=
  [{ name := b!"env", field := .object 1, flat := true }, { name := b!"items", field := .array (.object 0) }]

/-- the compiler accepts the envelope response, `buildListRequest` builds the list request from it;
the same search over the response's client properties (where `tags` shows) would refuse it -/
theorem C16_list_shape_own_properties :
    compileListShapeOk (some envelopeResponse) = true
    ∧ buildListRequest envelopeGraph (some envelopeResponse) = some (.ok { filter := [], sort := [], search := [[b!"name"]] })
    ∧ (clientMessageProps envelopeGraph envelopeResponse).map (fun o => o.bind (listItemSchema envelopeGraph))
        = some (.err "found-multiple-arrays") := by
  decide

/-! ### the proto level: the input type on which `BuildSwagger`'s error and panic arms are reachable
(`Pipe/SwaggerProto.lean`) -/

/-- **`BuildSwagger` is total on well-formed proto-level input.** `PApi` is `client_j5pb.API` as far
as `BuildSwagger` reads it, with every shape a `schema_j5pb.Field` can have (inline schemas, unset
`type` / `schema` oneofs, nil), a request that may be nil and a root schema of no kind; `PApi.wf`
(decidable) = every field `wellFormed`, every request present, every root schema of a kind. On such
input the function returns, the paths grouped by `groupOps`, the component keys the keys of the
schema maps. (Only this direction is proved; that each ill-formed shape does fail is shown by the
examples below, not as an `↔`.) -/
theorem C16_swagger_proto_total (a : PApi) (h : a.wf = true) :
    buildSwaggerP a = .ok (groupOps (a.services.flatMap fun s => s.methods.map PMethod.toSOp), a.schemas.map (·.1)) :=
  buildSwaggerP_ok a h

/-- **The document is built for every client API the client builder's type can hold, as a proto
value.** `ClientAPI.toProto` = `API.ToJ5Proto()` (`ToJ5Field()` of object / oneof / enum fields builds
the `…_Ref` wrapper, `Method.ToJ5Proto` always sets `Request`, `ToJ5ClientRoot()` the wrapper of the
schema's kind — read from `lib/j5schema/field_schema.go`, `root_schema.go`, `internal/j5client/j5package.go`,
validated by the stream): its result is `PApi.wf`, so none of the reachable error / panic arms is
taken. This replaces the input-type argument of `C16_swagger_document_total_partial` by a proof about
`toProto`; what stays by correspondence is that `toProto` is what `ToJ5Proto` does. -/
theorem C16_swagger_document_total (api : ClientAPI) :
    api.toProto.wf = true ∧ buildSwaggerP api.toProto = .ok (groupOps api.sops, api.schemas.map (·.1)) := by
  have h := ClientAPI.toProto_wf api
  refine ⟨h, ?_⟩
  rw [buildSwaggerP_ok _ h, ClientAPI.toProto_sops]
  simp [ClientAPI.toProto]

/-- the arms are reachable on the proto-level type: an unset field type in a query parameter, a nil
request, a root schema of no kind, a nil field inside an inline object of a body, an unset enum
schema in a component — and a well-formed inline object is fine -/
def protoApiOf (r : Option PRequest) : PApi :=
  { services := [{ name := b!"S", methods :=
      [{ name := b!"M", verb := .get, path := b!"/m", request := r, responseBody := none }] }], schemas := [] }

example :
    buildSwaggerP (protoApiOf (some { pathParameters := [], queryParameters := [⟨b!"q", .unset⟩], body := none })) = .err "unknown-schema-type"
    ∧ buildSwaggerP (protoApiOf none) = .panic "nil-pointer"
    ∧ buildSwaggerP { services := [], schemas := [(0, .unset)] } = .err "expected-root-schema"
    ∧ buildSwaggerP (protoApiOf (some { pathParameters := [], queryParameters := [], body := some [⟨b!"b", .objInline [.str, .nil]⟩] })) = .panic "nil-pointer"
    ∧ buildSwaggerP { services := [], schemas := [(0, .object [⟨b!"e", .enumUnset⟩])] } = .err "unknown-schema-type"
    ∧ buildSwaggerP (protoApiOf (some { pathParameters := [], queryParameters := [], body := some [⟨b!"b", .objInline [.str, .array .enumInline]⟩] }))
        = .ok ([[{ verb := "get", path := b!"/m" }]], []) := by
  refine ⟨by decide, by decide, by decide, by decide, by decide, by decide⟩

example : exampleApi.toProto.wf = true ∧ (buildSwaggerP exampleApi.toProto).isOk = true := by decide

end J5V.Props.C16

/-! ## Obligations over facts regenerated from the current source (`extract -what pipe`) -/
namespace J5V.Props.C16
open J5V.Generated.Pipe

/-- `convertSchema` has an arm for every member of the oneof `j5.schema.v1.Field.type`
(so the `default: unknown schema type for swagger` arm is unreachable for well-formed input). -/
theorem C16_src_swagger_arms : ∀ m ∈ fieldOneofMembers, m ∈ convertSchemaArms := by decide

/-- the oneof has the fifteen members the models and the generator know about -/
theorem C16_src_field_members : fieldOneofMembers =
    ["Field_Any", "Field_Array", "Field_Bool", "Field_Bytes", "Field_Date", "Field_Decimal", "Field_Enum",
     "Field_Float", "Field_Integer", "Field_Key", "Field_Map", "Field_Object", "Field_Oneof", "Field_String_",
     "Field_Timestamp"] := by decide

/-- every arm of the two switches names a member of the oneof (no stale or foreign arm) -/
theorem C16_src_arms_known :
    (∀ a ∈ convertSchemaArms, a ∈ fieldOneofMembers) ∧ (∀ a ∈ listRequestArms, a ∈ fieldOneofMembers) := by
  decide

/-- the consumer's tests are the ones `Names.classify`, `acceptMethod`, `acceptTopicMethod` and
`unrewritePart` hard-code -/
theorem C16_src_consumer_names :
    consumerSuffixTests = ["Service", "Sandbox", "Events", "Topic"]
    ∧ consumerMethodConcats = ["Request", "Response"] ∧ consumerMethodFullNames = ["google.api.HttpBody"]
    ∧ consumerTopicConcats = ["Message"] ∧ consumerTopicFullNames = ["google.protobuf.Empty"]
    ∧ consumerSpecialChars = "{}*:" ∧ consumerPathByteTests = ["'{'", "'}'"] := by decide

/-- the producer's formats are the ones `serviceName`, `requestName`, … and `rewritePart` hard-code -/
theorem C16_src_producer_names :
    producerServiceFormats = ["%sRequest", "google.api.HttpBody", "%sResponse", "Service"]
    ∧ producerTopicFormats = ["%sMessage", "%sTopic"]
    ∧ producerRewriteFacts = ["strings.Split \"/\"", "strings.HasPrefix \":\"", "strcase.ToSnake <*ast.SliceExpr>",
        "assign {}", "strings.ContainsAny \"{}*:\"", "strings.Join \"/\""] := by decide

/-- `methodFromSource` / `fillRequest` read the verb, the raw-response marker and the path the way
`Verb.hasBody`, `isRawResponse` and `pathParamNames` do -/
theorem C16_src_client :
    clientHasBodyExpr = "src.HttpMethod != client_j5pb.HTTPMethod_GET" ∧ clientRawResponseMarker = "HttpBody"
    ∧ clientFillRequestFacts = ["strings.Split \"/\"", "strings.HasPrefix \":\"", "strings.TrimPrefix \":\""] := by
  decide

/-- the guards the termination theorems rely on are in the source: `walkSchemaFields` returns when
the schema is already on the path and passes the path on; `collectPackageRefs` and
`assertRefsLink` test-and-set a map keyed by schema name -/
theorem C16_src_walk_guards :
    walkHasAncestorGuard = true ∧ walkRecursionPassesGuard = true
    ∧ collectRefsHasVisitedMap = true ∧ assertRefsHasVisitedMap = true := by decide

end J5V.Props.C16

namespace J5V.Props.C16
open J5V.Generated.Pipe

/-- the producer's check of enum default filters is in the source (`buildField`, enum arm: the
error of `enumRef.mapValues(filtering.DefaultFilters)` is returned), `mapValues` spells a value
the way `addPrefix` / `compileDefaultsOk` do, and the consumer (`buildEnum`, `OptionByName`,
`buildListRequest`) reads prefix and options the way `readEnum` / `defaultFiltersOk` do -/
theorem C16_src_enum_defaults :
    compileChecksEnumDefaults = true
    ∧ mapValuesFacts = ["strings.HasPrefix in er.Prefix", "assign in = er.Prefix + in", "lookup er.ValMap in"]
    ∧ optionByNameFacts = ["strings.TrimPrefix name s.NamePrefix", "eq opt.name shortName"]
    ∧ buildEnumFacts = ["strings.HasSuffix unspecifiedVal suffix", "strings.TrimSuffix unspecifiedVal suffix",
        "strings.TrimPrefix values[…].name trimPrefix"]
    ∧ listEnumLookupFacts = ["enumSchema.OptionByName val", "eq foundVal nil"] := by decide

/-- the shapes the flatten / list-request / OpenAPI models rely on are in the source:
`clientProperties` appends itself to `flattening`, expands a flattened field only when its object is
not in `flattening`, and keeps every other property; `fillRequest` builds the list request exactly
for a `QueryRequest` property and refuses a missing response body (`fix:` d14b8cb);
`buildListRequest` refuses a second array and a missing one, looking among the response's own
properties (`range responseObj.Properties`, not `ClientProperties()`: `C16_list_shape_own_properties`); its callback looks at enum fields and
scalar schemas only (so the list rules of a oneof field have no effect); `addMethod` appends to the
first path item with the method's path, else appends a new one; `BuildSwagger` takes the declared
services of every package (not the entity services) -/
theorem C16_src_flatten_list_swagger :
    clientPropertiesFacts = ["flattening = append(flattening, s)",
      "if propType.Flatten && !slices.Contains(flattening, propType.Schema())",
      "properties = append(properties, child)", "continue", "properties = append(properties, prop)"]
    ∧ fillRequestListFacts = ["if isQueryRequest", "if responseSchema == nil"]
    ∧ listRequestShapeFacts = ["if !ok", "if !ok", "if foundArray != nil", "if foundArray == nil", "if !ok"]
    ∧ listRequestRanges = ["range responseObj.Properties", "range filtering.DefaultFilters"]
    ∧ listRequestOuterArms = ["*j5schema.EnumField", "*j5schema.ScalarSchema"]
    ∧ swaggerAddMethodFacts = ["if pathItem.MapKey() == method.HttpPath", "break", "if !found",
        "dd.Paths = append(dd.Paths, pathItem)"]
    ∧ swaggerRangeLoops = ["range b.Packages", "range pkg.Services", "range b.Packages", "range pkg.Schemas"] := by
  decide

/-- the producer's list-shape check is in the source and is the one `compileListShapeOk` models:
`visitServiceMethodNode` records the error of `checkListMethod`; that function looks for a request
property whose object reference resolves to `j5.list.v1` / `QueryRequest`, demands a response,
collects the items of the response's array properties and demands exactly one, an object field -/
theorem C16_src_compile_list_check :
    compileListCheckCalled = true
    ∧ compileListCheckFacts = ["if ref == nil", "continue", "if err != nil", "continue",
        "if typeRef.Package == \"j5.list.v1\" && typeRef.Name == \"QueryRequest\"", "if !isList",
        "if method.Response == nil", "if array != nil", "items = append(items, array.Items)",
        "if len(items) != 1 || items[…].GetObject() == nil"] := by
  decide

/-- `Pipe/SwaggerDoc.lean` follows the source of the OpenAPI assembly. `addMethod`: a loop over the
path parameters emitting `In: "path"`, `Required: true`, then a loop over the query parameters
emitting `In: "query"` with the property's own `Required`, each stopping at a conversion error; the
request body only when `method.Request.Body != nil`; one response with `Code: 200` whose content is
set only when `method.ResponseBody != nil`; then the path grouping. `convertObjectItem` /
`convertOneofItem`: one loop over the properties, stopping at the first error, filing each under
`out.Properties[prop.Name]` (a map: `lastWins`). `ConvertRootSchema`: object / oneof / enum, else an
error. `BuildSwagger`: the declared services of every package, then every schema of every package
under `<package>.<key>`. `convertSchema`'s three reference arms write `#/definitions/<package>.<schema>`:
the same `<package>.<schema>` key (`Document.componentKeys` vs `Document.refs` in the model). -/
theorem C16_src_swagger_document :
    swaggerOperationSkeleton = ["range method.Request.PathParameters", "if err != nil", "In: \"path\"", "Required: true",
      "range method.Request.QueryParameters", "if err != nil", "In: \"query\"", "Required: property.Required",
      "if method.Request.Body != nil", "if err != nil", "Required: true", "Code: 200",
      "if method.ResponseBody != nil", "if err != nil", "range dd.Paths",
      "if pathItem.MapKey() == method.HttpPath", "if !found"]
    ∧ swaggerObjectSkeleton = ["range item.Properties", "if err != nil", "out.Properties[prop.Name] =", "if prop.Required"]
    ∧ swaggerOneofSkeleton = ["IsOneof: true", "range item.Properties", "if err != nil", "out.Properties[prop.Name] ="]
    ∧ swaggerRootSkeleton = ["case *schema_j5pb.RootSchema_Object", "case *schema_j5pb.RootSchema_Oneof",
        "case *schema_j5pb.RootSchema_Enum", "default"]
    ∧ swaggerBuildSkeleton = ["range b.Packages", "range pkg.Services", "if err != nil", "range b.Packages",
        "range pkg.Schemas", "if err != nil", "Sprintf \"%s.%s\" pkg.Name, key", "schemas[fullKey] ="]
    ∧ swaggerRefFormats = ["Sprintf \"#/definitions/%s.%s\" t.Ref.Package, t.Ref.Schema",
        "Sprintf \"#/definitions/%s.%s\" t.Ref.Package, t.Ref.Schema",
        "Sprintf \"#/definitions/%s.%s\" t.Ref.Package, t.Ref.Schema"] := by
  decide

/-- `ClientAPI.toProto` (`Pipe/SwaggerProto.lean`) follows the source of `API.ToJ5Proto()`: the
`ToJ5Field()` of an object / oneof / enum field builds exactly `Field{Field_X{XField{XField_Ref{Ref}}}}` —
always the reference wrapper, never an inline schema, never an unset oneof; the client root of an
object / oneof / enum is `RootSchema{RootSchema_Object|Oneof|Enum}`; `Method.ToJ5Proto` sets `Request`
from `mm.Request.ToJ5Proto()` (a non-nil pointer to a composite literal). These are the three facts
that make `ClientAPI.toProto_wf` a statement about the code. -/
theorem C16_src_to_j5_proto :
    toJ5FieldWrappers = [
      "ObjectField: schema_j5pb.Field schema_j5pb.Field_Object schema_j5pb.ObjectField schema_j5pb.ObjectField_Ref schema_j5pb.Ref",
      "OneofField: schema_j5pb.Field schema_j5pb.Field_Oneof schema_j5pb.OneofField schema_j5pb.OneofField_Ref schema_j5pb.Ref",
      "EnumField: schema_j5pb.Field schema_j5pb.Field_Enum schema_j5pb.EnumField schema_j5pb.EnumField_Ref schema_j5pb.Ref"]
    ∧ clientRootWrappers = [
      "ObjectSchema.ToJ5ClientRoot: schema_j5pb.RootSchema schema_j5pb.RootSchema_Object",
      "OneofSchema.ToJ5Root: schema_j5pb.RootSchema schema_j5pb.RootSchema_Oneof schema_j5pb.Oneof",
      "EnumSchema.ToJ5Root: schema_j5pb.RootSchema schema_j5pb.RootSchema_Enum schema_j5pb.Enum"]
    ∧ methodRequestField = "mm.Request.ToJ5Proto(…)" := by
  refine ⟨?_, ?_, by decide⟩
  · set_option maxRecDepth 4000 in decide
  · set_option maxRecDepth 4000 in decide

end J5V.Props.C16
