import J5V.Pipe.Proofs
import J5V.Generated.PipeFacts
/-!
# C16 — everything the compiler emits is consumable by the rest of the toolchain

Only the property theorems (and their non-vacuity examples) live here; lemmas are in
`J5V/Pipe/Proofs.lean`.
-/
namespace J5V.Props.C16
open J5V.Go J5V.Compile J5V.Pipe

end J5V.Props.C16

/-! ## Obligations over facts regenerated from the current source (`extract -what pipe`) -/
namespace J5V.Props.C16
open J5V.Generated.Pipe

/-- `convertSchema` has an arm for every member of the oneof `j5.schema.v1.Field.type`
(so the `default: unknown schema type for swagger` arm is unreachable for well-formed input). -/
theorem C16_swagger_total : ∀ m ∈ fieldOneofMembers, m ∈ convertSchemaArms := by decide

/-- the oneof has the fifteen members the models and the generator know about -/
theorem C16_src_field_members : fieldOneofMembers =
    ["Field_Any", "Field_Array", "Field_Bool", "Field_Bytes", "Field_Date", "Field_Decimal", "Field_Enum",
     "Field_Float", "Field_Integer", "Field_Key", "Field_Map", "Field_Object", "Field_Oneof", "Field_String_",
     "Field_Timestamp"] := by decide

/-- every arm of the two switches names a member of the oneof (no stale or foreign arm) -/
theorem C16_src_arms_known :
    (∀ a ∈ convertSchemaArms, a ∈ fieldOneofMembers) ∧ (∀ a ∈ listRequestArms, a ∈ fieldOneofMembers) := by
  decide

/-- the consumer's tests are the ones `Names.classify`, `acceptMethod`, `acceptTopicMethod` and
`unrewritePart` hard-code -/
theorem C16_src_consumer_names :
    consumerSuffixTests = ["Service", "Sandbox", "Events", "Topic"]
    ∧ consumerMethodConcats = ["Request", "Response"] ∧ consumerMethodFullNames = ["google.api.HttpBody"]
    ∧ consumerTopicConcats = ["Message"] ∧ consumerTopicFullNames = ["google.protobuf.Empty"]
    ∧ consumerSpecialChars = "{}*:" ∧ consumerPathByteTests = ["'{'", "'}'"] := by decide

/-- the producer's formats are the ones `serviceName`, `requestName`, … and `rewritePart` hard-code -/
theorem C16_src_producer_names :
    producerServiceFormats = ["%sRequest", "google.api.HttpBody", "%sResponse", "Service"]
    ∧ producerTopicFormats = ["%sMessage", "%sTopic"]
    ∧ producerRewriteFacts = ["strings.Split \"/\"", "strings.HasPrefix \":\"", "strcase.ToSnake <*ast.SliceExpr>",
        "assign {}", "strings.Join \"/\""] := by decide

/-- `methodFromSource` / `fillRequest` read the verb, the raw-response marker and the path the way
`Verb.hasBody`, `isRawResponse` and `pathParamNames` do -/
theorem C16_src_client :
    clientHasBodyExpr = "src.HttpMethod != client_j5pb.HTTPMethod_GET" ∧ clientRawResponseMarker = "HttpBody"
    ∧ clientFillRequestFacts = ["strings.Split \"/\"", "strings.HasPrefix \":\"", "strings.TrimPrefix \":\""] := by
  decide

/-- the guards the termination theorems rely on are in the source: `walkSchemaFields` returns when
the schema is already on the path and passes the path on; `collectPackageRefs` and
`assertRefsLink` test-and-set a map keyed by schema name -/
theorem C16_src_walk_guards :
    walkHasAncestorGuard = true ∧ walkRecursionPassesGuard = true
    ∧ collectRefsHasVisitedMap = true ∧ assertRefsHasVisitedMap = true := by decide

end J5V.Props.C16
