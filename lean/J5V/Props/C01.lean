import J5V.Codec.ScalarProofs
/-!
# C01 — JSON codec round-trip: `decode (encode m) = m`

Only property theorems and their non-vacuity examples live here. All statements are about the
models `J5V.Codec.{Scalar,Encode,Decode}` (mirrors of `lib/j5reflect/value_go.go`,
`internal/codec/*.go`, `j5types/date_j5t`), for **every** value of the quantified kind; no bound.

Floats, timestamps and decimals are oracle types: the theorems take `OracleLaws O` (a hypothesis,
not an axiom) and `toyOracle_laws` shows the hypothesis is satisfiable.
-/
namespace J5V.Props.C01
open J5V.Go J5V.Json J5V.Codec

/-- **Per-scalar inverse pair** (mechanism 1 of C01): for every scalar kind and every representable
value of that kind, `scalarGoFromReflect`+`encodeScalarField` succeed and `scalarReflectFromGo`,
fed with the token the JSON reader delivers for what was written, returns the value again
(decimals: the normalised text). -/
theorem C01_scalar_roundtrip (O : Oracle) (L : OracleLaws O) (k : ScalarKind) (v : PVal)
    (h : scalarRepr O k v = true) :
    ∃ out, encodeScalar O k v = .ok out ∧
      decodeScalar O k (scalarTok out) = .ok (some (canonScalar O v)) :=
  scalar_roundtrip O L k v h

/-- standard base64 with padding decodes to the bytes it encodes, for all byte strings -/
theorem C01_base64_inv (bs : Bytes) : byteValueFromString (b64Encode bs) = some bs :=
  byteValueFromString_encode bs

/-- a 64-bit integer written as a quoted decimal is read back exactly -/
theorem C01_int64_quoted_inv (O : Oracle) (i : Int) (h1 : -(2 ^ 63 : Int) ≤ i) (h2 : i < 2 ^ 63) :
    decodeScalar O .int64 (.str (fmtInt i)) = .ok (some (.int i)) := by
  simp only [decodeScalar]
  rw [parseInt_fmtInt i 64 (by simpa using h1) (by simpa using h2)]

theorem C01_uint64_quoted_inv (O : Oracle) (n : Nat) (h : n < 2 ^ 64) :
    decodeScalar O .uint64 (.str (fmtNat n)) = .ok (some (.uint n)) := by
  simp only [decodeScalar]
  rw [parseUint_fmtNat n 64 h]

/-- every calendar date of the years 0–(2³¹−1) survives `DateString` / `DateFromString`
(after repair a89d26c: `%04d`) -/
theorem C01_date_inv (y m d : Int) (hy : 0 ≤ y) (hy2 : y < 2 ^ 31) (hm : 1 ≤ m) (hm2 : m ≤ 12)
    (hd : 1 ≤ d) (hd2 : d ≤ daysInMonth y m) :
    dateFromString (dateString y m d) = some (y, m, d) :=
  date_inv y m d hy hy2 hm hm2 hd hd2

/-! ## Non-vacuity -/

/-- the oracle laws are satisfiable -/
example : OracleLaws toyOracle := toyOracle_laws

/-- representable values of several kinds (boundaries included) -/
example : scalarRepr toyOracle .int64 (.int (-9223372036854775808)) = true := by decide
example : scalarRepr toyOracle .uint64 (.uint 18446744073709551615) = true := by decide
example : scalarRepr toyOracle .date (.date 33 1 2) = true := by decide
example : scalarRepr toyOracle .date (.date 2024 2 29) = true := by decide
example : scalarRepr toyOracle .date (.date 2023 2 29) = false := by decide
example : scalarRepr toyOracle .float64 (.f64 0x3ff8000000000000) = true := by decide
example : scalarRepr toyOracle .float64 (.f64 0x7ff0000000000000) = false := by decide
example : scalarRepr toyOracle .bytes (.bytes [0, 255, 16]) = true := by decide
/-- the recorded (and repaired) defect: year 33 used to be written `"  33-01-02"` -/
example : dateString 33 1 2 = ascii "0033-01-02" := by decide

end J5V.Props.C01
