import J5V.Codec.AnyPbProofs
import J5V.Codec.CanonProofs
import J5V.Codec.ScalarProofs
import J5V.Codec.RoundtripProofs
import J5V.Codec.EncTreeProofs
import J5V.Codec.ProgressProofs
import J5V.Codec.AnyProofs
import J5V.Codec.InlinedOneof
import J5V.Codec.AnyJ5Mode
import J5V.Codec.DecimalNorm
import J5V.Generated.CodecFacts
/-!
# C01 — JSON codec round-trip: `decode (encode m) = m`

Only property theorems and their non-vacuity examples live here. All statements are about the
models `J5V.Codec.{Scalar,Encode,Decode}` (mirrors of `lib/j5reflect/value_go.go`,
`internal/codec/*.go`, `j5types/date_j5t`), for **every** value of the quantified kind; no bound.

Floats, timestamps and decimals are oracle types: the theorems take `OracleLaws O` (a hypothesis,
not an axiom) and `toyOracle_laws` shows the hypothesis is satisfiable.
-/
namespace J5V.Props.C01
open J5V.Go J5V.Json J5V.Codec

/-- **Per-scalar inverse pair** (mechanism 1 of C01): for every scalar kind and every representable
value of that kind, `scalarGoFromReflect`+`encodeScalarField` succeed and `scalarReflectFromGo`,
fed with the token the JSON reader delivers for what was written, returns the value again
(decimals: the normalised text). -/
theorem C01_scalar_roundtrip (O : Oracle) (L : OracleLaws O) (k : ScalarKind) (v : PVal)
    (h : scalarRepr O k v = true) :
    ∃ out, encodeScalar O k v = .ok out ∧
      decodeScalar O k (scalarTok out) = .ok (some (canonScalar O v)) :=
  scalar_roundtrip O L k v h

/-- standard base64 with padding decodes to the bytes it encodes, for all byte strings -/
theorem C01_base64_inv (bs : Bytes) : byteValueFromString (b64Encode bs) = some bs :=
  byteValueFromString_encode bs

/-- a 64-bit integer written as a quoted decimal is read back exactly -/
theorem C01_int64_quoted_inv (O : Oracle) (i : Int) (h1 : -(2 ^ 63 : Int) ≤ i) (h2 : i < 2 ^ 63) :
    decodeScalar O .int64 (.str (fmtInt i)) = .ok (some (.int i)) := by
  simp only [decodeScalar]
  rw [parseInt_fmtInt i 64 (by simpa using h1) (by simpa using h2)]

theorem C01_uint64_quoted_inv (O : Oracle) (n : Nat) (h : n < 2 ^ 64) :
    decodeScalar O .uint64 (.str (fmtNat n)) = .ok (some (.uint n)) := by
  simp only [decodeScalar]
  rw [parseUint_fmtNat n 64 h]

/-- every calendar date of the years 0–(2³¹−1) survives `DateString` / `DateFromString`
(after repair a89d26c: `%04d`) -/
theorem C01_date_inv (y m d : Int) (hy : 0 ≤ y) (hy2 : y < 2 ^ 31) (hm : 1 ≤ m) (hm2 : m ≤ 12)
    (hd : 1 ≤ d) (hd2 : d ≤ daysInMonth y m) :
    dateFromString (dateString y m d) = some (y, m, d) :=
  date_inv y m d hy hy2 hm hm2 hd hd2

/-! ## structure level -/

/-- **Full statement** of C01 on the byte level: for every environment, every root and every
representable message (`valOk` is schema directed and general: flattened objects, exposed oneofs,
anonymous proto oneofs are all covered by it; a j5 `Any` is `valOk` when it holds recognised
compact `j5_json` only), encoding succeeds and
decoding the bytes gives the message back. -/
def C01_roundtrip_full : Prop :=
  ∀ (c : Cfg) (_ : OracleLaws c.O) (root : String) (m : Fields),
    (valOk c.env c.O (.object root) (.msg m) = true ∨ valOk c.env c.O (.oneof root) (.msg m) = true) →
    ∃ bs, encodeBytes c.env c.O root (.msg m) = .ok bs ∧ decodeBytes c root bs = .ok m

/-- **Proved part (`_partial`)**, on the level of JSON trees: for every *flat* environment
(`Env.flat`: proto paths of any positive length — **flattened objects**, whose properties are
inlined into the parent with the full path —, **exposed oneofs** (empty path), **anonymous proto
oneofs** inside objects, **j5 `Any` properties**; no `google.protobuf.Any`, no exposed oneof
inlined from a flattened object) and every representable message
(`valOk`: sorted store, only schema fields, representable scalars, valid UTF-8, defined enum
numbers, non-empty lists and maps with distinct keys, at most one member per wrapper / exposed /
proto oneof, decimals in normal form): whatever tree the encoder writes, the decoder maps back to
exactly the original message. Covers objects, wrapper oneofs (`!type` framing), exposed oneofs
(the oneof object is decoded into the *enclosing* message), anonymous proto oneofs (where the
decoder's "second member" check 25c97b7 must not fire), enums, arrays and maps of scalars /
enums / objects / oneofs, every scalar kind, recursion through named roots, presence (unset
members stay unset), flattened sub-messages (created by the `Mutable` walk when the first leaf
below them is decoded; the decoder's message after any subset of members is the restriction
`restrictP` of the original message to the leaves read so far).

A j5 `Any` (`.any false`) is representable when it carries `j5_json` only, the bytes being the
compact rendering of a complete JSON value of depth ≤ 10000 which the specification-side oracle
`O.chunk` recognises; a **protobuf `Any`** (`.any true`) when its type URL is
`type.googleapis.com/<name>` for a name the resolver knows and its content is a non-empty
representable message of the resolved root (the wire bytes are represented by what they unmarshal
to). Which codec can decode them is a hypothesis **per value**: `c.canDecode m` (`modeOk`) — every
j5 `Any` in `m` needs the codec without `WithProtoToAny` (with it the decoder also stores the
expanded content), every protobuf `Any` needs `WithProtoToAny`, fewer than 100 enclosing `Any`
values and a message nested at most 1664 deep; a message without `Any` values satisfies it for
every codec (`C01_canDecode_of_noAny`), and environments that declare both kinds of `Any` are
covered as long as the message populates one kind.

Missing for the full statement: `Any` with both kinds populated in one message, j5 `Any` under
`WithProtoToAny`; an exposed oneof inlined from a flattened object. -/
theorem C01_roundtrip_tree_partial (c : Cfg) (hs : c.env.flat = true) (L : OracleLaws c.O)
    (root : String) (m : Fields) (t : PTree)
    (hok : valOk c.env c.O (.object root) (.msg m) = true ∨
      valOk c.env c.O (.oneof root) (.msg m) = true)
    (hM : c.canDecode m)
    (henc : encodeTree c.env c.O root (.msg m) = .ok t) : decRootTree c root t = .ok m := by
  obtain ⟨t', ht', hdec⟩ := roundtrip_tree_flat c hs L root m hok hM
  rw [henc] at ht'; cases ht'; exact hdec

/-- **Byte level (`_partial`)**: the same statement on the bytes `Codec.ProtoToJSON` returns and
`Codec.JSONToProto` reads — through the string escaper / unquoter, the number scanner, the
`Token()` state machine and the tree builder (`readDoc_render`). Same hypotheses, plus — for
environments that have `Any` fields — `ChunkLaws`:
what `O.chunk` recognises is compact JSON as the codec writes it (`PTree.Enc`); the `j5_json` of an
`Any` is spliced into the output verbatim and read back as part of the document. -/
theorem C01_roundtrip_bytes_partial (c : Cfg) (hs : c.env.flat = true) (L : OracleLaws c.O)
    (hC : c.env.noAny = true ∨ ChunkLaws c.O)
    (root : String) (m : Fields) (bs : Bytes)
    (hok : valOk c.env c.O (.object root) (.msg m) = true ∨
      valOk c.env c.O (.oneof root) (.msg m) = true)
    (hM : c.canDecode m)
    (henc : encodeBytes c.env c.O root (.msg m) = .ok bs) : decodeBytes c root bs = .ok m := by
  obtain ⟨bs', hbs', hdec⟩ := roundtrip_bytes c hs L hC root m hok hM
  rw [henc] at hbs'; cases hbs'; exact hdec

/-- **C01 for flat environments (`_partial` only in the class of schemas)**: encoding any
representable message succeeds, and decoding the bytes into a fresh message of the same type
yields exactly the original message. Unbounded in message size, nesting depth, number of
properties, string contents and integer values.

Missing for `C01_roundtrip_full`: j5 `Any` values with proto content or under `WithProtoToAny`
(equal only up to the expanded content), messages that populate both kinds of `Any`, an exposed
oneof inlined from a flattened object (all modelled and validated against Go by the correspondence, not yet covered by
this proof), "an empty flattened sub-object is treated as absent" is stated separately
(`C01_roundtrip_canon_partial`, `C01_roundtrip_same_partial`: `valOk` describes the canonical forms), and decimals that are
not in `decimal.String()` normal form (they round-trip up to numeric equality:
`C01_scalar_roundtrip`). -/
theorem C01_roundtrip_partial (c : Cfg) (hs : c.env.flat = true) (L : OracleLaws c.O)
    (hC : c.env.noAny = true ∨ ChunkLaws c.O)
    (root : String) (m : Fields)
    (hok : valOk c.env c.O (.object root) (.msg m) = true ∨
      valOk c.env c.O (.oneof root) (.msg m) = true)
    (hM : c.canDecode m) :
    ∃ bs, encodeBytes c.env c.O root (.msg m) = .ok bs ∧ decodeBytes c root bs = .ok m :=
  roundtrip_bytes c hs L hC root m hok hM

/-- **"an empty flattened sub-object is treated as absent"** (the property's own clause), general
form: let `m` be ANY message of a flat environment and `m'` a representable message that holds
**the same leaves** (`Same`, `Codec/Same.lean`: at every leaf path of the properties — flattened
ones with their full path, members of exposed oneofs — both are unset or hold values that are
again `Same`, at every depth, lists element by element, maps entry by entry; nothing is said about
flattened sub-messages that hold no leaf: they may be present and empty in `m` and absent in
`m'`). Then `Codec.ProtoToJSON m` succeeds, writes exactly what it writes for `m'` (the encoder
reads a message only through the leaves of its properties: `EQ_all`), and `Codec.JSONToProto` maps
the bytes to `m'`. (`hd`: `m'` is not nested deeper than `m`.) -/
theorem C01_roundtrip_same_partial (c : Cfg) (hs : c.env.flat = true) (L : OracleLaws c.O)
    (hC : c.env.noAny = true ∨ ChunkLaws c.O)
    (root : String) (m m' : Fields)
    (hsame : Same c.env (.object root) (.msg m) (.msg m') ∨
      Same c.env (.oneof root) (.msg m) (.msg m'))
    (hok : valOk c.env c.O (.object root) (.msg m') = true ∨
      valOk c.env c.O (.oneof root) (.msg m') = true)
    (hd : depthFields m' ≤ depthFields m)
    (hM : modeOkF c.protoToAny (6 * (depthFields m + 1) + 9) c.anyDepth m' = true) :
    ∃ bs, encodeBytes c.env c.O root (.msg m) = .ok bs ∧ decodeBytes c root bs = .ok m' :=
  roundtrip_same c hs L hC root m m' hsame hok hd hM

/-- **… with the canonical form written out** (`canonFlat`: the message restricted to the leaves of
its properties — flattened sub-messages that hold no leaf are dropped, through nested flattened
sub-messages; everything else is kept): for an object root of a flat environment and every
message `m` whose stores have strictly increasing field numbers (`sortedDeepF`: what a protobuf
message is) and whose canonical form is representable, **`decode (encode m) = canonFlat m`**.
A message with an empty flattened sub-message is not `valOk` itself (`valOk` describes the
canonical forms), so this is the statement for the messages `C01_roundtrip_partial` excludes.
Leaf values that themselves contain empty flattened sub-messages are covered by
`C01_roundtrip_same_partial`, not by this concrete form. -/
theorem C01_roundtrip_canon_partial (c : Cfg) (hs : c.env.flat = true) (L : OracleLaws c.O)
    (hC : c.env.noAny = true ∨ ChunkLaws c.O)
    (root : String) (props : List PropDef) (hfind : c.env.find root = some (.object props))
    (m : Fields) (hsort : asorted m = true) (hdeep : sortedDeepF m = true)
    (hok : valOk c.env c.O (.object root) (.msg (canonFlat c.env props m)) = true)
    (hM : modeOkF c.protoToAny (6 * (depthFields m + 1) + 9) c.anyDepth
      (canonFlat c.env props m) = true) :
    ∃ bs, encodeBytes c.env c.O root (.msg m) = .ok bs ∧
      decodeBytes c root bs = .ok (canonFlat c.env props m) :=
  roundtrip_canon c hs L hC root props hfind m
    (fun e _ => sortedAlong_of_deep e.1 m hsort hdeep) hok hM

/-- for an environment without `Any` fields the hypothesis `canDecode` of the round-trip theorems
is void: every representable message can be decoded by every codec -/
theorem C01_canDecode_of_noAny (c : Cfg) (hna : c.env.noAny = true) (root : String) (m : Fields)
    (hok : valOk c.env c.O (.object root) (.msg m) = true ∨
      valOk c.env c.O (.oneof root) (.msg m) = true) : c.canDecode m :=
  canDecode_of_noAny c hna root m hok

/-- encoding alone (first half of the statement) -/
theorem C01_encode_succeeds_partial (c : Cfg) (hs : c.env.flat = true) (L : OracleLaws c.O)
    (hC : c.env.noAny = true ∨ ChunkLaws c.O) (root : String) (m : Fields)
    (hok : valOk c.env c.O (.object root) (.msg m) = true ∨
      valOk c.env c.O (.oneof root) (.msg m) = true)
    (hM : ∃ mode, modeOkF mode (6 * (depthFields m + 1) + 9) 0 m = true) :
    ∃ bs, encodeBytes c.env c.O root (.msg m) = .ok bs :=
  encode_ok c hs L hC root m hok hM

/-- **`Any` (j5, one property, tree level)**: a `j5.types.any.v1.Any` holding `j5_json = V.render`
for a complete JSON value `V` of nesting depth ≤ 10000 and a valid UTF-8 type name is written as
`{"!type": typeName, "value": <j5_json verbatim>}` (`chunkNode`: the raw bytes, or — same bytes —
their parsed form), and the decoder (codec without `WithProtoToAny`) reading
`{"!type": typeName, "value": V}` into any property with a proto path stores exactly
`Any{type_name, j5_json}` again. The whole-message, byte-level statement is
`C01_roundtrip_partial`. -/
theorem C01_any_j5_partial (c : Cfg) (hmode : c.protoToAny = false) (props : List PropDef)
    (p : PropDef) (st : PS) (tn : Bytes) (tv : PTree) (f : Nat)
    (hf : p.field = .any false) (hp : p.path ≠ []) (hs : p.jsonName ∉ st.seen)
    (hgb : groupBusy props p st.m = false) (hc : tv.complete = true) (hd : tv.depth ≤ 10000)
    (hj : tv.render ≠ []) (hu : isValidUtf8 tn = true) :
    ∃ tlit nlit vlit,
      encValue c.env c.O (f + 1) (.any false) (.anyJ5 tn [] tv.render .none "" (.msg [])) =
        .ok (.obj (.cons typeKey tlit (.str tn nlit) (.cons valueKey vlit (chunkNode c.O tv.render) (.nil .closed)))) ∧
      decProp c props p
          (.obj (.cons typeKey tlit (.str tn nlit) (.cons valueKey vlit tv (.nil .closed)))) st =
        .ok { m := updPath props p (some (.anyJ5 tn [] tv.render .none "" (.msg []))) st.m,
              seen := p.jsonName :: st.seen } := by
  obtain ⟨tlit, nlit, vlit, henc⟩ := enc_any_j5 c.env c.O f tn [] tv.render .none "" (.msg []) hj hu
  exact ⟨tlit, nlit, vlit, henc,
    dec_any_j5 c hmode props p st tn tlit nlit vlit tv hf hp hs hgb hc hd⟩

/-- **`google.protobuf.Any` with `WithProtoToAny` (one property, both directions, `_partial`)**:
for a codec built `WithProtoToAny` over a flat environment, at a position not yet nested 100 `Any` values deep (`hdepth`, the
decoder's `maxAnyDepth`): a protobuf `Any` whose type URL is `type.googleapis.com/<name>` for a
name the resolver knows and whose content is a non-empty representable message `fs` of the
resolved root
* is written as `{"!type": <name>, "value": data}`, `data` being the codec's own encoding of `fs`;
* and — **explicit depth hypothesis** `hD`: the content is nested at most 1664 messages deep, so
  that its encoding stays within the 10000 levels of `encoding/json` which `popValueAsBytes`
  (`Decode(&raw)`) runs into (tree-depth bound `C01_encoder_tree_depth`: the encoder's tree is
  nested at most as deep as the fuel when no `j5_json` is involved) — the decoder reading that
  value into a protobuf `Any` property (any proto path, any decoder state in which the property is
  still unset) stores `Any{type_url, content = fs}` again: the inner document is decoded with
  `anyDepth + 1` back to exactly `fs` (the round trip of the inner message, `RTP` at the deeper
  configuration).
The wire bytes of the content are represented in the model by what they unmarshal to (`ik / iroot /
inner`; trusted base: "proto.Marshal / Unmarshal for the bytes inside Any values"), so
`unmarshal (marshal m) = m` is part of the modelling assumption, not a hypothesis here.

This is the protobuf-`Any` step of `C01_roundtrip_partial` in isolation (whole messages that
populate protobuf `Any` properties, nested or not, are covered there: the induction `RTP` is
proved for all codec configurations at once, so its `Any` case can use the facts at
`anyDepth + 1`; `hMi`: the codec at `anyDepth + 1` can decode the content). -/
theorem C01_any_pb_partial (c : Cfg) (hs : c.env.flat = true) (L : OracleLaws c.O)
    (hmode : c.protoToAny = true) (hdepth : c.anyDepth < maxAnyDepth)
    (props : List PropDef) (p : PropDef) (st : PS) (tn val : Bytes) (iroot : String) (fs : Fields)
    (hf : p.field = .any true) (hp : p.path ≠ []) (hseen : p.jsonName ∉ st.seen)
    (hgb : groupBusy props p st.m = false) (hu : isValidUtf8 tn = true)
    (hres : c.env.resolve tn = some iroot) (hne : fs ≠ [])
    (hok : valOk c.env c.O (.object iroot) (.msg fs) = true ∨
      valOk c.env c.O (.oneof iroot) (.msg fs) = true)
    (hMi : modeOkF c.protoToAny (6 * (depthFields fs + 1) + 9) (c.anyDepth + 1) fs = true)
    (hD : 6 * (depthFields fs + 1) + 10 ≤ 10000) :
    ∃ t, encValue c.env c.O (6 * (depthFields fs + 1) + 9 + 2) (.any true)
          (.anyPb (anyPrefix ++ tn) val .inn iroot (.msg fs)) = .ok t ∧
      Wire.anyTypeName (.anyPb (anyPrefix ++ tn) val .inn iroot (.msg fs)) = some tn ∧
      decProp c props p t st =
        .ok { m := updPath props p (some (.anyPb (anyPrefixB ++ tn) [] .inn iroot (.msg fs))) st.m,
              seen := p.jsonName :: st.seen } := by
  obtain ⟨t, he, hd⟩ := any_pb_roundtrip' c hs L hmode hdepth props p st tn val iroot fs hf hp
    hseen hgb hu hres hne hok hMi hD
  refine ⟨t, he, ?_, hd⟩
  simp only [Wire.anyTypeName]
  exact congrArg some (trimPrefix_append _ tn)

/-- the tree-depth bound used for `popValueAsBytes`: for a value that holds no `j5_json`, the tree
the encoder builds with fuel `f` is nested at most `f` deep -/
theorem C01_encoder_tree_depth (env : Env) (O : Oracle) (f : Nat) (root : String) (v : PVal)
    (t : PTree) (hn : v.noJ5 = true) (h : encRoot env O f root v = .ok t) : t.depth ≤ f :=
  ((TD_all env O f).root root v t hn h).1

/-- **an exposed oneof inlined from a flattened object (one property, both directions, every
environment, `_partial`)** — round 4. When an object `F` with an exposed oneof is flattened into its
parent, the parent gets a oneof property `p` whose proto path is the path of the flattened message
(NON-empty), while `F`'s other properties are inlined with longer paths below it: the oneof's
members live in the same sub-message as the siblings' leaves. `Env.flat` excludes this shape (the
path of `p` is a proper prefix of its siblings' paths), so it is outside `C01_roundtrip_partial`;
this theorem states and proves what encoder and decoder do with `p`, for an ARBITRARY decoder state:

`S'` is the flattened sub-message as the original message holds it — sibling leaves (not looked at)
and at most one member of the oneof (`hone`), whose value round-trips (`hmem : MemberFacts`: the
facts `RTP.val` provides in flat environments; `C01_member_facts_scalar` discharges it for scalar
members in every environment). The encoder writes the oneof body over `S'` (`{}` when no member is
set, else `{"!type": name, name: value}`); the decoder — in any state whose sub-message at `p`'s
path holds no member of the oneof (`hS0`) and is `S'` without the oneof's member (`hS`) — starts
from the sub-message that is ALREADY there, reads the body and writes back exactly `S'`: **the
member is restored next to the sibling leaves decoded before, none of which is lost**. For `{}` the
sub-message is written back unchanged — created empty if no sibling leaf was decoded yet: that
transient empty flattened sub-message (filled by the later siblings) is what the whole-message
induction's invariant (`restrictP`) would have to allow, and the reason this shape is not yet inside
`C01_roundtrip_partial`. -/
theorem C01_inlined_oneof_partial (c : Cfg) (props : List PropDef) (p : PropDef) (st : PS)
    (ref : String) (ops : List PropDef) (hf : p.field = .oneof ref) (hp : p.path ≠ [])
    (hfind : c.env.find ref = some (.oneof ops)) (hroot : rootSimple (.oneof ops) = true)
    (hutf : ∀ q ∈ ops, isValidUtf8 q.jsonName = true)
    (hseen : p.jsonName ∉ st.seen) (hgb : groupBusy props p st.m = false)
    (S' : Fields) (f : Nat)
    (hone : (ops.filter (isSet S')).length ≤ 1) (hmem : MemberFacts c f ops S')
    (hS0 : ∀ q ∈ ops, ∀ k, q.path = [k] → aget k (PVal.asMsg (getPath st.m p.path)) = none)
    (hS : S' = PVal.asMsg (getPath st.m p.path) ∨
      ∃ q ∈ ops, ∃ k v, q.path = [k] ∧ S' = aset k v (PVal.asMsg (getPath st.m p.path))) :
    ∃ t, encValue c.env c.O (f + 3) (.oneof ref) (.msg S') = .ok t ∧
      decProp c props p t st =
        .ok { m := updPath props p (some (.msg S')) st.m, seen := p.jsonName :: st.seen } :=
  inlined_oneof_roundtrip c props p st ref ops hf hp hfind hroot hutf hseen hgb S' f hone hmem hS0 hS

/-- a scalar member of any kind provides `MemberFacts` (every environment; under `OracleLaws`) -/
theorem C01_member_facts_scalar (c : Cfg) (L : OracleLaws c.O) (f : Nat) (q : PropDef) (k : ScalarKind)
    (v : PVal) (hqf : q.field = .scalar k) (hok : scalarOk c.O k v = true)
    (hz : (q.pres == .imp && v.isZero) = false) :
    ∃ tv, encValue c.env c.O (f + 1) q.field v = .ok tv ∧ Dec c q.field v tv ∧
      (OracleWire c.O → Wire.Conforms c.env c.O q.field v tv) ∧
      (q.pres == .imp && v.isZero) = false ∧ v.isEmptyColl = false :=
  memberFacts_scalar c L f q k v hqf hok hz

/-- **j5 `Any` under `WithProtoToAny` (one property, `_partial`)** — round 4. With `WithProtoToAny`
the decoder does not only store `Any{type_name, j5_json}`: it also decodes the value as the message
type the name resolves to (one `Any` level deeper; an error if that fails or the name is unknown)
and keeps the result as the `Any`'s proto content. So for a j5 `Any` `a` holding `j5_json` only,
`decode (encode a)` is **`a` plus the expanded content** (`stored`; exactly `a` when the value
decodes to the empty message) — not `a`, which is why the whole-message theorem asks for the codec
without `WithProtoToAny` for j5 `Any` values (`canDecode`). Nothing observable through the codec
changes, though: the encoder prefers `j5_json` and writes it verbatim, so **the decoded value is
written as exactly the same document again** (third conjunct): `encode ∘ decode ∘ encode = encode`,
and a second round trip reproduces `stored` itself. -/
theorem C01_any_j5_expanded_partial (c : Cfg) (hmode : c.protoToAny = true)
    (hdepth : c.anyDepth < maxAnyDepth) (props : List PropDef) (p : PropDef) (st : PS)
    (tn : Bytes) (tv : PTree) (iroot : String) (fs : Fields) (f : Nat)
    (hf : p.field = .any false) (hp : p.path ≠ []) (hs : p.jsonName ∉ st.seen)
    (hgb : groupBusy props p st.m = false) (hc : tv.complete = true) (hd : tv.depth ≤ 10000)
    (hj : tv.render ≠ []) (hu : isValidUtf8 tn = true)
    (hres : c.env.resolve tn = some iroot)
    (hdec : decRootTree { c with anyDepth := c.anyDepth + 1 } iroot tv = .ok fs) :
    let stored : PVal :=
      if fs.isEmpty then .anyJ5 tn [] tv.render .none "" (.msg [])
      else .anyJ5 tn [] tv.render .inn iroot (.msg fs)
    ∃ tlit nlit vlit,
      encValue c.env c.O (f + 1) (.any false) (.anyJ5 tn [] tv.render .none "" (.msg [])) =
        .ok (.obj (.cons typeKey tlit (.str tn nlit) (.cons valueKey vlit (chunkNode c.O tv.render) (.nil .closed)))) ∧
      decProp c props p
          (.obj (.cons typeKey tlit (.str tn nlit) (.cons valueKey vlit tv (.nil .closed)))) st =
        .ok { m := updPath props p (some stored) st.m, seen := p.jsonName :: st.seen } ∧
      encValue c.env c.O (f + 1) (.any false) stored =
        .ok (.obj (.cons typeKey tlit (.str tn nlit) (.cons valueKey vlit (chunkNode c.O tv.render) (.nil .closed)))) := by
  intro stored
  obtain ⟨tlit, nlit, vlit, henc⟩ := enc_any_j5 c.env c.O f tn [] tv.render .none "" (.msg []) hj hu
  refine ⟨tlit, nlit, vlit, henc, ?_, ?_⟩
  · cases fs with
    | nil =>
      exact dec_any_j5_p_empty c hmode hdepth props p st tn tlit nlit vlit tv iroot hf hp hs hgb hc hd
        hres hdec
    | cons a b =>
      exact dec_any_j5_p c hmode hdepth props p st tn tlit nlit vlit tv iroot (a :: b) hf hp hs hgb hc hd
        hres hdec (by simp)
  · rw [← henc]
    cases fs with
    | nil => rfl
    | cons a b => exact enc_any_j5_stable c.env c.O (f + 1) tn [] [] tv.render .inn .none iroot "" _ _ hj

/-- **decimals that are not in normal form (one member, `_partial`)** — round 4. What the code does,
precisely: the encoder writes the stored text `s` verbatim as a quoted string; the decoder stores
`decimal.NewFromString(s).String()` (`O.parseDec s = some norm`). So for ANY decimal whose text
parses (normal form or not: `1.50`, `+1.5`, `1e3`, `001.5`) and is valid UTF-8, in any decoder state:
`decode (encode (.dec s)) = .dec norm` — the round trip holds **up to numeric normalisation**
(`canonScalar`), as a property value and as an array element; and `norm` is a fixpoint
(`OracleLaws.dec`): encoding the decoded value and decoding again returns it unchanged, so
`decode ∘ encode` is idempotent and everything after the first round trip is exact. Not part of the
whole-message theorem (`valOk` asks for normal form): that needs the decoder's results to be carried
through the induction up to `canonScalar` — see notes/codec-lean.md. -/
theorem C01_decimal_normalised_partial (c : Cfg) (L : OracleLaws c.O) (props : List PropDef)
    (p : PropDef) (st : PS) (s norm : Bytes) (f : Nat)
    (hf : p.field = .scalar .decimal) (hp : p.path ≠ []) (hs : p.jsonName ∉ st.seen)
    (hgb : groupBusy props p st.m = false) (hu : isValidUtf8 s = true)
    (hpd : c.O.parseDec s = some norm) :
    ∃ lit, encValue c.env c.O (f + 1) (.scalar .decimal) (.dec s) = .ok (.str s lit) ∧
      decProp c props p (.str s lit) st =
        .ok { m := updPath props p (some (.dec norm)) st.m, seen := p.jsonName :: st.seen } ∧
      (∀ rest acc, decElems c (.scalar .decimal) (.cons (.str s lit) rest) acc =
        decElems c (.scalar .decimal) rest (acc ++ [.dec norm])) ∧
      canonScalar c.O (.dec s) = .dec norm ∧
      (∀ lit', decProp c props p (.str norm lit') st =
        .ok { m := updPath props p (some (.dec norm)) st.m, seen := p.jsonName :: st.seen }) := by
  obtain ⟨lit, hl⟩ := enc_decimal c.env c.O f s hu
  refine ⟨lit, hl, dec_decimal_prop c props p st s lit norm hf hp hs hgb hpd,
    fun rest acc => dec_decimal_elem c s lit norm rest acc hpd, by simp [canonScalar, hpd],
    fun lit' => dec_decimal_prop c props p st norm lit' norm hf hp hs hgb (L.dec s norm hpd)⟩

/-! ## Non-vacuity -/

/-- hypotheses of `C01_any_j5_partial`: the value `{}` -/
example : (PTree.obj (.nil .closed)).complete = true ∧ (PTree.obj (.nil .closed)).depth ≤ 10000 ∧
    (PTree.obj (.nil .closed)).render ≠ [] := by decide

/-- … and a property / decoder state meeting the remaining hypotheses -/
example : ({ jsonName := ascii "a", path := [7], pres := .msg, field := .any false } : PropDef).path ≠ [] ∧
    groupBusy [] { jsonName := ascii "a", path := [7], pres := .msg, field := .any false } [] = false ∧
    isValidUtf8 (ascii "t.v1.T") = true := by decide

/-- a flat environment with every supported construct: scalars of several kinds, an enum, a
recursive object reference, an array of objects, maps, a wrapper oneof, an **exposed oneof**
(`kind`, members in fields 20 / 21 of the object itself), an **anonymous proto oneof** (fields
30 / 31, ordinary optional properties that share proto oneof 1) and a **flattened object** (field
40: its properties `fa`, `fb.x` … are inlined with paths `[40, 1]`, `[40, 2]`, and a second level
`[40, 3, 1]`) -/
def sampleEnv : Env :=
  { defs := [
      ("t.E", .enum (ascii "E_") [(ascii "UNSPECIFIED", 0), (ascii "A", 1), (ascii "B", 2)]),
      ("t.W", .oneof [
        { jsonName := ascii "s", path := [1], pres := .opt, field := .scalar .string, group := some 0 },
        { jsonName := ascii "o", path := [2], pres := .msg, field := .object "t.M", group := some 0 }]),
      ("t.M_kind", .oneof [
        { jsonName := ascii "num", path := [20], pres := .opt, field := .scalar .int32, group := some 0 },
        { jsonName := ascii "sub", path := [21], pres := .msg, field := .object "t.M", group := some 0 }]),
      ("t.M", .object [
        { jsonName := ascii "name", path := [1], pres := .imp, field := .scalar .string },
        { jsonName := ascii "n", path := [2], pres := .opt, field := .scalar .int64 },
        { jsonName := ascii "e", path := [3], pres := .imp, field := .enum "t.E" },
        { jsonName := ascii "kids", path := [4], pres := .list, field := .array (.object "t.M") },
        { jsonName := ascii "tags", path := [5], pres := .map, field := .map (.scalar .string) },
        { jsonName := ascii "w", path := [6], pres := .msg, field := .oneof "t.W" },
        { jsonName := ascii "when", path := [7], pres := .msg, field := .scalar .date },
        { jsonName := ascii "raw", path := [8], pres := .imp, field := .scalar .bytes },
        { jsonName := ascii "es", path := [9], pres := .list, field := .array (.enum "t.E") },
        { jsonName := ascii "kind", path := [], pres := .none, field := .oneof "t.M_kind" },
        { jsonName := ascii "altA", path := [30], pres := .opt, field := .scalar .string, group := some 1 },
        { jsonName := ascii "altB", path := [31], pres := .opt, field := .scalar .bool, group := some 1 },
        { jsonName := ascii "fa", path := [40, 1], pres := .imp, field := .scalar .string },
        { jsonName := ascii "fb", path := [40, 2], pres := .msg, field := .object "t.M" },
        { jsonName := ascii "fc", path := [40, 3, 1], pres := .list, field := .array (.scalar .uint32) }])] }

/-- a message using all of it (optional-with-zero-value `n`, nested message in an array, a oneof
arm holding a message, a map with two keys, the exposed oneof's `sub` arm, one member of the
anonymous proto oneof with its zero value) -/
def sampleMsg : Fields :=
  [(1, .str (ascii "x")), (2, .int 0), (3, .enum 2),
   (4, .list [.msg [(1, .str [0xC3, 0xA9]), (20, .int 7)], .msg []]),
   (5, .map [(ascii "a", .str []), (ascii "b", .str (ascii "q\""))]),
   (6, .msg [(2, .msg [(2, .int (-5))])]),
   (7, .date 33 1 2), (8, .bytes [0, 255]), (9, .list [.enum 1, .enum 0]),
   (21, .msg [(31, .bool false)]), (30, .str []),
   (40, .msg [(2, .msg [(40, .msg [(1, .str (ascii "deep"))])]), (3, .msg [(1, .list [.uint 1, .uint 2])])])]

example : sampleEnv.flat = true := by decide
example : valOk sampleEnv toyOracle (.object "t.M") (.msg sampleMsg) = true := by decide
/-- two members of the anonymous proto oneof, or of the exposed oneof, are not representable -/
example : valOk sampleEnv toyOracle (.object "t.M") (.msg [(30, .str []), (31, .bool true)]) = false := by
  decide
example : valOk sampleEnv toyOracle (.object "t.M") (.msg [(20, .int 1), (21, .msg [])]) = false := by
  decide
/-- an empty flattened sub-message is not representable (C01 treats it as absent) -/
example : valOk sampleEnv toyOracle (.object "t.M") (.msg [(40, .msg [])]) = false := by decide

/-! ### with `Any` -/

/-- the chunk `{"k":1}` in parsed form -/
def chunkTree : PTree :=
  .obj (.cons (ascii "k") (ascii "\"k\"") (.num (ascii "1")) (.nil .closed))

/-- an oracle whose specification-side recogniser knows the chunk `{"k":1}` -/
def anyOracle : Oracle :=
  { toyOracle with chunk := fun bs => if bs = ascii "{\"k\":1}" then some chunkTree else none }

/-- an environment with j5 `Any` properties: a plain one and one inside a flattened object -/
def sampleAnyEnv : Env :=
  { defs := [
      ("t.A", .object [
        { jsonName := ascii "name", path := [1], pres := .imp, field := .scalar .string },
        { jsonName := ascii "payload", path := [2], pres := .msg, field := .any false },
        { jsonName := ascii "inner", path := [3, 1], pres := .msg, field := .any false },
        { jsonName := ascii "kids", path := [4], pres := .list, field := .array (.object "t.A") }])] }

def sampleAnyMsg : Fields :=
  [(1, .str (ascii "x")),
   (2, .anyJ5 (ascii "t.v1.T") [] (ascii "{\"k\":1}") .none "" (.msg [])),
   (3, .msg [(1, .anyJ5 (ascii "u") [] (ascii "{\"k\":1}") .none "" (.msg []))]),
   (4, .list [.msg [(2, .anyJ5 (ascii "t.v1.T") [] (ascii "{\"k\":1}") .none "" (.msg []))]])]

example : sampleAnyEnv.flat = true := by decide
example : sampleAnyEnv.noAny = false := by decide
example : valOk sampleAnyEnv anyOracle (.object "t.A") (.msg sampleAnyMsg) = true := by decide
/-- bytes the oracle does not recognise, or an `Any` that also carries proto content, are not
representable in the sense of the theorem -/
example : valOk sampleAnyEnv anyOracle (.object "t.A")
    (.msg [(2, .anyJ5 (ascii "t") [] (ascii "}") .none "" (.msg []))]) = false := by decide
example : valOk sampleAnyEnv anyOracle (.object "t.A")
    (.msg [(2, .anyJ5 (ascii "t") [8, 1] (ascii "{\"k\":1}") .none "" (.msg []))]) = false := by decide
example : OracleLaws anyOracle := oracleLaws_withChunk toyOracle toyOracle_laws _
example : ChunkLaws anyOracle := by
  intro bs V h
  simp only [anyOracle] at h
  split at h
  · cases h
    simp only [chunkTree, PTree.Enc, PMembers.Enc]
    exact ⟨LitOk_of_appendString _ _ (by decide), numOk_fmtNat 1, trivial⟩
  · cases h
/-- the real oracles (the driver's: `chunk` is never set) satisfy `ChunkLaws` trivially -/
example : ChunkLaws toyOracle := chunkLaws_default _ rfl

/-- **the codec's own output is a recognisable chunk**: for a representable message of a flat
environment the bytes `Codec.ProtoToJSON` returns are the rendering of an encoder tree — exactly
what `ChunkLaws` asks of a recognised `j5_json`. So an `Any` whose `j5_json` was produced by the
codec itself (the case the property quantifies over) is covered by `C01_roundtrip_partial` with
an oracle that recognises those bytes (`oracleLaws_withChunk`: the text-oracle laws are not
affected), as long as the nesting depth stays ≤ 10000 (`maxNestingDepth` of `encoding/json`). -/
theorem C01_own_output_is_chunk (c : Cfg) (hs : c.env.flat = true) (L : OracleLaws c.O)
    (hC : c.env.noAny = true ∨ ChunkLaws c.O) (root : String) (m : Fields)
    (hok : valOk c.env c.O (.object root) (.msg m) = true ∨
      valOk c.env c.O (.oneof root) (.msg m) = true)
    (hM : ∃ mode, modeOkF mode (6 * (depthFields m + 1) + 9) 0 m = true) :
    ∃ (bs : Bytes) (V : PTree), encodeBytes c.env c.O root (.msg m) = .ok bs ∧ V.Enc ∧ V.render = bs ∧
      V.complete = true := by
  obtain ⟨bs, hbs⟩ := encode_ok c hs L hC root m hok hM
  have hch : (PVal.msg m).chunksOk c.O = true := by
    rcases hok with hok | hok
    · exact valOk_chunksOk _ _ _ _ hok
    · exact valOk_chunksOk _ _ _ _ hok
  have hg : c.env.noAny = true ∨ (ChunkLaws c.O ∧ (PVal.msg m).chunksOk c.O = true) :=
    hC.elim Or.inl (fun h => Or.inr ⟨h, hch⟩)
  obtain ⟨t, ht, hb, _⟩ := encodeBytes_parses' c.env c.O (floatTextOk_of_laws c.O L) root
    (.msg m) bs hg hbs
  have henc := encodeTree_enc' c.env c.O (floatTextOk_of_laws c.O L) root (.msg m) t hg ht
  exact ⟨bs, t, hbs, henc, hb.symm, enc_complete t henc⟩

/-! ### empty flattened sub-messages -/

/-- the properties of `t.M` -/
def sampleProps : List PropDef :=
  match sampleEnv.find "t.M" with
  | some (.object ps) => ps
  | _ => []

/-- a message with an empty flattened sub-message (field 40) and one that is empty two levels down
(`40.3`): not representable itself, its canonical form drops them -/
def emptyFlatMsg : Fields := [(1, .str (ascii "x")), (40, .msg [(3, .msg [])])]

example : sampleEnv.find "t.M" = some (.object sampleProps) := by decide
example : valOk sampleEnv toyOracle (.object "t.M") (.msg emptyFlatMsg) = false := by decide
example : canonFlat sampleEnv sampleProps emptyFlatMsg = [(1, .str (ascii "x"))] := by rfl
example : asorted emptyFlatMsg = true ∧ sortedDeepF emptyFlatMsg = true := by decide
example : valOk sampleEnv toyOracle (.object "t.M")
    (.msg (canonFlat sampleEnv sampleProps emptyFlatMsg)) = true := by decide
/-- a flattened sub-message that holds a leaf is kept -/
example : canonFlat sampleEnv sampleProps
    [(40, .msg [(1, .str (ascii "deep")), (3, .msg [])])] = [(40, .msg [(1, .str (ascii "deep"))])] := by
  rfl

/-! ### protobuf `Any` -/

/-- an environment with a protobuf `Any` property and a resolver entry for the inner type -/
def samplePbEnv : Env :=
  { defs := [
      ("t.I", .object [{ jsonName := ascii "id", path := [1], pres := .imp, field := .scalar .string }]),
      ("t.P", .object [{ jsonName := ascii "any", path := [2], pres := .msg, field := .any true }])],
    res := [(ascii "t.v1.I", "t.I")] }

example : samplePbEnv.flat = true ∧ samplePbEnv.noJ5Any = true ∧ samplePbEnv.noAny = false := by decide
/-- a message that populates the protobuf `Any` (content `{id: "x"}` of `t.v1.I`) -/
def samplePbMsg : Fields :=
  [(2, .anyPb (anyPrefixB ++ ascii "t.v1.I") [] .inn "t.I" (.msg [(1, .str (ascii "x"))]))]

example : valOk samplePbEnv toyOracle (.object "t.P") (.msg samplePbMsg) = true := by decide
/-- the codec `WithProtoToAny` can decode it, the codec without cannot -/
example : ({ env := samplePbEnv, O := toyOracle, protoToAny := true } : Cfg).canDecode samplePbMsg := by
  decide
example : ¬ ({ env := samplePbEnv, O := toyOracle } : Cfg).canDecode samplePbMsg := by decide
/-- the message with j5 `Any` values: the codec without `WithProtoToAny` -/
example : ({ env := sampleAnyEnv, O := anyOracle } : Cfg).canDecode sampleAnyMsg := by decide
example : ∃ mode, modeOkF mode (6 * (depthFields samplePbMsg + 1) + 9) 0 samplePbMsg = true :=
  ⟨true, by decide⟩
example : samplePbEnv.resolve (ascii "t.v1.I") = some "t.I" := by decide
example : valOk samplePbEnv toyOracle (.object "t.I") (.msg [(1, .str (ascii "x"))]) = true := by decide
example : (({ env := samplePbEnv, O := toyOracle, protoToAny := true } : Cfg).anyDepth < maxAnyDepth) := by
  decide
example : 6 * (depthFields [(1, PVal.str (ascii "x"))] + 1) + 10 ≤ 10000 := by decide
example : groupBusy [] { jsonName := ascii "any", path := [2], pres := .msg, field := .any true } [] = false ∧
    isValidUtf8 (ascii "t.v1.I") = true := by decide

/-! ### an exposed oneof inlined from a flattened object -/

/-- the exposed oneof `kind` of the flattened object: members `num` (field 20) and `txt` (21) -/
def ioOps : List PropDef := [
  { jsonName := ascii "num", path := [20], pres := .opt, field := .scalar .int32, group := some 0 },
  { jsonName := ascii "txt", path := [21], pres := .opt, field := .scalar .string, group := some 0 }]

/-- the parent's properties after flattening field 40: the siblings `fa`, `fb` with paths `[40, x]`
and the oneof property `kind` with path `[40]` — a proper prefix of its siblings' paths -/
def ioKind : PropDef := { jsonName := ascii "kind", path := [40], pres := .msg, field := .oneof "t.K" }
def ioProps : List PropDef := [
  { jsonName := ascii "fa", path := [40, 1], pres := .imp, field := .scalar .string },
  ioKind,
  { jsonName := ascii "fb", path := [40, 2], pres := .imp, field := .scalar .bool }]
def ioEnv : Env := { defs := [("t.K", .oneof ioOps), ("t.P", .object ioProps)] }
def ioCfg : Cfg := { env := ioEnv, O := toyOracle }

/-- the environment is NOT flat (so `C01_roundtrip_partial` does not apply to it) -/
example : ioEnv.flat = false := by decide
/-- the decoder state after the member `fa` has been read, and the flattened sub-message of the
original message: the sibling leaf `fa = "x"` and the oneof member `num = 7` -/
def ioState : PS := { m := [(40, .msg [(1, .str (ascii "x"))])], seen := [ascii "fa"] }
def ioSub : Fields := [(1, .str (ascii "x")), (20, .int 7)]

/-- `C01_inlined_oneof_partial` at this instance: all hypotheses hold, and the decoder's message
afterwards holds the sibling leaf AND the member -/
example : ∃ t, encValue ioEnv toyOracle 4 (.oneof "t.K") (.msg ioSub) = .ok t ∧
    decProp ioCfg ioProps ioKind t ioState =
      .ok { m := updPath ioProps ioKind (some (.msg ioSub)) ioState.m, seen := ascii "kind" :: ioState.seen } := by
  refine C01_inlined_oneof_partial ioCfg ioProps ioKind ioState "t.K" ioOps rfl (by decide) (by decide)
    (by decide) (by decide) (by decide) (by decide) ioSub 1 (by decide) ?_ ?_
    (Or.inr ⟨ioOps.head!, by decide, 20, .int 7, rfl, rfl⟩)
  · intro q hq k v hqk hag
    simp only [ioOps, List.mem_cons, List.not_mem_nil, or_false] at hq
    rcases hq with rfl | rfl
    · cases hqk
      have hv : v = .int 7 := by
        simp [ioSub, aget] at hag
        exact hag.symm
      subst hv
      exact C01_member_facts_scalar ioCfg toyOracle_laws 0 _ .int32 (.int 7) rfl (by decide) (by decide)
    · cases hqk
      simp [ioSub, aget] at hag
  · intro q hq k hqk
    simp only [ioOps, List.mem_cons, List.not_mem_nil, or_false] at hq
    rcases hq with rfl | rfl <;> cases hqk <;> rfl
example : updPath ioProps ioKind (some (.msg ioSub)) ioState.m = [(40, .msg ioSub)] := by rfl

/-! ### j5 `Any` under `WithProtoToAny` -/

/-- hypotheses of `C01_any_j5_expanded_partial`: the value `{"id":"x"}` of type `t.v1.I`, which the
codec `WithProtoToAny` also expands to the content `{id: "x"}` -/
def expTree : PTree := .obj (.cons (ascii "id") (ascii "\"id\"") (.str (ascii "x") (ascii "\"x\"")) (.nil .closed))
def expEnv : Env :=
  { defs := [
      ("t.I", .object [{ jsonName := ascii "id", path := [1], pres := .imp, field := .scalar .string }]),
      ("t.Q", .object [{ jsonName := ascii "any", path := [2], pres := .msg, field := .any false }])],
    res := [(ascii "t.v1.I", "t.I")] }
example : expTree.complete = true ∧ expTree.depth ≤ 10000 ∧ expTree.render ≠ [] ∧
    isValidUtf8 (ascii "t.v1.I") = true ∧ expEnv.resolve (ascii "t.v1.I") = some "t.I" := by decide
example : decRootTree { env := expEnv, O := toyOracle, protoToAny := true, anyDepth := 0 + 1 } "t.I" expTree =
    .ok [(1, .str (ascii "x"))] := by rfl

/-- `C01_decimal_normalised_partial`: an oracle that normalises `1.50` to `1.5` (and knows `1.5`),
satisfying the laws -/
def normOracle : Oracle :=
  { toyOracle with
    parseDec := fun t =>
      if t = ascii "1.50" then some (ascii "1.5") else if t = ascii "1.5" then some (ascii "1.5") else none }
example : normOracle.parseDec (ascii "1.50") = some (ascii "1.5") ∧ isValidUtf8 (ascii "1.50") = true := by
  decide
example : OracleLaws normOracle :=
  { toyOracle_laws with
    dec := by
      intro s norm h
      simp only [normOracle] at h ⊢
      split at h
      · cases h; decide
      · split at h
        · cases h; decide
        · cases h }
/-- the oracle laws are satisfiable -/
example : OracleLaws toyOracle := toyOracle_laws

/-- representable values of several kinds (boundaries included) -/
example : scalarRepr toyOracle .int64 (.int (-9223372036854775808)) = true := by decide
example : scalarRepr toyOracle .uint64 (.uint 18446744073709551615) = true := by decide
example : scalarRepr toyOracle .date (.date 33 1 2) = true := by decide
example : scalarRepr toyOracle .date (.date 2024 2 29) = true := by decide
example : scalarRepr toyOracle .date (.date 2023 2 29) = false := by decide
example : scalarRepr toyOracle .float64 (.f64 0x3ff8000000000000) = true := by decide
example : scalarRepr toyOracle .float64 (.f64 0x7ff0000000000000) = false := by decide
example : scalarRepr toyOracle .bytes (.bytes [0, 255, 16]) = true := by decide
/-- the recorded (and repaired) defect: year 33 used to be written `"  33-01-02"` -/
example : dateString 33 1 2 = ascii "0033-01-02" := by decide

/-! ## source facts
Obligations over `J5V.Generated.Codec` (regenerated from /repo's current source by extract/codec.go at
every check run). Maintained by codec-go; they tie the model's case analysis to the switches in
the Go source. -/
section SourceFacts
open J5V.Generated.Codec

/-- both directions of the scalar codec cover the same schema kinds and formats -/
theorem C01_src_inverse_pair_coverage :
    reflectFromGoCases = goFromReflectCases ∧
    reflectFromGoIntegerFormats = goFromReflectIntegerFormats ∧
    reflectFromGoFloatFormats = goFromReflectFloatFormats := by decide

/-- the decoder parses timestamps with the layout that accepts everything the encoder's layout prints -/
theorem C01_src_timestamp_layouts :
    timestampEncodeLayout = "time.RFC3339Nano" ∧ timestampDecodeLayout = "time.RFC3339" ∧
    dateStringFormat = "%04d-%02d-%02d" := by decide

theorem C01_src_extractor_ok : codecExtractorOk = true := by decide

end SourceFacts

end J5V.Props.C01
