import J5V.Id62.Proofs
import J5V.Generated.Id62Facts
/-!
# C20 — id62 identifiers round-trip and have a fixed, pattern-conforming shape

Only the property theorems (and their non-vacuity examples) live here.
All statements are about `J5V.Id62` (the model of `lib/id62/uuid62.go`), for **every** 16-byte
identifier and **every** byte string; no bound.
-/
namespace J5V.Props.C20
open J5V.Go J5V.Id62

/-- Rendering never reaches the `panic("base62 value is too large")` arm. -/
theorem C20_render_no_panic (id : List Nat) (h : IsId id) : ∃ s, render id = .ok s := by
  exact ⟨_, render_eq id h⟩

/-- Every identifier renders to exactly 22 characters. -/
theorem C20_length (id : List Nat) (h : IsId id) (s : List Nat) (hs : render id = .ok s) :
    s.length = 22 := by
  rw [render_eq id h] at hs
  cases hs
  simpa using renderDigits_length _ (lt_trans (bytesToNat_lt id h) two_pow_128_lt)

/-- Every rendering matches the published pattern `^[0-9A-Za-z]{22}$`. -/
theorem C20_pattern (id : List Nat) (h : IsId id) (s : List Nat) (hs : render id = .ok s) :
    matchesPattern s = true := by
  have hl := C20_length id h s hs
  rw [render_eq id h] at hs
  cases hs
  unfold matchesPattern
  simp only [Bool.and_eq_true, beq_iff_eq, List.all_eq_true]
  refine ⟨hl, ?_⟩
  intro c hc
  obtain ⟨d, hd, rfl⟩ := List.mem_map.mp hc
  exact digitByte_alnum d (renderDigits_lt _ d hd)

/-- Parsing a rendering gives back the same 16 bytes. -/
theorem C20_roundtrip (id : List Nat) (h : IsId id) (s : List Nat) (hs : render id = .ok s) :
    parse s = .ok id := by
  rw [render_eq id h] at hs
  cases hs
  have hv := setString62_render (renderDigits (bytesToNat id)) (renderDigits_ne_nil _)
    (renderDigits_lt _)
  rw [renderDigits_value] at hv
  obtain ⟨bs, hp, hid, hval⟩ := parse_of_value _ _ hv (bytesToNat_lt id h)
  rw [hp, isId_ext bs id hid h hval]

/-- Distinct identifiers have distinct renderings. -/
theorem C20_injective (a b : List Nat) (ha : IsId a) (hb : IsId b) (s : List Nat)
    (hsa : render a = .ok s) (hsb : render b = .ok s) : a = b := by
  have h1 := C20_roundtrip a ha s hsa
  have h2 := C20_roundtrip b hb s hsb
  rw [h1] at h2
  cases h2; rfl

/-- Parsing never panics, on any byte string. -/
theorem C20_parse_no_panic (s : List Nat) : ∀ w, parse s ≠ .panic w := by
  intro w
  unfold parse
  split
  · simp
  · simp only []
    split
    · simp
    · split <;> simp

/-- Values that do not fit in 16 bytes are rejected. -/
theorem C20_rejects_wide (s : List Nat) (n : Nat) (hs : setString62 s = some n)
    (hn : 2 ^ 128 ≤ n) : ∃ e, parse s = .err e :=
  ⟨_, parse_wide s n hs hn⟩

/-- Conversely every accepted string yields a 16-byte identifier carrying exactly the value
the string denotes (nothing is truncated). -/
theorem C20_parse_exact (s : List Nat) (bs : List Nat) (h : parse s = .ok bs) :
    IsId bs ∧ setString62 s = some (bytesToNat bs) := by
  cases hs : setString62 s with
  | none => simp [parse, hs] at h
  | some n =>
    by_cases hn : n < 2 ^ 128
    · obtain ⟨bs', hp, hid, hv⟩ := parse_of_value s n hs hn
      rw [hp] at h; cases h
      exact ⟨hid, by rw [hv]⟩
    · rw [parse_wide s n hs (by omega)] at h; cases h

/-- Hash-derived identifiers are a pure function of namespace and inputs (they depend on the
inputs only through the hashed byte stream), and always have 16 bytes. -/
theorem C20_hash_pure (sha1 : List Nat → List Nat) (ns ns' : List Nat) (i i' : List (List Nat))
    (h : ns ++ i.flatten = ns' ++ i'.flatten) : newHash sha1 ns i = newHash sha1 ns' i' := by
  unfold newHash; rw [h]

theorem C20_hash_length (sha1 : List Nat → List Nat) (ns : List Nat) (i : List (List Nat)) :
    (newHash sha1 ns i).length = 16 := by
  unfold newHash; simp

/-! ## Non-vacuity -/

example : IsId (List.replicate 16 255) := by decide
example : IsId [1,0,0,0,0,0,0,0,0,0,0,0,0,0,0,0] := by decide
example : ∃ s, render (List.replicate 16 0) = .ok s ∧ s = List.replicate 22 48 := by
  refine ⟨_, rfl, ?_⟩; decide
/-- a string that denotes a value ≥ 2^128: 23 characters `1000…0` -/
example : ∃ n, setString62 (49 :: List.replicate 22 48) = some n ∧ 2 ^ 128 ≤ n := by
  refine ⟨62 ^ 22, ?_, by norm_num⟩
  decide

end J5V.Props.C20

/-! ## Obligations over facts regenerated from the current source (`extract -what id62`)

The model hard-codes base 62, width 22, the `0`-padding and the two length comparisons; these
obligations re-check on every run that the source still says the same. -/
namespace J5V.Props.C20
open J5V.Generated.Id62

theorem C20_src_pattern : patternString = "^[0-9A-Za-z]{22}$" := by decide
theorem C20_src_bases : textBase = 62 ∧ setStringBase = 62 := by decide
theorem C20_src_padding : padFormat = "%022s" ∧ renderComparisons = ["len(…)<22", "len(…)>22"] := by
  decide
theorem C20_src_parse_guards : parseComparisons = ["len(…)>len(…)", "len(…)<len(…)"] := by decide
/-- `NewHash` reads nothing but its parameters, locals and `crypto/sha1`. -/
theorem C20_src_hash_closed : newHashFreeIdents = [] := by decide
/-- the compiler emits and the reader recognises the same published pattern constant -/
theorem C20_src_pattern_shared : compilerUsesPattern = true ∧ readerUsesPattern = true := by decide

end J5V.Props.C20
