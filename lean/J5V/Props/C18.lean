import J5V.Schema.ReaderProofs
import J5V.Generated.SchemaFacts
/-!
# C18 — schema reflection over arbitrary linked proto3 descriptor sets is total and self-consistent

Only the property theorems (and their non-vacuity examples) live here. The statements are about
`J5V.Schema.Reader`, the model of `lib/j5schema/schema_from_proto.go` as an explicit stack machine
over an abstract descriptor set, for **every** descriptor set: any number of messages, any
nesting, any recursion, any combination of annotation cases.
-/
namespace J5V.Props.C18
open J5V.Go J5V.Schema J5V.Schema.Reader

/-- **No infinite recursion.** Every transition of the reader that does not stop strictly
decreases the pair (messages of the set whose schema name has no placeholder yet, work left on
the stack) in the lexicographic order — for every descriptor set, including self- and mutually
recursive messages. `run` is defined by well-founded recursion on exactly this measure (there is
no fuel parameter), so it returns a schema set, an error or a panic for every input. -/
theorem C18_terminates (ds : DescSet) (st st' : St) (h : step ds st = .cont st') :
    Prod.Lex (· < ·) (· < ·) (unregistered ds st'.reg, work st'.stack)
      (unregistered ds st.reg, work st.stack) :=
  step_decreases ds st st' h

/-- a message is entered only after its placeholder has been registered, and never twice: the
message pushed by a field is one of the set, its name was free and is taken afterwards -/
theorem C18_placeholder_first (ds : DescSet) (reg : Reg) (f : FieldD) (prop : RProp) (b : Built)
    (m : Msg) (h : buildProperty ds reg f = .ok (prop, b)) (hp : b.push = some m) :
    m ∈ ds.msgs ∧ reg.has m.pkg m.split = false ∧ (reg.applyAll b.ops).has m.pkg m.split = true :=
  buildProperty_push ds reg f prop b m h hp

/-- **Property names are unique within each object / oneof**: a message (or exposed oneof) is
only completed when the JSON names of its properties are pairwise distinct. -/
theorem C18_names_unique (fr : Frame) (ops : List RegOp) (h : finish fr = .ok ops) :
    (fr.props.map (·.json)).Nodup ∧ ∀ x ∈ fr.expose, (x.2.2.map (·.json)).Nodup := by
  unfold finish at h
  split at h
  · cases h
  · split at h
    · cases h
    · rename_i hu
      split at h
      · cases h
      · rename_i he
        refine ⟨by simpa [namesUnique] using hu, ?_⟩
        intro x hx
        simp only [List.any_eq_true, Bool.not_eq_true', not_exists, not_and] at he
        have := he x hx
        simpa [namesUnique] using this

/-! ### totality

The full statement — *for every linked descriptor set the reader returns a schema set or an
error, never a panic* — is **false** of the code as it is: two descriptors can map to one J5
schema name (`splitDescriptorName` joins nested names with `_`), and `buildEnumFieldSchema`
asserts `ref.To.(*EnumSchema)` without checking (recorded open finding `name-collision:*`).
So the full statement is kept as a `def`, refuted at a concrete witness (replayed on the Go side
as the first op of every `schema.reflect` shard), and proved under the explicit decidable
hypothesis `enumNamesFree` that excludes exactly that class. -/

/-- the full-strength statement -/
def C18_total_full : Prop :=
  ∀ ds : DescSet, linked ds = true → ∀ w, schemaSetFromFiles ds ≠ .panic w

/-- `message Foo_E {}  message Foo { enum E { E_UNSPECIFIED = 0; E_A = 1; }
     E x = 1 [(buf.validate.field).enum.in = 1]; }` — both `Foo_E` and `Foo.E` are "Foo_E" -/
def collisionWitness : DescSet :=
  let x : FieldD := ⟨"x", "x", 1, .enum, .single, -1, .enum "wt.v1.Foo.E" "wt.v1" "Foo_E", false,
    some (.mk none none (.enum [1] [])), none, none, none, none, none⟩
  let fooE : Msg := ⟨"wt.v1.Foo_E", "wt.v1", "Foo_E", "Foo_E", none, none, "nofield", none, [], []⟩
  let foo : Msg := ⟨"wt.v1.Foo", "wt.v1", "Foo", "Foo", none, none, "nofield", none, [], [x]⟩
  let e : EnumD := ⟨"wt.v1.Foo.E", "wt.v1", "E", "Foo_E", false, [("E_UNSPECIFIED", 0), ("E_A", 1)]⟩
  ⟨["wt.v1.Foo_E", "wt.v1.Foo"], [], ["wt.v1.Foo_E", "wt.v1.Foo"], [fooE, foo], [e]⟩

theorem collisionWitness_linked : linked collisionWitness = true := by decide

theorem collisionWitness_panics :
    schemaSetFromFiles collisionWitness =
      .panic "interface conversion: RootSchema is not *EnumSchema" :=
  schemaSetFromFilesN_sound collisionWitness 10 _ (by decide)

/-- the full statement does not hold of the code as it is -/
theorem C18_total_counterexample : ¬ C18_total_full := by
  intro h
  exact h collisionWitness collisionWitness_linked _ collisionWitness_panics

/-- **Never panics** (partial: enum names free). For every linked descriptor set in which no
message and no oneof shares its schema name with an enum, `SchemaSetFromFiles` returns a schema
set or an error — for any number of messages, any recursion, any annotation combination. -/
theorem C18_total_partial (ds : DescSet) (hl : linked ds = true) (hf : enumNamesFree ds = true) :
    ∀ w, schemaSetFromFiles ds ≠ .panic w :=
  (schemaSetFromFiles_safe ds hl hf).1

/-- the same for `SchemaCache.Schema`, for any sequence of calls on one cache: each call returns
a schema or an error and leaves the cache sound (including after a failed build, which is rolled
back) -/
theorem C18_cache_total_partial (ds : DescSet) (hl : linked ds = true)
    (hf : enumNamesFree ds = true) (reg : Reg) (hreg : RegOK ds reg) (m : Msg) (hm : m ∈ ds.msgs) :
    (∀ w, (cacheSchema ds reg m).1 ≠ .panic w) ∧ RegOK ds (cacheSchema ds reg m).2 :=
  cacheSchema_safe ds hl hf reg m hm hreg

/-- the hypothesis excludes exactly the witness's class -/
example : enumNamesFree collisionWitness = false := by decide

/-! ## Non-vacuity -/

/-- `message M { M child = 1; string name = 2; }` — self-recursive -/
def selfRecursive : DescSet :=
  let f1 : FieldD := ⟨"child", "child", 1, .message, .single, -1, .msg "p.v1.M" "p.v1" "M", false,
    none, none, none, none, none, none⟩
  let f2 : FieldD := ⟨"name", "name", 2, .string, .single, -1, .none, false,
    none, none, none, none, none, none⟩
  let m : Msg := ⟨"p.v1.M", "p.v1", "M", "M", none, none, "nofield", none, [], [f1, f2]⟩
  ⟨["p.v1.M"], [], ["p.v1.M"], [m], []⟩

example : linked selfRecursive = true ∧ enumNamesFree selfRecursive = true := by decide

/-- … and it reflects: one object `M` with an object property pointing back at `M` -/
example : schemaSetFromFiles selfRecursive =
    .ok [⟨"p.v1", "M", some (.object "p.v1" "M" none []
      [⟨"child", false, false, [1], .object ⟨"p.v1", "M"⟩ false⟩,
       ⟨"name", false, false, [2], .scalar .string 0 9 ""⟩]), "p.v1.M"⟩] :=
  schemaSetFromFilesN_sound selfRecursive 10 _ (by decide)

/-! ## Obligations over facts regenerated from the current source (`extract -what schema`)

The model's kind table (`buildSchema`, `buildScalar`) and well-known-type table (`wktSchema`) are
hand-written; these obligations re-check on every run that the source still has exactly the case
groups the model encodes (a kind moved into or out of a case changes which descriptor sets
reflect, and with which J5 type). -/
section Src
open J5V.Generated.Schema

theorem C18_src_kind_switches :
    readerSwitches =
      [("Package.buildSchema", "src.Kind()", [["MessageKind"], ["EnumKind"]]),
       ("buildScalarType", "src.Kind()",
         [["StringKind"], ["BoolKind"], ["Int32Kind", "Sint32Kind"], ["Uint32Kind"],
          ["Int64Kind", "Sint64Kind"], ["Uint64Kind"], ["FloatKind"], ["DoubleKind"], ["BytesKind"],
          ["default"]]),
       ("wktSchema", "string(fullName)",
         [["google.protobuf.Timestamp"], ["google.protobuf.Duration"], ["j5.types.date.v1.Date"],
          ["j5.types.decimal.v1.Decimal"], ["google.protobuf.Struct"],
          ["j5.types.any.v1.Any", "google.protobuf.Any"]])] := by decide

/-- the model agrees with that table: exactly the listed scalar kinds are accepted (without
annotations), every other kind is an error -/
theorem C18_model_kind_table :
    ([PKind.string, .bool, .int32, .sint32, .uint32, .int64, .sint64, .uint64, .float, .double,
        .bytes].all fun k => (buildScalar k ⟨none, none, none⟩ none).isOk) = true ∧
    ([PKind.fixed32, .fixed64, .sfixed32, .sfixed64, .group, .message, .enum].all fun k =>
        (buildScalar k ⟨none, none, none⟩ none).isErr) = true := by decide

end Src

end J5V.Props.C18
