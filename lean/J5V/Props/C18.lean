import J5V.Schema.CodecEmpty
import J5V.Schema.CodecRoundtrip
import J5V.Codec.ScalarProofs
import J5V.Schema.Export
import J5V.Generated.SchemaFacts
/-!
# C18 — schema reflection over arbitrary linked proto3 descriptor sets is total and self-consistent

Only the property theorems (and their non-vacuity examples) live here. The statements are about
`J5V.Schema.Reader`, the model of `lib/j5schema/schema_from_proto.go` as an explicit stack machine
over an abstract descriptor set, for **every** descriptor set: any number of messages, any
nesting, any recursion, any combination of annotation cases.
-/
namespace J5V.Props.C18
open J5V.Go J5V.Schema J5V.Schema.Reader

/-- **No infinite recursion.** Every transition of the reader that does not stop strictly
decreases the pair (messages of the set whose schema name has no placeholder yet, work left on
the stack) in the lexicographic order — for every descriptor set, including self- and mutually
recursive messages. `run` is defined by well-founded recursion on exactly this measure (there is
no fuel parameter), so it returns a schema set, an error or a panic for every input. -/
theorem C18_terminates (ds : DescSet) (st st' : St) (h : step ds st = .cont st') :
    Prod.Lex (· < ·) (· < ·) (unregistered ds st'.reg, work st'.stack)
      (unregistered ds st.reg, work st.stack) :=
  step_decreases ds st st' h

/-- a message is entered only after its placeholder has been registered, and never twice: the
message pushed by a field is one of the set, its name was free and is taken afterwards -/
theorem C18_placeholder_first (ds : DescSet) (reg : Reg) (f : FieldD) (prop : RProp) (b : Built)
    (m : Msg) (h : buildProperty ds reg f = .ok (prop, b)) (hp : b.push = some m) :
    m ∈ ds.msgs ∧ reg.has m.pkg m.split = false ∧ (reg.applyAll b.ops).has m.pkg m.split = true :=
  buildProperty_push ds reg f prop b m h hp

/-- **Property names are unique within each object / oneof**: a message (or exposed oneof) is
only completed when the JSON names of its properties are pairwise distinct. -/
theorem C18_names_unique (fr : Frame) (ops : List RegOp) (h : finish fr = .ok ops) :
    (fr.props.map (·.json)).Nodup ∧ ∀ x ∈ fr.expose, (x.2.2.map (·.json)).Nodup := by
  unfold finish at h
  split at h
  · cases h
  · split at h
    · cases h
    · rename_i hu
      split at h
      · cases h
      · rename_i he
        refine ⟨by simpa [namesUnique] using hu, ?_⟩
        intro x hx
        simp only [List.any_eq_true, Bool.not_eq_true', not_exists, not_and] at he
        have := he x hx
        simpa [namesUnique] using this

/-! ### totality

`linked ds` is what `protodesc` guarantees about a descriptor set (trusted; the driver evaluates
it on every generated set and the harness answers `linked=1` for every set that links): a message
/ enum kind field comes with its descriptor and the descriptor is in the set, enums have at least
one value, the listed file-level names exist, full names are unique across kinds (no message or
oneof has the full name of an enum, no message that of a oneof), field numbers are distinct
within a message, and schema names (`splitDescriptorName`) contain no dot. -/

/-- **Never panics.** For every linked descriptor set `SchemaSetFromFiles` returns a schema set
or an error — for any number of messages, any self / mutual recursion, any annotation
combination, and whether or not two descriptors collide on a J5 schema name. (Before af1da62 the
last case panicked: see `collisionWitness`.) -/
theorem C18_total (ds : DescSet) (hl : linked ds = true) :
    ∀ w, schemaSetFromFiles ds ≠ .panic w :=
  (schemaSetFromFiles_safe ds hl).1

/-- the same for `SchemaCache.Schema`, for any sequence of calls on one cache: each call returns
a schema or an error and leaves the cache settled — sound, every reference registered for the
descriptor it names, no placeholder left unlinked — including after a failed build, which is
rolled back. `Settled ds []` holds (`C18_cache_starts_settled`). -/
theorem C18_cache_total (ds : DescSet) (hl : linked ds = true) (reg : Reg) (hreg : Settled ds reg)
    (m : Msg) (hm : ds.msg? m.full = some m) :
    (∀ w, (cacheSchema ds reg m).1 ≠ .panic w) ∧ Settled ds (cacheSchema ds reg m).2 :=
  cacheSchema_safe ds hl reg m hm hreg

theorem C18_cache_starts_settled (ds : DescSet) : Settled ds [] := Settled.nil ds

/-- **Every reference is resolved.** In a reflected set no entry is left without a schema, and
every object / oneof schema registered for a descriptor was built from exactly that descriptor:
it is an object iff the message is not a oneof wrapper, each property describes a field of that
message, and the schema name a message-kind property refers to is the one registered for the
field's own target (`RegLinks`; colliding names are errors since af1da62). -/
theorem C18_refs_linked (ds : DescSet) (hl : linked ds = true) (reg : Reg)
    (h : schemaSetFromFiles ds = .ok reg) : (∀ e ∈ reg, e.to ≠ none) ∧ RegLinks ds reg :=
  ⟨((schemaSetFromFiles_safe ds hl).2 reg h).2.2, ((schemaSetFromFiles_safe ds hl).2 reg h).2.1⟩

/-- `message Foo_E {}  message Foo { enum E { E_UNSPECIFIED = 0; E_A = 1; }
     E x = 1 [(buf.validate.field).enum.in = 1]; }` — both `Foo_E` and `Foo.E` are "Foo_E".
The witness of the repaired defect (first op of every `schema.reflect` shard on the Go side):
the unchecked `ref.To.(*EnumSchema)` used to panic here; now the second descriptor's claim on the
name is an error. -/
def collisionWitness : DescSet :=
  let x : FieldD := ⟨"x", "x", 1, .enum, .single, -1, .enum "wt.v1.Foo.E" "wt.v1" "Foo_E", false,
    some (.mk none none (.enum [1] [])), none, none, none, none, none⟩
  let fooE : Msg := ⟨"wt.v1.Foo_E", "wt.v1", "Foo_E", "Foo_E", none, none, "nofield", none, [], []⟩
  let foo : Msg := ⟨"wt.v1.Foo", "wt.v1", "Foo", "Foo", none, none, "nofield", none, [], [x]⟩
  let e : EnumD := ⟨"wt.v1.Foo.E", "wt.v1", "E", "Foo_E", false, [("E_UNSPECIFIED", 0), ("E_A", 1)]⟩
  ⟨["wt.v1.Foo_E", "wt.v1.Foo"], [], ["wt.v1.Foo_E", "wt.v1.Foo"], [fooE, foo], [e]⟩

example : linked collisionWitness = true := by decide +kernel

theorem C18_collision_is_an_error :
    schemaSetFromFiles collisionWitness = .err "schema name is used by two descriptors" :=
  schemaSetFromFilesN_sound collisionWitness 10 _ (by decide)

/-! ### proto paths resolve to fields of the matching kind; names are unique

`RegDescribes ds reg`: every object / oneof schema registered under (p, k) was built from a
message of the set whose schema name (or whose oneof's) is (p, k); each of its properties either
has the number of a field of that message as its path, with a schema that `describes` the field
(cardinality: array ↔ repeated, map ↔ map; element: J5 scalar ↔ proto kind by `scalarFits`,
well-known scalar ↔ its message, enum / object / oneof ↔ the referenced descriptor's own schema
name, oneof-ness as `isOneofWrapper` says), or is the wrapper of an exposed oneof of the message;
and the JSON names of its properties are pairwise distinct.

`google.protobuf.Struct` used to be the exception (reflected as `MapField{AnyField}` over a
message-kind field, finding `struct-as-map:*`); since the repair it is an "unsupported google type"
schema error like `google.protobuf.Duration`, and the statement holds for every descriptor set. -/

/-- `message M { google.protobuf.Struct s = 1; }` — the witness of the repaired `struct-as-map` -/
def structWitness : DescSet :=
  let f : FieldD := ⟨"s", "s", 1, .message, .single, -1,
    .msg "google.protobuf.Struct" "google.protobuf" "Struct", false, none, none, none, none, none, none⟩
  let m : Msg := ⟨"wt.v1.M", "wt.v1", "M", "M", none, none, "nofield", none, [], [f]⟩
  ⟨["wt.v1.M"], [], ["wt.v1.M"], [m], []⟩

/-- `message M { google.protobuf.Duration d = 1; }` — the witness of the repaired
`duration-as-string` -/
def durationWitness : DescSet :=
  let f : FieldD := ⟨"d", "d", 1, .message, .single, -1,
    .msg "google.protobuf.Duration" "google.protobuf" "Duration", false, none, none, none, none, none, none⟩
  let m : Msg := ⟨"wt.v1.M", "wt.v1", "M", "M", none, none, "nofield", none, [], [f]⟩
  ⟨["wt.v1.M"], [], ["wt.v1.M"], [m], []⟩

-- (`String.startsWith` on a long enough string does not unfold for the elaborator's `decide`; the
-- kernel evaluates it: `decide +kernel` adds no axiom)
example : linked structWitness = true ∧ linked durationWitness = true := by decide +kernel

/-- the two repaired witnesses are schema errors now (Go: among the first ops of every
`schema.reflect` shard) -/
theorem C18_unsupported_are_errors :
    schemaSetFromFiles structWitness = .err "unsupported google type" ∧
    schemaSetFromFiles durationWitness = .err "unsupported google type" :=
  ⟨schemaSetFromFilesN_sound structWitness 10 _ (by decide +kernel),
   schemaSetFromFilesN_sound durationWitness 10 _ (by decide +kernel)⟩

/-- **Paths resolve, kinds match, names are unique.** For every descriptor set, if reflection
succeeds then every schema of the set points into the message it was built from, with matching
cardinality and kind, and distinct property names. -/
theorem C18_paths_resolve (ds : DescSet) (reg : Reg)
    (h : schemaSetFromFiles ds = .ok reg) : RegDescribes ds reg :=
  schemaSetFromFiles_describes ds reg h

/-- the per-field core of it: the property built for a field has that field's number as path,
its JSON name, and a schema describing it — whatever annotations the field carries -/
theorem C18_property_describes_field (ds : DescSet) (reg : Reg) (f : FieldD) (prop : RProp)
    (b : Built) (h : buildProperty ds reg f = .ok (prop, b)) :
    prop.path = [f.number] ∧ prop.json = f.jsonName ∧ describes ds f prop.schema = true :=
  buildProperty_describes ds reg f prop b h

/-- what C15 assumes of a reflected scalar (`wfField`): the reader only ever builds integer and
float scalars with a format the importer's `intKinds` / `floatKinds` tables know -/
theorem C18_reader_formats_importable (kind : PKind) (e : Ext) (key : Option KeySum) (tag : STag)
    (fmt : Nat) (h : buildScalar kind e key = .ok (tag, fmt)) :
    (tag = .integer → (intKind fmt).isSome = true) ∧ (tag = .float → (floatKind fmt).isSome = true) := by
  unfold buildScalar at h
  split at h
  · -- string: the tag is string or key
    obtain ⟨t, ht, hx⟩ := map_eq_ok h
    cases hx
    unfold buildString at ht
    obtain ⟨a, _, h2⟩ := bind_eq_ok ht
    obtain ⟨b, _, h3⟩ := bind_eq_ok h2
    obtain ⟨c, _, h4⟩ := bind_eq_ok h3
    rcases stringKind_tag _ _ _ h4 with rfl | rfl <;> simp
  · cases h; simp
  all_goals first
    | (cases h; done)
    | (cases h; simp)
    | (obtain ⟨_, _, hx⟩ := map_eq_ok h; cases hx; simp [intKind, floatKind])

/-! ### the property-set layer of the codec accepts what the reader produced

`lib/j5reflect` builds, for a message, the client properties (flattened fields expanded), walks
every proto path (`newPropSet`) and checks every field schema against the proto kind before it
touches a value (`buildProperty`, `newMessageFieldFactory`, `newFieldFactory`). Values themselves
(encode / decode of a populated message) are the codec cluster's model (C01, C06); what is proved
here is that none of these checks can fail or panic on a schema that describes its field. -/

/-- **Flattening terminates.** `ClientProperties` descends into a flattened object only when it
is not already on the flattening stack, and each descent strictly decreases the number of
registered schema names not on the stack (the repair 595283b; without the guard a message that
flattens itself recursed until the stack overflowed). `clientProps` is defined by well-founded
recursion on exactly this measure. -/
theorem C18_flatten_terminates (reg : Reg) (fl : List Ref) (r : Ref) (e : REntry)
    (hf : reg.find r.pkg r.schema = some e) (hn : onStack fl r = false) :
    unflattened reg (fl ++ [r]) < unflattened reg fl :=
  unflattened_lt reg fl r e hf hn

/-- `message M { M child = 1 [flatten]; string name = 2; }`: the self-flattening field stays a
nested object -/
example :
    let child : RProp := ⟨"child", false, false, [1], .object ⟨"wt.v1", "M"⟩ true⟩
    let name : RProp := ⟨"name", false, false, [2], .scalar .string 0 9 ""⟩
    clientProperties [⟨"wt.v1", "M", some (.object "wt.v1" "M" none [] [child, name]), "wt.v1.M"⟩]
      ⟨"wt.v1", "M"⟩ = .ok [child, name] := by
  simp [clientProperties, objectProps, Reg.find, Outcome.bind, clientProps, onStack, Outcome.map]

/-- **The codec's checks pass** (partial: for properties that point at a field — flattened paths
are concatenations of such steps —, and not for a list / map of `Any`, open finding
`any-in-collection`). If a property of a schema built from message `m` describes field `f` of
`m`, then `newPropSet` resolves its path to a field with that number and every kind check of the
field factories succeeds — no error, no panic. Together with `C18_paths_resolve` this covers
every non-flattened property of every reflected schema. -/
theorem C18_codec_ok_partial (ds : DescSet) (m : Msg) (f : FieldD) (hf : f ∈ m.fields) (s : RField)
    (h : describes ds f s = true) (hany : anyInCollection s = false) :
    (∃ g, resolvePath ds m [f.number] = .ok (some g) ∧ g ∈ m.fields ∧ g.number = f.number) ∧
    reflectField f s = .ok () :=
  ⟨resolvePath_single ds m f hf, reflectField_ok ds f s h hany⟩

/-- `message M { repeated j5.types.any.v1.Any a = 1; }` — the witness of the open finding
`any-in-collection` (the Go side runs it in every `schema.reflect` shard) -/
def anyListWitness : DescSet :=
  let f : FieldD := ⟨"a", "a", 1, .message, .list, -1,
    .msg "j5.types.any.v1.Any" "j5.types.any.v1" "Any", false, none, none, none, none, none, none⟩
  let m : Msg := ⟨"wt.v1.M", "wt.v1", "M", "M", none, none, "nofield", none, [], [f]⟩
  ⟨["wt.v1.M"], [], ["wt.v1.M"], [m], []⟩

theorem anyListWitness_reflects :
    schemaSetFromFiles anyListWitness =
      .ok [⟨"wt.v1", "M", some (.object "wt.v1" "M" none [] [⟨"a", false, false, [1], .array .any⟩]),
        "wt.v1.M"⟩] :=
  schemaSetFromFilesN_sound anyListWitness 10 _ (by decide)

/-- the full statement (every reflected property passes the codec's checks) … -/
def C18_codec_ok_full : Prop :=
  ∀ (ds : DescSet) (reg : Reg), schemaSetFromFiles ds = .ok reg →
    ∀ e ∈ reg, ∀ p k en am ps, e.to = some (.object p k en am ps) →
      ∀ m ∈ ds.msgs, m.full = e.src → ∀ prop ∈ ps, ∀ f ∈ m.fields, prop.path = [f.number] →
        reflectField f prop.schema = .ok ()

/-- … is false of the code as it is: the reader accepts `repeated Any`, `newMessageArrayField`
has no case for it (the repair — array / map of Any in `lib/j5reflect` and `internal/codec` — is
not a small one; rejecting the field at reflection, a9e5f7d, broke j5s packages with `array:any`
and was taken back in a76cc98) -/
theorem C18_codec_ok_counterexample : ¬ C18_codec_ok_full := by
  intro h
  have := h anyListWitness _ anyListWitness_reflects _ (List.mem_singleton.mpr rfl) _ _ _ _ _ rfl
    _ (List.mem_singleton.mpr rfl) rfl _ (List.mem_singleton.mpr rfl) _ (List.mem_singleton.mpr rfl) rfl
  revert this
  decide

/-! ### flattened fields: every client property of every reflected root is usable

`ObjectSchema.ClientProperties()` replaces a flattened field by the client properties of its
object, paths concatenated, recursively (guarded against cycles, `C18_flatten_terminates`). The
codec builds its property set from that list: `newPropSet` walks every path message by message,
the field factories check the schema against the final field. -/

/-- **`ClientProperties()` of every reflected object succeeds, and each client property — however
many flattened fields its path goes through — resolves in the message the schema was built from
to a field its schema describes**, or is the wrapper of an exposed oneof of the message the path
ends in. `newPropSet`'s walk over them succeeds, and so does every kind check of the field
factories (a list / map of `Any` excepted: open finding `any-in-collection`).

Scope: the first four conjuncts (`ClientProperties()` succeeds, `ClientOK`, `resolveAll`) have no
hypothesis beyond `linked`; the LAST conjunct (the field factories' checks) is conditional on
`anyInCollection q.schema = false` per property — in that respect this is the `_partial` of
`C18_codec_ok_full` (refuted by `C18_codec_ok_counterexample`). There is no `clientNamesOK`
hypothesis here; client-name uniqueness is the separate `C18_client_names_partial`. -/
theorem C18_codec_ok (ds : DescSet) (hl : linked ds = true) (reg : Reg)
    (h : schemaSetFromFiles ds = .ok reg) (e : REntry) (he : e ∈ reg) (p k : String)
    (en : Option (String × Int)) (am : List String) (ps : List RProp)
    (hto : e.to = some (.object p k en am ps)) :
    ∃ m cps, ds.msg? e.src = some m ∧ clientProps reg [⟨e.pkg, e.key⟩] ps = .ok cps ∧
      (∀ q ∈ cps, ClientOK ds m q) ∧ resolveAll ds m cps = .ok () ∧
      (∀ q ∈ cps, ∀ g, resolvePath ds m q.path = .ok (some g) → describes ds g q.schema = true →
        anyInCollection q.schema = false → reflectField g q.schema = .ok ()) := by
  have hs := (schemaSetFromFiles_safe ds hl).2 reg h
  obtain ⟨m, hc, hsrc, _, _, _, hprops, _⟩ := hs.2.1 e he _ hto
  obtain ⟨cps, hcps, hok⟩ := clientProps_ok ds hl reg hs [⟨e.pkg, e.key⟩] ps m hc hprops
  refine ⟨m, cps, by rw [hsrc]; exact hc, hcps, hok, resolveAll_ok ds m cps hok, ?_⟩
  intro q _ g _ hd hany
  exact reflectField_ok ds g q.schema hd hany

/-- the same for a oneof schema (a oneof wrapper message, or an exposed oneof: its members are
fields of the message that declares it): `ClientProperties()` is the property list itself -/
theorem C18_codec_ok_oneof (ds : DescSet) (hl : linked ds = true) (reg : Reg)
    (h : schemaSetFromFiles ds = .ok reg) (e : REntry) (he : e ∈ reg) (p k : String)
    (ps : List RProp) (hto : e.to = some (.oneof p k ps)) :
    ∃ m, m ∈ ds.msgs ∧ (∀ q ∈ ps, ClientOK ds m q) ∧ resolveAll ds m ps = .ok () := by
  have hs := (schemaSetFromFiles_safe ds hl).2 reg h
  rcases hs.2.1 e he _ hto with ⟨m, hc, _, _, _, _, hprops, _⟩ | ⟨m, o, hc, _, _, _, _, hprops, _⟩
  all_goals
    have hok : ∀ q ∈ ps, ClientOK ds m q := fun q hq => (hprops q hq).clientOK ds hl reg m hc q
    exact ⟨m, hc.mem, hok, resolveAll_ok ds m ps hok⟩

/-- **`Reflector.NewRoot` succeeds** on every message whose schema the set holds (the class the
`schema.reflect` stream compares for every message of every generated set) -/
theorem C18_newroot_ok (ds : DescSet) (hl : linked ds = true) (reg : Reg)
    (h : schemaSetFromFiles ds = .ok reg) (m : Msg) (hm : ds.msg? m.full = some m) (e : REntry)
    (hfind : reg.find m.pkg m.split = some e) (hsrc : e.src = m.full) :
    newRoot ds reg m = .ok () := by
  have hs := (schemaSetFromFiles_safe ds hl).2 reg h
  have he := mem_of_find reg _ _ e hfind
  have same : ∀ m0, Canon ds m0 → e.src = m0.full → m0 = m := by
    intro m0 hc0 h0
    unfold Canon at hc0
    rw [← h0, hsrc, hm] at hc0
    cases hc0
    rfl
  unfold newRoot
  rw [hfind]
  simp only
  cases hto : e.to with
  | none => exact absurd hto (hs.2.2 e he)
  | some root =>
    have hroot := hs.2.1 e he root hto
    cases root with
    | enum _ _ _ _ =>
      exfalso
      have h1 := hroot.1
      rw [hsrc, (linked_names ds (linked_base hl) m (msg?_mem ds _ m hm)).1] at h1
      cases h1
    | object p k en am ps =>
      obtain ⟨m0, hc0, h0, _, hp0, hk0, hprops, _⟩ := hroot
      have := same m0 hc0 h0
      subst this
      obtain ⟨cps, hcps, hok⟩ := clientProps_ok ds hl reg hs [⟨m0.pkg, m0.split⟩] ps m0 hc0 hprops
      simp [hcps, Outcome.bind, resolveAll_ok ds m0 cps hok]
    | oneof p k ps =>
      rcases hroot with ⟨m0, hc0, h0, _, _, _, hprops, _⟩ | ⟨m0, o, hc0, ho, h0, _⟩
      · have := same m0 hc0 h0
        subst this
        simp only
        exact resolveAll_ok ds m0 ps (fun q hq => (hprops q hq).clientOK ds hl reg m0 hc0 q)
      · exfalso
        have := linked_oneofName hl m0 hc0.mem o ho
        rw [← h0, hsrc, hm] at this
        cases this

/-- `message A { B b = 1 [flatten]; string x = 2; }  message B { string y = 1; C c = 2 [flatten]; }
message C { int32 z = 1; }` — two levels of flattening -/
def flattenChain : DescSet :=
  let flat : Option J5Sum := some ⟨"object", true, "none", 0⟩
  let fb : FieldD := ⟨"b", "b", 1, .message, .single, -1, .msg "fl.v1.B" "fl.v1" "B", false, none, none, flat, none, none, none⟩
  let fx : FieldD := ⟨"x", "x", 2, .string, .single, -1, .none, false, none, none, none, none, none, none⟩
  let fy : FieldD := ⟨"y", "y", 1, .string, .single, -1, .none, false, none, none, none, none, none, none⟩
  let fc : FieldD := ⟨"c", "c", 2, .message, .single, -1, .msg "fl.v1.C" "fl.v1" "C", false, none, none, flat, none, none, none⟩
  let fz : FieldD := ⟨"z", "z", 1, .int32, .single, -1, .none, false, none, none, none, none, none, none⟩
  let a : Msg := ⟨"fl.v1.A", "fl.v1", "A", "A", none, none, "nofield", none, [], [fb, fx]⟩
  let b : Msg := ⟨"fl.v1.B", "fl.v1", "B", "B", none, none, "nofield", none, [], [fy, fc]⟩
  let c : Msg := ⟨"fl.v1.C", "fl.v1", "C", "C", none, none, "nofield", none, [], [fz]⟩
  ⟨["fl.v1.A", "fl.v1.B", "fl.v1.C"], [], ["fl.v1.A", "fl.v1.B", "fl.v1.C"], [a, b, c], []⟩

def flattenChainReg : Reg :=
  [⟨"fl.v1", "A", some (.object "fl.v1" "A" none []
      [⟨"b", false, false, [1], .object ⟨"fl.v1", "B"⟩ true⟩, ⟨"x", false, false, [2], .scalar .string 0 9 ""⟩]),
      "fl.v1.A"⟩,
   ⟨"fl.v1", "B", some (.object "fl.v1" "B" none []
      [⟨"y", false, false, [1], .scalar .string 0 9 ""⟩, ⟨"c", false, false, [2], .object ⟨"fl.v1", "C"⟩ true⟩]),
      "fl.v1.B"⟩,
   ⟨"fl.v1", "C", some (.object "fl.v1" "C" none [] [⟨"z", false, false, [1], .scalar .integer 1 5 ""⟩]),
      "fl.v1.C"⟩]

/-- non-vacuity of `C18_codec_ok`: the chain is linked, reflects, … -/
example : linked flattenChain = true := by decide +kernel

theorem flattenChain_reflects : schemaSetFromFiles flattenChain = .ok flattenChainReg :=
  schemaSetFromFilesN_sound flattenChain 20 _ (by decide +kernel)

/-- … and the client properties of `A` are `y` (path 1.1), `z` (path 1.2.1) and `x` (path 2), each
resolving to the field it describes -/
example :
    clientProps flattenChainReg [⟨"fl.v1", "A"⟩]
        [⟨"b", false, false, [1], .object ⟨"fl.v1", "B"⟩ true⟩, ⟨"x", false, false, [2], .scalar .string 0 9 ""⟩] =
      .ok [⟨"y", false, false, [1, 1], .scalar .string 0 9 ""⟩,
           ⟨"z", false, false, [1, 2, 1], .scalar .integer 1 5 ""⟩,
           ⟨"x", false, false, [2], .scalar .string 0 9 ""⟩] :=
  clientPropsN_sound _ 10 _ _ _ (by decide +kernel)

/-! ### client property names (open finding `duplicate-client-property-name`)

Within one schema the property names are unique (`C18_names_unique`, part of `RegLinks`). The
*client* properties of an object — after flattening — are what the codec keys on, and the reader
does not check those: a flattened field can bring a name the object already has. -/

/-- the full statement: the client properties of every reflected object have distinct names -/
def C18_client_names_full : Prop :=
  ∀ (ds : DescSet) (reg : Reg), linked ds = true → schemaSetFromFiles ds = .ok reg →
    ∀ e ∈ reg, clientNamesOK reg e = .ok ()

/-- `message A { string x = 1; B b = 2 [flatten]; }  message B { string x = 1; }` — witness 8 of
every `schema.reflect` shard -/
def flattenClashWitness : DescSet :=
  let flat : Option J5Sum := some ⟨"object", true, "none", 0⟩
  let fx : FieldD := ⟨"x", "x", 1, .string, .single, -1, .none, false, none, none, none, none, none, none⟩
  let fb : FieldD := ⟨"b", "b", 2, .message, .single, -1, .msg "wt.v1.B" "wt.v1" "B", false, none, none, flat, none, none, none⟩
  let a : Msg := ⟨"wt.v1.A", "wt.v1", "A", "A", none, none, "nofield", none, [], [fx, fb]⟩
  let b : Msg := ⟨"wt.v1.B", "wt.v1", "B", "B", none, none, "nofield", none, [], [fx]⟩
  ⟨["wt.v1.A", "wt.v1.B"], [], ["wt.v1.A", "wt.v1.B"], [a, b], []⟩

def flattenClashReg : Reg :=
  [⟨"wt.v1", "A", some (.object "wt.v1" "A" none []
      [⟨"x", false, false, [1], .scalar .string 0 9 ""⟩, ⟨"b", false, false, [2], .object ⟨"wt.v1", "B"⟩ true⟩]),
      "wt.v1.A"⟩,
   ⟨"wt.v1", "B", some (.object "wt.v1" "B" none [] [⟨"x", false, false, [1], .scalar .string 0 9 ""⟩]),
      "wt.v1.B"⟩]

theorem flattenClash_reflects : schemaSetFromFiles flattenClashWitness = .ok flattenClashReg :=
  schemaSetFromFilesN_sound flattenClashWitness 20 _ (by decide +kernel)

theorem C18_client_names_counterexample : ¬ C18_client_names_full := by
  intro h
  have := h flattenClashWitness _ (by decide +kernel) flattenClash_reflects
    ⟨"wt.v1", "A", some (.object "wt.v1" "A" none []
      [⟨"x", false, false, [1], .scalar .string 0 9 ""⟩, ⟨"b", false, false, [2], .object ⟨"wt.v1", "B"⟩ true⟩]),
      "wt.v1.A"⟩ (List.mem_cons_self ..)
  have hcp : clientProps flattenClashReg [⟨"wt.v1", "A"⟩]
      [⟨"x", false, false, [1], .scalar .string 0 9 ""⟩, ⟨"b", false, false, [2], .object ⟨"wt.v1", "B"⟩ true⟩] =
      .ok [⟨"x", false, false, [1], .scalar .string 0 9 ""⟩, ⟨"x", false, false, [2, 1], .scalar .string 0 9 ""⟩] :=
    clientPropsN_sound _ 10 _ _ _ (by decide +kernel)
  simp only [clientNamesOK, hcp, Outcome.bind] at this
  revert this
  decide

/-- no property of the list is a flattened object -/
def noFlatten (ps : List RProp) : Bool :=
  ps.all fun p => match p.schema with | .object _ true => false | _ => true

theorem clientProps_noFlatten (reg : Reg) (fl : List Ref) (ps : List RProp) (h : noFlatten ps = true) :
    clientProps reg fl ps = .ok ps := by
  induction ps with
  | nil => simp [clientProps]
  | cons p ps ih =>
    simp only [noFlatten, List.all_cons, Bool.and_eq_true] at h
    have ih' := ih (by simpa [noFlatten] using h.2)
    rw [clientProps]
    split
    · rename_i ref hsch
      simp [hsch] at h
    · simp [Outcome.bind, ih', Outcome.map]

/-- **Client names are unique** (partial: objects without a flattened field; exactly the recorded
class is excluded — with a flattened field the names may clash, `flattenClashWitness`) -/
theorem C18_client_names_partial (ds : DescSet) (hl : linked ds = true) (reg : Reg)
    (h : schemaSetFromFiles ds = .ok reg) (e : REntry) (he : e ∈ reg) (p k : String)
    (en : Option (String × Int)) (am : List String) (ps : List RProp)
    (hto : e.to = some (.object p k en am ps)) (hnf : noFlatten ps = true) :
    clientNamesOK reg e = .ok () := by
  have hs := (schemaSetFromFiles_safe ds hl).2 reg h
  obtain ⟨m, _, _, _, _, _, _, hnd⟩ := hs.2.1 e he _ hto
  unfold clientNamesOK
  rw [hto]
  simp only [clientProps_noFlatten reg _ ps hnf, Outcome.bind]
  have : namesUnique ps = true := by simpa [namesUnique] using hnd
  simp [this]

example : noFlatten [⟨"x", false, false, [1], .scalar .string 0 9 ""⟩] = true := by decide

/-! ### the codec model's well-formedness predicate holds for reflected schemas -/

/-- **A reflected schema set, rendered as the codec model's environment
(`J5V.Schema.Bridge.toEnv`), satisfies `Env.itemsOk`** — array / map items are never arrays or
maps — for every descriptor set. `itemsOk` is the hypothesis of the codec cluster's no-panic
theorems (`C06_decode_no_panic`, `C06_query_no_panic`): for schemas that come out of reflection it
holds by construction. -/
theorem C18_reflected_itemsOk (ds : DescSet) (reg : Reg) (h : schemaSetFromFiles ds = .ok reg) :
    (Bridge.toEnv ds reg).itemsOk = true :=
  Bridge.reflected_itemsOk ds reg h

/-- … so the decoder model cannot panic on any input for any reflected root (the codec cluster's
theorem, instantiated) -/
theorem C18_reflected_decode_no_panic (ds : DescSet) (reg : Reg) (h : schemaSetFromFiles ds = .ok reg)
    (c : Codec.Cfg) (hc : c.env = Bridge.toEnv ds reg) (root : String) (bs : Json.Bytes) :
    ∀ w, Codec.decodeBytes c root bs ≠ .panic w :=
  Codec.decodeBytes_np c (by rw [hc]; exact C18_reflected_itemsOk ds reg h) root bs

example : (Bridge.toEnv flattenChain flattenChainReg).itemsOk = true :=
  C18_reflected_itemsOk _ _ flattenChain_reflects

/-- **The codec encodes and decodes the empty message of every reflected object** — on the codec
cluster's model, with the env rendered from the reflected registry: `ProtoToJSON` of the empty
message is `{}`, `JSONToProto` of `{}` is the empty message. (That the def names `package.Name`
of the registry are pairwise distinct follows from `linked`: schema names contain no dot,
`Bridge.nameInj_of_settled`.) -/
theorem C18_empty_message (ds : DescSet) (hl : linked ds = true) (reg : Reg)
    (h : schemaSetFromFiles ds = .ok reg) (e : REntry)
    (he : e ∈ reg) (p k : String) (en : Option (String × Int)) (am : List String) (ps : List RProp)
    (hto : e.to = some (.object p k en am ps)) (O : Codec.Oracle) (c : Codec.Cfg)
    (hc : c.env = Bridge.toEnv ds reg) :
    Codec.encodeBytes (Bridge.toEnv ds reg) O (Bridge.rootName e.pkg e.key) (.msg []) = .ok (Json.ascii "{}") ∧
    Codec.decodeBytes c (Bridge.rootName e.pkg e.key) (Json.ascii "{}") = .ok [] :=
  Bridge.reflected_empty_message ds hl reg h e he p k en am ps hto O c hc

/-- the same for every reflected oneof schema (oneof wrapper message or exposed oneof): no member
set ⇒ `{}`, and `{}` decodes to the message with no member set -/
theorem C18_empty_message_oneof (ds : DescSet) (hl : linked ds = true) (reg : Reg)
    (h : schemaSetFromFiles ds = .ok reg) (e : REntry) (he : e ∈ reg) (p k : String)
    (ps : List RProp) (hto : e.to = some (.oneof p k ps)) (O : Codec.Oracle) (c : Codec.Cfg)
    (hc : c.env = Bridge.toEnv ds reg) :
    Codec.encodeBytes (Bridge.toEnv ds reg) O (Bridge.rootName e.pkg e.key) (.msg []) = .ok (Json.ascii "{}") ∧
    Codec.decodeBytes c (Bridge.rootName e.pkg e.key) (Json.ascii "{}") = .ok [] :=
  Bridge.reflected_empty_message_oneof ds hl reg h e he p k ps hto O c hc

/-! ### C18 → C01: the codec round trip on reflected schemas

The codec clause of the property — "the codec can encode and decode an empty and a populated
message of every reflected type" — beyond the empty message: for a descriptor set the reader
accepts and whose reflected environment lies in the codec cluster's `Env.flat`, **every**
representable message of **every** reflected root round-trips through the codec
(`C01_roundtrip_partial` = `Codec.roundtrip_bytes`, instantiated at `toEnv ds reg`; `toEnv` is tied
to the real structures by the `env=` part of the `schema.reflect` correspondence).
`_partial`: `Env.flat` of the reflected environment is a hypothesis (decidable, evaluated on the
witness below); a reflected set with a flatten name clash (open finding
`duplicate-client-property-name`) or a flattened leaf that is an array / map of arrays is outside it.
That `flat` follows from `clientNamesOK` for every reflected set is not proved. -/
theorem C18_reflected_roundtrip_partial (ds : DescSet) (reg : Reg) (h : schemaSetFromFiles ds = .ok reg)
    (c : Codec.Cfg) (hc : c.env = Bridge.toEnv ds reg) (hflat : (Bridge.toEnv ds reg).flat = true)
    (L : Codec.OracleLaws c.O) (hC : (Bridge.toEnv ds reg).noAny = true ∨ Codec.ChunkLaws c.O)
    (root : String) (m : Codec.Fields)
    (hok : Codec.valOk (Bridge.toEnv ds reg) c.O (.object root) (.msg m) = true ∨
      Codec.valOk (Bridge.toEnv ds reg) c.O (.oneof root) (.msg m) = true)
    (hM : c.canDecode m) :
    ∃ bs, Codec.encodeBytes (Bridge.toEnv ds reg) c.O root (.msg m) = .ok bs ∧
      Codec.decodeBytes c root bs = .ok m :=
  Bridge.reflected_roundtrip ds reg h c hc hflat L hC root m hok hM

/-- … and when no `Any` field is reflected nothing is asked of the codec configuration: every
codec over the reflected environment (with or without `WithProtoToAny`) round-trips every
representable message -/
theorem C18_reflected_roundtrip_noAny_partial (ds : DescSet) (reg : Reg)
    (h : schemaSetFromFiles ds = .ok reg) (c : Codec.Cfg) (hc : c.env = Bridge.toEnv ds reg)
    (hflat : (Bridge.toEnv ds reg).flat = true) (hna : (Bridge.toEnv ds reg).noAny = true)
    (L : Codec.OracleLaws c.O) (root : String) (m : Codec.Fields)
    (hok : Codec.valOk (Bridge.toEnv ds reg) c.O (.object root) (.msg m) = true ∨
      Codec.valOk (Bridge.toEnv ds reg) c.O (.oneof root) (.msg m) = true) :
    ∃ bs, Codec.encodeBytes (Bridge.toEnv ds reg) c.O root (.msg m) = .ok bs ∧
      Codec.decodeBytes c root bs = .ok m :=
  Bridge.reflected_roundtrip_noAny ds reg h c hc hflat hna L root m hok

/-- the reflected environment of `flattenChain` (two levels of flattening), computed by the fuel
version of `toEnv` -/
def flattenChainEnv : Codec.Env := (Bridge.toEnvN 10 flattenChain flattenChainReg).getD ⟨[], []⟩

theorem flattenChain_env : Bridge.toEnv flattenChain flattenChainReg = flattenChainEnv := by
  apply Bridge.toEnvN_sound 10
  have h : (Bridge.toEnvN 10 flattenChain flattenChainReg).isSome = true := by decide +kernel
  unfold flattenChainEnv
  cases hh : Bridge.toEnvN 10 flattenChain flattenChainReg with
  | none => rw [hh] at h; cases h
  | some e => rfl

/-- `A{ b: B{ y: "hi", c: C{ z: 5 } }, x: "q" }` -/
def flattenChainMsg : Codec.Fields :=
  [(1, .msg [(1, .str (Json.ascii "hi")), (2, .msg [(1, .int 5)])]), (2, .str (Json.ascii "q"))]

/-- non-vacuity of `C18_reflected_roundtrip_partial`: the reflected environment of `flattenChain`
is flat and has no `Any`, and the populated message above is representable … -/
example : flattenChainEnv.flat = true ∧ flattenChainEnv.noAny = true ∧
    Codec.valOk flattenChainEnv Codec.toyOracle (.object "fl.v1.A") (.msg flattenChainMsg) = true := by
  decide +kernel

/-- … so the theorem applies: the populated message of `A` (flattened through `B` and `C`) is
encoded, and decoded back to itself, by every codec over the reflected schema -/
example (c : Codec.Cfg) (hc : c.env = Bridge.toEnv flattenChain flattenChainReg) (hO : c.O = Codec.toyOracle) :
    ∃ bs, Codec.encodeBytes (Bridge.toEnv flattenChain flattenChainReg) c.O "fl.v1.A" (.msg flattenChainMsg) = .ok bs ∧
      Codec.decodeBytes c "fl.v1.A" bs = .ok flattenChainMsg := by
  refine C18_reflected_roundtrip_noAny_partial _ _ flattenChain_reflects c hc ?_ ?_ (hO ▸ Codec.toyOracle_laws) _ _ ?_
  · rw [flattenChain_env]; decide +kernel
  · rw [flattenChain_env]; decide +kernel
  · left; rw [flattenChain_env, hO]; decide +kernel

/-- a second witness with every container: `message R { repeated string tags = 1;
map<string,int32> counts = 2; E e = 3; optional bool on = 4; S s = 5; }  message S { int64 n = 1; }
enum E { E_UNSPECIFIED = 0; E_A = 1; E_B = 2; }` -/
def richSet : DescSet :=
  let tags : FieldD := ⟨"tags", "tags", 1, .string, .list, -1, .none, false, none, none, none, none, none, none⟩
  let counts : FieldD := ⟨"counts", "counts", 2, .message, .map, -1, .none, false, none, none, none, none,
    some .string, some (.int32, .none, none)⟩
  let e : FieldD := ⟨"e", "e", 3, .enum, .single, -1, .enum "rc.v1.E" "rc.v1" "E", false, none, none, none, none, none, none⟩
  let on : FieldD := ⟨"on", "on", 4, .bool, .single, -1, .none, true, none, none, none, none, none, none⟩
  let s : FieldD := ⟨"s", "s", 5, .message, .single, -1, .msg "rc.v1.S" "rc.v1" "S", false, none, none, none, none, none, none⟩
  let n : FieldD := ⟨"n", "n", 1, .int64, .single, -1, .none, false, none, none, none, none, none, none⟩
  let r : Msg := ⟨"rc.v1.R", "rc.v1", "R", "R", none, none, "nofield", none, [], [tags, counts, e, on, s]⟩
  let sm : Msg := ⟨"rc.v1.S", "rc.v1", "S", "S", none, none, "nofield", none, [], [n]⟩
  let en : EnumD := ⟨"rc.v1.E", "rc.v1", "E", "E", false, [("E_UNSPECIFIED", 0), ("E_A", 1), ("E_B", 2)]⟩
  ⟨["rc.v1.R", "rc.v1.S"], ["rc.v1.E"], ["rc.v1.R", "rc.v1.S"], [r, sm], [en]⟩

/-- what the reader model makes of it (three entries: R, S, E) -/
def richReg : Reg := match schemaSetFromFilesN richSet 20 with | some (.ok r) => r | _ => []

example : linked richSet = true ∧ richReg.length = 3 := by decide +kernel

theorem richSet_reflects : schemaSetFromFiles richSet = .ok richReg :=
  schemaSetFromFilesN_sound richSet 20 _ (by decide +kernel)

def richEnv : Codec.Env := (Bridge.toEnvN 10 richSet richReg).getD ⟨[], []⟩

theorem richSet_env : Bridge.toEnv richSet richReg = richEnv := by
  apply Bridge.toEnvN_sound 10
  have h : (Bridge.toEnvN 10 richSet richReg).isSome = true := by decide +kernel
  unfold richEnv
  cases hh : Bridge.toEnvN 10 richSet richReg with
  | none => rw [hh] at h; cases h
  | some e => rfl

/-- `R{ tags: ["a","b"], counts: {"k": 3}, e: E_B, on: false (set), s: S{ n: 7 } }` -/
def richMsg : Codec.Fields :=
  [(1, .list [.str (Json.ascii "a"), .str (Json.ascii "b")]),
   (2, .map [(Json.ascii "k", .int 3)]),
   (3, .enum 2), (4, .bool false), (5, .msg [(1, .int 7)])]

/-- the populated message (array, map, enum, explicitly-set optional bool, nested object) of the
reflected `R` round-trips through every codec over the reflected schema; its JSON is
`{"tags":["a","b"],"counts":{"k":3},"e":"B","on":false,"s":{"n":"7"}}` -/
example (c : Codec.Cfg) (hc : c.env = Bridge.toEnv richSet richReg) (hO : c.O = Codec.toyOracle) :
    ∃ bs, Codec.encodeBytes (Bridge.toEnv richSet richReg) c.O "rc.v1.R" (.msg richMsg) = .ok bs ∧
      Codec.decodeBytes c "rc.v1.R" bs = .ok richMsg := by
  refine C18_reflected_roundtrip_noAny_partial _ _ richSet_reflects c hc ?_ ?_ (hO ▸ Codec.toyOracle_laws) _ _ ?_
  · rw [richSet_env]; decide +kernel
  · rw [richSet_env]; decide +kernel
  · left; rw [richSet_env, hO]; decide +kernel

example : Codec.encodeBytes richEnv Codec.toyOracle "rc.v1.R" (.msg richMsg) =
    .ok (Json.ascii "{\"tags\":[\"a\",\"b\"],\"counts\":{\"k\":3},\"e\":\"B\",\"on\":false,\"s\":{\"n\":\"7\"}}") := by
  decide +kernel

/-! ## Non-vacuity -/

/-- `message M { M child = 1; string name = 2; }` — self-recursive -/
def selfRecursive : DescSet :=
  let f1 : FieldD := ⟨"child", "child", 1, .message, .single, -1, .msg "p.v1.M" "p.v1" "M", false,
    none, none, none, none, none, none⟩
  let f2 : FieldD := ⟨"name", "name", 2, .string, .single, -1, .none, false,
    none, none, none, none, none, none⟩
  let m : Msg := ⟨"p.v1.M", "p.v1", "M", "M", none, none, "nofield", none, [], [f1, f2]⟩
  ⟨["p.v1.M"], [], ["p.v1.M"], [m], []⟩

example : linked selfRecursive = true := by decide +kernel

/-- … and it reflects: one object `M` with an object property pointing back at `M` -/
example : schemaSetFromFiles selfRecursive =
    .ok [⟨"p.v1", "M", some (.object "p.v1" "M" none []
      [⟨"child", false, false, [1], .object ⟨"p.v1", "M"⟩ false⟩,
       ⟨"name", false, false, [2], .scalar .string 0 9 ""⟩]), "p.v1.M"⟩] :=
  schemaSetFromFilesN_sound selfRecursive 10 _ (by decide)

/-! ## Obligations over facts regenerated from the current source (`extract -what schema`)

The model's kind table (`buildSchema`, `buildScalar`) and well-known-type table (`wktSchema`) are
hand-written; these obligations re-check on every run that the source still has exactly the case
groups the model encodes (a kind moved into or out of a case changes which descriptor sets
reflect, and with which J5 type). -/
section Src
open J5V.Generated.Schema

theorem C18_src_kind_switches :
    readerSwitches =
      [("Package.buildSchema", "src.Kind()", [["MessageKind"], ["EnumKind"]]),
       ("buildScalarType", "src.Kind()",
         [["StringKind"], ["BoolKind"], ["Int32Kind", "Sint32Kind"], ["Uint32Kind"],
          ["Int64Kind", "Sint64Kind"], ["Uint64Kind"], ["FloatKind"], ["DoubleKind"], ["BytesKind"],
          ["default"]]),
       ("wktSchema", "string(fullName)",
         [["google.protobuf.Timestamp"], ["j5.types.date.v1.Date"],
          ["j5.types.decimal.v1.Decimal"],
          ["j5.types.any.v1.Any", "google.protobuf.Any"]])] := by decide

/-- the model agrees with that table: exactly the listed scalar kinds are accepted (without
annotations), every other kind is an error -/
theorem C18_model_kind_table :
    ([PKind.string, .bool, .int32, .sint32, .uint32, .int64, .sint64, .uint64, .float, .double,
        .bytes].all fun k => (buildScalar k ⟨none, none, none⟩ none).isOk) = true ∧
    ([PKind.fixed32, .fixed64, .sfixed32, .sfixed64, .group, .message, .enum].all fun k =>
        (buildScalar k ⟨none, none, none⟩ none).isErr) = true := by decide

end Src

end J5V.Props.C18
