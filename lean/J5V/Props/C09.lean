import J5V.Bcl.FmtProofs
import J5V.Bcl.LexShapeProofs
import J5V.Bcl.DescProofs
import J5V.Bcl.PreserveProofs
import J5V.Bcl.IdemProofs
import J5V.Bcl.BytesProofs
import J5V.Generated.BcltokensFacts
import J5V.Generated.BclunicodeFacts
/-!
# C09 — formatter preserves meaning, is idempotent and emits parseable source

Only property theorems (+ non-vacuity examples, + obligations over regenerated source facts).
Models: `J5V.Bcl.Fmt` (`tokenSource`, `quoteString`, `doubleSlashes`, `diffFile`,
`reformatDescription`, `fmt`), `J5V.Bcl.Lexer`, `J5V.Bcl.Parser`; lemmas: `J5V.Bcl.*Proofs`.
All statements hold for every classifier `cls` (hypotheses about `cls` are explicit).

Contents: token level (`C09_token_inv_*`, `C09_token_inv`, `C09_lexed_tokens_wf`), descriptions
(`C09_description_words`, `C09_description_reflow_stable`), whole files (`C09_line_inv`,
`C09_walk_position_free`, `C09_fragments_wf`, `C09_fragment_inv`, `C09_preserves_fragments`, **`C09_preserves`**,
`C09_output_parses`, **`C09_idempotent`**, `C09_formatter` = the property as stated; `C09_preserves_bytes`,
`C09_idempotent_bytes` for sources given as bytes), non-vacuity, source obligations.

## `C09_token_inv_*`: the lexer inverts `tokenSource` for every token kind

For each kind the hypothesis is the shape of literal the lexer can produce for that kind, and a
condition on the text that follows the token in the output (what the formatter puts there always
satisfies it: a space, an operator, a newline, or nothing).
-/
namespace J5V.Props.C09
open J5V.Bcl

/-! `LexesTo cls c src rest ty lit` (defined in `J5V.Bcl.FmtInv`): lexing `src ++ rest` from lexer state `c`
reads exactly one token `(ty, lit)` without error and stops before `rest`. -/

/-- STRING: every literal (quotes, backslashes, newlines, tabs, control and non-printable characters,
any Unicode), any following text. -/
theorem C09_token_inv_string (cls : Cls) (c : Cur) (tok : Token) (h : tok.ty = .string)
    (rest : List Rune) : LexesTo cls c (tokenSource tok) rest .string tok.lit := by
  unfold tokenSource LexesTo
  rw [h]
  obtain ⟨s, hs, h1, h2, h3, h4⟩ := nextToken_string cls c tok.lit rest
  subst hs
  exact ⟨h1, h2, h3, h4⟩

/-- REGEX: every literal the lexer can produce (`RegexLitWF`: non-empty, not starting with `/` or `*`,
no newline), in front of any text not starting with `/`. Slashes are doubled and read back single. -/
theorem C09_token_inv_regex (cls : Cls) (c : Cur) (tok : Token) (h : tok.ty = .regex)
    (hwf : RegexLitWF tok.lit) (rest : List Rune) (hrest : rest.head? ≠ some cSLASH) :
    LexesTo cls c (tokenSource tok) rest .regex tok.lit := by
  unfold tokenSource LexesTo
  rw [h]
  obtain ⟨s, hs, h1, h2, h3, h4⟩ := nextToken_regex cls c tok.lit rest hwf hrest
  subst hs
  simp only [List.append_assoc] at h1 h2 h3 h4 ⊢
  exact ⟨h1, h2, h3, h4⟩

/-- IDENT and BOOL (an identifier-shaped literal is BOOL exactly when it spells `true` / `false`), in
front of text that does not continue the identifier. -/
theorem C09_token_inv_ident (cls : Cls) (c : Cur) (tok : Token)
    (h : tok.ty = .ident ∨ tok.ty = .bool) (hwf : IdentLitWF cls tok.lit) (rest : List Rune)
    (hstop : IdentStop cls rest) :
    LexesTo cls c (tokenSource tok) rest
      (if tok.lit = litTrue ∨ tok.lit = litFalse then .bool else .ident) tok.lit := by
  have : tokenSource tok = tok.lit := by
    unfold tokenSource; rcases h with h | h <;> rw [h]
  rw [this]
  exact nextToken_identlike cls c tok.lit rest hwf hstop

/-- INT: a digit-headed run of digits, in front of text that is neither a digit nor `.`. -/
theorem C09_token_inv_int (cls : Cls) (c : Cur) (tok : Token) (h : tok.ty = .int) (r : Rune)
    (ds : List Rune) (hl : tok.lit = r :: ds) (hh : DigitHead cls r)
    (hds : ∀ x ∈ ds, cls.isDigit x = true) (rest : List Rune) (hstop : NumberStop cls rest) :
    LexesTo cls c (tokenSource tok) rest .int tok.lit := by
  have : tokenSource tok = tok.lit := by unfold tokenSource; rw [h]
  rw [this, hl]
  exact nextToken_int cls c r ds rest hh hds hstop

/-- DECIMAL: digits, one `.`, digits (`.` is not a digit for the classifier). -/
theorem C09_token_inv_decimal (cls : Cls) (c : Cur) (tok : Token) (h : tok.ty = .decimal) (r : Rune)
    (ds fs : List Rune) (hl : tok.lit = r :: ds ++ cDOT :: fs) (hh : DigitHead cls r)
    (hds : ∀ x ∈ ds, cls.isDigit x = true) (hfs : ∀ x ∈ fs, cls.isDigit x = true)
    (hdot : cls.isDigit cDOT = false) (rest : List Rune) (hstop : NumberStop cls rest) :
    LexesTo cls c (tokenSource tok) rest .decimal tok.lit := by
  have : tokenSource tok = tok.lit := by unfold tokenSource; rw [h]
  rw [this, hl]
  exact nextToken_decimal cls c r ds fs rest hh hds hfs hdot hstop

/-- COMMENT (`//…`): any literal without a newline, at the end of a line. -/
theorem C09_token_inv_comment (cls : Cls) (c : Cur) (tok : Token) (h : tok.ty = .comment)
    (hlit : ∀ r ∈ tok.lit, r ≠ cNL) (rest : List Rune) (hend : LineEnd rest) :
    LexesTo cls c (tokenSource tok) rest .comment tok.lit := by
  unfold tokenSource; rw [h]
  exact nextToken_comment cls c tok.lit rest hlit hend

/-- BLOCK_COMMENT: any literal not containing `*/` (newlines allowed), any following text. -/
theorem C09_token_inv_blockComment (cls : Cls) (c : Cur) (tok : Token) (h : tok.ty = .blockComment)
    (hlit : NoCloser tok.lit) (rest : List Rune) :
    LexesTo cls c (tokenSource tok) rest .blockComment tok.lit := by
  unfold tokenSource; rw [h]
  exact nextToken_blockComment cls c tok.lit rest hlit

/-- DESCRIPTION: a literal without newline that does not start with white space, at the end of a line
(`' '` must be white space for the classifier). -/
theorem C09_token_inv_description (cls : Cls) (hsp : cls.isSpace cSP = true) (c : Cur) (tok : Token)
    (h : tok.ty = .description) (hlit : ∀ r ∈ tok.lit, r ≠ cNL)
    (hhead : ∀ r, tok.lit.head? = some r → cls.isSpace r = false) (rest : List Rune)
    (hend : LineEnd rest) : LexesTo cls c (tokenSource tok) rest .description tok.lit := by
  unfold tokenSource; rw [h]
  exact nextToken_description cls hsp c tok.lit rest hlit hhead hend

/-- operators: the token's character -/
theorem C09_token_inv_operator (cls : Cls) (c : Cur) (tok : Token) (r : Rune)
    (hop : operatorOf r = some tok.ty) (hl : tok.lit = [r]) (rest : List Rune) :
    LexesTo cls c (tokenSource tok) rest tok.ty tok.lit := by
  have : tokenSource tok = tok.lit := by
    unfold tokenSource
    have : tok.ty.isOperator = true := operatorOf_isOperator hop
    cases hty : tok.ty <;> simp_all [TokenType.isOperator]
  rw [this, hl]
  exact nextToken_operator cls c r tok.ty hop rest

/-! ## All kinds at once, for exactly the tokens the lexer produces -/

/-! `FollowOK cls ty rest` (defined in `J5V.Bcl.FmtInv`): what may follow the rendered token, by kind — REGEX:
not `/`; IDENT / BOOL: no letter, digit or `_`; INT / DECIMAL: no digit or `.`; COMMENT / DESCRIPTION: end
of line; other kinds: anything. What `Fmt` emits after a token always satisfies it (`C09_line_inv`). -/

/-- Every token of an error-free lex has a literal of the shape of its kind (`TokLitWF`). -/
theorem C09_lexed_tokens_wf (cls : Cls) (ff : Bool) (src : List Rune) (ts : List Token)
    (h : allTokens cls ff src = .toks ts) : ∀ t ∈ ts, TokLitWF cls t :=
  allTokens_tokwf cls ff src ts h

/-- **`tokenSource` is inverted by the lexer for every token the lexer can produce**: for a token `t`
with a well-shaped literal, followed by admissible text, lexing `tokenSource t ++ rest` reads exactly
one token with the same kind and literal and leaves `rest`. (Kinds: every literal kind, every operator
and EOL; `' '` must be white space for the classifier — needed for DESCRIPTION only.) -/
theorem C09_token_inv (cls : Cls) (hsp : cls.isSpace cSP = true) (c : Cur) (t : Token)
    (hwf : TokLitWF cls t) (rest : List Rune) (hf : FollowOK cls t.ty rest)
    (hkind : t.ty.isLiteral = true ∨ t.ty.isOperator = true) :
    LexesTo cls c (tokenSource t) rest t.ty t.lit := by
  unfold TokLitWF at hwf
  unfold FollowOK at hf
  cases hty : t.ty <;> rw [hty] at hwf hf hkind <;> simp only [] at hwf hf
  case string => exact C09_token_inv_string cls c t hty rest
  case regex => exact C09_token_inv_regex cls c t hty hwf rest hf
  case ident =>
    have := C09_token_inv_ident cls c t (Or.inl hty) hwf.1 rest hf
    rwa [if_neg hwf.2] at this
  case bool =>
    have := C09_token_inv_ident cls c t (Or.inr hty) hwf.1 rest hf
    rwa [if_pos hwf.2] at this
  case int =>
    obtain ⟨r, ds, h1, h2, h3⟩ := hwf
    exact C09_token_inv_int cls c t hty r ds h1 h2 h3 rest hf
  case decimal =>
    obtain ⟨r, ds, fs, h1, h2, h3, h4, h5⟩ := hwf
    exact C09_token_inv_decimal cls c t hty r ds fs h1 h2 h3 h4 h5 rest hf
  case comment => exact C09_token_inv_comment cls c t hty hwf rest hf
  case blockComment => exact C09_token_inv_blockComment cls c t hty hwf rest
  case description => exact C09_token_inv_description cls hsp c t hty hwf.1 hwf.2 rest hf
  case assign | lbrace | rbrace | lbrack | rbrack | dot | comma | colon | plus | bang | question =>
    obtain ⟨r, h1, h2⟩ := hwf
    have := C09_token_inv_operator cls c t r (by rw [hty]; exact h1) h2 rest
    rwa [hty] at this
  all_goals simp [TokenType.isLiteral, TokenType.isOperator] at hkind

/-! ## Descriptions: same words and paragraph breaks; re-flowing is stable

`itemsOf cls lines` reads lines as items (the words of each line by `strings.Fields`, a marker for each
blank line); `canon` drops leading and repeated blank-line markers: the words in order and the
paragraph breaks of a description. -/

/-- Re-flowing a description keeps its words and paragraph breaks: the canonical items of
`strings.Join(reformatDescription(v, w), "\n")` — which is what the lexer + `popDescription` produce
from the formatted lines — equal those of `v`. Any width (also ≤ 0), any value. -/
theorem C09_description_words (cls : Cls) (hsp : cls.isSpace cSP = true) (v : List Rune)
    (maxWidth : Int) :
    canon (itemsOf cls (splitOn cNL (joinWith [cNL] (reformatDescription cls v maxWidth)))) =
      canon (itemsOf cls (splitOn cNL v)) :=
  reformat_preserves_words cls hsp v maxWidth

/-- Formatting a second time changes nothing in a description: re-flowing the already re-flowed text at
the same width gives the same lines. -/
theorem C09_description_reflow_stable (cls : Cls) (hsp : cls.isSpace cSP = true) (v : List Rune)
    (maxWidth : Int) :
    reformatDescription cls (joinWith [cNL] (reformatDescription cls v maxWidth)) maxWidth =
      reformatDescription cls v maxWidth :=
  reformat_stable cls hsp v maxWidth

/-! ## Whole files

`ClsOK cls` is what the whole-file theorems need from the classifier: `' '` and tab are white space,
and space, newline, tab and the operator characters `= { } [ ] . , : + ! ?` are neither letters nor
digits (Go's tables satisfy it: `C09_src_sep_class` below).

`Token.erase`, `Fragment.erase`, … set every position to `0:0` and keep everything else; `File.equiv cls f' f`
(and `Fragment.equivList`) say that two trees (fragment lists) are equal up to positions — the same blocks with the
same type, tags, marks, qualifiers, header description and trailing comment in the same nesting, the same
assignments with identical keys, operators and literal values — and that stand-alone descriptions have the same
words and paragraph breaks (`DescEquiv`, the notion of `C09_description_words`). -/

/-- **Line lemma**: the text of a part list `parts.flatMap tokenSource` (the formatter's single spaces are parts
of kind SPACE) in front of any `tail` lexes to exactly the non-space parts (same kinds as the lexer assigns, same
literals), provided adjacent parts do not run into each other (`PartsOK`: every non-space part has a literal of the
shape of its kind and is followed by admissible text) — which holds for the token lists the formatter builds for
a header and an assignment (`headerTokens_partsOK`, `assignTokens_partsOK`, used in `C09_fragment_inv`). -/
theorem C09_line_inv (cls : Cls) (hcls : ClsOK cls) (ps : List Token) (c : Cur) (tail : List Rune)
    (h : PartsOK cls ps tail) :
    ∃ new c', new.map Token.erase = canonParts ps ∧
      LexSeg cls c (ps.flatMap tokenSource) tail new c' :=
  LexSeg.parts hcls ps c tail h

/-- **The walker is position-independent**: walking tokens whose positions have been erased gives the erased
result (tree, diagnostics classes, or panic) — the tree depends only on kinds, literals and their order. -/
theorem C09_walk_position_free (ff : Bool) (ts : List Token) :
    walk ff (ts.map Token.erase) = (walk ff ts).erase :=
  walk_erase ff ts

/-- every fragment the formatter gets from an accepted source has the shape `FragWF` (identifiers are
identifier literals, tags are a reference or a string with an optional mark, values in arrays are literals that do
not end the line, …) — the hypothesis of `C09_fragment_inv` is what the walker produces -/
theorem C09_fragments_wf (cls : Cls) (src : List Rune) (frags : List Fragment)
    (h : collectFragments cls src = .ok frags) : ∀ f ∈ frags, FragWF cls f :=
  collectFragments_fragWF cls src frags h

/-- **One fragment** (header, close, assignment, description, comment): the text `fmtFragment` prints for it — at
any indent, from any lexer state, in front of any text — lexes to tokens from which `nextFragment` reads a
fragment denoting the same thing. (`rest`: the tokens that follow; after a stand-alone description they must not
start with a DESCRIPTION token, which `Fmt` guarantees by the blank line it keeps between two descriptions.) -/
theorem C09_fragment_inv (cls : Cls) (hcls : ClsOK cls) (indent : Nat) (f : Fragment)
    (hwf : FragWF cls f) (c : Cur) (tail : List Rune) :
    ∃ new c', LexSeg cls c (fmtFragment cls indent f).1.newText tail new c' ∧
      ∀ (prev : Option Token) (rest : List Token) (pfuel : Nat),
        (∀ d, f = .desc d → headTy rest ≠ some .description) → 2 * new.length ≤ pfuel →
        ∃ f' w', nextFragment pfuel ⟨prev, new ++ rest⟩ = .ok (some f') w' ∧
          Fragment.equiv cls f' f :=
  fragment_roundtrip cls hcls indent f hwf c tail

/-- **Fragments are preserved** (this includes the comments, which the tree drops): if the formatter's front end
accepts `src` with fragments `frags`, then `Fmt` succeeds, and its output is accepted with fragments that denote the
same: the same sequence of headers, closing braces, assignments, comments and descriptions. -/
theorem C09_preserves_fragments (cls : Cls) (hcls : ClsOK cls) (src : List Rune)
    (frags : List Fragment) (h : collectFragments cls src = .ok frags) :
    ∃ out frags', fmt cls src = .ok out ∧ collectFragments cls out = .ok frags' ∧
      Fragment.equivList cls frags' frags := by
  obtain ⟨hfmt, ts', frags', hts', _, hwk', hnorm⟩ := fmt_roundtrip cls hcls src frags h
  exact ⟨_, frags', hfmt, collectFragments_of cls _ ts' frags' [] hts' hwk',
    normFrags_equiv cls hcls.spSpace frags frags' 0 hnorm⟩

/-- **The formatter preserves the document** — FULL: for every classifier with `ClsOK`, every source (any runes),
both parser modes: if `ParseFile` accepts `src` with tree `f`, then `Fmt` succeeds and `ParseFile` accepts its
output with a tree `f'` denoting the same document (`File.equiv`). -/
theorem C09_preserves (cls : Cls) (hcls : ClsOK cls) (src : List Rune) (ff : Bool) (f : File)
    (h : parseFile cls src ff = .tree f) :
    ∃ out, fmt cls src = .ok out ∧ ∃ f', parseFile cls out ff = .tree f' ∧ File.equiv cls f' f :=
  parse_roundtrip cls hcls src ff f h

/-- **The formatter's output is accepted by the parser** (corollary) -/
theorem C09_output_parses (cls : Cls) (hcls : ClsOK cls) (src : List Rune) (ff : Bool) (f : File)
    (h : parseFile cls src ff = .tree f) :
    ∃ out f', fmt cls src = .ok out ∧ parseFile cls out ff = .tree f' := by
  obtain ⟨out, h1, f', h2, _⟩ := C09_preserves cls hcls src ff f h
  exact ⟨out, f', h1, h2⟩

/-- **Formatting the output a second time changes nothing** — FULL: for every classifier with `ClsOK` and every
source (any runes) on which `Fmt` succeeds — in particular every source the parser accepts (`C09_preserves`) —
`Fmt` of the output is the output. (Text of every fragment: the formatter's text does not depend on positions, and
re-flowing a re-flowed description is stable (`C09_description_reflow_stable`); blank lines: the fragments read
back from the output start / end on lines that reproduce the 0 / ≥ 1 blank-line decision.) -/
theorem C09_idempotent (cls : Cls) (hcls : ClsOK cls) (src out : List Rune)
    (h : fmt cls src = .ok out) : fmt cls out = .ok out :=
  fmt_idempotent cls hcls src out h

/-- the property as stated: accepted source ⇒ output accepted, same document, and a fixed point of `Fmt` -/
theorem C09_formatter (cls : Cls) (hcls : ClsOK cls) (src : List Rune) (ff : Bool) (f : File)
    (h : parseFile cls src ff = .tree f) :
    ∃ out f', fmt cls src = .ok out ∧ parseFile cls out ff = .tree f' ∧ File.equiv cls f' f ∧
      fmt cls out = .ok out := by
  obtain ⟨out, h1, f', h2, h3⟩ := C09_preserves cls hcls src ff f h
  exact ⟨out, f', h1, h2, h3, C09_idempotent cls hcls src out h1⟩

/-! ### On bytes (Go strings): `fmtSrc` = decode to runes, `Fmt`, encode to UTF-8

The formatter prints only runes of the source and ASCII punctuation (`fmt_runes`), decoding yields valid runes
(U+FFFD for invalid bytes) and encoding valid runes is inverted by decoding (`decode_encode`), so both whole-file
theorems hold for `parser.Fmt(string) string` on arbitrary byte strings, invalid UTF-8 included. -/

/-- `C09_preserves` for a source given as bytes -/
theorem C09_preserves_bytes (cls : Cls) (hcls : ClsOK cls) (bytes : List Nat) (ff : Bool) (f : File)
    (h : parseFile cls (decodeRunes bytes) ff = .tree f) :
    ∃ out, fmtSrc cls bytes = .ok out ∧
      ∃ f', parseFile cls (decodeRunes out) ff = .tree f' ∧ File.equiv cls f' f :=
  parse_roundtrip_bytes cls hcls bytes ff f h

/-- `C09_idempotent` for a source given as bytes -/
theorem C09_idempotent_bytes (cls : Cls) (hcls : ClsOK cls) (bytes out : List Nat)
    (h : fmtSrc cls bytes = .ok out) : fmtSrc cls out = .ok out :=
  fmtSrc_idempotent cls hcls bytes out h

/-! ## Non-vacuity -/

/-- a description with odd spacing, a tab, leading and repeated blank lines, re-flowed at width 6 -/
example : reformatDescription asciiCls (ofAscii "\n aa   bb\tcc\n\n\n dd") 6 =
    [ofAscii "aa bb", ofAscii "cc", [], ofAscii "dd"] := by decide +kernel
example : canon (itemsOf asciiCls (splitOn cNL (ofAscii "\n aa   bb\tcc\n\n\n dd"))) =
    [.word (ofAscii "aa"), .word (ofAscii "bb"), .word (ofAscii "cc"), .blank, .word (ofAscii "dd")] := by
  decide +kernel


/-- the ASCII classifier meets `ClsOK` -/
example : ClsOK asciiCls := ⟨by decide, by decide, by decide⟩
/-- a source with every fragment kind, tags with marks, qualifiers, nested arrays, a reference value, trailing
comments, a re-flowed description, blank-line runs: it is accepted, `Fmt` succeeds and changes it -/
def demoSrc : List Rune := ofAscii
  "foo b.c \"x\" ! q :? \"w\" { // c\n a = [1, /r//x/, [b.c]] // t\n\n\n | one   two\n | three\n x.y += /* bc */\n}\n| d1\n\n| d2\nh | hd\na = // vc\n"
example : (match parseFile asciiCls demoSrc true with | .tree _ => true | _ => false) = true := by
  decide +kernel
example : (match fmt asciiCls demoSrc with | .ok out => decide (out ≠ demoSrc) | _ => false) = true := by
  decide +kernel

/-- the equivalence is not trivial: a different literal, or a different word, is a different document -/
example : ¬ Fragment.equiv asciiCls
    (.comment ⟨⟨.comment, ofAscii " a", ⟨0, 0⟩, ⟨0, 4⟩⟩, ofAscii " a", ⟨⟨0, 0⟩, ⟨0, 4⟩⟩⟩)
    (.comment ⟨⟨.comment, ofAscii " b", ⟨3, 0⟩, ⟨3, 4⟩⟩, ofAscii " b", ⟨⟨3, 0⟩, ⟨3, 4⟩⟩⟩) := by
  simp [Fragment.equiv, Comment.erase, Token.erase, ofAscii]
example : Fragment.equiv asciiCls
    (.comment ⟨⟨.comment, ofAscii " a", ⟨0, 0⟩, ⟨0, 4⟩⟩, ofAscii " a", ⟨⟨0, 0⟩, ⟨0, 4⟩⟩⟩)
    (.comment ⟨⟨.comment, ofAscii " a", ⟨3, 0⟩, ⟨3, 4⟩⟩, ofAscii " a", ⟨⟨3, 0⟩, ⟨3, 4⟩⟩⟩) := by
  simp [Fragment.equiv, Comment.erase, Token.erase, Span.zero]
example : ¬ DescEquiv asciiCls ⟨[], ofAscii "one two", Span.zero⟩ ⟨[], ofAscii "one\ntwo three", Span.zero⟩ := by
  unfold DescEquiv; decide +kernel
example : DescEquiv asciiCls ⟨[], ofAscii "one  two\n\n\nthree", Span.zero⟩ ⟨[], ofAscii "one\ntwo\n\nthree", Span.zero⟩ := by
  unfold DescEquiv; decide +kernel

/-- `a/b"c` is a well-formed regex literal -/
example : RegexLitWF [97, 47, 98, 34, 99] :=
  ⟨⟨97, [47, 98, 34, 99], rfl, by decide, by decide⟩, by decide⟩
/-- `x_1` is a well-formed identifier for the ASCII classifier -/
example : IdentLitWF asciiCls (ofAscii "x_1") :=
  ⟨by decide, fun r h => by
      have : r = 120 := by simpa [ofAscii] using h.symm
      subst this
      exact ⟨by decide, by decide, by decide, by decide, by decide, by decide, by decide, by decide⟩,
    by decide⟩
example : NoCloser (ofAscii "a * / b **") := by decide
example : asciiCls.isSpace cSP = true := by decide
/-- an error-free lex with every literal kind -/
example : (match allTokens asciiCls true
      (ofAscii "a.b = [1, 2.5, \"x\\\"\", /r//x/, true] // c\n/* b */ | d\n") with
    | .toks ts => decide (ts.length = 20) | _ => false) = true := by decide +kernel

end J5V.Props.C09

/-! ## Obligations over facts regenerated from the current source -/
namespace J5V.Props.C09
open J5V.Generated.Bcltokens

theorem C09_src_tokenSource : tokenSourceCases =
    [("STRING", "quoteString(tok.Lit)"),
     ("REGEX", "fmt.Sprintf(\"/%s/\", strings.ReplaceAll(tok.Lit, \"/\", \"//\"))"),
     ("DESCRIPTION", "fmt.Sprintf(\"| %s\", tok.Lit)"),
     ("COMMENT", "fmt.Sprintf(\"//%s\", tok.Lit)"),
     ("BLOCK_COMMENT", "fmt.Sprintf(\"/*%s*/\", tok.Lit)"),
     ("otherwise", "tok.Lit")] := by decide
theorem C09_src_quoteString : quoteStringBody =
    "{ sb := &strings.Builder{} sb.WriteByte('\"') for _, r := range lit { switch r { case '\\\\', '\"', '\\n': sb.WriteByte('\\\\') } sb.WriteRune(r) } sb.WriteByte('\"') return sb.String() }" := by
  rfl
/-- in Go's tables `' '` is white space (bit 1) — the classifier hypothesis of the DESCRIPTION and
description-reflow theorems -/
theorem C09_src_space_class : J5V.Generated.Bclunicode.asciiClass.getD 32 0 % 2 = 1 := by decide
/-- in Go's tables `' '` and tab are white space (bit 1), and space, newline, tab and the operator characters are
neither digits (bit 2) nor letters (bit 4) — the classifier hypothesis `ClsOK` of the whole-file theorems -/
theorem C09_src_sep_class :
    J5V.Generated.Bclunicode.asciiClass.getD 32 0 % 2 = 1 ∧ J5V.Generated.Bclunicode.asciiClass.getD 9 0 % 2 = 1 ∧
    ∀ r ∈ J5V.Bcl.sepRunes, (J5V.Generated.Bclunicode.asciiClass.getD r 0 / 2) % 4 = 0 := by decide
theorem C09_src_description : descriptionWordSplit = "strings.Fields(line)" ∧
    descriptionConds = ["strings.TrimSpace(line) == \"\"", "pend != \"\"",
      "!lastWasEmpty && len(linesOut) > 0", "pend == \"\"", "len(pend)+len(word) > maxWidth",
      "pend != \"\""] := by decide

end J5V.Props.C09
