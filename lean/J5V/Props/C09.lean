import J5V.Bcl.FmtProofs
/-!
# C09 — formatter preserves meaning, is idempotent and emits parseable source

Only property theorems (+ non-vacuity examples).  Models: `J5V.Bcl.Fmt` (`tokenSource`,
`quoteString`, `doubleSlashes`, `diffFile`, `reformatDescription`, `fmt`), `J5V.Bcl.Lexer`;
lemmas: `J5V.Bcl.FmtProofs`.  All statements hold for every classifier `cls`.
-/
namespace J5V.Props.C09
open J5V.Bcl

/-- `tokenSource` is inverted by the lexer for **every** string literal (any runes: quotes,
backslashes, newlines, tabs, control and non-printable characters, any Unicode): lexing the rendered
token in front of any following text gives a STRING token with the identical literal and leaves the
following text untouched. -/
theorem C09_token_inv_string (cls : Cls) (c : Cur) (tok : Token) (h : tok.ty = .string)
    (rest : List Rune) :
    ∃ s, nextToken cls c (tokenSource tok ++ rest) = s ∧ s.err = none ∧ s.tok.ty = .string ∧
      s.tok.lit = tok.lit ∧ s.rest = rest := by
  unfold tokenSource
  rw [h]
  exact nextToken_string cls c tok.lit rest

/-- … and for every regex literal the lexer can produce (`RegexLitWF`: non-empty, not starting with
`/` or `*`, no newline), in front of any text that does not start with `/`. Slashes inside the
literal are doubled and read back as single slashes. -/
theorem C09_token_inv_regex (cls : Cls) (c : Cur) (tok : Token) (h : tok.ty = .regex)
    (hwf : RegexLitWF tok.lit) (rest : List Rune) (hrest : rest.head? ≠ some cSLASH) :
    ∃ s, nextToken cls c (tokenSource tok ++ rest) = s ∧ s.err = none ∧ s.tok.ty = .regex ∧
      s.tok.lit = tok.lit ∧ s.rest = rest := by
  unfold tokenSource
  rw [h]
  exact nextToken_regex cls c tok.lit rest hwf hrest

/-! ## Non-vacuity -/

/-- `a/b"c` is a well-formed regex literal -/
example : RegexLitWF [97, 47, 98, 34, 99] :=
  ⟨⟨97, [47, 98, 34, 99], rfl, by decide, by decide⟩, by decide⟩

end J5V.Props.C09
