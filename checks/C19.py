CONFIG = {
    "lean_props": "J5V/Props/C19.lean",
    "extract": ["bcltokens", "bclunicode"],
    "streams": [{
        "name": "bcl.diff", "harness": "bclh", "driver": "drv_bcl",
        "env": {"BCL_STREAM": "diff", "BCL_SHARDS": "16"},
        "n": {"quick": 16 * 16000, "thorough": 16 * 80000, "search": 16 * 8000},
        "shards": {"quick": 16, "thorough": 16, "search": 16},
        "flush": True, "crash_signature": "diff-crash-or-timeout",
        "timeout_s": 3000, "driver_timeout_s": 3000,
        "rule": "seeded grammar-directed BCL files (1-45 statements: assignments with every literal kind, nested arrays, block "
                "headers with tags / marks / qualifiers / descriptions / trailing comments, nested blocks, statements after a "
                "closing brace or a block comment on the same line, multi-line block comments, strings with escaped newlines, "
                "multi-line descriptions, leading / trailing / whitespace-only blank lines, missing final newline, odd "
                "indentation), windows of /repo's .j5s/.bcl/parser testdata with character and line edits, "
                "a share of shape-directed files (gen.shapes: Unicode white space U+0085 / U+00A0 / U+2028 / U+3000 / VT / FF between tokens, in "
                "indentation and after the description bar, several closing braces and other fragments on one line, description blocks "
                "separated by one token-less line or a comment, header descriptions followed by description blocks, comment / description "
                "tokens as assignment values, strings over two lines, 14-25 levels of nesting with descriptions (width <= 0), 60-260 rune words, "
                "unterminated block comment at the end), plus a share of "
                "token-mutated and random inputs. Non-trivial = parser.Fmt accepts the source (the property's quantifier); "
                "distinct by op text.",
    }],
    "trusted_base": [
        "Lean 4.33.0 kernel; axioms at most propext, Classical.choice, Quot.sound",
        "hand-written models J5V/Bcl/{Lexer,Parser,Fmt,Diff}.lean of internal/bcl/internal/parser/{lexer,parser,fmt,"
        "description}.go — validated by the bcl.diff correspondence stream (edit list: from, to, new text) on generated inputs",
        "LSP application of line edits (genlsp/format.go builds ranges (from,0)-(to,0)): modelled as replacement of byte ranges "
        "of the original document, the same function the Go oracle uses (verifbcl.ApplyEdits)",
        "extract/bcl.go facts, the Go harness internal/verifh/bclh + internal/bcl/verifbcl",
    ],
    "assumptions": [
        "'up to trailing blank lines' = equal after removing trailing lines that are empty or whitespace-only and the final newline",
        "number of lines of a document = number of '\\n' + 1 (strings.Split), the convention of FmtDiffs and of LSP",
    ],
}
