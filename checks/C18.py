CONFIG = {
    "lean_props": "J5V/Props/C18.lean",
    "extract": ["schema"],
    "streams": [{
        "name": "schema.reflect", "harness": "schemah", "driver": "drv_schema",
        "env": {"SCHEMAH_STREAM": "reflect"},
        "flush": True,
        "n": {"quick": 12000, "thorough": 120000, "search": 12000},
        "shards": {"quick": 8, "thorough": 16, "search": 8},
        "timeout_s": 1500,
        "rule": "descriptor generator (not the j5s compiler): 1-3 linked proto3 files built as FileDescriptorProtos and passed "
                "through the wire; messages, nested messages and enums, enums with and without *_UNSPECIFIED = 0 / no_default, real "
                "oneofs (plain, exposed, hidden, named `type`), proto3-optional, maps (string and other key kinds), repeated, every "
                "scalar kind incl. fixed32/fixed64/sfixed32/sfixed64/sint32/sint64, Timestamp/Any and the j5 date/decimal/any types "
                "(single, list and map), the unsupported google types Duration/Struct/Empty/wrappers/FieldMask/Value, self and mutual "
                "recursion (also through flatten), flatten chains 3..5 deep with several leaves (every fifth set), oneof wrappers by shape and by option, psm markers, duplicate / custom json_name, a "
                "field whose json_name is the lowerCamel name of an exposed oneof of the same message, schema-name collisions through "
                "'_' (message/message and message/enum), sub-packages (x.v1.service / x.v1.topic) referenced from another package; "
                "the witnesses of every recorded finding (open and repaired) and of the seeded changes run first in each shard; "
                "annotations (buf.validate.field) / (j5.list.v1.field) / (j5.ext.v1.field) / (j5.ext.v1.key) consistent with the "
                "field in every fifth set and with ~10% inconsistent choices otherwise. Each set: SchemaSetFromFiles, then per "
                "message SchemaCache.Schema, Reflector.NewRoot, codec on the empty message, the query decoder, one populated field "
                "at a time and all fields. Non-trivial = a set that reflects; distinct by op.",
    }],
    "trusted_base": [
        "Lean 4.33.0 kernel; axioms propext, Classical.choice, Quot.sound",
        "hand-written model J5V/Schema/Reader.lean of lib/j5schema/{schema_from_proto,schema_cache,schema_set}.go (the reader as "
        "an explicit stack machine over an abstract descriptor set) — validated by the schema.reflect correspondence stream: "
        "the reflected shape (roots, names, entity, any-membership, enum options, property names / flags / proto paths / field "
        "shapes) of every generated set and the ok/err/panic class of every SchemaCache.Schema call",
        "the descriptor summary computed by the harness (internal/verifh/schemah/shape.go) from protoreflect descriptors: "
        "names, kinds, cardinalities and the type cases / flags of the three annotation families; strcase.ToLowerCamel of "
        "oneof names is shipped, not modelled",
        "protodesc / protoregistry linking: every message / enum a field refers to is in the set, an enum has at least one "
        "value, full names are unique across messages / enums / oneofs, field numbers are unique within a message (hypothesis "
        "`linked` of the theorems; the driver evaluates it on every generated summary and the harness answers linked=1 for "
        "every set protodesc accepted, so a hypothesis real sets do not meet shows as a disagreement)",
        "lib/j5reflect: ClientProperties / newPropSet path resolution are modelled (J5V/Schema/Reader.lean clientProps, "
        "PropSetModel.lean) and tied through the NewRoot class of every message; the field factories' kind checks and the "
        "array / map item switches are modelled but reached on the Go side by the codec oracle only; internal/codec itself is "
        "the codec cluster's model",
        "J5V/Schema/EnvModel.lean toEnv (the reflected registry rendered as the codec model's Env) is validated per root def by "
        "the `env=` part of the schema.reflect result (Go side: envdump.go, a copy of the codec harness's prop / field / "
        "presence dump over the real structs); the `res` table is not compared. C18_empty_message(_oneof) and "
        "C18_reflected_decode_no_panic are statements about the codec cluster's model (J5V/Codec/{Encode,Decode}.lean, "
        "imported read-only; its tie to internal/codec is C01/C06's correspondence, not this check's)",
    ],
    "assumptions": [
        "RangeFiles order is unspecified; the model reflects file-level messages in declaration order. The class of the "
        "set-level result does not depend on the order (an error in any message fails the set; colliding schema names are "
        "an error from either side since af1da62)",
        "populated messages use plain valid values (non-zero defined enum numbers, one member per oneof, small depth)",
        "in a set where two descriptors map to one schema name (an error since af1da62) the codec's own cache may reject a "
        "message the harness's cache accepted (which descriptor claims the name depends on the call history): a codec error "
        "carrying the claim error is then not counted — reflection did not succeed on that cache",
    ],
}
