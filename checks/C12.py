CONFIG = {
    "lean_props": "J5V/Props/C12.lean",
    "extract": ["rules"],
    "streams": [{
        "name": "compile.rules", "harness": "rulesh", "driver": "drv_rules",
        "env": {"RULESH_STREAM": "rules"},
        "n": {"quick": 8000, "thorough": 48000, "search": 9600},
        "shards": {"quick": 16, "thorough": 16, "search": 16},
        "timeout_s": 1500,
        "rule": "corpus (witness of the open finding + witnesses of fixed findings) then a seeded generator of single-field j5s files "
                "(an enum field under test gets a rule-less sibling field of the SAME named enum with the opposite requiredness — filled with a "
                "valid option when it is the required one — so that per-enum state shared between fields shows as a wrong verdict) "
                "(every field type x rule presence/absence/zero/boundary values, "
                "both values of every boolean, arrays with min/max/unique and per-item rules, maps with minPairs/maxPairs and per-value "
                "rules, key formats, enum in/notIn with prefixed and unprefixed names, enum list rules with default filters), compiled by the "
                "real compiler; per declaration up to 40 candidate values around "
                "every induced boundary (below/at/above bounds, shortest/longest strings incl. multi-byte runes, matching / "
                "non-matching strings of a small regex class, undefined enum numbers, unset vs zero, lists / maps around the count bounds). Result = emitted "
                "(buf.validate.field) + presence + protovalidate-go verdict per value. Non-trivial = declaration with a rule, "
                "required flag, key or enum type, or at least one rejected value; distinct by declaration text.",
    }],
    "trusted_base": [
        "Lean 4.33.0 kernel; axioms propext, Classical.choice, Quot.sound",
        "hand-written models J5V/Rules/{Types,Compile,Validate,Meaning}.lean of j5convert/fields.go buildField/buildProperty (rule part), "
        "summary.go mapValues / summary_walk.go enumTypeRef / conversion.go visitEnumNode numbering, validated by the compile.rules stream",
        "protovalidate-go v0.9.2 field evaluation (required / ignore-empty / standard rules) as transcribed in Validate.lean; "
        "CEL evaluation inside protovalidate and RE2 are trusted (pattern matching is a parameter of the theorems; the driver and "
        "the Go oracle implement the same small regex class independently of Go's regexp)",
        "strcase.ToScreamingSnake for the default enum prefix is a parameter (shipped with the op)",
        "the Go harness internal/verifh/rulesh (generator, j5s text renderer, canonical dump, oracle)",
    ],
    "assumptions": [
        "integer bounds written in j5s text are non-negative (BCL has no negative literals); a bound outside the field's type is a compile "
        "error (C12_int_out_of_range_rejected), inside it the int32/uint32/uint64 casts are proved lossless",
        "whether `? type` gives the compiled field presence is measured on the real compiler at harness start-up and shipped with every op "
        "(`optpres`); the theorems hold for both values, C12_equiv_repaired is the statement for the current compiler (optpres=1, c0f36ba)",
        "a map value is represented by the list of its values (keys k0,k1,… carry no rules)",
        "values of fields without presence: the unset field is the zero value",
        "type references resolve and the buf/validate import is present (every generated file has a leading required field)",
    ],
}
