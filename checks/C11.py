CONFIG = {
    "lean_props": "J5V/Props/C11.lean",
    "extract": ["bcltokens", "bclunicode"],
    "streams": [{
        "name": "bcl.parse", "harness": "bclh", "driver": "drv_bcl",
        "env": {"BCL_STREAM": "parse", "BCL_SHARDS": "16"},
        # 16 shards always: the harness splits the bounded-exhaustive enumeration by shard index
        # (quick: every token-kind sequence of length <= 4 over the 21-kind alphabet = 204,205 inputs;
        #  thorough: length <= 5 = 4,288,306), the rest of n is the seeded random part.
        "n": {"quick": 16 * 30000, "thorough": 16 * 300000, "search": 16 * 20000},
        "shards": {"quick": 16, "thorough": 16, "search": 16},
        "flush": True, "crash_signature": "parse-crash-or-timeout",
        "timeout_s": 3000, "driver_timeout_s": 3000,
        "rule": "bounded-exhaustive: every sequence of token kinds (IDENT STRING REGEX INT DECIMAL BOOL COMMENT BLOCK_COMMENT "
                "DESCRIPTION = { } [ ] . , : + ! ? EOL) up to length 4 (quick) / 5 (thorough), each rendered with spelling and "
                "spacing variants picked from a hash of its index; seeded: grammar-directed valid files, valid files with one "
                "token deleted / inserted / swapped / replaced, windows of /repo's .j5s/.bcl/parser testdata with character and "
                "line edits, random Unicode strings (all planes, Unicode spaces and digits, controls), raw bytes incl. invalid "
                "UTF-8, random token soups, and `render` ops with arbitrary (also negative / out of range) positions. Every "
                "input is parsed with failFast=false and failFast=true. Non-trivial = the lexer yields at least two tokens "
                "besides EOF, or a render op; distinct by op text.",
    }],
    "trusted_base": [
        "Lean 4.33.0 kernel; axioms at most propext, Classical.choice, Quot.sound",
        "hand-written models J5V/Bcl/{Utf8,Lexer,Parser,ErrPrint}.lean of internal/bcl/internal/parser/{lexer,token,parser,"
        "expressions,errors}.go and internal/bcl/errpos/print.go — validated by the bcl.parse correspondence stream on the "
        "generated inputs only (tokens with positions and literal values, position-annotated tree, diagnostics with class and "
        "position for both fail-fast values, fragment list, rendered diagnostics text)",
        "unicode.IsSpace/IsDigit/IsLetter: a parameter of the model; the theorems hold for every classifier, the driver loads "
        "the real tables dumped by the harness at start-up (/verif/.work/unicode.tbl)",
        "extract/bcl.go (go/ast source facts E1, runtime ASCII classification E2) and the Go harness "
        "internal/verifh/bclh + internal/bcl/verifbcl (canonical printer, classification of diagnostics by message prefix)",
        "Go runtime behaviour outside the model: stack depth for deeply nested arrays, memory for very long inputs",
    ],
    "assumptions": [
        "termination is observed on the real code by a 120 s per-op watchdog (the process is killed and the op reported); in "
        "the model it is a theorem (structural / well-founded recursion, no fuel)",
        "the position oracle judges tree nodes, fragments, diagnostics and the tokens of a lex up to its first error, never the "
        "EOF token: its position is not observable through the parser",
        "errpos rendering is compared with the message lines stripped (messages are never compared)",
    ],
}
