CONFIG = {
    "lean_props": "J5V/Props/C20.lean",
    "extract": ["id62"],
    "streams": [{
        "name": "id62", "harness": "id62h", "driver": "drv_id62",
        "n": {"quick": 200000, "thorough": 4000000, "search": 400000},
        "shards": {"quick": 8, "thorough": 16, "search": 8},
        "rule": "seeded generator: uniform 128-bit ids plus all-zero/all-one/single-bit/leading-zero-byte/62^k±1/256^k±1 "
                "boundaries -> String(); arbitrary strings (empty, raw bytes, signs, foreign characters, 2^128 boundary, "
                "long, leading zeros) -> Parse / Pattern; hash inputs. Non-trivial = render op, accepted parse op or hash op; "
                "distinct by op text.",
    }],
    "trusted_base": [
        "Lean 4.33.0 kernel; axioms propext, Classical.choice, Quot.sound (via Mathlib Nat.digits lemmas)",
        "hand-written model J5V/Id62/Model.lean of lib/id62/uuid62.go, validated by the id62 correspondence stream",
        "math/big Text(62)/SetString(s,62)/Bytes() semantics as transcribed in the model (DESIGN appendix A)",
        "crypto/sha1 uninterpreted",
        "extract/id62.go (go/ast) and the Go harness internal/verifh/id62h",
    ],
    "assumptions": [
        "regexp `^[0-9A-Za-z]{22}$` is modelled by matchesPattern (checked differentially on every generated string)",
    ],
}
