CONFIG = {
    "lean_props": "J5V/Props/C16.lean",
    "extract": ["pipe"],
    "streams": [{
        "name": "pipe.chain", "harness": "pipeh", "driver": "drv_pipe",
        "flush": True,
        "crash_signature": "harness:crash",
        "n": {"quick": 4800, "thorough": 48000, "search": 9600},
        "shards": {"quick": 16, "thorough": 16, "search": 16},
        "timeout_s": 2400,
        "rule": "seeded generator, 4 of 10 ops are whole j5s packages built from a structured description (0-5 objects / oneofs / "
                "enums with forced self and mutual recursion, every scalar and field type in schema, request, response and path "
                "position, inline objects / oneofs / enums, arrays and maps; 1-3 services with base paths, every HTTP verb, 0-3 "
                "path parameters, methods without response, list methods over (recursive) objects with filterable / sortable / "
                "searchable fields and enum default filters; publish / reqres / upsert / event topics; entities; optionally two "
                "source files; rarely an inline field hoisted under the name of a declared schema) that the real compiler accepts (candidates "
                "it rejects are replaced and counted), taken through compile -> image (direct and printed-.proto route) -> "
                "structure.APIFromImage -> j5client.APIFromSource -> codec.ProtoToJSON -> export.BuildSwagger + json.Marshal in a "
                "worker process, each stage under recover + timeout; 6 of 10 ops are kernels: producer path rewrite "
                "(j5convert.ConvertJ5File), consumer path rewrite and service / method / message naming tests "
                "(structure.APIFromImage on hand-built descriptors, incl. malformed patterns), request split "
                "(j5client.APIFromSource on a hand-built source API), schema walks on random graphs with cycles and unresolved "
                "references, OpenAPI conversion of random field trees incl. malformed ones (export.ConvertRootSchema). "
                "Non-trivial = a package that went through all stages, a rewrite with a parameter, a split with a path "
                "parameter, an accepted name, a graph with a direct reference edge; distinct by op text.",
    }],
    "trusted_base": [
        "Lean 4.33.0 kernel; axioms propext, Classical.choice, Quot.sound",
        "hand-written models J5V/Pipe/{Path,Names,Split,Walk,List,Swagger,Service}.lean of internal/j5s/j5convert/service.go (path rewrite), "
        "internal/j5s/sourcewalk/{service,topic}.go (names), internal/structure/build_package.go (addStructure, buildMethod, "
        "buildTopicMethod), internal/j5client/{package_from_source,list,j5package}.go (methodFromSource, fillRequest, "
        "buildListRequest rule table, collectPackageRefs), lib/j5schema/schema_walk.go, lib/j5schema/schema_set.go (assertRefsLink), "
        "internal/export/convert.go (convertSchema's recursion), validated by the pipe.chain stream only",
        "J5V/Compile/Strcase.lean (strcase v0.3.0 ToSnake / ToCamel, path.Join / path.Clean) - owned by the compile cluster, "
        "validated differentially there and here through every rewrite / chain op",
        "the driver's translation of an op into model input (token parser, hoisting of inline schemas into named graph nodes)",
        "extract/pipe.go (go/ast) and the Go harness internal/verifh/pipeh (generator, renderer to j5s text, oracle, canonical summary)",
        "image building (protodesc / protoprint + protocompile), schema reflection (lib/j5schema readers), JSON rendering "
        "(internal/codec) and OpenAPI assembly (internal/export beyond convertSchema: paths, operations, JSON marshalling) are NOT modelled: they are reached only by the stream's oracle "
        "on generated packages (partial)",
    ],
    "assumptions": [
        "a package is 'valid' when the real compiler accepts it (one known exception is recorded: enum default filters the compiler "
        "does not check); packages the generator cannot produce (flattened objects, "
        "imports of other local packages, auth / method options, hand-written .proto files in the bundle) are not covered",
        "entity-generated services are checked by the declaration-independent part of the oracle only (their expansion is C17's model)",
        "protobuf's ByName lookup returns the unique field of that name (field names are unique in a linked descriptor)",
    ],
}
