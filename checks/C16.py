CONFIG = {
    "lean_props": "J5V/Props/C16.lean",
    "extract": ["pipe"],
    "streams": [{
        "name": "pipe.chain", "harness": "pipeh", "driver": "drv_pipe",
        "flush": True,
        "crash_signature": "harness:crash",
        "n": {"quick": 4000, "thorough": 40000, "search": 8000},
        "shards": {"quick": 16, "thorough": 16, "search": 16},
        "timeout_s": 2400,
        "rule": "seeded generator, 4 of 10 ops are whole j5s packages built from a structured description (0-5 objects / oneofs / "
                "enums with forced self and mutual recursion, every scalar and field type in schema, request, response and path "
                "position, inline objects / oneofs / enums, arrays and maps; 1-3 services with base paths, every HTTP verb, 0-3 "
                "path parameters, methods without response, list methods over (recursive) objects with filterable / sortable / "
                "searchable fields (also on timestamp and oneof fields) and enum default filters in both spellings; flattened object "
                "fields incl. objects flattening themselves and each other; recursion through oneofs, arrays and maps; publish / reqres / "
                "upsert / event topics; entities with shard keys and 0-2 command services, rarely without events; optionally two "
                "source files; rarely an inline field hoisted under the name of a declared schema; schema names that also exist in the built-in "
                "packages (Filter, Sort, Actor, ...)) that the real compiler accepts (candidates it rejects are replaced and counted; packages with an "
                "enum default filter naming no option, or a QueryRequest on a method whose response is not exactly one array of objects, are kept as "
                "'compiler must reject' classes), taken through compile -> image (direct and printed-.proto route) -> "
                "structure.APIFromImage -> j5client.APIFromSource -> codec.ProtoToJSON -> export.BuildSwagger + json.Marshal in a "
                "worker process, each stage under recover + timeout; the result line of a package carries, beside the client-API summary, the "
                "OpenAPI document read back from what each operation / component marshals to (path items in order, per operation verb, path, "
                "parameters name@in, sorted body property names, response content, references into the package; references inside the "
                "package's components), compared with the model's document (J5V/Pipe/SwaggerDoc.lean: buildClient + buildSwagger); "
                "oracle on the real document: every $ref names a key of components.schemas, the in-path parameters are the path's :name segments; "
                "6 of 10 ops are kernels: producer path rewrite "
                "(j5convert.ConvertJ5File), consumer path rewrite and service / method / message naming tests "
                "(structure.APIFromImage on hand-built descriptors, incl. malformed patterns), request split "
                "(j5client.APIFromSource on a hand-built source API), schema walks on random graphs with cycles and unresolved "
                "references and flattened edges, OpenAPI conversion of random field trees incl. malformed ones (export.ConvertRootSchema), "
                "OpenAPI path grouping (export.BuildSwagger on operation lists sharing paths). "
                "Non-trivial = a package that went through all stages, a rewrite with a parameter, a split with a path "
                "parameter, an accepted name, a graph with a direct reference edge; distinct by op text.",
    }],
    "trusted_base": [
        "Lean 4.33.0 kernel; axioms propext, Classical.choice, Quot.sound",
        "hand-written models J5V/Pipe/{Path,Names,Split,Walk,Flatten,List,ListRequest,Client,Entity,Swagger,SwaggerDoc,SwaggerProto,Service}.lean of internal/j5s/j5convert/service.go (path rewrite), "
        "internal/j5s/sourcewalk/{service,topic}.go (names), internal/structure/build_package.go (addStructure, buildMethod, "
        "buildTopicMethod), internal/j5client/{package_from_source,list,j5package}.go (methodFromSource, fillRequest, "
        "buildListRequest, collectPackageRefs), lib/j5schema/schema_walk.go, lib/j5schema/schema_set.go (assertRefsLink), "
        "lib/j5schema/root_schema.go (ClientProperties / OptionByName), lib/j5schema/schema_from_proto.go (buildEnum's prefix), "
        "internal/j5s/j5convert/{fields,summary}.go (enum default filter check), internal/export/convert.go (convertSchema's recursion), "
        "internal/export/swagger.go (addMethod: parameters, request body, response, path grouping), internal/export/convert.go (BuildSwagger, "
        "ConvertRootSchema, convertObjectItem / convertOneofItem property loops with map semantics; references as node indices: the "
        "`#/definitions/<package>.<schema>` string vs the `<package>.<key>` component key is tied by the source obligation C16_src_swagger_document "
        "and by the stream's dangling-ref oracle; SwaggerProto.lean: the proto-level input type with the error / panic arms, `toProto` = API.ToJ5Proto() "
        "pinned by the source obligation C16_src_to_j5_proto, not compared by the stream separately), validated by the pipe.chain stream only",
        "J5V/Compile/Entity.lean (+ SourceDef) of the compile cluster: the services an entity generates (query service, command services); "
        "validated differentially there (C17) and here through every chain op with an entity",
        "J5V/Compile/Strcase.lean (strcase v0.3.0 ToSnake / ToCamel, path.Join / path.Clean) - owned by the compile cluster, "
        "validated differentially there and here through every rewrite / chain op",
        "the driver's translation of an op into model input (token parser, hoisting of inline schemas into named graph nodes, the schema "
        "shapes of an entity's Keys / Data / Status / State / EventType / Event, the list-relevant part of the built-in "
        "j5.state.v1.StateMetadata / EventMetadata)",
        "extract/pipe.go (go/ast) and the Go harness internal/verifh/pipeh (generator, renderer to j5s text, oracle, canonical summary)",
        "image building (protodesc / protoprint + protocompile), schema reflection (lib/j5schema readers), JSON rendering "
        "(internal/codec) and the JSON marshalling of the OpenAPI document (internal/export/schema.go MarshalJSON, scalar formats / rules / examples, "
        "descriptions, required lists) are NOT modelled: they are reached only by the stream's oracle on generated packages (partial)",
    ],
    "assumptions": [
        "a package is 'valid' when the real compiler accepts it (recorded exception: an entity without events); packages the generator cannot produce (imports of other local packages, auth / method "
        "options, hand-written .proto files in the bundle, exported `any` member objects, entity summaries / query options, flatten on "
        "inline objects) are not covered",
        "nothing below j5.state.v1 Cause carries list rules (the driver leaves that subtree out of the built-in EventMetadata node)",
        "`$ref` strings point at `#/definitions/…` while the schemas live under `components.schemas` (OpenAPI 3 tools resolve `#/components/schemas/…`): "
        "'names a component' is taken as 'the text after #/definitions/ is a key of components.schemas' (observation, not in the statement of C16)",
        "BuildSwagger only takes the declared services of a package: entity-generated methods are absent from the OpenAPI document "
        "(observation, not in the statement of C16)",
        "protobuf's ByName lookup returns the unique field of that name (field names are unique in a linked descriptor)",
    ],
}
