import os, sys
sys.path.insert(0, os.path.dirname(os.path.abspath(__file__)))
from compile_common import GEN_RULE, TRUSTED, stream

CONFIG = {
    "lean_props": "J5V/Props/C13.lean",
    "extract": ["evolve"],
    "streams": [
        stream("evolve", {"quick": 640, "thorough": 9600, "search": 1280}, {"quick": 16, "thorough": 16, "search": 16},
               GEN_RULE + " Op `evolve`: package P plus 1-4 append edits e (appendfield at the end of an object / oneof / inline object at any "
               "depth / nested object / request / response / topic message (also entity data, events, commands, summaries), appendoption "
               "at the end of a top-level / nested / inline enum or of the entity statuses, appenddecl of a new object / oneof / enum / "
               "service / topic at the end of a file; appended options may state a number, appended fields may be primary keys of a "
               "hand-written KEYS object, appended inline objects may take the name of the object they are appended to; class alias-shadow (1/6 of the ops with "
               "a second package): P imports the other package under a capitalised alias `ZzShared|ZzCommon|ZzTypes|ZzExt`, has an object with a field "
               "`object:<Alias>.<T>` and the edit appends a top-level `object <Alias> { … object T { … } }` — a root declaration spelled like the alias with a "
               "nested object spelled like the referenced type); the real compiler compiles P and e(P); every element of compile(P) — message, "
               "field (number, type, label, proto3_optional, type name, JSON name, oneof index), enum value (number), service, method "
               "(input, output, http, annotations) — is looked up in compile(e(P)); result `ok changed=<k> <skeleton of e(P)>`. "
               "Oracle: k = 0. Non-trivial = edit that changed the compiled output; distinct by skeleton of e(P)."),
    ],
    "trusted_base": TRUSTED,
    "assumptions": [
        "appended declarations use names that do not collide with existing ones (zzNew…, ZzNew…): a colliding append is an invalid program, not an evolution step",
        "edits on entity parts (data, statuses, events, commands, summaries) go beyond the property's quantifier and are included as extra coverage",
        "theorem level: all three edit kinds are package-level theorems through Edit.apply and both compilePkg results (C13_append_decl_fresh, "
        "C13_append_field_pkg, C13_append_field_method_pkg, C13_append_field_topic_pkg, C13_append_option_pkg): a field appended to the own property "
        "list of a top-level object / oneof, of a method's request / response, of a topic message (all topic types), an option appended to a top-level "
        "enum that no field of the package refers to by name (the enum's export entry carries its value names); deeper paths (into inline types, nested "
        "declarations) are covered per container (C13_append_field, _ctx, _nested) and by the stream",
    ],
}
