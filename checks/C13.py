import os, sys
sys.path.insert(0, os.path.dirname(os.path.abspath(__file__)))
from compile_common import GEN_RULE, TRUSTED, stream

CONFIG = {
    "lean_props": "J5V/Props/C13.lean",
    "extract": ["evolve"],
    "streams": [
        stream("evolve", {"quick": 640, "thorough": 9600, "search": 1280}, {"quick": 16, "thorough": 16, "search": 16},
               GEN_RULE + " Op `evolve`: package P plus 1-4 append edits e (appendfield at the end of an object / oneof / inline object at any "
               "depth / nested object / request / response / topic message (also entity data, events, commands, summaries), appendoption "
               "at the end of a top-level / nested / inline enum or of the entity statuses, appenddecl of a new object / oneof / enum / "
               "service / topic at the end of a file; appended options may state a number, appended fields may be primary keys of a "
               "hand-written KEYS object, appended inline objects may take the name of the object they are appended to; class alias-shadow (1/6 of the ops with "
               "a second package): P imports the other package under a capitalised alias `ZzShared|ZzCommon|ZzTypes|ZzExt`, has an object with a field "
               "`object:<Alias>.<T>` and the edit appends a top-level `object <Alias> { … object T { … } }` — a root declaration spelled like the alias with a "
               "nested object spelled like the referenced type); the real compiler compiles P and e(P); every element of compile(P) — message, "
               "field (number, type, label, proto3_optional, type name, JSON name, oneof index), enum value (number), service, method "
               "(input, output, http, annotations) — is looked up in compile(e(P)); result `ok changed=<k> <skeleton of e(P)>`. "
               "Oracle: k = 0. Non-trivial = edit that changed the compiled output; distinct by skeleton of e(P)."),
    ],
    "trusted_base": TRUSTED,
    "assumptions": [
        "appended declarations use names that do not collide with existing ones (zzNew…, ZzNew…): a colliding append is an invalid program, not an evolution step",
        "edits on entity parts (data, statuses, events, commands, summaries) go beyond the property's quantifier and are included as extra coverage",
        "theorem level: package-level theorems through Edit.apply and both compilePkg results for every container the property names, at any depth "
        "the edit grammar reaches: fields (C13_append_field_pkg, _nested_pkg: nest* / prop* paths into a top-level object / oneof; _method_pkg, "
        "_method_deep_pkg, _topic_pkg, _topic_deep_pkg), options (C13_append_option_pkg for any top-level enum, referred to or not; _option_nested_pkg, "
        "_option_method_deep_pkg, _option_topic_deep_pkg for nested and inline enums), declarations (C13_append_decl_fresh), and any sequence of such "
        "edits (C13_append_seq_pkg); field / declaration theorems assume the newly exported names are new to the package (decidable on the sources), "
        "option theorems only that both versions compile; NOT covered by theorems: edits of entity parts (stream only) and the link step "
        "(compileLinked; open finding c13-capture-append:rejected)",
        "source facts (extract/evolve.go, 15 C13_src_* obligations): the shapes of mapProperties, visitEnumNode, enumBuilder.addValue, "
        "propertyNode.accept, buildFieldNode, replaceNested*, newRoot / NestPath / NameInPackage and the add* builders are compared textually "
        "(go/printer rendering of every mention with its control context); a semantically equivalent rewrite of these functions turns the obligation "
        "red and needs a look at the model",
    ],
}
