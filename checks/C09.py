CONFIG = {
    "lean_props": "J5V/Props/C09.lean",
    "extract": ["bcltokens", "bclunicode"],
    "streams": [{
        "name": "bcl.fmt", "harness": "bclh", "driver": "drv_bcl",
        "env": {"BCL_STREAM": "fmt", "BCL_SHARDS": "16"},
        "n": {"quick": 16 * 12000, "thorough": 16 * 60000, "search": 16 * 6000},
        "shards": {"quick": 16, "thorough": 16, "search": 16},
        "flush": True, "crash_signature": "fmt-crash-or-timeout",
        "timeout_s": 3000, "driver_timeout_s": 3000,
        "rule": "seeded grammar-directed BCL files (1-45 statements; every token kind in every grammatical position: "
                "references, tags with ! and ? marks, string / reference tags, qualifiers, assignments and += with strings "
                "(escaped backslash, quote and newline, tabs, controls, non-ASCII, non-printable and astral runes), regexes with "
                "doubled slashes, ints, decimals, bools, references, nested and empty arrays, comment / block-comment / "
                "description literals, trailing comments, block comments, multi-line descriptions with long words, double "
                "spaces, tabs and Unicode spaces, arbitrary blank-line and indentation patterns), "
                "a share of shape-directed files (gen.shapes: Unicode white space U+0085 / U+00A0 / U+2028 / U+3000 / VT / FF between tokens, in "
                "indentation and after the description bar, several closing braces and other fragments on one line, description blocks "
                "separated by one token-less line or a comment, header descriptions followed by description blocks, comment / description "
                "tokens as assignment values, strings over two lines, 14-25 levels of nesting with descriptions (width <= 0), 60-260 rune words, "
                "unterminated block comment at the end), windows of /repo's "
                ".j5s/.bcl/parser testdata with edits, plus a share of token-mutated and random inputs. Non-trivial = "
                "ParseFile accepts the source (the property's quantifier); distinct by op text.",
    }],
    "trusted_base": [
        "Lean 4.33.0 kernel; axioms at most propext, Classical.choice, Quot.sound",
        "hand-written models J5V/Bcl/{Lexer,Parser,Fmt}.lean of internal/bcl/internal/parser/{lexer,parser,fmt,description}.go "
        "— validated by the bcl.fmt correspondence stream (formatter output text) on generated inputs",
        "strings.Fields / strings.TrimSpace / strings.TrimRight as transcribed in the model (unicode.IsSpace from the shipped table)",
        "extract/bcl.go facts, the Go harness internal/verifh/bclh + internal/bcl/verifbcl",
    ],
    "assumptions": [
        "'same document' on the Go side = equal position-free fragment sequences (block headers with type, tags, marks, "
        "qualifiers, open flag; assignments with key, operator, literal kinds and values, arrays; close braces; comments with "
        "their text; inline comments) with descriptions compared as paragraphs of whitespace-separated words; a description "
        "without any word and leading / trailing empty description lines are not significant",
        "CRLF-free text: the generators never emit \\r inside the valid-file generator",
        "theorems (model level, every rune list, both parser modes): C09_preserves (accepted source => Fmt succeeds, output "
        "accepted, tree equal up to positions, stand-alone descriptions equal as word / paragraph sequences), "
        "C09_preserves_fragments (the same for the fragment list, which includes the comments), C09_idempotent "
        "(Fmt (Fmt src) = Fmt src), for every classifier with ClsOK (space and tab are white space; space, newline, tab and the "
        "operator characters are neither letters nor digits) - Go's tables meet ClsOK by the decide obligation "
        "C09_src_sep_class over the extracted ASCII class table; the correspondence stream ties the model to the code",
    ],
}
