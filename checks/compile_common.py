"""Shared pieces of the compile-cluster checks (C02 C13 C17 C07 C14)."""

GEN_RULE = ("seeded type-directed generator (harness/tree/internal/verifh/j5sgen): bundle of 1-3 packages (package i may import "
            "packages j<i by name, last-but-one segment, alias or full package), 1-3 j5s files per package (+ optional hand-written "
            ".proto file), per file 1-5 objects / oneofs / enums / services / topics / entities; every scalar field type and format, "
            "key formats and entity-key markers, `!`/`?` marks or body attributes, references (same file forwards and backwards, "
            "cross-file acyclic, cross-package, to nested / inline types by dotted name, to .proto types), inline objects / oneofs / "
            "enums to depth 3 with default or overridden names and prefixes, arrays and maps of every item type, nested objects; "
            "services with every HTTP verb, base path or none, 0-3 path parameters at any position (camelCase and snake names), "
            "methods without response; publish / reqres / upsert topics with named / unnamed messages; entities with 1-4 keys "
            "(primary / foreign / tenant / shard / non-key typed), data, 1-4 statuses, 0-4 events, 0-2 commands, 0-2 summaries, "
            "query settings. The harness prints the abstract package as j5s text (random surface style) for the REAL compiler "
            "(protobuild.PackageSet.CompilePackage on an in-memory bundle) and as an s-expression for the Lean model.")

TRUSTED = [
    "Lean 4.33.0 kernel; axioms propext, Classical.choice, Quot.sound",
    "hand-written models lean/J5V/Compile/{SourceDef,Walk,Entity,Convert,Imports,File,Package,Link,Skel,Strcase,AstValue}.lean of "
    "internal/j5s/sourcewalk/*.go and internal/j5s/j5convert/*.go, validated only on generated packages through the compile.* streams",
    "J5V/Compile/Link.lean is a SPEC of protocompile's linker (name scoping, imports, duplicate symbols), not a mirror of its code",
    "J5V/Compile/Strcase.lean = iancoleman/strcase v0.3.0 (differential stream `strcase`, 4 functions on arbitrary ASCII)",
    "the j5s printer of the harness (j5sgen/print.go) and the BCL walker (internal/bcl/internal/walker) between the abstract package "
    "and sourcedef.SourceFile: exercised by every op, not modelled — a walker bug shows up as a skeleton difference",
    "the Go harness internal/verifh/{compileh,j5sgen,j5sreal}: generator, canonical skeleton dump of the linked descriptors, "
    "independent expectation (compileh/expect.go) and oracles; the extractors extract/compile*.go (go/ast)",
    "protocompile (parser-less link of the generated descriptors), protobuf-go (descriptor conversion, deterministic Marshal) are not modelled",
]

def stream(name, n, shards, rule, driver="drv_compile", **kw):
    s = {"name": "compile." + name, "harness": "compileh", "driver": driver, "env": {"COMPILEH_STREAM": name},
         "n": n, "shards": shards, "rule": rule, "timeout_s": 3000, "driver_timeout_s": 3000}
    s.update(kw)
    return s

def strcase_stream():
    return stream("strcase", {"quick": 160000, "thorough": 1600000, "search": 160000}, {"quick": 8, "thorough": 16, "search": 8},
                  "ToCamel / ToLowerCamel / ToSnake / ToScreamingSnake of iancoleman/strcase on random ASCII strings (arbitrary bytes < 128, "
                  "identifier alphabets with separators, glued words in mixed casings, entity-name + suffix shapes, leading / trailing "
                  "separators) against J5V.Compile.Strcase; non-trivial = every op, distinct by op text", no_search=True)
