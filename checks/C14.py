import os, sys
sys.path.insert(0, os.path.dirname(os.path.abspath(__file__)))
from compile_common import GEN_RULE, TRUSTED, stream

CONFIG = {
    "lean_props": "J5V/Props/C14.lean",
    "extract": ["maprange", "builders"],
    "streams": [
        stream("det", {"quick": 96, "thorough": 320, "search": 96}, {"quick": 16, "thorough": 16, "search": 16},
               GEN_RULE + " Op `det`: bundle of 1-4 packages with 1-4 files each and a variant (permutation of the package listing, permutation "
               "of each package's file listing through a shuffling file source, a CompilePackage call sequence possibly with repeats, one reused "
               "PackageSet or a fresh one per call). The result line is the skeleton of every package under that variant. Go-side oracle: "
               "proto.Marshal(Deterministic) bytes of every FileDescriptorProto and protoprint.PrintFile text are compared between the "
               "identity variant, the op's variant, 3 (thorough 5) further random variants in the same process (Go randomises each map "
               "range) and 2 (thorough 3) fresh processes (different map hash seed); the identity listing is compiled once more in the same "
               "process. Bundles may hold nested package directories (foo.v1 and foo.v1.types.v2, importing each other's types) and files with "
               "two un-aliased imports that imply the same short name (the later statement owns it, the named type exists in both packages): "
               "those are compiled 6 more times in process and in 20 fresh processes. In 2/3 of the bundles every inline enum field with >= 2 options gets (chance 1/2) a rules.in / rules.notIn "
               "list naming >= 2 distinct options and repeating one of them, bare and / or with the enum prefix (both spellings are accepted; counter det.gen.enum-in-repeat): a rule list "
               "rebuilt from a Go map changes order between compiles. Half of the bundles carry validation rules on scalar fields ((buf.validate.field) options in descriptor and text). Printer sub-oracle: per package one descriptor without "
               "source info whose messages carry every message-level option known to the process (among them options of different files with "
               "the same declaration index and the same short name) is printed 7 times in process and once per fresh process; all texts are "
               "equal. Non-trivial = bundle in which at least one package compiled; distinct by skeleton.", gomemlimit="3GiB"),
    ],
    "trusted_base": TRUSTED + [
        "nondeterminism inside protocompile / protobuf-go is outside the model; the stream observes only the final bytes and text",
        "extract/compilemaprange.go classifies every `range` over a map in the C14 anchor files against lean/J5V/Compile facts (E8)",
    ],
    "assumptions": [
        "bundles are valid (no duplicate type names across files): the order-dependent winner of duplicate exports in Package.includeIO is not reachable from valid input",
    ],
}
