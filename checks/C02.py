import os, sys
sys.path.insert(0, os.path.dirname(os.path.abspath(__file__)))
from compile_common import GEN_RULE, TRUSTED, stream, strcase_stream

CONFIG = {
    "lean_props": "J5V/Props/C02.lean",
    "extract": ["compileconsts", "builders", "importmap"],
    "streams": [
        stream("skel", {"quick": 960, "thorough": 16000, "search": 1920}, {"quick": 16, "thorough": 16, "search": 16},
               GEN_RULE + " In 1/6 of the bundles three packages are appended: two `*.zzfshared.vN` packages that declare the same type name and `zzfuser.v1`, whose file imports one "
               "by package name and the other by FILE PATH (both orders) and refers to the type through the shared short name (bare / array item / map value: the package import's type — a file "
               "import registers no short name) and through the file import's full package name (counter skel.gen.file-import-clash). Op `skel`: compile one package of the bundle; result = canonical skeleton of every generated file (name, package, "
               "deps; messages with kind / psm / fields (name, jsonName, number, type, label, proto3_optional, resolved typeName, oneof "
               "index, required, j5 ext kind), nested messages / enums, enum values, services with annotation, methods with input / "
               "output / http rule / annotation). Go-side oracle: independent expected skeleton computed from the abstract package "
               "(numbers by position after implicit leading fields, snake / JSON names, implicit UNSPECIFIED, nesting names, "
               "references resolve to the declared type and its file is imported, sub-package files, Request / Response / Message "
               "types, verb and rewritten path, messaging role, entity expansion). Non-trivial = package that compiled; distinct "
               "by skeleton."),
        strcase_stream(),
    ],
    "trusted_base": TRUSTED,
    "assumptions": [
        "a 'valid j5s package' is what the generator produces: names are ASCII identifiers, unique after snake / JSON conversion "
        "inside a message and unique per package / sub-package for types, methods and topic messages; file-level references inside a "
        "package are acyclic; an inline type is never named like one of its ancestors (recorded finding C07 capture)",
        "the j5s surface syntax -> SourceDef step (BCL walker) is exercised through the real parser but not modelled",
        "the expected-output oracle uses iancoleman/strcase itself for snake / camel (the library is compared with the Lean model in the strcase stream)",
    ],
}
