"""Shared pieces of the four codec checks (C01 C03 C06 C08). Written by codec-go."""

TRUSTED = [
    "Lean 4.33.0 kernel; axioms propext, Classical.choice, Quot.sound",
    "hand-written Lean model J5V/Codec/* + J5V/Json/* of internal/codec, lib/j5reflect (value_go, property_set, type_*, protoval) and "
    "j5types/{date,decimal}_j5t — validated (not verified) by the correspondence streams codec.enc / codec.dec / codec.query / codec.fuzz "
    "on generated inputs only",
    "schema reflection (lib/j5schema: descriptor -> ObjectSchema.ClientProperties) is NOT modelled: the harness dumps the reflected schema "
    "the real code produced and the model takes it as input",
    "Go harness internal/verifh/codech (generators, canonicaliser of map member order, strict RFC 8259 reader, canonDoc normaliser, "
    "wire-format checker, message comparator) and extract/codec.go (go/ast)",
    "protobuf-go protoreflect presence / list / map / oneof semantics equal the model's message store (assumed; exercised differentially)",
    "encoding/json Decoder.Token/More/Decode equal the Lean token spec (differential: `tok` ops and every dec op)",
    "strconv.ParseFloat / FormatFloat, float32(float64), time.Parse / Format RFC3339, shopspring/decimal NewFromString / String are "
    "ORACLES: their results are shipped with each op (ora tables, texts inside the value tree); the theorems assume the stated "
    "FloatCodec / TimeCodec / decimal laws as hypotheses",
    "proto.Marshal / Unmarshal for the bytes inside Any values (inner messages are shipped as trees; the bytes are not compared)",
    "C06 step bound: J5V/Codec/Steps.lean counts the calls of the Lean decoder model (same recursion, continuing loops with the model's "
    "own intermediate results); it is a statement about the model's work (one step per decodeValue call / loop iteration / re-scanned "
    "node of an Any value, scalar conversion = 1 step per token), not about Go instruction counts: wall time of the real code is "
    "observed only by codec.stress / codec.fuzz (per-call bound 1.5 s + 5 us/byte)",
    "document-level relations of C03 (J5V/Codec/Doc.lean: Spells* = admissible spellings of a message, Fault* = a fault anywhere, "
    "Stored* = what an accepted document stored, queryDoc) and of C08 (J5V/Codec/Wire.lean: Conforms) are hand-written specifications, "
    "defined by recursion on the document only",
    "Any / j5_json: `Oracle.chunk` is a specification-side field of the model (default none; never set by the driver, never read by the "
    "decoder model): the encoder model keeps a recognised j5_json chunk in parsed form only if it renders to exactly the stored bytes, so "
    "the bytes it writes do not depend on the field (chunkNode_render, proved). The byte-level theorems about messages holding an Any "
    "assume `ChunkLaws` (a recognised chunk is compact JSON as json.Compact / the codec writes it) — trivially true for the real oracles — "
    "and speak about stored j5_json of that compact form only",
]

ASSUMPTIONS = [
    "target types: /repo's compiled test protos (test.schema.v1.*, test.foo.v1.*) and seeded generated raw descriptors g<seed>.v1 with j5 "
    "annotations (every scalar kind x {singular, optional, repeated, map}, enums with / without prefix / NoDefault, wrapper and exposed "
    "oneofs, flattened objects, recursive and mutually recursive types, j5 Any and protobuf Any); j5s compiled by the real compiler is not "
    "used as a schema source (the compile cluster checks that its output reflects to the intended schema)",
    "types that J5 cannot express (fixed32/64, Duration, Struct, repeated Any, a message flattened twice into one parent) are not generated "
    "as targets of the correspondence streams; the Go-only stream codec.history (C06) decodes into such types too (the reflection rejects them: "
    "every call returns an error) and then into their neighbours on the same codec",
    "protobuf Any can only be decoded by a codec built WithProtoToAny: C01 for messages containing a protobuf Any is evaluated in mode p",
    "url.Values iteration order is random in Go: multi-key query ops are restricted to order-independent key sets",
    "Go stack exhaustion and wall-clock behaviour are runtime properties: covered only by the Go-only codec.stress stream "
    "(nesting to 10^5, inputs to MiB, debug.SetMaxStack, per-call time bound 1.5 s + 5 us/byte, 60 s watchdog)",
]


def stream(name, n, shards, rule, driver="drv_codec", flush=False, **kw):
    s = {"name": name, "harness": "codech", "driver": driver, "n": n, "shards": shards, "rule": rule,
         "env": {"CODEC_STREAM": name}, "flush": flush, "corpus": name}
    s.update(kw)
    return s


ENC = lambda q, t: stream("codec.enc", {"quick": q, "thorough": t, "search": q}, {"quick": 8, "thorough": 16, "search": 8},
    "random messages of ~60 target types per shard (generated descriptors: enums declared in and out of numeric order and with gaps; the "
    "showcase file g0 has objects flattened 1..7 levels deep with several properties in the innermost object, flattened members are "
    "populated with probability 0.7 per level; dates: 1/6 February 29 of a leap year (4, 400, 1600, 2000, 2400 …), 1/6 February 28 of a "
    "non-leap year (100, 1900, 2100 …), 1/6 the last day of a random month; 18% with one class of non-representable value: non-finite float, out-of-range date / "
    "timestamp, invalid UTF-8, undefined enum number, malformed decimal, empty / unresolvable Any; for 1/3 of the messages holding a j5 "
    "Any the unpopulated bytes fields of the Any are stored as empty non-nil slices, `(meta emptybytes)`; bytes values: short, and 1/12 of "
    "them 1000..5000 bytes incl. the 1 / 2 / 3 / 4 KiB boundaries +-2; map keys: 1/2 everyday, 1/4 from a list of C0 controls without a JSON "
    "short escape (\\a \\v \\x1f \\x00), DEL, C1, U+2028/9, non-characters, tag / private-use / unassigned code points above U+FFFF, 1/4 random "
    "runes mostly from those ranges) -> ProtoToJSON; Go oracle: strict "
    "RFC 8259 re-read, wire-format conformance against the message (C08), decode(encode(m)) == m (C01). Non-trivial = encode succeeded; "
    "distinct by root + message tree.")

DEC = lambda q, t: stream("codec.dec", {"quick": q, "thorough": t, "search": q}, {"quick": 8, "thorough": 16, "search": 8},
    "canonical encoding of a random representable message, then (1/8) unchanged, (3/8) one or a random combination of the documented "
    "spelling variations (quoted/bare numbers, float respelling, base64 alphabet / padding, enum prefix, RFC3339 offset, member "
    "reordering, whitespace, explicit nulls for absent members, \\u escapes), (4/8) exactly one fault (wrong type, unparsable / "
    "out-of-range number, a bare 64-bit integer in fraction / exponent syntax whose value (> 2^53, odd, or just outside the range) float64 "
    "cannot represent, invalid base64 / date / decimal / timestamp, a day that does not exist (February 29 on non-leap years incl. the century "
    "years 1700 1800 1900 2100 … 9900, February 30, day 31 of a 30-day month), unknown enum, unknown key, two keys in a oneof (J5 oneof object or two members of a plain proto oneof), contradicting "
    "!type before the arm key and as the last member) at a random position (top / nested / array element / map value / oneof arm) -> JSONToProto. Go oracle: variation decodes to "
    "the same message as the canonical spelling, fault is rejected, accepted => re-encode == canonDoc(document). Non-trivial = accepted "
    "document; distinct by root + document bytes.")

QUERY = lambda q, t: stream("codec.query", {"quick": q, "thorough": t, "search": q}, {"quick": 8, "thorough": 16, "search": 8},
    "from the canonical encoding of a random message: one scalar leaf as a dotted query parameter (camel or snake segments), an array of "
    "scalars as repeated values, a container as JSON text, or several independent scalars -> QueryToProto. Go oracle: result equals "
    "JSONToProto of the equivalent document. Non-trivial = accepted query; distinct by root + key/value list.")

FUZZ = lambda q, t: stream("codec.fuzz", {"quick": q, "thorough": t, "search": q}, {"quick": 8, "thorough": 16, "search": 8},
    "grammar-aware mutations of valid documents (truncation, null in any position, duplicate keys, huge / odd numbers, odd scalar strings, "
    "wrong shapes, nesting to 1500, byte flips, oneof framing abuse, null elements, trailing data, invalid UTF-8, odd keys), raw inputs "
    "(empty, arbitrary bytes, JSON-ish characters, known nasty literals) against all target types incl. recursive ones; every 5th op a "
    "url.Values (empty / dotted / unknown / upper-cased keys into every property kind, 0..3 values incl. JSON text; every third of them "
    "a key with index-like segments (0 1 00 +1 -1 -2^31 -2^63 1e3 0x1 .. 65536 10^6), empty segments or trailing dots after a property of "
    "every kind — half of them after an array / map of objects / oneofs, followed by a property of the element type); every 40th a `tok` "
    "op (tokenizer differential); every 25th a number with an exponent beyond the decimal limit (4097..3*10^6, e / E, signed, bare / "
    "quoted) in a decimal or float member, array element, map value or query parameter. Inputs <= 4 KiB (thorough 64 KiB). Go oracle: "
    "no panic, time bound, decoded message size <= 1024 * input + 8 KiB (c06-amplification), and for accepted documents the "
    "C03 exactness oracle. Non-trivial = accepted input; distinct by root + input.",
    flush=True, crash_signature="c06-crash", timeout_s=1500,
    # a thorough shard (64 KiB inputs) peaks near 4 GiB: 16 at once leave < 2 GiB of the 62 GiB machine
    max_parallel={"quick": 16, "thorough": 8, "search": 16})

STRESS = lambda q, t: stream("codec.stress", {"quick": q, "thorough": t, "search": q}, {"quick": 4, "thorough": 8, "search": 4},
    "Go only: recursive target types, nesting depth 10^3..2*10^4 (thorough 10^5) through object, array and oneof recursion, closed and "
    "unclosed, deep garbage inside an Any value, Any values nested 90..1600 (thorough 4600) deep in proto-expanding mode, arrays / strings / "
    "maps up to 1 MiB (thorough 4 MiB), every 10th op a decimal / float exponent of 3*10^6..2^31-1 in every spelling, every 10th a query "
    "key with an index segment of 2*10^9..2^63-1 after an array / map of containers; last corpus line: `deep` op (document nested 8*10^5 "
    "deep, run in a child process with Go's default 1 GB stack limit: open known finding c06-crash:stack-exhaustion-deep-nesting); corpus "
    "codec.stress.ops: 21 fixed exponent inputs (10^7 digits, 2^31-1 last); per-call bound 1.5 s + 5 us/byte, decoded message size "
    "<= 1024 * input + 8 KiB, "
    "debug.SetMaxStack(256 MiB), 60 s watchdog, live-heap watchdog (8 GiB during one call; 3 GiB in codec.fuzz / codec.history).",
    driver=None, flush=True, crash_signature="c06-crash", timeout_s=1500, gomemlimit="12GiB", no_search=True)


# written by b-codec2 (round 4): several decode calls on ONE codec, target types the schema reflection rejects
HISTORY = lambda q, t: stream("codec.history", {"quick": q, "thorough": t, "search": q}, {"quick": 4, "thorough": 8, "search": 4},
    "Go only: a generated package hs<seed>.v1 of 2..5 message types that refer to each other (self references, cycles; singular / repeated / "
    "map / oneof members; 1/6 J5 oneof wrappers by convention), 0..2 of them (seed%4==0: exactly the first of a mutually recursive pair) "
    "with one member the J5 schema reflection rejects (fixed32/64, sfixed32/64, repeated fixed64, map with int32 keys, google.protobuf.Duration / "
    "Struct, an enum without an UNSPECIFIED zero value) at a random position among the members; 2..7 decode calls (4/5 JSON documents entering the "
    "references 1..3 deep with {} / null / absent below, 1/5 dotted query keys) on ONE fresh codec.NewCodec(), a rejected type first in 2/3 of the "
    "histories. Go oracle per call: no panic (c06-panic:<site>), time bound (c06-slow), size bound (c06-amplification), process death "
    "(c06-crash). Statistic only: calls whose ok/err differs from the same call on a fresh codec. Non-trivial = a call accepted on a codec "
    "that had rejected a type before; distinct by op.",
    driver=None, flush=True, crash_signature="c06-crash", timeout_s=1500, no_search=True)
