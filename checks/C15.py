CONFIG = {
    "lean_props": "J5V/Props/C15.lean",
    "extract": ["schema"],
    "streams": [{
        "name": "schema.loop", "harness": "schemah", "driver": "drv_schema",
        "env": {"SCHEMAH_STREAM": "loop"},
        "n": {"quick": 8000, "thorough": 80000, "search": 8000},
        "shards": {"quick": 8, "thorough": 16, "search": 8},
        "timeout_s": 1500,
        "rule": "descriptor sets from (a) /repo's own compiled protos (test.foo.v1, test.schema.v1, j5.schema.v1, j5.client.v1, "
                "j5.list.v1 … every 12th op), (c) generated j5s bundles (j5sgen: objects, oneofs, enums, services, topics, entities, "
                "flatten, cross-package imports, inline types) compiled by the REAL j5s compiler (every 5th op; the op carries the "
                "compiled descriptors) and (b) generated raw proto3 sets in the J5-supported subset (1-3 files, cross-package "
                "and sub-package refs, nested messages and enums, self/mutual recursion, oneof wrappers, exposed oneofs, maps, "
                "repeated, proto3 optional, every supported scalar kind, well-known and j5 types, validate / list / j5 annotations "
                "consistent with the field, enum option info + info fields, 1 enum in 5 with value names whose SHORT name again starts with / "
                "equals / repeats the enum's own prefix (E3_E3_V1, E3_E3, E3_E3_, E3_E3_E3_V1, E3_X_E3_V1 — a second prefix trim "
                "anywhere in the loop renames them), psm markers, any-membership, comments); in every third "
                "multi-package set only the last root package is a direct package of the image, the others — sub-packages included — "
                "are exported as indirect packages as far as they are referenced -> "
                "SchemaSetFromFiles -> structure.APIFromImage -> (optionally through the wire) -> PackageSetFromSourceAPI -> "
                "ToJ5Root again. Every 4th op is an `import` op: the exported API with ONE mutation outside the export image "
                "(inline object / oneof / enum, unset field or root type, absent items / item_schema / property schema, unknown "
                "integer or float format, dangling reference, deleted schema, schema oneof not set, renamed object, entity join) "
                "-> PackageSetFromSourceAPI; no oracle, it validates the importer model's error and panic arms. "
                "Non-trivial = a descriptor set that reflects and exports; distinct by the exported form.",
    }],
    "trusted_base": [
        "Lean 4.33.0 kernel; axioms propext, Classical.choice, Quot.sound",
        "hand-written model J5V/Schema/Export.lean of lib/j5schema/{root_schema,field_schema,schema_from_desc,schema_set}.go "
        "(export, import, refTo, assertRefsLink), validated by the schema.loop correspondence stream on the schema sets the "
        "generator produces",
        "sub-messages copied by pointer (rules, ext, list rules, entity marker, the scalar Field) are opaque payloads in the "
        "model: that both directions copy them unchanged is what the model states; that they copy *every* such field is "
        "checked by the regenerated field-copy table (extractor E10)",
        "the Go harness internal/verifh/schemah (generator, canonical dumps of the j5schema structs and of schema_j5pb "
        "messages, oracle) and the Lean printers/parsers of J5V/Schema/Wire.lean",
        "protodesc / protoregistry linking of the generated descriptors; protobuf-go Marshal/Unmarshal/Equal",
    ],
    "assumptions": [
        "the reflected schema set S1 handed to the model is the one the real reader built (the reader itself is C04/C18 matter)",
        "proto.Equal is evaluated on both exports after a wire round trip (ToJ5Field builds `&Field_String_{}` with a nil "
        "inner message for map keys, which proto.Equal distinguishes from the empty message it serialises to)",
    ],
}
