import os

REPO = os.path.abspath(os.environ.get("VERIF_REPO", "/repo"))


def _env(stream):
    return {"PRINT_STREAM": stream, "PRINT_REPO": REPO}


CONFIG = {
    "lean_props": "J5V/Props/C05.lean",
    "extract": ["print"],
    "streams": [
        {
            "name": "print.reparse", "harness": "printh", "driver": None, "env": _env("reparse"),
            "n": {"quick": 2000, "thorough": 40000, "search": 6000},
            "shards": {"quick": 8, "thorough": 16, "search": 8},
            "timeout_s": 2400,
            "rule": "whole-file oracle on the real code: (a) every .proto under /repo/proto and /repo/j5stest compiled with "
                    "protosrc.Compiler over all bundle roots + built-in registry (each shard takes a quarter, every file is seen "
                    "in every run), (b) j5s packages: the .j5s sources of the repository, bundles of the shared type-directed "
                    "generator j5sgen (rules / capture profiles) and this cluster's annotated template packages, compiled with "
                    "protobuild.PackageSet.CompilePackage, (c) generated FileDescriptorProtos (nested messages, real oneofs, proto3 "
                    "optional, maps, repeated, json_name, services with google.api.http / j5 options, random values of every "
                    "registered extension incl. hard strings, numeric boundaries, repeated / map fields, enums, source info with "
                    "comments, 70% 'clean' profile avoiding recorded findings, 30% adversarial). Pipeline: protoprint.PrintFile -> "
                    "protocompile parse+link with the import closure of the original -> descriptor comparison clause by clause "
                    "(options by proto.Equal after decoding both against the same extension descriptors) -> print again, compare "
                    "text. Non-trivial = file that printed (distinct by op text).",
        },
        {
            "name": "print.file", "harness": "printh", "driver": "drv_print", "env": _env("file"),
            "n": {"quick": 1600, "thorough": 30000, "search": 3000},
            "shards": {"quick": 8, "thorough": 16, "search": 8},
            "timeout_s": 2400,
            "rule": "the same inputs as print.reparse (repository .proto / .j5s files, j5sgen + template j5s bundles, generated "
                    "FileDescriptorProtos with and without source info / comments); every descriptor is summarised by the harness "
                    "into the abstract element tree of J5V.Print.Layout (names, numbers, printed type names from the real "
                    "fieldTypeName / contextRefName, option trees from the real OptionsFor + WalkOptionField, source lines and "
                    "comments) and shipped with the op; compared: the text of the real protoprint.PrintFile with the text "
                    "Layout.printText computes from the summary (whole-printer correspondence: element walk, sorting, gaps, "
                    "comments, option statements, field options, json_name, imports, file options, extend blocks), AND the "
                    "reading of that text by bufbuild/protocompile (parse + link, summarised by the harness as a reader sees it: "
                    "elements with their source lines and attributed comments, fields, options as printed name + literal tree + "
                    "location flags) with the reading by the Lean grammar model Grammar.parseFile of the model's own text, AND the "
                    "second print (Go: PrintFile of what protocompile read; model: printText of what the grammar model read): same "
                    "verdict 'reproduces the text or not' and, when not, the same second text. The "
                    "generated descriptors additionally carry trailing / detached comments in this stream. 'unspecified' on "
                    "both sides when an unstable sort of the printer is not determined by its comparison. Non-trivial = file "
                    "that printed (distinct by op text).",
        },
        {
            "name": "print.str", "harness": "printh", "driver": "drv_print", "env": _env("str"),
            "n": {"quick": 60000, "thorough": 1200000, "search": 60000},
            "shards": {"quick": 6, "thorough": 16, "search": 6},
            "rule": "byte strings (printable, control, quotes/backslash, well-formed 2/3/4-byte runes incl. boundaries, ill-formed "
                    "UTF-8: lone continuation, overlong, surrogate, truncated, >U+10FFFF, NUL) -> prototextString, read back by "
                    "protocompile's lexer; plus literal texts with every escape form (well- and ill-formed) -> lexer only. "
                    "Compared with J5V.Print.TextString.textString / unescape. One op in eight: numeric scalars of option "
                    "values - int64 / uint64 boundaries and random values through the real marshalSingular, read back by "
                    "protocompile's parser (model Scalar.formatInt / readIntLit), integer literal forms (octal, hex, malformed) "
                    "for the reader spec, float32 / float64 values (boundaries, inf, nan, random bits): text from Go as oracle, "
                    "bit-exact read-back checked on the real code, token shape compared with Grammar.lex. "
                    "Non-trivial = round trip succeeded or literal accepted.",
        },
        {
            "name": "print.ref", "harness": "printh", "driver": "drv_print", "env": _env("ref"),
            "n": {"quick": 24000, "thorough": 400000, "search": 24000},
            "shards": {"quick": 6, "thorough": 16, "search": 6},
            "rule": "scope configurations: package of 0-3 components, <=4 nesting levels, <=6 names per scope from a pool of 6 "
                    "(collisions intended), messages / enums / fields with type-like names / a service with methods; context = "
                    "message or service, target = any type of the file or a message chain of another package whose components may "
                    "collide with local names or package prefixes. Go: contextRefName on real descriptors, then protocompile's "
                    "linker resolves the printed name from the context. Compared with J5V.Print.RefName.refName / resolve. "
                    "Non-trivial = the name resolved to the target.",
        },
        {
            "name": "print.opt", "harness": "printh", "driver": "drv_print", "env": _env("opt"),
            "n": {"quick": 16000, "thorough": 200000, "search": 16000},
            "shards": {"quick": 6, "thorough": 16, "search": 6},
            "rule": "random values of every registered extension (all option holders) through the real parseOption / "
                    "printOption (statement form, single- and multi-line source) and printFieldStyle (0-3 options + json_name); the "
                    "walked value tree (optionreflect.WalkOptionField) is shipped to the model which simplifies, names, sorts and "
                    "renders it. Non-trivial = every op.",
        },
        {
            "name": "print.ord", "harness": "printh", "driver": "drv_print", "env": _env("ord"),
            "n": {"quick": 30000, "thorough": 300000, "search": 30000},
            "shards": {"quick": 4, "thorough": 8, "search": 4},
            "rule": "sourceElements.Less / optionsByLocation.Less on generated (typeOrder | hasLocation, startLine, index, name) pairs; sort.Sort of "
                    "1-9 elements compared with the model's reference sort whenever the order is determined (uniform lines, no ties).",
        },
    ],
    "trusted_base": [
        "Lean 4.33.0 kernel; axioms propext, Classical.choice, Quot.sound",
        "hand-written models J5V/Print/{TextString,RefName,OptionText,Order,Scalar}.lean of internal/j5s/protoprint/** kernels "
        "(prototextString, contextRefName/pathToPackage/declaresName/capturedBeforeRoot, parseOption/printOption/printOptionArray/"
        "printOptionMessageFields/printFieldStyle/Simplify, sourceElements.Less, optionsByLocation.Less, marshalSingular for "
        "integers), validated by the print.str/ref/opt/ord streams",
        "hand-written model J5V/Print/Layout.lean of the whole of protoprint.PrintFile above the kernels (printFile, printSection, "
        "printElements, printMessage/Enum/Service/Oneof/Method/Field/FieldStyle/Extension, comments, gaps, OptionsFor order), "
        "validated against the real PrintFile text on every op of print.file; its input is a summary of the descriptor computed "
        "by the harness (summary.go) with the real fieldTypeName / contextRefName / OptionsFor / WalkOptionField",
        "hand-written grammar model J5V/Print/Grammar.lean (tokeniser, comment attribution, recursive-descent parser of the "
        "printed proto3 subset), written from the language definition and protocompile's sourceinfo rules, validated against "
        "bufbuild/protocompile v0.14.1 on the printed text of every print.file op (not on arbitrary proto sources)",
        "reader-side specifications written in Lean from the protobuf language spec and validated differentially against "
        "bufbuild/protocompile v0.14.1: string-literal unescaping (lexer) and relative-name resolution (linker); the token "
        "parser of C05_option_inv is tied to the rendered text only through the driver's tokeniser (checked on every optstmt op)",
        "protocompile's linker and option interpreter: third party, NOT modelled (the grammar model reads option names and "
        "literals syntactically; C05_reparse_partial keeps the relation of name resolution to the kernels as a hypothesis, "
        "structure Reader); C05_reprint_fixed takes 'the reader finds the elements where the printer put them' (relaidFile) as "
        "an explicit hypothesis; C05_reparse proves it (parse (print d) = reading, relaid, print reading = print d) for the "
        "grammar MODEL and the shape SimpleFile (package, imports, messages, nested messages, enums, real oneofs, fields incl. "
        "map fields, enum values, services with methods; elements with or without source lines; LEADING COMMENTS on every "
        "kind of element (the // lines are attributed by the model of protocompile's attributeComments; certificate per comment, "
        "evaluated by the checker: the text ends with a line break and no line holds one); fields with "
        "bracket options and custom json_name — for these the scanner / option parser facts are evaluated per field by the "
        "checker (OptField) and carried to the printed position by the shift / frame lemmas of ReparseOpts.lean; statement "
        "options of messages, enums, services and methods likewise (BlockOpts / RpcOpts)); for files with options on files / oneofs / "
        "enum values, detached / trailing comments or extend blocks the reading is validated by print.file only; for those of "
        "them without detached / trailing comments and located options the layout half (second print = first print) still "
        "follows from the theorem C05_reprint_checked, whose two decidable hypotheses the driver evaluates per op on the "
        "model's own reading (coverage.reprint_theorem_*). Which generated "
        "files are inside the shape is decided per print.file op by Cover.simpleFileB (proved sound: simpleFileB_sound) and "
        "reported under coverage.reparse_theorem_* (fraction, per origin, reasons for being outside)",
        "float option values (strconv.FormatFloat) and enum value names are opaque texts produced by Go (oracle)",
        "go/ast extractor extract/print.go (regenerates lean/J5V/Generated/PrintFacts.lean on every run: escape table, case "
        "conditions and hex padding of prototextString, byte class of indexNeedEscapeInString, typeOrder constants, body of "
        "sourceElements.Less, blank-line rule / loop state / addGap cases of printElements, bodies of commentLines and "
        "leadingComments); the obligations C05_src_* compare them with what the models assume (table entries through "
        "TextString.escStep itself, the rest as rendered source text); anything not recognised is emitted as <unknown>",
        "Go harness internal/verifh/printh, overlay hook files, generators (own + j5sgen), check engine",
    ],
    "assumptions": [
        "whole-file equivalence (package, imports, messages, fields, options, comments, second print) of the REAL code is "
        "established on the generated / repository inputs by the print.reparse oracle; the theorems are about the models",
        "the summary the harness computes of a descriptor is trusted to be what the printer reads (it uses the printer's own "
        "kernels through overlay hooks; a wrong summary shows as a print.file disagreement, not as a silent pass)",
    ],
}


def _tally(out, prefix, cov, nops):
    per, why, covered, lead = {}, {}, 0, 0
    for line in out:
        w = line.split(" ")
        if len(w) < 2 or w[1] not in ("0", "1"):
            continue
        o = per.setdefault(w[0], [0, 0])
        o[1] += 1
        if w[1] == "1":
            o[0] += 1
            covered += 1
            if len(w) > 2 and w[2] == "lead":
                lead += 1
        else:
            for r in (w[2] if len(w) > 2 else "other").split(","):
                k = w[0] + ":" + r
                why[k] = why.get(k, 0) + 1
    cov[prefix + "_covered"] = covered
    cov[prefix + "_fraction"] = round(covered / max(1, nops), 4)
    cov[prefix + "_by_origin"] = {k: "%d/%d" % (v[0], v[1]) for k, v in sorted(per.items())}
    cov[prefix + "_outside_reasons"] = dict(sorted(why.items()))
    return lead


def extra(ctx):
    """How much of the generated space the theorems cover: every `file` op of the print.file stream is re-sent to the
    driver (a) as a `cover` op, which evaluates the decidable predicate Cover.simpleFileB (proved sound for SimpleFile, the
    hypothesis of the grammar theorem C05_reparse) on the arranged summary and names the reasons when it fails, and (b) as
    a `cover2` op, which evaluates the two decidable hypotheses of the layout theorem C05_reprint_checked
    (Cover.quietLFileB on the arranged summary, Cover.relaidFileLB on the summary and what the grammar model reads from the
    model's text; both proved sound): where they hold, 'the second print is the first' follows from the theorem for that
    descriptor (leading comments included). Evidence only: it cannot fail the check."""
    import glob
    import subprocess
    lean = os.path.join(ctx["verif"], "lean") if os.path.abspath(ctx["repo"]) == "/repo" else os.path.join(ctx["work"], "lean")
    dbin = os.path.join(lean, ".lake", "build", "bin", "drv_print")
    ops = []
    for p in sorted(glob.glob(os.path.join(ctx["workdir"], "print.file-*", "ops.txt"))):
        for line in open(p, errors="replace"):
            if line.startswith("file "):
                ops.append(line[5:].rstrip("\n"))
    cov = {"reparse_theorem_ops": len(ops)}
    if not ops or not os.path.exists(dbin):
        return {"coverage": cov}
    notes = []
    for kind, prefix in (("cover", "reparse_theorem"), ("cover2", "reprint_theorem")):
        try:
            out = subprocess.run([dbin], input=("\n".join(kind + " " + o for o in ops) + "\n").encode(),
                                 stdout=subprocess.PIPE, timeout=900).stdout.decode(errors="replace").split("\n")
        except Exception as e:  # noqa: BLE001
            notes.append("C05 %s step failed: %s" % (kind, e))
            continue
        lead = _tally(out, prefix, cov, len(ops))
        if kind == "cover2":
            cov["reprint_theorem_ops"] = len(ops)
            cov["reprint_theorem_covered_with_leading_comments"] = lead
    res = {"coverage": cov}
    if notes:
        res["notes"] = notes
    return res
