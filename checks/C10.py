import hashlib
import os

_VERIF = os.path.dirname(os.path.dirname(os.path.abspath(__file__)))
_REPO = os.path.abspath(os.environ.get("VERIF_REPO", "/repo"))
_WORK = os.path.join(_VERIF, ".work") if _REPO == "/repo" else os.path.join(_VERIF, ".work", "alt-" + hashlib.sha1(_REPO.encode()).hexdigest()[:10])
# the overlay file the engine writes before it builds a harness; the race stream passes it on so
# that a plain (non -race) harness, as built by `./check C10 --replay`, can build its -race child
_OVERLAY = os.path.join(_WORK, "overlay-%s.json" % hashlib.sha1(_REPO.encode()).hexdigest()[:8])

CONFIG = {
    "lean_props": "J5V/Props/C10.lean",
    "extract": ["locks"],
    "streams": [
        {
            "name": "conc.seq", "harness": "conch", "driver": "drv_conc", "flush": True, "crash_signature": "crash-or-deadlock:SchemaCache.Schema",
            "n": {"quick": 24000, "thorough": 400000, "search": 40000},
            "shards": {"quick": 8, "thorough": 16, "search": 8},
            "timeout_s": 3600, "driver_timeout_s": 3600,
            "rule": "seeded descriptor graphs of 1..9 schemas (object / oneof-wrapper messages, enums; forward-only DAGs with shared "
                    "leaves, rings with back edges, two disjoint halves, arbitrary; array / map wrappers; failing members: unsupported "
                    "google type, non-string map key, enum without *_UNSPECIFIED) built into real descriptors with protodesc, and (every "
                    "4th op) closures of the compiled-in test / schema / client / source protos; 1..8 requests in random order with "
                    "repeats on one SchemaCache; result = canonical dump of every answer + registered keys, compared with the Lean cache "
                    "model; every 8th op a graph of objects with flattened message fields (wrapper 'f': two messages flattening each "
                    "other, rings, a flattened child shared by several parents); every 16th op a `clash` op on the schema-name "
                    "collision family (Bar nested in Foo / top-level Foo_Bar, enum E nested in Foo / message Foo_E, holders, fresh "
                    "types) against the claim model J5V/Conc/Clash.lean; oracle: every answer — and the client property lists "
                    "(flattened fields expanded, JSON names, proto paths) of everything it reaches — equals that of a fresh cache, no "
                    "unlinked ref in an answer, no placeholder left; every op under a 120 s watchdog (hang = crash-or-deadlock; on expiry an op whose goroutine is running / runnable is "
                    "slow, not stuck, and gets up to six more periods). "
                    "Non-trivial = at least one request on a warm cache over a graph with a cycle, a shared sub-schema or a failing node; "
                    "distinct by op text.",
        },
        {
            "name": "conc.race", "harness": "conch", "driver": None, "race": True,
            "env": {"CONCH_MODE": "race", "CONCH_REPO": _REPO, "CONCH_OVERLAY": _OVERLAY},
            "n": {"quick": 128, "thorough": 2400, "search": 64},
            "shards": {"quick": 8, "thorough": 16, "search": 8},
            "timeout_s": 7200,
            "rule": "SEARCH only (never the proof): each op starts a child process built with -race; per child 6 (thorough 12) rounds; a "
                    "round releases 8..64 goroutines by a barrier on one fresh codec (round 0 of a 'global' child: the package-level "
                    "j5codec.Global on its first use in the process) and one fresh SchemaCache; every goroutine performs a shuffled list "
                    "of ProtoToJSON / JSONToProto / QueryToProto / SchemaCache.Schema calls over a set of message types: shared "
                    "sub-schemas (test.schema.v1.*), recursive (j5.schema.v1.*, NestedExposed), disjoint, generated descriptor graphs "
                    "(dynamicpb), mixed, failing (a generated graph with a member whose build is a schema error and that shares "
                    "sub-schemas with good types: the roll-back runs under contention), mutual (generated rings with back edges: self "
                    "and mutual recursion), flatten (mutually flattening / shared flattened child graphs), clash (the schema-name "
                    "collision family plus types first used after the clash error), bigenum (an enum with 24-63 values used as scalar, repeated and through nested "
                    "messages, decoded from JSON / query inputs that write the values with the enum's prefix: the spelling that reaches EnumSchema.OptionByName); "
                    "the child's watchdog (120 s without a completed call) reports a deadlock only when no goroutine is running or runnable (on an overloaded machine "
                    "a running call is given up to six extensions); in half of the rounds every goroutine's first call is on the same type (stampede on its "
                    "first use, through a different entry point per goroutine); every result is compared with the result of the same call alone on a fresh codec (JSON "
                    "compared up to object key order). Failures: a race detector report (signature race:<function of the write>), "
                    "fatal 'concurrent map', crash, deadlock (no call completed for 120 s), differing result, unlinked ref observed. Non-trivial = a "
                    "child that completed calls; distinct by op text.",
        },
    ],
    "trusted_base": [
        "Lean 4.33.0 kernel; axioms propext, Classical.choice, Quot.sound",
        "hand-written models J5V/Conc/Sched.lean (interleaving semantics; reader/writer locks with Go's writer preference; "
        "happens-before = program order + Unlock->Lock, Unlock->RLock, RUnlock->Lock of one lock, as in the Go memory model's "
        "text for sync.Mutex / sync.RWMutex) and J5V/Conc/Cache.lean (SchemaCache algorithm of lib/j5schema/schema_cache.go "
        "incl. the roll-back of a failed build), the latter validated by the conc.seq correspondence",
        "extract/locks.go (go/ast + go/types): which accesses exist, which function they are in, Lock/RLock + deferred "
        "Unlock/RUnlock domination, the requires-lock call-graph closure, the obtainer / domination closure for published reads "
        "(positional: an obtainer was called unconditionally earlier in the function, or every call site is guarded or dominated), "
        "type reachability for the shared-state table; an access it mis-attributes is not covered (extractor soundness). Not "
        "tracked: aliasing through parameters and locals (e.g. append to a parameter that aliases a shared slice: "
        "ObjectProperty.nestedClone is safe only because every shared ProtoField has cap == len), function values",
        "the Go memory model: the synchronisation edges above; data-race-free programs are sequentially consistent",
        "the Go runtime (scheduler, maps, GC) and thread-safety inside protobuf-go (lazy descriptor / message-info initialisation, "
        "generated .pb.go files: 28 files of this module are not analysed), encoding/json, strcase: exercised by the race search only",
        "the Go harness internal/verifh/conch and the hook lib/j5schema/verif_conc.go (overlay, tag verif)",
    ],
    "assumptions": [
        "partial: the theorems are about the lock discipline the extractor can see and about the cache algorithm, not about the Go code itself",
        "reads of schema fields (RefSchema.To, ObjectSchema.Properties, …) after Schema() returned happen outside the lock by design. "
        "They are in the race theorem now (C10_hb_publication / C10_code_hb_race_free) under the publication rule PubOrdered, a "
        "property of the execution: the reader acquired the cache lock between the write and its read and the location is not "
        "written afterwards. Its static half is the obligation C10_code_published_dominated (every such read is dominated by a "
        "call that goes through the lock); its dynamic half (what was returned is linked and never written again) is "
        "C10_no_unlinked_visible + C10_published_frozen on the cache model, tied to the code by conc.seq. The two halves are not "
        "connected by one Lean theorem (locations of the Sched model are abstract; the E7 table names fields, not objects)",
        "objects constructed in lib/j5reflect and internal/codec (decoder, encoder, propSet, field wrappers: 44 struct types) are "
        "per call: their types are not reachable through the static types of Codec, Reflector or any package-level variable; "
        "their leaf mutexes (type_array.go) guard per-call protobuf lists",
        "an obtainer that returns an error returned no schema (NewRoot's early return for an invalid message): the code after it "
        "holds no reference to read through",
        "the cache model J5V/Conc/Cache.lean identifies a schema with its descriptor, i.e. covers descriptor sets on which "
        "splitDescriptorName is injective; where it is not (recorded finding cache-history:schema-name-clash) the claim rule is "
        "modelled on a fixed descriptor family only (J5V/Conc/Clash.lean, `clash` ops)",
        "exposed oneofs are presented to the model as ordinary oneof nodes: registration order inside one locked build and the "
        "'placeholder already exists for oneof wrapper' branch (unreachable with unique names) are not observable outside the lock",
        "the content of a schema is a function of its descriptor only (checked on every request by the fresh-cache oracle)",
        "a panic inside a build is rolled back by the same deferred function as an error; the model has no separate panic outcome",
    ],
}


def extra(ctx):
    """Summarises the regenerated E7 tables in the evidence (the obligations themselves are theorems)."""
    import re
    lean = os.path.join(_VERIF, "lean") if _REPO == "/repo" else os.path.join(ctx["work"], "lean")
    path = os.path.join(lean, "J5V", "Generated", "LocksFacts.lean")
    cov = {}
    try:
        src = open(path).read()

        def strlist(name):
            m = re.search(r"def %s : List String := \[(.*)\]" % name, src)
            return re.findall(r"\"([^\"]*)\"", m.group(1)) if m else []

        def nat(name):
            m = re.search(r"def %s : Nat := (\d+)" % name, src)
            return int(m.group(1)) if m else 0

        rows = re.findall(r"^  ⟨(\d+), (true|false), (true|false), (true|false), (none|some \d+), \"([^\"]*)\"", src, flags=re.M)
        must = [r for r in rows if "true" in r[1:4]]
        cov["e7_analysed_packages"] = strlist("analysedPackages")
        cov["e7_generated_files_not_analysed"] = nat("generatedFilesSkipped")
        cov["e7_locations"] = strlist("locations")
        cov["e7_cache_locks"] = strlist("cacheLocks")
        cov["e7_lock_names"] = strlist("lockNames")
        cov["e7_accesses"] = len(rows)
        cov["e7_protected_accesses"] = len(must)
        cov["e7_protected_unguarded"] = len([r for r in must if r[4] == "none"])
        pub = re.findall(r"^  ⟨(\d+), \"([^\"]*)\", \"([^\"]*)\", (true|false), \"([^\"]*)\"⟩", src, flags=re.M)
        cov["e7_published_reads"] = len(pub)
        cov["e7_published_reads_not_dominated"] = [p[1] + " " + p[2] for p in pub if p[3] == "false"]
        cov["e7_obtainers"] = strlist("obtainers")
        cov["e7_lock_sites"] = re.findall(r"^  ⟨\"([^\"]*)\", (\d+), (true|false), (true|false), (true|false)⟩", src, flags=re.M)
        shared = re.findall(r"^  ⟨\"([^\"]*)\", \"([^\"]*)\", (true|false), (true|false), (true|false), \[", src, flags=re.M)
        cov["e7_shared_state_rows"] = len(shared)
        cov["e7_shared_written_on_path"] = [r[0] for r in shared if r[3] == "true"]
        cov["e7_shared_unguarded_writes"] = [r[0] for r in shared if r[3] == "true" and r[4] == "false"]
        cov["e7_shared_types"] = strlist("sharedTypes")
        cov["e7_per_call_struct_types"] = nat("perCallStructTypes")
        cov["e7_reachable_functions"] = nat("reachableFunctions")
        cov["e7_requires_lock_helpers"] = len(strlist("requiresLock"))
    except OSError as e:
        cov["e7_error"] = str(e)
    return {"coverage": cov}
