import os, sys
sys.path.insert(0, os.path.dirname(os.path.abspath(__file__)))
from compile_common import GEN_RULE, TRUSTED, stream, strcase_stream

CONFIG = {
    "lean_props": "J5V/Props/C17.lean",
    "extract": ["compileconsts"],
    "streams": [
        stream("entity", {"quick": 800, "thorough": 12000, "search": 1600}, {"quick": 16, "thorough": 16, "search": 16},
               "entity profile of the generator: every file holds exactly one entity; names in every casing (Foo, fooBar, foo_bar, "
               "names ending in a capital or with capital runs: FooA, fooID, ACL, orderX, Plan9B, ACLFooA), optional baseUrlPath, 1-4 keys "
               "(key-typed with format none / uuid / id62 / informal and primary / explicitly-non-primary / foreign / tenant markers, shard "
               "flag, `!`/`?`; also string / integer / date typed keys), 0-6 data fields of any type incl. inline and referenced types, "
               "1-4 statuses, 0-4 events with arbitrary fields, 0-2 command services (unnamed / named, custom base path) with 0-3 methods, "
               "0-2 summaries, optional query settings (eventsInGet, defaultStatusFilter subset). Op `entity` = `skel`. Go-side oracles: "
               "(1) the independent expected expansion of C02; (2) the C17 statement checked directly on the real descriptors: component "
               "list and names, one entity annotation, State / Event shape with flattened keys, event oneof ↔ nested messages, primary keys "
               "required and in declaration order as path parameters of Get and Events, status numbering; (3) the client API "
               "(structure.APIFromImage + j5client.APIFromSource) has a StateEntity with the query service, the command services, the events "
               "and the primary key. Non-trivial = entity package that compiled; distinct by skeleton."),
        strcase_stream(),
    ],
    "trusted_base": TRUSTED + [
        "internal/structure and internal/j5client (client API derivation) are reached by the Go-side oracle only; their model belongs to C16",
    ],
    "assumptions": [
        "'named from the entity name' is read as: every component name starts with CamelCase(entity name) (strcase.ToCamel) and ends with the documented suffix",
        "shard keys that are not primary also appear as Get / Events path parameters (sourcewalk/entity.go); the oracle checks the primary keys as a subsequence in declaration order",
    ],
}
