import os, sys
sys.path.insert(0, os.path.dirname(os.path.abspath(__file__)))
from compile_common import GEN_RULE, TRUSTED, stream

CONFIG = {
    "lean_props": "J5V/Props/C07.lean",
    "extract": ["setext", "imports"],
    "streams": [
        stream("total", {"quick": 4800, "thorough": 24000, "search": 4800}, {"quick": 16, "thorough": 16, "search": 16},
               "the 16 shards share (round-robin) the FULL rule x field-type matrix (each documented rule - pattern / minLength / maxLength / const / "
               "minimum / maximum / exclusiveMinimum / exclusiveMaximum / multipleOf with small and format-boundary literals / "
               "minProperties / maxProperties / in / notIn / minItems / maxItems / uniqueItems / minPairs / maxPairs - on each field type "
               "that has it, bare, as array item and as map value, plain and `!` required; each cell is a file that contains only that one "
               "field: op `total.ast`, expected `ok`), then ~65 hand-written single-file sources with exactly one semantic error or one "
               "documented-but-doubtful construct (`sem-*` / `valid-*`: unknown type / package / import / attribute / block, duplicate "
               "field / type / option / method / event / summary, required+optional, enum vs message mix-ups, bad literals, path parameter "
               "without field, method without request / verb, topic shapes, entity shapes, wrong package, empty file, inline-name capture, "
               "self reference, README array form, ext.singleForm, file-level import cycle, imports of every shape: version element first / only / in the middle / missing, one element, sub-package, own package, with alias), then random inputs: 15 % random bytes / ASCII "
               "soup / token soup, 31 % token-level mutations (delete / duplicate / swap / replace / insert / truncate / reorder the elements of a dotted name) of valid generated "
               "files, 15 % mutated semantic cases (a quarter of them random import statements of 1-4 elements out of v1 v2 v10 foo bar thing service …, plain / aliased / file path, used or not), 15 % valid generated packages with rules (half of them bundles of up to 3 packages with imports "
               "and same-named types in two packages), ~15 % byte-level `cut` inputs (templates with string literals / a regex / descriptions / comments, hand-written semantic cases "
               "and generated files: backslash material - \\n \\\\ \\\" \\t \\uXXXX \\U… \\xNN octal, lone backslash, complete and cut short - dropped into string literals, and / or END OF INPUT "
               "inside or up to 4 bytes after the escape, inside a string, inside / after a comment, description or regex opener, at any offset), preceded by ~410 deterministic `cut-det-*` "
               "cases (every non-empty prefix of each of 29 escape sequences at the very end of the file inside an open string; the complete sequence in a closed string, before EOL, before a quote; "
               "every third prefix of a file with comments, descriptions and a regex; 33 number-like tokens - signs, fractions, exponents, hex / binary / octal / underscore forms, suffixes, 32-digit runs, "
               "non-ASCII digits, NaN / Inf - as the value of rules.minimum, complete and with end of input after each prefix; the random `cut` kind also swaps attribute numbers for such tokens), ~8 % abstract bundles that must be REJECTED (op `total.neg`: wrong package declaration, enum "
               "default filter naming no option, non-list-shaped list method; the model answers from the abstract bundle). Each input goes through CompilePackage, "
               "LintFile and LintAll under recover + 30 s timeout (fatal errors are attributed by the engine through per-op flushing). "
               "Result = outcome class (ok | err | err:nopos | err:virtual | err:outside | panic); every positioned error is checked "
               "against the line / column bounds of the source file it names. Non-trivial = every op; distinct by input text.",
               flush=True, crash_signature="c07-crash", gomemlimit="3GiB"),
    ],
    "trusted_base": TRUSTED + [
        "internal/bcl (lexer, parser, walker) and protocompile's linker are exercised by the stream, not modelled here (the lexer / parser model belongs to C11)",
    ],
    "assumptions": [
        "the 'documented language' for the acceptance half is README.md plus the rule fields of proto/j5/j5/schema/v1/schema.proto; timestamp minimum / maximum "
        "(Timestamp-typed literals) and `any` attributes have no documented surface form and are not in the matrix",
        "an error 'carries a position inside the offending file' when at least one errpos.Err in the error tree names a source file of the bundle and its "
        "start / end lie within that file's lines (column <= line length + 1); errors positioned in generated .j5s.proto files count as unpositioned",
        "unpositioned errors are identified by call site: if the load half of CompilePackage (PackageSet.LoadLocalPackage on a fresh set) succeeds, the error "
        "came from the link half and carries the single signature c07-nopos:link-stage (one recorded finding, members listed there); load-half errors keep a "
        "narrow signature each",
        "theorem level: C07_accepts_partial proves acceptance by the converter for a decidable source-level ValidBundle; of the five failure arms of the spec-level "
        "linker three are proved not taken from the sources (C07_link_acyclic under a decidable file rank, C07_link_imports_found, C07_link_uses; assembled in "
        "C07_accepts_links_partial), the other two (duplicate symbol, scoped type-name resolution) remain explicit conditions on the generated files (the full statement "
        "AcceptsAndLinks is refuted on the model by the recorded capture witness, C07_accepts_counterexample, which fails exactly the resolution arm)",
    ],
}

# --- the walker part (j5s source text -> SourceFile: BCL walker + j5parse), see checks/C07W.py ---
import importlib.util as _ilu
_spec = _ilu.spec_from_file_location("check_C07W", os.path.join(os.path.dirname(os.path.abspath(__file__)), "C07W.py"))
_w = _ilu.module_from_spec(_spec)
_spec.loader.exec_module(_w)
CONFIG["lean_props"] = ["J5V/Props/C07.lean", "J5V/Props/C07Walker.lean"]
CONFIG["extract"] = CONFIG["extract"] + _w.CONFIG["extract"]
CONFIG["streams"] = CONFIG["streams"] + _w.CONFIG["streams"]
CONFIG["trusted_base"] = [t for t in CONFIG["trusted_base"] if "walker" not in t or "protocompile" not in t] + [
    "protocompile's linker is exercised by the stream, not modelled (a spec-level Link model stands in)"] + _w.CONFIG["trusted_base"][1:]
CONFIG["assumptions"] = CONFIG["assumptions"] + _w.CONFIG.get("assumptions", [])


def judge_disagreement(d):
    # a model `ok` where the real compiler rejects or crashes is a concrete acceptance failure
    if d.get("lean") == "ok" and d.get("go") in ("err", "panic"):
        return "c07-model-accepts:" + d.get("go")
    return None
