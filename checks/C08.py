import os, sys
sys.path.insert(0, os.path.dirname(os.path.abspath(__file__)))
import codec_common as cc

CONFIG = {
    "lean_props": "J5V/Props/C08.lean",
    "extract": ["codec"],
    "streams": [cc.ENC(64000, 1000000)],
    "trusted_base": cc.TRUSTED,
    "assumptions": cc.ASSUMPTIONS,
}
