import os, sys
sys.path.insert(0, os.path.dirname(os.path.abspath(__file__)))
import codec_common as cc

CONFIG = {
    "lean_props": "J5V/Props/C06.lean",
    "extract": ["codec"],
    "streams": [cc.FUZZ(64000, 1200000), cc.STRESS(48, 400), cc.HISTORY(24000, 400000)],
    "trusted_base": cc.TRUSTED,
    "assumptions": cc.ASSUMPTIONS,
}
