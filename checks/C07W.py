# Stand-alone check of the walker stream (j5s source text -> sourcedef_j5pb.SourceFile), part of C07.
# Its streams, extractors and property module are also folded into checks/C07.py (the registered check);
# `./check C07W` runs this part alone (development). Go half alone: harness/walker-tools/run.py /repo <seed> <n>.
CONFIG = {
    "lean_props": "J5V/Props/C07Walker.lean",
    "extract": ["walkerspec", "walkerschema"],
    "streams": [{
        "name": "walker.parse", "harness": "walkerh", "driver": "drv_walker",
        "env": {},
        "n": {"quick": 16 * 2000, "thorough": 16 * 30000, "search": 16 * 2000},
        "shards": {"quick": 16, "thorough": 16, "search": 16},
        "flush": True, "crash_signature": "walker-crash-or-timeout",
        "timeout_s": 3000, "driver_timeout_s": 3000,
        "rule": "op `walk HEX(filename) HEX(source)`: file names from a small set (package directory, none, empty, trailing / double "
                "slash, non-ASCII, invalid UTF-8); sources: files printed by the compile cluster's generator j5sgen (one package, every "
                "surface style), the .j5s files of /repo whole and as brace-balanced windows, ~25 hand-written elements (every field type "
                "and format, rules, refs, inline types, collections, nested objects, oneof, enum with option bodies and info map, entity "
                "with keys / data / status / events / command / summary / query / nested schemas, service with auth and options, publish / "
                "reqres / upsert / event topics, raw property paths instead of aliases, writes into sourceLocations, scalar-as-block "
                "regressions) under varying package / import headers - each plain or with 1-3 structural mutations that stay inside the BCL "
                "grammar (other block keyword; a statement inserted into a body: scalar used as a block, dotted path through a scalar, "
                "unknown or misplaced attribute, description lines, second member of a proto oneof, assignment to a container, arrays and "
                "+=, words of the walker's vocabulary; duplicated statement / block; dropped or extra tag; ! and ? marks; qualifier chains "
                "replaced, extended or cut; body dropped or added; another literal of any kind incl. out-of-range integers, huge and tiny "
                "decimals, non-ASCII digits, regex / description / comment literals, nested and empty arrays; = <-> +=; assignment key "
                "rewritten; block wrapped 1-60 levels deep; statement moved or deleted); files assembled from the walker's own vocabulary "
                "(all property names, aliases and single forms of the schema closure of SourceFile); trivial files (empty, comments only); "
                "a small share of token-level noise. Each op also runs the real entry point j5parse.ParseFile and validateFile alone for "
                "the oracles, and every 4th op a parser built for that op alone. Non-trivial = the BCL parser accepts the text and the "
                "file has at least one statement; distinct by op text. Observed outcome mix: ~24 % ok, ~69 % err, ~7 % perr.",
    }, {
        "name": "walker.print", "harness": "walkerh", "driver": "drv_walker",
        "env": {"WALKER_STREAM": "print"},
        "n": {"quick": 16 * 1000, "thorough": 16 * 12000, "search": 16 * 1000},
        "shards": {"quick": 16, "thorough": 16, "search": 16},
        "flush": True, "crash_signature": "walker-crash-or-timeout",
        "timeout_s": 3000, "driver_timeout_s": 3000,
        "rule": "op `print HEX(filename) HEX(text) SEXP`: SEXP = an abstract j5s file (the compile cluster's AST, j5sgen), text = its "
                "rendering by j5sgen.PrintFile in the plain style (style 0). 55 %: one file of a bundle of the j5sgen generator (objects, "
                "oneofs, enums, services incl. list methods, topics, entities; rules on / off, odd entity names, capture, 1-2 packages "
                "with imports and package-qualified references); 45 %: tiny files written for this stream, mostly ONE object with ONE "
                "field drawn from the matrix field type (all 15) x format / key format / entity-key form x reference form (plain, "
                "package-qualified, dotted schema name = ref.schema / ref.package attributes) x inline object / oneof / enum (named or "
                "not, with prefix, options, list rules) x ! / ? / both marks x flatten x array / map of each x every rule property of "
                "the type's Rules schema with a literal of the converted kind (uint64 / int64 / float64 from integers up to 2^64-1, "
                "bool, strings with quotes / backslashes / comment and description look-alikes, string lists), else small enums, nested "
                "objects, services, the three topic kinds, entities with keys / data / status / events / commands / summaries / query / "
                "nested schemas, imports by path string / with alias, a package declaration differing from the directory; 10 % of the ops "
                "under an unusual file name. One op in 8 is a NEAR MISS: one change that leaves the fragment (bad package / import / "
                "alias / property / type / option / status / topic / service name, negative or wrongly typed or out-of-range or "
                "duplicated or unknown rule, empty string list, non-ASCII or multi-line string, bad reference, dotted foreign entity, "
                "enum / oneof nested in an object, anything nested in a oneof): both sides must answer `unsupported` (the fragment test "
                "`supported` exists twice, Lean and Go). For a supported file the Go line is computed from the real code: tree=1 iff the "
                "text IS the plain print of the decoded SEXP, walk= the real walk of the text (ok:DUMP), msg= that dump, same=1; the Lean "
                "line: tree=1 iff the model's parse of the text, positions erased, equals toBcl(ast); walk= the model's walk of "
                "toBcl(ast); msg= dump of toMsg(ast); same=1 iff the walked tree EQUALS toMsg(ast) (touched flags included). Fifth field "
                "text= (Go: the shipped text is the printer's text; Lean: the bytes of printJ5s(ast) are the shipped text): the model's "
                "`printJ5s ast` must equal the Go printer's text byte for byte. Oracle "
                "print-rejected: the real parser does not accept a supported printed file (plus all walker.parse oracles). Non-trivial = "
                "supported; distinct by op text. Observed: ~87 % supported, 100 % of the unbroken j5sgen files supported.",
    }],
    "trusted_base": [
        "Lean 4.33.0 kernel; axioms at most propext, Classical.choice, Quot.sound",
        "the hand-written Lean model of internal/bcl/internal/walker/{c2,walk_context}.go, internal/bcl/internal/walker/schema/*.go and of "
        "the parts of lib/j5reflect the walker calls (J5V/Walker, semantics written up in notes/walker-semantics.md) - validated only by the walker.parse "
        "correspondence stream on generated inputs (outcome, canonical dump of the message, position of the error)",
        "the BCL lexer / parser model J5V/Bcl/{Utf8,Lexer,Parser}.lean, which the driver uses to obtain the tree from the source text "
        "(validated by the bcl.parse stream of C11); unicode.IsSpace / IsDigit / IsLetter from the table file the harness writes",
        "lib/j5schema's reflection over the generated descriptors (property names, order, required, flattening, oneof detection, enum "
        "prefix stripping) and lib/j5reflect's property-set bookkeeping are NOT modelled from their code: the schema closure of "
        "SourceFile is taken as data (extractor walkerschema: a go run program inside /repo, cross-checked against j5reflect's "
        "RangePropertySchemas) and the reflection layer's behaviour is the abstract machine of notes/walker-semantics.md §5",
        "iancoleman/strcase.ToLowerCamel on the ~15 schema names that become automatic aliases (evaluated by the extractor)",
        "strconv.ParseInt / ParseUint (transcribed) and strconv.ParseFloat (correct rounding to nearest-even assumed)",
        "protobuf-go: Mutable / Set / Has / WhichOneof / list and map semantics as summarised in PROTOCOL-walker.md §3 (populated = presence)",
        "stream walker.print: the definitions toBcl / toMsg / supported of J5V/Walker/Print.lean are hand-written and validated only by "
        "this stream (C07W_print_parse proves walk(toBcl ast) = toMsg ast on the model; that the Go printer's text parses to toBcl ast is checked by this stream only); the s-expression decoder J5V/Compile/Sexp.lean (compile cluster), the generator AST, "
        "printer and encoder internal/verifh/j5sgen, the Go copy of the fragment test (walkerh/print_supported.go) and its rule table "
        "(the Rules schemas of j5.schema.v1, which the Lean side reads from the schema facts)",
        "extract/walker.go (go/ast reader of J5SchemaSpec; schema dump program), the Go harness internal/verifh/walkerh + "
        "internal/bcl/verifwalker (canonical dump printer over protoreflect + j5schema, position extraction, oracles) and the overlay "
        "hooks internal/bcl/verif_walker_hooks.go (ParseAST split into VerifWalk + VerifValidate; behaviour unchanged)",
    ],
    "assumptions": [
        "the modelled step ends before protovalidate (validateFile): the stream observes ParseAST minus its last statement; that the real "
        "entry point j5parse.ParseFile agrees with walk + validateFile (same success / failure, same message) is an oracle on the real "
        "code (walker-full-mismatch), not part of the model",
        "the root property sourceLocations is excluded from the dump (the real entry point overwrites it after the walk); errors raised "
        "while writing into it are observed like any other",
        "the position of an error = Pos of the first *errpos.Err with a position on the Unwrap chain, before errpos.AddSourceFile; "
        "'inside the file' as in PROTOCOL-bcl.md section 2 (0 <= line < lineCount, 0 <= col <= runeLen(line), start <= end)",
        "one long-lived parser serves all ops of a shard (as the j5 command does for the files of a package); independence from the "
        "spec / schema caches is argued in notes/walker-semantics.md section 12 and checked on every 4th op (walker-cache-dependent)",
        "termination is observed on the real code by a 120 s per-op watchdog",
    ],
}
