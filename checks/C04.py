CONFIG = {
    "lean_props": "J5V/Props/C04.lean",
    "extract": [],
    "streams": [{
        "name": "compile.schema", "harness": "rulesh", "driver": "drv_rules",
        "env": {"RULESH_STREAM": "schema"},
        "n": {"quick": 8000, "thorough": 48000, "search": 9600},
        "shards": {"quick": 16, "thorough": 16, "search": 16},
        "timeout_s": 1500,
        "rule": "seeded generator of j5s objects with 1-4 fields (every field type, rules as in compile.rules plus descriptions, "
                "list filter/sort/search settings, flatten, key formats, primary/foreign/tenant entity keys, enum declarations "
                "with prefixes and explicit UNSPECIFIED), compiled by the real compiler, reflected by lib/j5schema "
                "(SchemaCache.Schema / ToJ5Object) from the in-memory descriptors and from protoprint text re-parsed with "
                "protocompile. Oracle: declared schema (built from the generator's spec, not from the parser) = reflected schema, "
                "key by key, modulo normalisations N1-N6 (harness/PROTOCOL-rules.md); text path = in-memory path. "
                "Non-trivial = a field whose declared and reflected canonical forms agree; distinct by canonical form.",
    }],
    "trusted_base": [
        "Lean 4.33.0 kernel; axioms propext, Classical.choice, Quot.sound",
        "hand-written models J5V/Rules/Compile.lean (writer: buildField/buildProperty/setJ5Ext annotations) and J5V/Rules/Reader.lean "
        "(messageProperties/buildSchemaProperty/buildScalarType/buildFromStringProto/wktSchema/buildMessageFieldSchema/"
        "buildEnumFieldSchema/buildEnum), validated by the compile.schema stream",
        "list-rule payloads are opaque to the model (copied verbatim by writer and reader)",
        "protocompile (linking, re-parsing) and protoprint are outside the model: the text path is a Go-side oracle only (composition with C05)",
        "the Go harness internal/verifh/rulesh",
    ],
    "assumptions": [
        "descriptions are non-empty trimmed lines not starting with '#' (the reader's comment normalisation)",
        "option numbers are not declared in j5s text",
    ],
}
