CONFIG = {
    "lean_props": "J5V/Props/C04.lean",
    "extract": ["rules"],
    "streams": [{
        "name": "compile.schema", "harness": "rulesh", "driver": "drv_rules",
        "env": {"RULESH_STREAM": "schema"},
        "n": {"quick": 8000, "thorough": 48000, "search": 9600},
        "shards": {"quick": 16, "thorough": 16, "search": 16},
        "timeout_s": 1500,
        "rule": "corpus (one witness op per open finding + the witnesses of fixed findings) then a seeded generator of j5s roots: "
                "`object Foo` (5 in 6; optional description, entity annotation with every part, any-membership, sometimes an "
                "entity-annotated referenced object and a field called `keys`) or `oneof Foo` (1 in 6) with 1-4 fields / options (1 in 12: 11-14, "
                "where the order of the printed .proto text depends on source-location indices >= 10; enums likewise 1 in 12 with 11-13 described options): "
                "property names from a pool of canonical lowerCamel names and names that do not survive snake_case -> lowerCamel (acronyms, digits, "
                "capital runs, single letters), for every kind and cardinality; "
                "every field type as single field, array (1 in 4) or map (1 in 7, with minPairs/maxPairs/singleForm), rules as in "
                "compile.rules plus descriptions, list filter/sort/search settings (enum default filters: 9 in 10 naming options, "
                "with or without prefix), flatten, key formats, primary/foreign/tenant entity keys, enum declarations with "
                "prefixes, prefixed options and explicit UNSPECIFIED, a description on the enum and on none / some / all of its options (incl. the explicitly declared zero option); compiled by the real compiler, reflected by lib/j5schema "
                "(SchemaCache.Schema / ToJ5Root) from the in-memory descriptors and from protoprint text re-parsed with "
                "protocompile. Oracle: declared root and fields (built from the generator's spec, not from the parser) = reflected, "
                "key by key, modulo normalisations N1-N6 (harness/PROTOCOL-rules.md); text path = in-memory path. "
                "Non-trivial = a field (or annotated root) whose declared and reflected canonical forms agree; distinct by canonical form.",
    }],
    "trusted_base": [
        "Lean 4.33.0 kernel; axioms propext, Classical.choice, Quot.sound",
        "hand-written models J5V/Rules/Compile.lean (writer: buildField/buildProperty/setJ5Ext annotations) and J5V/Rules/Reader.lean "
        "(messageProperties/buildSchemaProperty/buildScalarType/buildFromStringProto/wktSchema/buildMessageFieldSchema/"
        "buildEnumFieldSchema/buildEnum), validated by the compile.schema stream",
        "hand-written model J5V/Rules/Root.lean (visitObjectNode / visitOneofNode message options, findPSMOptions incl. the legacy `keys` lookup, "
        "isOneofWrapper by message option); the (j5.ext.v1.psm) annotation of referenced objects is a parameter (`RefPsm`)",
        "list-rule payloads are copied verbatim by writer and reader models; only filtering.defaultFilters is decoded (the compiler checks it for enum fields)",
        "iancoleman/strcase (ToSnake for proto field names, ToScreamingSnake for default enum prefixes) as modelled byte-level in "
        "J5V/Compile/Strcase.lean (compile cluster; validated by their streams and, here, by the `pname` / `epfx` keys of this stream); "
        "the harness's declared side calls the real library (third party, not under verification)",
        "protocompile (linking, re-parsing) and protoprint are outside the model: the text path is a Go-side oracle only (composition with C05)",
        "the Go harness internal/verifh/rulesh",
        "extract/rules.go (go/ast: per writer / reader branch the fields read and every copy with its guards, aliases expanded) and the "
        "hand-written slot tables of J5V/Rules/SrcFacts.lean; the source-fact obligations are about texts of the source, "
        "they tie names / guards / casts / slots to the model, not the behaviour of the libraries called",
    ],
    "assumptions": [
        "descriptions are non-empty trimmed lines not starting with '#' (the reader's comment normalisation)",
        "option numbers are not declared in j5s text",
        "options of a oneof root are neither arrays nor maps (the compiler accepts them but emits a repeated field inside a proto oneof, which "
        "does not re-parse: observation, compile cluster's C07) and carry no `!` / `?`",
        "map keys are plain strings (j5s keySchema is ignored by the compiler; not generated)",
    ],
}
