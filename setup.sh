#!/bin/sh
# Run once in /verif after a fresh restore, offline. Builds the Lean library, the proof modules,
# the line-protocol drivers and the fact extractor from files on disk only. The Go harnesses are
# rebuilt from /repo's working tree by every check.
set -e
cd "$(dirname "$0")"
export GOFLAGS=-mod=mod GOPROXY=off
mkdir -p .work/bin evidence
(cd extract && go build -o ../.work/bin/extract .)
cd lean
lake build J5V
# proof modules and drivers
for f in J5V/Props/*.lean; do m=$(echo "${f%.lean}" | tr / .); lake build "$m"; done
for d in $(grep -o 'name = "drv_[a-z0-9_]*"' lakefile.toml | cut -d'"' -f2); do lake build "$d"; done
echo setup-ok
