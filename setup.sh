#!/bin/sh
# Run once in /verif after a fresh restore, offline. Builds the Lean library, the proof modules,
# the line-protocol drivers and the fact extractor from files on disk only. The Go harnesses are
# rebuilt from /repo's working tree by every check (this only warms the Go build cache).
set -e
cd "$(dirname "$0")"
export GOFLAGS=-mod=mod GOPROXY=off
mkdir -p .work/bin evidence
(cd extract && go build -o ../.work/bin/extract .)
cd lean
PROPS=$(for f in J5V/Props/*.lean; do echo "${f%.lean}" | tr / .; done)
DRVS=$(grep -o 'name = "drv_[a-z0-9_]*"' lakefile.toml | cut -d'"' -f2)
# one invocation: lake schedules the modules over all cores
lake build J5V $PROPS $DRVS
cd ..
# warm the Go build cache: build every harness once against /repo's current tree
python3 - <<'PY'
import os, sys, glob
sys.path.insert(0, os.getcwd())
from vlib import engine
d = os.path.join(engine.VERIF, "harness", "tree", "internal", "verifh")
for name in sorted(os.listdir(d)):
    srcs = glob.glob(os.path.join(d, name, "*.go"))
    if any("package main" in open(s).read() for s in srcs):
        out, log, dt = engine.build_harness(name)
        print("harness", name, "ok" if out else "FAILED", "%.1fs" % dt)
        if not out:
            print(log[-2000:])
PY
echo setup-ok
