#!/bin/sh
# Run once in /verif after a fresh restore, offline. Builds the Lean library, the proof modules,
# the line-protocol drivers and the fact extractor from files on disk only. The Go harnesses are
# rebuilt from /repo's working tree by every check.
set -e
cd "$(dirname "$0")"
export GOFLAGS=-mod=mod GOPROXY=off
mkdir -p .work/bin evidence
(cd extract && go build -o ../.work/bin/extract .)
cd lean
lake build J5V
# proof modules and drivers
for f in J5V/Props/*.lean; do m=$(echo "${f%.lean}" | tr / .); lake build "$m"; done
for d in $(grep -o 'name = "drv_[a-z0-9_]*"' lakefile.toml | cut -d'"' -f2); do lake build "$d"; done
cd ..
# warm the Go build cache: build every harness once against /repo's current tree
python3 - <<'PY'
import os, sys
sys.path.insert(0, os.getcwd())
from vlib import engine
d = os.path.join(engine.VERIF, "harness", "tree", "internal", "verifh")
for name in sorted(os.listdir(d)):
    if os.path.exists(os.path.join(d, name, "main.go")):
        out, log, dt = engine.build_harness(name)
        print("harness", name, "ok" if out else "FAILED", "%.1fs" % dt)
        if not out:
            print(log[-2000:])
PY
echo setup-ok
