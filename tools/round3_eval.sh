#!/bin/bash
# round3_eval.sh <PROP> <worktree-of-the-writer> — intake the writer's out/m*/ into seeded/, then
# confirm + evaluate each new change (tools/eval_seeded.sh) and record the outcome in its meta.json.
P=$1; WT=$2
cd "$(dirname "$0")/.."
mkdir -p /var/tmp/ev3
NEW=$(python3 tools/intake_mutants.py $P $WT | awk '/^stored/{print $2}' | xargs -n1 basename)
for id in $NEW; do
  tools/eval_seeded.sh $id > /var/tmp/ev3/$id.log 2>&1
  python3 tools/record_eval.py /var/tmp/ev3/$id.log
  echo "--- $id"; grep -v '^      {' /var/tmp/ev3/$id.log | cut -c1-240
done
