#!/bin/bash
# eval_seeded.sh <seeded-id> [check-ids…] — fresh scratch worktree at /repo HEAD, applies
# seeded/<id>/patch.diff (3-way if needed), confirms (suite passes, demo fails with / passes without
# the change) and runs the named checks (default: the property of the seeded change) against it.
ID=$1; shift
S=/verif/seeded/$ID
P=$(python3 -c "import json;print(json.load(open('$S/meta.json'))['property'])")
CHECKS=${@:-$P}
D=$(python3 -c "import json;print(json.load(open('$S/meta.json')).get('demo_dir','').strip('/'))")
WT=/tmp/ev-$ID
git -C /repo worktree remove --force $WT >/dev/null 2>&1
git -C /repo worktree add --detach $WT -q || exit 2
echo "=== $ID (property $P) at $(git -C /repo rev-parse --short HEAD) demo_dir=$D"
cd $WT
if ! git apply --check $S/patch.diff 2>/dev/null; then
  if git apply --3way $S/patch.diff >/dev/null 2>&1 && ! git diff --name-only --diff-filter=U | grep -q .; then
    git diff HEAD > /tmp/ev-$ID.rebased.diff; echo "   patch needed 3-way merge (rebased copy in /tmp/ev-$ID.rebased.diff)"
    git checkout -q -- . ; git reset -q
    mkdir -p /tmp/ev-$ID-m; cp $S/*.go $S/meta.json /tmp/ev-$ID-m/; cp /tmp/ev-$ID.rebased.diff /tmp/ev-$ID-m/patch.diff; S=/tmp/ev-$ID-m
  else
    echo "   PATCH-DOES-NOT-APPLY at current HEAD"; git -C /repo worktree remove --force $WT; exit 3
  fi
fi
/verif/tools/confirm_mutant.sh $WT $S "$D" 2>&1 | sed 's/^/   /'
git apply $S/patch.diff
cd /verif
for C in $CHECKS; do
  VERIF_REPO=$WT timeout 2400 ./check $C > /tmp/ev-$ID-$C.log 2>&1; rc=$?
  echo "   check $C rc=$rc"
  grep '^VIOLATION\|^KNOWN' /tmp/ev-$ID-$C.log | cut -c1-160 | sed 's/^/      /'
  grep -m1 "tier=" /tmp/ev-$ID-$C.log | sed 's/^/      /' | cut -c1-220
  grep "failing input:\|broken obligation:" /tmp/ev-$ID-$C.log | cut -c1-300 | sed 's/^/      /' | head -6
done
git -C /repo worktree remove --force $WT
rm -rf /tmp/ev-$ID-m /verif/.work/alt-$(python3 -c "import hashlib;print(hashlib.sha1(b'$WT').hexdigest()[:10])")
