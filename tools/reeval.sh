#!/bin/bash
# reeval.sh <seeded-id>… — re-confirm and re-evaluate stored seeded changes at the current head and
# record the outcome (appends to history in seeded/<id>/meta.json).
cd "$(dirname "$0")/.."
mkdir -p /var/tmp/ev3
for id in "$@"; do
  tools/eval_seeded.sh $id > /var/tmp/ev3/$id.re.log 2>&1
  python3 tools/record_eval.py /var/tmp/ev3/$id.re.log
done
