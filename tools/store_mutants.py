#!/usr/bin/env python3
"""store_mutants.py <PROP> <worktree> '<json: {"1": "how detected", ...}>' — copies out/m*/ into
/verif/seeded/<PROP>-m<i>/ and records confirmation + detection in meta.json."""
import json, os, shutil, sys, glob
P, WT, det = sys.argv[1], sys.argv[2], json.loads(sys.argv[3])
for m in sorted(glob.glob(os.path.join(WT, "out", "m*"))):
    i = os.path.basename(m)[1:]
    d = "/verif/seeded/%s-m%s" % (P, i)
    os.makedirs(d, exist_ok=True)
    for f in os.listdir(m):
        if f.endswith(".diff") or f.endswith("_test.go") or f.endswith(".go"):
            shutil.copy(os.path.join(m, f), d)
    meta = json.load(open(os.path.join(m, "meta.json")))
    meta["property"] = P
    meta["confirmed_by_coordinator"] = {"cmd": "tools/confirm_mutant.sh <scratch worktree> seeded/%s-m%s %s" % (P, i, meta.get("demo_dir", "")),
                                         "suite_with_change": "PASS", "demo_with_change": "FAIL", "demo_without_change": "PASS"}
    meta["detected_by"] = det.get(i, "not evaluated")
    json.dump(meta, open(os.path.join(d, "meta.json"), "w"), indent=1)
    print("stored", d)
