#!/usr/bin/env python3
"""Runs the repository's pinned baseline (guard off: no tag, no overlay) and compares the passing
test names with /root/.vp/BASELINE.json stable_pass."""
import json, os, subprocess, sys
repo = sys.argv[1] if len(sys.argv) > 1 else "/repo"
env = dict(os.environ, GOFLAGS="-mod=mod", GOPROXY="off")
b = subprocess.run(["go", "build", "./..."], cwd=repo, env=env, capture_output=True, text=True)
if b.returncode != 0:
    print("BUILD FAILED\n" + b.stderr[-3000:]); sys.exit(1)
p = subprocess.run(["go", "test", "-mod=mod", "-json", "-vet=off", "-count=1", "-timeout", "25m", "./..."], cwd=repo, env=env, capture_output=True, text=True)
passed, failed = set(), set()
for line in p.stdout.splitlines():
    try:
        e = json.loads(line)
    except Exception:
        continue
    if e.get("Test") and e.get("Action") in ("pass", "fail"):
        (passed if e["Action"] == "pass" else failed).add(e["Package"] + "::" + e["Test"])
base = set(json.load(open("/root/.vp/BASELINE.json"))["stable_pass"])
missing = sorted(base - passed)
print("baseline tests: %d, passing now: %d, failed now: %d, baseline tests not passing: %d" % (len(base), len(passed), len(failed), len(missing)))
for m in missing[:40]:
    print("  NOT PASSING:", m)
for f in sorted(failed)[:40]:
    print("  FAILED:", f)
sys.exit(1 if missing or failed else 0)
