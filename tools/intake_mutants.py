#!/usr/bin/env python3
"""intake_mutants.py <PROP> <worktree> — copies <worktree>/out/m*/ (patch.diff, demo, meta.json) into
/verif/seeded/<PROP>-m<i>/ (next free i) with detected_by = "not evaluated"; confirmation and
evaluation are done afterwards by tools/eval_seeded.sh + tools/record_eval.py."""
import json, os, shutil, sys, glob, re
P, WT = sys.argv[1], sys.argv[2]
V = "/verif/seeded"
have = [int(re.search(r"-m(\d+)$", d).group(1)) for d in glob.glob(os.path.join(V, P + "-m*"))]
nxt = max(have + [0]) + 1
for m in sorted(glob.glob(os.path.join(WT, "out", "m*"))):
    if not os.path.exists(os.path.join(m, "patch.diff")):
        print("skip (no patch)", m); continue
    d = os.path.join(V, "%s-m%d" % (P, nxt)); nxt += 1
    os.makedirs(d, exist_ok=True)
    for f in os.listdir(m):
        if f.endswith(".diff") or f.endswith(".go"):
            shutil.copy(os.path.join(m, f), d)
    meta = json.load(open(os.path.join(m, "meta.json")))
    meta["property"] = P
    meta["detected_by"] = "not evaluated"
    json.dump(meta, open(os.path.join(d, "meta.json"), "w"), indent=1)
    print("stored", d)
