#!/usr/bin/env python3
"""Rewrites the table between <!-- findings-table --> markers in DESIGN.md from known_findings.json."""
import json, os
V = os.path.dirname(os.path.dirname(os.path.abspath(__file__)))
fs = json.load(open(os.path.join(V, "known_findings.json")))["findings"]
props = sorted({f["property"] for f in fs})
rows = []
for p in props:
    fx = [f for f in fs if f["property"] == p and f["status"] == "fixed"]
    op = [f for f in fs if f["property"] == p and f["status"] == "open"]
    commits = sorted({str(f.get("commit", "?"))[:7] for f in fx})
    rows.append("| %s | %d | %s | %d | %s |" % (p, len(fx), " ".join(commits), len(op), "; ".join("`%s`" % f["signature"] for f in op) or "—"))
tbl = "| property | fixed entries | fix: commits | open | open signatures (each printed as KNOWN-FINDING on every run) |\n|---|---|---|---|---|\n" + "\n".join(rows) + "\n"
p = os.path.join(V, "DESIGN.md")
s = open(p).read()
a, b = "<!-- findings-table -->\n", "<!-- /findings-table -->"
if a in s:
    s = s[: s.index(a) + len(a)] + tbl + s[s.index(b):]
    open(p, "w").write(s)
print(len(rows), "rows;", sum(1 for f in fs if f["status"] == "fixed"), "fixed,", sum(1 for f in fs if f["status"] == "open"), "open")
