#!/usr/bin/env python3
"""Rewrites the inventory between <!-- theorem-table --> markers in DESIGN.md: per property, the
theorems of its property module(s) (names as the audit sees them), counted from the source."""
import os, re, sys, json
V = os.path.dirname(os.path.dirname(os.path.abspath(__file__)))
sys.path.insert(0, V)
from vlib import engine
rows = []
for pid in ["C%02d" % i for i in range(1, 21)]:
    cfg, _ = engine.load_config(pid)
    rels = cfg["lean_props"] if isinstance(cfg["lean_props"], list) else [cfg["lean_props"]]
    names = []
    for r in rels:
        names += engine.theorem_names(r)[1]
    src = [n for n in names if "_src_" in n or "_code_" in n]
    thm = [n for n in names if n not in src]
    rows.append("| %s | %d | %s | %s |" % (pid, len(names), ", ".join("`%s`" % n for n in thm), ", ".join("`%s`" % n for n in src) or "—"))
tbl = "| property | # | theorems (model) | source-fact obligations (regenerated every run) |\n|---|---|---|---|\n" + "\n".join(rows) + "\n"
p = os.path.join(V, "DESIGN.md")
s = open(p).read()
a, b = "<!-- theorem-table -->\n", "<!-- /theorem-table -->"
if a in s:
    s = s[: s.index(a) + len(a)] + tbl + s[s.index(b):]
    open(p, "w").write(s)
print(sum(int(r.split("|")[2]) for r in rows), "theorems")
