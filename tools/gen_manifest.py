#!/usr/bin/env python3
"""Regenerates /verif/MANIFEST.json from tools/manifest_entries.json (per-property claim texts,
maintained by hand) and the READY list in it. A property that is not READY is listed under
not_applicable with its reason."""
import json, os, sys
V = os.path.dirname(os.path.dirname(os.path.abspath(__file__)))
src = json.load(open(os.path.join(V, "tools", "manifest_entries.json")))
props = [json.loads(l) for l in open(os.path.join(V, "properties.jsonl"))]
checks, na = [], []
for p in props:
    pid = p["id"]
    e = src["entries"].get(pid)
    if e and e.get("ready") and os.path.exists(os.path.join(V, "checks", pid + ".py")):
        checks.append({
            "property_id": pid,
            "quick_cmd": "./check %s --tier quick" % pid,
            "thorough_cmd": "./check %s --tier thorough" % pid,
            "evidence_file": "/verif/evidence/%s.json" % pid,
            "replay_cmd_template": "./check %s --replay {path}" % pid,
            "engine": "lean-proof+correspondence",
            "level_claimed": {"category": "proof", "text": e["text"], "design_ref": "DESIGN.md §6 " + pid},
            "level_note": e["note"],
            "technique": e.get("technique", "Lean 4 proof over hand-written model + regenerated source facts + differential correspondence"),
        })
    else:
        na.append({"property_id": pid, "reason": (e or {}).get("na_reason", "check not finished yet (work in progress; see DESIGN.md §6 for the plan)")})
m = {
    "version": 1,
    "setup_cmd": "./setup.sh",
    "hooks": {
        "guard": "verif",
        "enable": "cd /repo && go build -tags verif -overlay /verif/.work/overlay-<hash>.json ./internal/verifh/<harness>  (harness sources live in /verif/harness/tree, carry //go:build verif, and are overlaid onto /repo's package tree at build time; nothing is committed to /repo for hooks)",
        "baseline_off_cmd": "cd /repo && go build ./... && go test -mod=mod -vet=off -count=1 ./...",
        "source_commits": [],
        "add_only": True,
    },
    "engines": [{
        "name": "lean-proof+correspondence", "path": "/verif/check",
        "serves_properties": [c["property_id"] for c in checks],
        "kind_free_text": "Lean 4 machine-checked proofs over hand-written executable models; models tied to /repo on every run by go/ast fact extractors (regenerated `decide` obligations) and by differential line-protocol streams between the real Go packages (built from /repo's working tree) and compiled core-only Lean drivers; Go-side property oracles give the failing-input search; known_findings.json lists recorded/fixed genuine defects",
    }],
    "checks": checks,
    "notes": src.get("notes", ""),
    "not_applicable": na,
}
json.dump(m, open(os.path.join(V, "MANIFEST.json"), "w"), indent=1)
print("claimed:", [c["property_id"] for c in checks])
print("not claimed:", [n["property_id"] for n in na])
