#!/bin/bash
# sweep.sh <out-dir> <seeds…> — every check, quick tier, on the unchanged tree, for each seed.
# Evidence files of /verif are rewritten by these runs (last seed wins); re-run seed 1 before a commit.
OUT=$1; shift
mkdir -p $OUT
cd "$(dirname "$0")/.."
for s in "$@"; do
  for c in C20 C11 C19 C09 C06 C03 C08 C01 C12 C04 C15 C18 C10 C02 C13 C17 C07 C14 C05 C16; do
    VERIF_SEED=$s nice -n 5 ./check $c --tier quick > $OUT/$c.s$s.log 2>&1
    echo "$c seed=$s rc=$? $(grep -c '^KNOWN' $OUT/$c.s$s.log) known; $(grep 'tier=' $OUT/$c.s$s.log | cut -c1-200)" >> $OUT/summary.txt
  done
done
