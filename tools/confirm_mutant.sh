#!/bin/bash
# confirm_mutant.sh <worktree> <mutant-dir> <demo-target-dir-relative-to-repo>
# Confirms independently: patch applies, repo builds, the full existing suite passes with the
# change, the demo fails with the change and passes without it. Leaves the worktree clean.
set -u
WT=$1; M=$2; DEMO_DIR=$3
export GOFLAGS=-mod=mod GOPROXY=off
FLAGS=$(python3 -c "import json;print(json.load(open('$M/meta.json')).get('demo_flags','') or '')" 2>/dev/null)
cd "$WT" || exit 2
git checkout -q -- . ; git clean -fdq -e out
status=0
git apply "$M/patch.diff" || { echo "PATCH-DOES-NOT-APPLY"; exit 1; }
go build ./... || { echo "BUILD-FAILS"; status=1; }
if go test -mod=mod -vet=off -count=1 ./... > /tmp/confirm_suite.log 2>&1; then echo "suite-with-change: PASS"; else echo "suite-with-change: FAIL"; grep -v "^ok\|no test files" /tmp/confirm_suite.log | head -20; status=1; fi
for f in "$M"/*_test.go; do cp "$f" "$DEMO_DIR/zz_verif_$(basename $f)"; done
if go test -mod=mod -vet=off -count=1 $FLAGS "./$DEMO_DIR/" -run 'Demo' > /tmp/confirm_demo1.log 2>&1; then echo "demo-with-change: PASS (unexpected)"; status=1; else echo "demo-with-change: FAIL (expected)"; grep -m3 -- "--- FAIL\|panic:\|DATA RACE\|fatal error" /tmp/confirm_demo1.log; fi
git checkout -q -- .
if go test -mod=mod -vet=off -count=1 $FLAGS "./$DEMO_DIR/" -run 'Demo' > /tmp/confirm_demo2.log 2>&1; then echo "demo-without-change: PASS (expected)"; else echo "demo-without-change: FAIL (unexpected)"; tail -5 /tmp/confirm_demo2.log; status=1; fi
rm -f "$DEMO_DIR"/zz_verif_*_test.go
git checkout -q -- . ; git clean -fdq -e out
exit $status
