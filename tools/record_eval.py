#!/usr/bin/env python3
"""record_eval.py <eval log>… — reads the blocks tools/eval_seeded.sh printed and records, per
seeded change, the coordinator's confirmation and what the check reported, in seeded/<id>/meta.json."""
import json, os, re, sys
V = os.path.dirname(os.path.dirname(os.path.abspath(__file__)))
for path in sys.argv[1:]:
    txt = open(path, errors="replace").read()
    for blk in re.split(r"^=== ", txt, flags=re.M)[1:]:
        mid = blk.split()[0]
        mp = os.path.join(V, "seeded", mid, "meta.json")
        if not os.path.exists(mp):
            continue
        m = json.load(open(mp))
        head = blk.split("\n")[0]
        if "PATCH-DOES-NOT-APPLY" in blk:
            m["detected_by"] = "not evaluated: patch does not apply at " + head
            json.dump(m, open(mp, "w"), indent=1); continue
        ok = ("suite-with-change: PASS" in blk and "demo-with-change: FAIL (expected)" in blk and "demo-without-change: PASS (expected)" in blk)
        prev = m.get("confirmed_by_coordinator", {})
        if prev.get("all_confirmed") and not ok:
            # the repository moved on (a later fix: commit changed this code): keep the earlier
            # confirmed evaluation, note that the change no longer manifests at this head
            m.setdefault("history", []).append({"at": head.strip(), "note": "patch applies (3-way) but the demonstration no longer fails at this head: superseded by later fix: commits in the same code; earlier confirmed evaluation kept"})
            json.dump(m, open(mp, "w"), indent=1)
            print(mid, "SUPERSEDED at", head.strip()[:60])
            continue
        m["confirmed_by_coordinator"] = {"cmd": "tools/eval_seeded.sh %s (fresh worktree; tools/confirm_mutant.sh)" % mid,
                                         "at": head.strip(),
                                         "suite_with_change": "PASS" if "suite-with-change: PASS" in blk else "FAIL",
                                         "demo_with_change": "FAIL" if "demo-with-change: FAIL (expected)" in blk else "PASS",
                                         "demo_without_change": "PASS" if "demo-without-change: PASS (expected)" in blk else "FAIL",
                                         "all_confirmed": ok}
        res = []
        for cm in re.finditer(r"check (C\d\d) rc=(\d+)(.*?)(?=\n   check C|\Z)", blk, flags=re.S):
            cid, rc, body = cm.group(1), int(cm.group(2)), cm.group(3)
            viol = [l.strip() for l in body.split("\n") if l.strip().startswith("VIOLATION")]
            sigs = sorted(set(re.findall(r'"signature": "([^"]+)"', body)))
            brk = re.findall(r"broken obligation: (.{0,160})", body)
            stat = re.search(r"obligations=\S+ .*?wall=\S+", body)
            nf = any("no-failing-input-found" in v for v in viol)
            if rc == 1 and viol:
                how = "./check %s (quick) on the changed tree: VIOLATION" % cid
                if sigs: how += " with concrete replay (oracle: %s)" % ", ".join(sigs[:4])
                if nf: how += " no-failing-input-found"
                if brk: how += "; broken obligation: " + brk[0]
                if stat and "disagreements=0 " not in stat.group(0):
                    how += "; correspondence disagrees (" + re.search(r"disagreements=\d+", stat.group(0)).group(0) + ")"
            elif rc == 0:
                how = "./check %s (quick): NOT detected (exit 0)" % cid
            else:
                how = "./check %s: rc=%d (no VIOLATION line)" % (cid, rc)
            res.append(how)
        if res or m.get("detected_by", "not evaluated") == "not evaluated":
            m.setdefault("history", []).append({"at": head.strip(), "detected_by": " | ".join(res) if res else "not evaluated"})
            m["detected_by"] = " | ".join(res) if res else "not evaluated"
        json.dump(m, open(mp, "w"), indent=1)
        print(mid, "confirmed" if ok else "NOT-CONFIRMED", "|", m["detected_by"][:200])
