#!/bin/bash
# eval_refactor.sh <harmless-id> — /verif/harmless/<id>/{patch.diff,meta.json}: a behaviour-preserving
# refactoring written by an independent sub-agent. Applies it in a fresh scratch worktree, confirms
# build + suite, and runs every check whose property anchors a touched file; a check that exits 1
# here is an alarm on code where the property holds (or, with no-failing-input-found, a tie that a
# harmless rewrite breaks). Records the outcome in meta.json.
ID=$1
S=/verif/harmless/$ID
WT=/tmp/evr-$ID
export GOFLAGS=-mod=mod GOPROXY=off
git -C /repo worktree remove --force $WT >/dev/null 2>&1
git -C /repo worktree add --detach $WT -q || exit 2
cd $WT
git apply $S/patch.diff || { echo "PATCH-DOES-NOT-APPLY"; git -C /repo worktree remove --force $WT; exit 3; }
SUITE=PASS
go build ./... >/dev/null 2>&1 || SUITE=BUILD-FAILS
[ $SUITE = PASS ] && { go test -mod=mod -vet=off -count=1 ./... > /tmp/evr-$ID.suite.log 2>&1 || SUITE=FAIL; }
CHECKS=$(python3 - "$S" <<'PY'
import json,sys,subprocess
s=sys.argv[1]
files=[l[6:].strip() for l in open(s+'/patch.diff') if l.startswith('+++ b/')]
out=[]
for l in open('/verif/properties.jsonl'):
    p=json.loads(l)
    anchors=set(p['anchors']['files'])
    for m in p['anchors']['mechanism']:
        for part in m['where'].split(';'):
            anchors.add(part.strip().split(':')[0])
    if any(f in anchors for f in files): out.append(p['id'])
print(' '.join(out))
PY
)
echo "=== $ID suite=$SUITE checks: $CHECKS"
cd /verif
RES=""
for C in $CHECKS; do
  VERIF_REPO=$WT timeout 2400 ./check $C > /tmp/evr-$ID-$C.log 2>&1; rc=$?
  V=$(grep -c '^VIOLATION' /tmp/evr-$ID-$C.log); NF=$(grep -c 'no-failing-input-found' /tmp/evr-$ID-$C.log)
  echo "   check $C rc=$rc violations=$V nfif=$NF $(grep -m1 'tier=' /tmp/evr-$ID-$C.log | cut -c1-160)"
  grep "broken obligation:\|failing input:" /tmp/evr-$ID-$C.log | cut -c1-220 | head -4 | sed 's/^/      /'
  RES="$RES $C:rc=$rc$( [ $NF -gt 0 ] && echo :no-failing-input-found)"
done
python3 - "$S" "$SUITE" "$RES" <<'PY'
import json,sys
s,suite,res=sys.argv[1:4]
m=json.load(open(s+'/meta.json'))
m['evaluation']={'suite_with_change':suite,'checks':res.split(),'all_quiet':all(':rc=0' in r for r in res.split())}
json.dump(m,open(s+'/meta.json','w'),indent=1)
PY
git -C /repo worktree remove --force $WT
rm -rf /verif/.work/alt-$(python3 -c "import hashlib;print(hashlib.sha1(b'$WT').hexdigest()[:10])")
