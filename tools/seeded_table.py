#!/usr/bin/env python3
"""Rewrites the table between <!-- seeded-table --> markers in DESIGN.md from seeded/*/meta.json."""
import json, os, re, glob
V = os.path.dirname(os.path.dirname(os.path.abspath(__file__)))
rows = []
for d in sorted(glob.glob(os.path.join(V, "seeded", "*"))):
    m = json.load(open(os.path.join(d, "meta.json")))
    det = m.get("detected_by", "not evaluated")
    if isinstance(det, dict):
        det = "%s: %s" % (det.get("check", ""), det.get("how", ""))
    need = m.get("what_it_needs_to_manifest", "")
    def cut(s, n):
        s = re.sub(r"\s+", " ", str(s)).replace("|", "\\|")
        return s if len(s) <= n else s[: n - 1] + "…"
    rows.append("| %s | %s | %s | %s | %s |" % (os.path.basename(d), m.get("property"), cut(", ".join(m.get("files_changed", [])), 70),
                                               cut(need, 170), cut(det, 230)))
tbl = "| id | property | files | needs, to manifest | caught by |\n|---|---|---|---|---|\n" + "\n".join(rows) + "\n"
p = os.path.join(V, "DESIGN.md")
s = open(p).read()
a, b = "<!-- seeded-table -->\n", "<!-- /seeded-table -->"
if a in s:
    s = s[: s.index(a) + len(a)] + tbl + s[s.index(b):]
    open(p, "w").write(s)
print(len(rows), "rows")
