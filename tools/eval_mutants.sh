#!/bin/bash
# eval_mutants.sh <PROP> <worktree> [check-ids…]  — confirms each out/m*/ of the worktree and runs the
# named checks (default: PROP) against the mutated worktree. Prints one summary block per mutant.
P=$1; WT=$2; shift 2; CHECKS=${@:-$P}
cd /verif
for M in "$WT"/out/m*/; do
  M=${M%/}
  D=$(python3 -c "import json;print(json.load(open('$M/meta.json')).get('demo_dir','').strip('/'))")
  echo "=== $P $(basename $M)  demo_dir=$D"
  tools/confirm_mutant.sh "$WT" "$M" "$D" 2>&1 | sed 's/^/   /'
  (cd "$WT" && git checkout -q -- . && git apply "$M/patch.diff")
  for C in $CHECKS; do
    VERIF_REPO="$WT" timeout 1500 ./check $C > /tmp/eval_${P}_${C}.log 2>&1; rc=$?
    echo "   check $C rc=$rc: $(grep -m2 '^VIOLATION\|^KNOWN' /tmp/eval_${P}_${C}.log | tr '\n' ' ')"
    grep -m1 "tier=" /tmp/eval_${P}_${C}.log | sed 's/^/      /' | cut -c1-220
    grep -m2 "failing input:\|broken obligation:" /tmp/eval_${P}_${C}.log | cut -c1-330 | sed 's/^/      /'
  done
  (cd "$WT" && git checkout -q -- . && git clean -fdq -e out)
done
