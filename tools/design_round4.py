#!/usr/bin/env python3
"""Rewrites DESIGN.md between <!-- round4 --> markers: the "DESIGN text" paragraphs that the round-4
builders wrote in notes/<cluster>.md (each block runs from a line containing "DESIGN text" to the next
line containing "MANIFEST text" or the next "## " heading), grouped per cluster, verbatim."""
import os, re
V = os.path.dirname(os.path.dirname(os.path.abspath(__file__)))
SRC = [("print (C05)", "print.md"), ("codec (C01 C03 C06 C08)", "codec-lean.md"), ("codec harness (C06 histories, query paths)", "codec-go.md"),
       ("compile (C02 C07 C14)", "compile-lean.md"), ("evolve (C13 C17)", "evolve.md"), ("rules (C04 C12)", "rules.md"),
       ("schema (C15 C18)", "schema.md"), ("pipe (C16)", "pipe.md"), ("conc (C10)", "conc.md")]
out = []
for title, fn in SRC:
    p = os.path.join(V, "notes", fn)
    if not os.path.exists(p): continue
    lines = open(p).read().split("\n")
    # only the part of the file from the first "Round 4" heading on
    start = next((i for i, l in enumerate(lines) if "Round 4" in l), None)
    if start is None: continue
    stop = next((i for i in range(start + 1, len(lines)) if "2026-09-30" in lines[i] and "Round 4" not in lines[i] and lines[i].lstrip("> ").startswith("**2026-09-30")), len(lines))
    lines = lines[:stop]
    blocks, cur = [], None
    for l in lines[start:]:
        if "DESIGN text" in l and cur is None:
            cur = [l]; continue
        if cur is not None:
            if "MANIFEST text" in l or l.startswith("## ") or re.match(r"^> \*\*(Harness|Files|Measured)", l):
                blocks.append(cur); cur = None
                if "DESIGN text" in l: cur = [l]
                continue
            cur.append(l)
    if cur: blocks.append(cur)
    if not blocks: continue
    out.append("#### %s — from `notes/%s`\n" % (title, fn))
    for b in blocks:
        txt = "\n".join(re.sub(r"^> ?", "", x) for x in b).strip()
        txt = re.sub(r"^#+ ", "**", txt, count=1) if txt.startswith("#") else txt
        out.append(txt + "\n")
body = "\n".join(out)
p = os.path.join(V, "DESIGN.md")
s = open(p).read()
a, b = "<!-- round4 -->\n", "<!-- /round4 -->"
s = s[: s.index(a) + len(a)] + body + "\n" + s[s.index(b):]
open(p, "w").write(s)
print(len(out), "blocks,", len(body.split("\n")), "lines")
