#!/usr/bin/env python3
"""Regenerates /verif/known_findings.json (the one committed known-findings file the checks read)
from the per-cluster working files known_findings.d/*.json. Each entry gets a `record` line in
the form the task brief prescribes:  "fixed: property=<id> <commit> <what failed>"  or
"open: property=<id> <signature> <what fails>". Never run by a check; run by hand before a commit."""
import json, os, glob
V = os.path.dirname(os.path.dirname(os.path.abspath(__file__)))
out, seen = [], set()
for f in sorted(glob.glob(os.path.join(V, "known_findings.d", "*.json"))):
    cluster = os.path.basename(f)[:-5]
    for e in json.load(open(f)).get("findings", []):
        st = e.get("status", "open")
        key = (e.get("property"), e.get("signature"), st, e.get("commit"))
        if key in seen:
            continue
        seen.add(key)
        e = dict(e, cluster=cluster, status=st)
        what = " ".join(str(e.get("what", "")).split())
        if st == "fixed":
            e["record"] = "fixed: property=%s %s %s" % (e.get("property"), e.get("commit", "?"), what)
        else:
            e["record"] = "open: property=%s %s %s" % (e.get("property"), e.get("signature"), what)
        out.append(e)
out.sort(key=lambda e: (e.get("property", ""), e["status"], str(e.get("signature"))))
doc = {"comment": "Genuine defects of pentops/j5 found by the checks (generated from known_findings.d/*.json by tools/merge_findings.py; never written at run time). status=open: recorded, not repaired — the check prints KNOWN-FINDING and exits 0 for exactly this signature, any other violation of the property is still reported. status=fixed: repaired by the named fix: commit in /repo; a fixed entry suppresses nothing.",
       "findings": out}
json.dump(doc, open(os.path.join(V, "known_findings.json"), "w"), indent=1, ensure_ascii=False)
print(len(out), "entries:", sum(1 for e in out if e["status"] == "fixed"), "fixed,", sum(1 for e in out if e["status"] == "open"), "open")
