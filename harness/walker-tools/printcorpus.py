#!/usr/bin/env python3
# usage: printcorpus.py <dir> [<dir> …] > /verif/corpus/walker.print.ops
#   picks from shards of the stream walker.print (written by `WALKER_STREAM=print run.py …`) the two
#   shortest ops of every feature class (a regular expression over the printed text) and the shortest
#   `unsupported` ops by their real outcome. /verif/corpus/walker.print.ops was made with
#   `printcorpus.py /tmp/walker-go-t/print-1 /tmp/walker-go-t/print-2`.
import sys, re
classes = [
    r'^import "', r'^import [\w.]+:', r'^import [\w.]+$',
    r'field \w+ string', r'field \w+ bool', r'field \w+ bytes', r'field \w+ date', r'field \w+ decimal', r'field \w+ timestamp',
    r'field \w+ any', r'integer:INT32', r'integer:INT64', r'integer:UINT32', r'integer:UINT64', r'float:FLOAT32', r'float:FLOAT64',
    r'field \w+ key$', r'key:informal', r'key:uuid', r'key:id62', r'key:custom', r'entity\.primaryKey = true', r'entity\.primaryKey = false',
    r'entity\.tenantKey', r'^\s*foreign = ', r'\.foreign = ', r'^\s*primary = ', r'^\s*tenant = ',
    r'field \w+ object:\w+$', r'object:\w+\.[\w.]+', r'oneof:\w+', r'enum:\w+', r'ref\.schema', r'ref\.package',
    r'field \w+ object \{', r'field \w+ oneof \{', r'field \w+ enum \{', r'object\.name', r'oneof\.name', r'enum\.name', r'enum\.prefix',
    r'field \w+ ! ', r'field \w+ \? ', r'optional = true', r'flatten = true',
    r'array:string', r'array:object:', r'array:object \{', r'array:oneof', r'array:enum', r'array:key', r'map:string', r'map:object', r'map:enum', r'map:key',
    r'items\.\w+\.rules', r'itemSchema\.\w+\.rules', r'items\.enum\.listRules', r'listRules\.filtering\.defaultFilters',
    r'rules\.pattern', r'rules\.minLength', r'rules\.maxLength', r'rules\.minimum = \d', r'rules\.minimum = "', r'rules\.multipleOf', r'rules\.exclusiveMaximum',
    r'rules\.const', r'rules\.in = ', r'rules\.notIn', r'rules\.minItems', r'rules\.uniqueItems', r'rules\.minPairs', r'rules\.minProperties',
    r'= 18446744073709551615', r'= 9223372036854775807', r'\\"', r'\\\\',
    r'^oneof ', r'^enum ', r'^\s+prefix = ', r'^  object \w+ \{', r'^service ', r'basePath', r'method \w+', r'response \{',
    r'^topic \w+ publish', r'^topic \w+ reqres', r'^topic \w+ upsert', r'message \{', r'message \w+ \{', r'reply',
    r'^entity ', r'baseUrlPath', r'^\s+key \w+', r'shardKey', r'^\s+data ', r'^\s+status ', r'^\s+event ', r'^\s+command \{', r'^\s+summary \{',
    r'eventsInGet', r'defaultStatusFilter', r'^  enum \w+ \{', r'^  oneof \w+ \{',
]
ops, go = [], []
for d in sys.argv[1:]:
    o = open(d + '/ops.txt').read().split('\n'); g = open(d + '/go.out').read().split('\n')
    for a, b in zip(o, g):
        if a: ops.append(a); go.append(b)
rows = sorted(zip(ops, go), key=lambda r: len(r[0]))
picked, seen = [], set()
def take(op):
    if op not in seen:
        seen.add(op); picked.append(op)
texts = [(op, g, bytes.fromhex(op.split(' ', 3)[2]).decode('utf8', 'replace')) for op, g in rows]
for c in classes:
    rx = re.compile(c, re.M); n = 0
    for op, g, t in texts:
        if g.startswith('tree=1') and rx.search(t):
            take(op); n += 1
            if n == 2: break
    if n == 0: sys.stderr.write('no op for class %s\n' % c)
n = 0
for op, g, t in texts:
    if g == 'unsupported':
        take(op); n += 1
        if n == 40: break
names = set()
special = {b.hex() if b else '-' for b in (b'', b'a.j5s', b'foo/bar/v1/x.j5s', b'dir/', b'a//b/c.j5s', b'/abs/v1/f.j5s', 'é/v1/ü.j5s'.encode(), b'\xff\xfe/v1/a.j5s')}
for op, g, t in texts:          # one op per unusual file name
    nm = op.split(' ', 3)[1]
    if g.startswith('tree=1') and nm in special and nm not in names:
        names.add(nm); take(op)
for op in picked: print(op)
sys.stderr.write('%d ops\n' % len(picked))
