#!/usr/bin/env python3
# usage: mkops.py <cases.txt> > ops
#   cases.txt: cases separated by header lines `#### <filename> [-- comment]`; the text up to the
#   next header (one trailing newline kept) is the source. `\t` inside the text is a real tab.
#   /verif/corpus/walker.parse.ops is generated from harness/walker-tools/corpus.txt with this tool.
import sys
def hx(b): return b.hex() if b else '-'
name, buf, out = None, [], []
def flush():
    if name is not None:
        src = '\n'.join(buf)
        src = src.rstrip('\n') + ('\n' if src.strip('\n') else '')
        print('walk %s %s' % (hx(name.encode()), hx(src.encode())))
for line in open(sys.argv[1], encoding='utf8').read().split('\n'):
    if line.startswith('#### '):
        flush()
        name = line[5:].split(' -- ')[0].strip()
        if name == '<empty>': name = ''
        buf = []
    else:
        buf.append(line)
flush()
