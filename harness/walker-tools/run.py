#!/usr/bin/env python3
# usage: run.py <repo> <seed> <n> [tier] [opsfile]          (stream walker.parse)
#        WALKER_STREAM=print run.py <repo> <seed> <n> …      (stream walker.print: output in /tmp/walker-go-t/print-<seed>)
#   builds walkerh from <repo> (overlay, tag verif), runs one shard (Go side only) into
#   /tmp/walker-go-t/<seed> and prints the summary: evaluations, oracle failure signatures,
#   outcome / generator / error-class counters. With [opsfile] the ops are read from that file
#   (e.g. /verif/corpus/walker.parse.ops) instead of being generated.
#   WALKER_TRACE=1 prints every op with the error text on stderr (development).
import sys, os, json, subprocess, shutil
repo, seed, n = sys.argv[1], sys.argv[2], sys.argv[3]
tier = sys.argv[4] if len(sys.argv) > 4 else 'quick'
opsfile = sys.argv[5] if len(sys.argv) > 5 else None
os.environ['VERIF_REPO'] = repo
sys.path.insert(0, '/verif')
from vlib import engine
out, log, dt = engine.build_harness('walkerh')
if out is None:
    print(log); sys.exit(1)
stream = os.environ.get('WALKER_STREAM', '')
d = '/tmp/walker-go-t/%s%s' % (stream + '-' if stream else '', seed)
shutil.rmtree(d, ignore_errors=True)
cmd = [out, '-seed', seed, '-n', n, '-tier', tier, '-out', d, '-flush']
if opsfile:
    cmd += ['-ops', opsfile]
p = subprocess.run(cmd, env=dict(os.environ), capture_output=True, text=True)
trace = os.environ.get('WALKER_TRACE')
print(p.stderr if trace else p.stderr[-3000:], 'rc', p.returncode)
s = json.load(open(d + '/stats.json'))
print('evaluations', s['evaluations'], 'distinct_nontrivial', s['distinct_nontrivial'], 'wall_s', round(s['wall_s'], 2))
print('oracle failures', json.dumps(s['failure_signatures'], indent=1))
c = s['counters']
for pref in ('outcome.', 'full.', 'gen.', 'mut.', 'err.', 'tree.'):
    ks = sorted(k for k in c if k.startswith(pref))
    print(pref[:-1] + ':', ', '.join('%s=%d' % (k[len(pref):], c[k]) for k in ks))
rest = sorted(k for k in c if not k.startswith(('outcome.', 'full.', 'gen.', 'mut.', 'err.', 'tree.')))
if rest:
    print('other:', ', '.join('%s=%d' % (k, c[k]) for k in rest))
fails = json.load(open(d + '/oracle.json'))
for f in sorted(fails, key=lambda f: len(f['op']))[:int(os.environ.get('WALKER_SHOW', '6'))]:
    op = f['op'].split(' ')
    src = bytes.fromhex(op[2]) if len(op) > 2 and op[2] != '-' else b''
    name = bytes.fromhex(op[1]) if len(op) > 1 and op[1] != '-' else b''
    print('FAIL', f['signature'], repr(name.decode('utf8', 'replace')))
    print('   src   ', repr(src.decode('utf8', 'replace'))[:600])
    print('   detail', f['detail'][:600])
print(d)
