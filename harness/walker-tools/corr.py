#!/usr/bin/env python3
# usage: corr.py <dir> [max]
#   pipes <dir>/ops.txt (a shard written by run.py, e.g. /tmp/walker-go-t/1) through the Lean driver
#   /verif/lean/.lake/build/bin/drv_walker and shows the disagreements with <dir>/go.out,
#   shortest op first. For `ok` lines the first differing position of the dump is marked.
#   Works for both streams (`walk …` and `print …` ops); for print ops the five fields are compared one by one.
import sys, subprocess, time, collections
d = sys.argv[1]; mx = int(sys.argv[2]) if len(sys.argv) > 2 else 5
t = time.time()
with open(d + '/ops.txt', 'rb') as f:
    p = subprocess.run(['/verif/lean/.lake/build/bin/drv_walker'], stdin=f, capture_output=True)
dt = time.time() - t
lean = p.stdout.decode('utf8', 'replace').split('\n')
if lean and lean[-1] == '': lean.pop()
ops = open(d + '/ops.txt').read().split('\n'); go = open(d + '/go.out').read().split('\n')
if ops[-1] == '': ops.pop()
if go[-1] == '': go.pop()
print('ops', len(ops), 'go', len(go), 'lean', len(lean), 'rc', p.returncode, 'lean_s', round(dt, 2), p.stderr[-300:])
bad = [(len(o), o, g, l) for o, g, l in zip(ops, go, lean) if g != l]
print('disagreements', len(bad))
kinds = collections.Counter((g.split(' ')[0], l.split(' ')[0]) for _, _, g, l in bad)
for (a, b), n in kinds.most_common():
    print('  go=%s lean=%s: %d' % (a, b, n))
bad.sort()
def unhex(h): return bytes.fromhex(h) if h != '-' else b''
for _, o, g, l in bad[:mx]:
    f = o.split(' ')
    name = unhex(f[1]) if len(f) > 1 else b''
    src = unhex(f[2]) if len(f) > 2 else b''
    print('OP  ', o[:200])
    print('  file', repr(name.decode('utf8', 'replace')))
    for ln in src.decode('utf8', 'replace').split('\n'):
        print('  |', ln)
    if o.startswith('print '):
        gf = dict(x.split('=', 1) for x in g.split(' ') if '=' in x); lf = dict(x.split('=', 1) for x in l.split(' ') if '=' in x)
        if not lf: print('  lean', l[:300])
        for key in ('tree', 'walk', 'msg', 'same', 'text'):
            a, b = gf.get(key, ''), lf.get(key, '')
            if a == b: continue
            k = next((i for i, (x, y) in enumerate(zip(a, b)) if x != y), min(len(a), len(b)))
            print('  field %s differs at %d' % (key, k))
            print('    go  ', a[max(0, k - 160):k] + ' >>> ' + a[k:k + 200])
            print('    lean', b[max(0, k - 160):k] + ' >>> ' + b[k:k + 200])
        if lf.get('walk') != lf.get('msg') and lf.get('walk', '').startswith('ok:'):
            a, b = lf['walk'][3:], lf.get('msg', '')
            k = next((i for i, (x, y) in enumerate(zip(a, b)) if x != y), min(len(a), len(b)))
            print('  lean walk vs lean msg differ at %d' % k)
            print('    walk', a[max(0, k - 160):k] + ' >>> ' + a[k:k + 200])
            print('    msg ', b[max(0, k - 160):k] + ' >>> ' + b[k:k + 200])
    elif g.startswith('ok ') and l.startswith('ok '):
        k = next((i for i, (a, b) in enumerate(zip(g, l)) if a != b), min(len(g), len(l)))
        print('  first difference at', k)
        print('  go  ', g[max(0, k - 120):k] + ' >>> ' + g[k:k + 200])
        print('  lean', l[max(0, k - 120):k] + ' >>> ' + l[k:k + 200])
    else:
        print('  go  ', g[:700]); print('  lean', l[:700])
