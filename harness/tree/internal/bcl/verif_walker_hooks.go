//go:build verif

package bcl

// Verification hooks (overlay only, tag verif; never committed to /repo). They expose, read-only,
// the two halves of ParseAST separately so that the walker harness (internal/bcl/verifwalker,
// stream walker.parse, harness/PROTOCOL-walker.md) can observe the schema walk without the
// protovalidate pass. No behaviour is changed.

import (
	"fmt"

	"github.com/pentops/j5/internal/bcl/gen/j5/bcl/v1/bcl_j5pb"
	"github.com/pentops/j5/internal/bcl/internal/parser"
	"github.com/pentops/j5/internal/bcl/internal/walker"
	"github.com/pentops/j5/internal/bcl/internal/walker/schema"
	"github.com/pentops/j5/lib/j5reflect"
	"google.golang.org/protobuf/reflect/protoreflect"
)

// VerifWalk is ParseAST up to and excluding validateFile: NewObject, NewRootSchemaWalker,
// WalkSchema, with the same error wrapping.
func (p *Parser) VerifWalk(tree *parser.File, msg protoreflect.Message) (*bcl_j5pb.SourceLocation, error) {
	obj, err := p.refl.NewObject(msg)
	if err != nil {
		return nil, err
	}

	source := &bcl_j5pb.SourceLocation{}
	scope, err := schema.NewRootSchemaWalker(p.schema, obj, source)
	if err != nil {
		return nil, err
	}

	err = walker.WalkSchema(scope, tree.Body, p.Verbose)
	if err != nil {
		return source, fmt.Errorf("walkSchema: %w", err)
	}
	return source, nil
}

// VerifValidate is the second half of ParseAST: validateFile on an already walked message.
func (p *Parser) VerifValidate(msg protoreflect.Message, source *bcl_j5pb.SourceLocation) error {
	return validateFile(p.validate, msg.Interface(), source)
}

// VerifNewWalkParser is NewParser without the protovalidate validator: a parser with a fresh
// SchemaSet (empty spec cache) and a fresh reflector (empty j5 schema cache). Only VerifWalk may
// be called on it.
func VerifNewWalkParser(schemaSpec *bcl_j5pb.Schema) (*Parser, error) {
	ss, err := schema.NewSchemaSet(schemaSpec)
	if err != nil {
		return nil, err
	}
	return &Parser{
		refl:     j5reflect.New(),
		FailFast: true,
		schema:   ss,
	}, nil
}
