//go:build verif

package verifbcl

import (
	"errors"
	"fmt"
	"strings"

	"github.com/pentops/j5/internal/bcl/errpos"
	"github.com/pentops/j5/internal/bcl/internal/parser"
)

// ------------------------------------------------------------------ position-free canonical form

// item is one element of the flattened, position-free document: what (a class used for the failure
// signature) and the canonical text.
type item struct {
	what string
	text string
}

// descCanon: paragraphs of words. A paragraph break is a blank line; words are strings.Fields.
// Leading / trailing blank lines do not count.
func descCanon(v string) string {
	var paras []string
	var cur []string
	for _, line := range strings.Split(v, "\n") {
		w := strings.Fields(line)
		if len(w) == 0 {
			if len(cur) > 0 {
				paras = append(paras, strings.Join(cur, " "))
				cur = nil
			}
			continue
		}
		cur = append(cur, w...)
	}
	if len(cur) > 0 {
		paras = append(paras, strings.Join(cur, " "))
	}
	return strings.Join(paras, "\n\n")
}

func tokWhat(t parser.Token) string {
	switch t.Type {
	case parser.STRING:
		return "string"
	case parser.REGEX:
		return "regex"
	case parser.IDENT:
		return "ident"
	case parser.INT, parser.DECIMAL:
		return "number"
	case parser.BOOL:
		return "bool"
	case parser.COMMENT, parser.BLOCK_COMMENT:
		return "comment-literal"
	case parser.DESCRIPTION:
		return "description-literal"
	}
	return "operator"
}

type flat struct{ items []item }

func (f *flat) add(what, text string) { f.items = append(f.items, item{what, text}) }

func (f *flat) tok(t parser.Token) {
	if t.Type == parser.DESCRIPTION {
		f.add("description-literal", "DESCRIPTION:"+descCanon(t.Lit))
		return
	}
	f.add(tokWhat(t), Kind(t.Type)+":"+t.Lit)
}

func (f *flat) ref(what string, r parser.Reference) {
	f.add(what, "ref:"+strings.Join(r.Strings(), "."))
}

func (f *flat) value(v parser.Value) {
	tok, arr, isArr := parser.VerifValueParts(v)
	if !isArr {
		f.tok(tok)
		return
	}
	f.add("structure", "[")
	for _, x := range arr {
		f.value(x)
	}
	f.add("structure", "]")
}

func (f *flat) tag(what string, t parser.TagValue) {
	switch t.Mark {
	case parser.TagMarkBang:
		f.add("tags", what+"-mark:!")
	case parser.TagMarkQuestion:
		f.add("tags", what+"-mark:?")
	default:
		f.add("tags", what+"-mark:none")
	}
	switch {
	case t.Reference != nil:
		f.ref("tags", *t.Reference)
	case t.Value != nil:
		f.value(*t.Value)
	default:
		f.add("tags", "nil")
	}
}

func (f *flat) inline(c *parser.Comment) {
	if c == nil {
		f.add("inline-comment", "nocomment")
		return
	}
	f.add("inline-comment", "//"+c.Value)
}

// flatten gives the position-free document of a fragment list. Descriptions without any word are
// dropped (the property speaks of the descriptions' words and paragraph breaks only).
func flatten(frags []parser.Fragment) []item {
	f := &flat{}
	for _, fr := range frags {
		switch s := fr.(type) {
		case parser.BlockHeader:
			f.add("structure", "block")
			f.ref("ident", s.Type)
			for _, t := range s.Tags {
				f.tag("tag", t)
			}
			for _, t := range s.Qualifiers {
				f.tag("qualifier", t)
			}
			if s.Description != nil {
				if d := descCanon(s.Description.Value); d != "" {
					f.add("description", "desc:"+d)
				}
			}
			if s.Open {
				f.add("structure", "{")
			} else {
				f.add("structure", "noopen")
			}
			f.inline(s.Comment)
		case parser.CloseBlock:
			f.add("structure", "}")
		case parser.Assignment:
			f.add("structure", "assign")
			f.ref("ident", s.Key)
			if s.Append {
				f.add("operator", "+=")
			} else {
				f.add("operator", "=")
			}
			f.value(s.Value)
			f.inline(s.Comment)
		case parser.Description:
			if d := descCanon(s.Value); d != "" {
				f.add("description", "desc:"+d)
			}
		case parser.Comment:
			f.add("comment", Kind(s.Token.Type)+":"+s.Value)
		default:
			f.add("structure", fmt.Sprintf("?%T", fr))
		}
	}
	return f.items
}

func firstDiff(a, b []item) (int, string) {
	n := min(len(a), len(b))
	for i := 0; i < n; i++ {
		if a[i] != b[i] {
			if a[i].what == b[i].what {
				return i, a[i].what
			}
			return i, "structure"
		}
	}
	if len(a) != len(b) {
		if len(a) > n {
			return n, a[n].what
		}
		return n, b[n].what
	}
	return -1, ""
}

func accepted(input string) bool {
	f, err := parser.ParseFile(input, true)
	return err == nil && f != nil
}

// features counts, for the evidence, which of the situations named by C09 / C19 an accepted input
// contains (prefix = stream).
func (r *Result) features(prefix, input string) {
	frags, ok := parser.VerifFragments(input)
	if !ok {
		return
	}
	seen := map[string]bool{}
	lastEnd := -1
	lines := strings.Split(input, "\n")
	for i, fr := range frags {
		sn := fr.Source()
		if sn.End.Line > sn.Start.Line {
			seen["multi-line-fragment"] = true
		}
		if i > 0 && sn.Start.Line == lastEnd {
			seen["shared-line"] = true
		}
		if i == 0 && sn.Start.Line > 0 {
			seen["leading-blank"] = true
		}
		if i > 0 && sn.Start.Line > lastEnd+2 {
			seen["multi-blank-gap"] = true
		}
		if i > 0 && sn.Start.Line == lastEnd+2 && lastEnd+1 < len(lines) && lines[lastEnd+1] != "" {
			seen["whitespace-gap-line"] = true
		}
		lastEnd = sn.End.Line
		switch s := fr.(type) {
		case parser.BlockHeader:
			if s.Comment != nil {
				if s.Open {
					seen["open-header-comment"] = true
				} else {
					seen["header-comment"] = true
				}
			}
			if s.Description != nil {
				seen["header-description"] = true
			}
			if len(s.Qualifiers) > 0 {
				seen["qualifier"] = true
			}
			for _, t := range append(append([]parser.TagValue{}, s.Tags...), s.Qualifiers...) {
				if t.Mark != parser.TagMarkNone {
					seen["tag-mark"] = true
				}
				if t.Value != nil {
					seen["string-tag"] = true
				}
			}
		case parser.Assignment:
			if s.Comment != nil {
				seen["assign-comment"] = true
			}
			if s.Append {
				seen["append"] = true
			}
			var walk func(v parser.Value)
			walk = func(v parser.Value) {
				tok, arr, isArr := parser.VerifValueParts(v)
				if isArr {
					seen["array"] = true
					if len(arr) == 0 {
						seen["empty-array"] = true
					}
					for _, x := range arr {
						walk(x)
					}
					return
				}
				seen["lit-"+Kind(tok.Type)] = true
				if tok.Type == parser.STRING && strings.ContainsAny(tok.Lit, "\n\t\\\"") {
					seen["string-needs-escape"] = true
				}
				if tok.Type == parser.STRING {
					for _, c := range tok.Lit {
						if c >= 0x80 {
							seen["string-non-ascii"] = true
						}
						if c < 0x20 || c == 0x7f || c == 0x200b {
							seen["string-non-printable"] = true
						}
					}
				}
				if tok.Type == parser.REGEX && strings.Contains(tok.Lit, "/") {
					seen["regex-slash"] = true
				}
			}
			walk(s.Value)
		case parser.Description:
			if len(s.Tokens) > 1 {
				seen["multi-line-description"] = true
			}
			if descCanon(s.Value) == "" {
				seen["empty-description"] = true
			}
		case parser.Comment:
			seen["comment-"+Kind(s.Token.Type)] = true
		case parser.CloseBlock:
			seen["block"] = true
		}
	}
	if !strings.HasSuffix(input, "\n") {
		seen["no-final-newline"] = true
	}
	if strings.HasSuffix(input, "\n\n") {
		seen["trailing-blank"] = true
	}
	for k := range seen {
		r.count(prefix + ".feat." + k)
	}
}

// ------------------------------------------------------------------ bcl.fmt

// Fmt evaluates op `fmt HEX` and the C09 oracle.
func Fmt(input string) *Result {
	r := &Result{}
	var out string
	var ferr error
	text, pan := guard(func() string {
		out, ferr = parser.Fmt(input)
		if ferr != nil {
			return "err"
		}
		return "ok " + hx(out)
	})
	r.Line = text
	acc := false
	if _, p := guard(func() string { acc = accepted(input); return "" }); p != nil {
		acc = false
	}
	if pan != nil {
		r.count("fmt.panic")
		// Fmt is documented for accepted files; a panic on any input is still reported (the CLI and the
		// LSP call it on whatever the user typed).
		r.fail("fmt-panic", "parser.Fmt panicked (input accepted by the parser: %v): %v", acc, pan)
		return r
	}
	if !acc {
		if ferr != nil {
			r.count("fmt.rejected")
		} else {
			r.count("fmt.ok-not-accepted")
		}
		return r
	}
	r.Nontrivial = true
	r.count("fmt.accepted")
	guard(func() string { r.features("fmt", input); return "" })
	if ferr != nil {
		r.fail("fmt-rejects-accepted", "ParseFile accepts the input but Fmt fails: %v", ferr)
		return r
	}
	if out == input {
		r.count("fmt.unchanged")
	} else {
		r.count("fmt.changed")
	}

	_, pan = guard(func() string {
		// 1. output parses
		f2, err := parser.ParseFile(out, true)
		if err != nil || f2 == nil {
			why := "other"
			var ews *errpos.ErrorsWithSource
			if errors.As(err, &ews) && len(ews.Errors) > 0 {
				why = Classify(ews.Errors[0])
			}
			r.fail("fmt-output-unparseable:"+why, "Fmt output is rejected by the parser: %v\noutput: %q", err, out)
			return ""
		}
		// 2. same document
		fa, oka := parser.VerifFragments(input)
		fb, okb := parser.VerifFragments(out)
		if !oka || !okb {
			r.fail("fmt-changes-tree:structure", "fragment walk failed (input ok=%v, output ok=%v)", oka, okb)
			return ""
		}
		ia, ib := flatten(fa), flatten(fb)
		if i, what := firstDiff(ia, ib); i >= 0 {
			var x, y item
			if i < len(ia) {
				x = ia[i]
			}
			if i < len(ib) {
				y = ib[i]
			}
			r.fail("fmt-changes-tree:"+what, "element %d differs: input has %q, Fmt output has %q\noutput: %q", i, x.text, y.text, out)
		}
		// the trees ParseFile builds from them, position-free, must agree too
		pa, pb := &printer{nopos: true, res: r}, &printer{nopos: true, res: r}
		if f1, err := parser.ParseFile(input, true); err == nil {
			pa.body(canonBody(f1.Body))
			pb.body(canonBody(f2.Body))
			if pa.b.String() != pb.b.String() && len(r.Fails) == 0 {
				r.fail("fmt-changes-tree:structure", "position-free trees differ\n in: %s\nout: %s", pa.b.String(), pb.b.String())
			}
		}
		// 3. idempotent
		out2, err := parser.Fmt(out)
		if err != nil {
			r.fail("fmt-output-unparseable:fmt", "Fmt rejects its own output: %v", err)
			return ""
		}
		if out2 != out {
			r.fail("fmt-not-idempotent:"+idemWhat(out, out2), "Fmt(Fmt(x)) != Fmt(x)\n first: %q\nsecond: %q", out, out2)
		}
		return ""
	})
	if pan != nil {
		r.fail("fmt-panic", "panic while re-parsing / re-formatting the formatter's output: %v", pan)
	}
	return r
}

// canonBody rewrites descriptions to their canonical words/paragraphs form and drops descriptions
// without words, so that the position-free tree text can be compared.
func canonBody(b parser.Body) parser.Body {
	out := parser.Body{IsRoot: b.IsRoot}
	for _, st := range b.Statements {
		switch s := st.(type) {
		case *parser.Block:
			nb := *s
			if nb.Description != nil {
				if d := descCanon(nb.Description.Value); d == "" {
					nb.Description = nil
				} else {
					nb.Description = &parser.Description{Value: d}
				}
			}
			nb.Body = canonBody(s.Body)
			out.Statements = append(out.Statements, &nb)
		case *parser.Description:
			if d := descCanon(s.Value); d != "" {
				out.Statements = append(out.Statements, &parser.Description{Value: d})
			}
		default:
			out.Statements = append(out.Statements, st)
		}
	}
	return out
}

func idemWhat(a, b string) string {
	la, lb := strings.Split(a, "\n"), strings.Split(b, "\n")
	noBlank := func(ls []string) []string {
		var o []string
		for _, l := range ls {
			if strings.TrimSpace(l) != "" {
				o = append(o, l)
			}
		}
		return o
	}
	na, nb := noBlank(la), noBlank(lb)
	if strings.Join(na, "\n") == strings.Join(nb, "\n") {
		return "blank"
	}
	for i := 0; i < len(na) || i < len(nb); i++ {
		var x, y string
		if i < len(na) {
			x = na[i]
		}
		if i < len(nb) {
			y = nb[i]
		}
		if x != y {
			if strings.HasPrefix(strings.TrimSpace(x), "|") || strings.HasPrefix(strings.TrimSpace(y), "|") {
				return "description"
			}
			return "other"
		}
	}
	return "other"
}

// ------------------------------------------------------------------ bcl.diff

func trimTrailingBlank(s string) string {
	lines := strings.Split(s, "\n")
	for len(lines) > 0 && strings.TrimSpace(lines[len(lines)-1]) == "" {
		lines = lines[:len(lines)-1]
	}
	return strings.Join(lines, "\n")
}

// ApplyEdits applies line edits with LSP semantics (all ranges refer to the original document).
// The edits must be ascending and non-overlapping.
func ApplyEdits(doc string, edits []parser.FmtDiff) string {
	lines := strings.Split(doc, "\n")
	off := make([]int, len(lines)+1)
	o := 0
	for i, l := range lines {
		off[i] = o
		o += len(l) + 1
	}
	off[len(lines)] = len(doc)
	at := func(k int) int {
		if k >= len(lines) {
			return len(doc)
		}
		if off[k] > len(doc) {
			return len(doc)
		}
		return off[k]
	}
	var sb strings.Builder
	cur := 0
	for _, e := range edits {
		a, b := at(e.FromLine), at(e.ToLine)
		sb.WriteString(doc[cur:a])
		sb.WriteString(e.NewText)
		cur = b
	}
	sb.WriteString(doc[cur:])
	return sb.String()
}

// Diff evaluates op `diff HEX` and the C19 oracle.
func Diff(input string) *Result {
	r := &Result{}
	var edits []parser.FmtDiff
	var derr error
	text, pan := guard(func() string {
		edits, derr = parser.FmtDiffs(input)
		if derr != nil {
			return "err"
		}
		if len(edits) == 0 {
			return "ok -"
		}
		parts := make([]string, len(edits))
		for i, e := range edits {
			parts[i] = fmt.Sprintf("%d:%d:%s", e.FromLine, e.ToLine, hx(e.NewText))
		}
		return "ok " + strings.Join(parts, ";")
	})
	r.Line = text

	var fmtOut string
	var ferr error
	_, fpan := guard(func() string { fmtOut, ferr = parser.Fmt(input); return "" })
	fmtOK := fpan == nil && ferr == nil
	if !fmtOK {
		// outside the property's quantifier (the formatter does not accept the source)
		if pan != nil {
			r.count("diff.panic-fmt-not-ok")
		} else {
			r.count("diff.fmt-not-ok")
		}
		return r
	}
	r.Nontrivial = true
	r.count("diff.fmt-ok")
	guard(func() string { r.features("diff", input); return "" })
	if pan != nil {
		r.fail("diff-panic", "FmtDiffs panicked on a source the formatter accepts: %v", pan)
		return r
	}
	if derr != nil {
		r.fail("diff-err-fmt-ok", "FmtDiffs fails on a source the formatter accepts: %v", derr)
		return r
	}
	r.count(fmt.Sprintf("diff.edits.n%d", min(len(edits), 5)))
	lineCount := strings.Count(input, "\n") + 1
	wf := true
	for i, e := range edits {
		if !(0 <= e.FromLine && e.FromLine <= e.ToLine && e.ToLine <= lineCount) {
			r.fail("diff-range", "edit %d has range [%d,%d) with %d lines in the document", i, e.FromLine, e.ToLine, lineCount)
			wf = false
		}
		if i > 0 {
			prev := edits[i-1]
			if e.FromLine < prev.FromLine {
				r.fail("diff-order", "edit %d [%d,%d) comes after edit [%d,%d)", i, e.FromLine, e.ToLine, prev.FromLine, prev.ToLine)
				wf = false
			} else if e.FromLine < prev.ToLine || (e.FromLine == prev.FromLine && e.ToLine == prev.ToLine) {
				r.fail("diff-overlap", "edit %d [%d,%d) overlaps edit [%d,%d)", i, e.FromLine, e.ToLine, prev.FromLine, prev.ToLine)
				wf = false
			}
		}
	}
	if !wf {
		return r
	}
	applied := ApplyEdits(input, edits)
	ta, tf := trimTrailingBlank(applied), trimTrailingBlank(fmtOut)
	if ta != tf {
		what := "other"
		la, lf := strings.Split(ta, "\n"), strings.Split(tf, "\n")
		if len(la) == len(lf) {
			onlyWS := true
			for i := range la {
				if la[i] != lf[i] && !(strings.TrimSpace(la[i]) == "" && strings.TrimSpace(lf[i]) == "") {
					onlyWS = false
				}
			}
			if onlyWS {
				what = "gap-ws"
			}
		}
		r.fail("diff-apply:"+what, "applying the edits does not give the formatter's output\napplied: %q\n    fmt: %q\n  edits: %s", applied, fmtOut, text)
	}
	if len(edits) == 0 {
		r.count("diff.noop")
	}
	return r
}
