//go:build verif

package verifbcl

import (
	"fmt"
	"os"
	"path/filepath"
	"runtime"
	"strconv"
	"strings"
	"unicode"
)

// UnicodeTablePath resolves the location of the classifier data file (PROTOCOL-bcl.md §1).
func UnicodeTablePath() string {
	if p := os.Getenv("VERIF_UNICODE_TBL"); p != "" {
		return p
	}
	return "/verif/.work/unicode.tbl"
}

func ranges(pred func(rune) bool) [][2]int {
	var out [][2]int
	start := -1
	for r := 0; r <= unicode.MaxRune+1; r++ {
		in := r <= unicode.MaxRune && pred(rune(r))
		if in && start < 0 {
			start = r
		}
		if !in && start >= 0 {
			out = append(out, [2]int{start, r - 1})
			start = -1
		}
	}
	return out
}

// UnicodeTable renders the data file from the unicode / strconv packages of the running toolchain.
func UnicodeTable() string {
	var b strings.Builder
	fmt.Fprintf(&b, "j5v-unicode-tbl 1 %s\n", strings.ReplaceAll(runtime.Version(), " ", "_"))
	for _, c := range []struct {
		name string
		pred func(rune) bool
	}{
		{"space", unicode.IsSpace},
		{"digit", unicode.IsDigit},
		{"letter", unicode.IsLetter},
		{"print", strconv.IsPrint},
	} {
		rs := ranges(c.pred)
		fmt.Fprintf(&b, "%s %d\n", c.name, len(rs))
		for _, r := range rs {
			fmt.Fprintf(&b, "%d %d\n", r[0], r[1])
		}
	}
	b.WriteString("end\n")
	return b.String()
}

// EnsureUnicodeTable (re)writes the data file atomically when its content differs.
func EnsureUnicodeTable(path string) error {
	want := UnicodeTable()
	if have, err := os.ReadFile(path); err == nil && string(have) == want {
		return nil
	}
	if err := os.MkdirAll(filepath.Dir(path), 0o755); err != nil {
		return err
	}
	tmp, err := os.CreateTemp(filepath.Dir(path), ".unicode.tbl.*")
	if err != nil {
		return err
	}
	if _, err := tmp.WriteString(want); err != nil {
		tmp.Close()
		os.Remove(tmp.Name())
		return err
	}
	if err := tmp.Close(); err != nil {
		os.Remove(tmp.Name())
		return err
	}
	if err := os.Chmod(tmp.Name(), 0o644); err != nil {
		os.Remove(tmp.Name())
		return err
	}
	return os.Rename(tmp.Name(), path)
}
