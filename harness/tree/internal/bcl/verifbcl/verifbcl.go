//go:build verif

// Package verifbcl runs the real BCL lexer / parser / formatter / diagnostic printer on one input,
// prints the canonical result lines of harness/PROTOCOL-bcl.md and evaluates the property oracles
// of C11, C09 and C19 on the real code. It lives below internal/bcl so that it may import
// internal/bcl/internal/parser; it is compiled only through the verification overlay (tag verif).
package verifbcl

import (
	"encoding/hex"
	"errors"
	"fmt"
	"strconv"
	"strings"

	"github.com/pentops/j5/internal/bcl/errpos"
	"github.com/pentops/j5/internal/bcl/internal/parser"
)

// Fail is one violation of a property oracle on the real code.
type Fail struct {
	Sig    string
	Detail string
}

// Result of one op.
type Result struct {
	Line  string   // canonical result line
	Fails []Fail   // oracle failures
	Stats []string // counter keys
	// Nontrivial is set when the case counts as non-trivial by the stream's rule.
	Nontrivial bool
}

func (r *Result) fail(sig, format string, args ...any) {
	r.Fails = append(r.Fails, Fail{Sig: sig, Detail: fmt.Sprintf(format, args...)})
}
func (r *Result) count(k string) { r.Stats = append(r.Stats, k) }

// ------------------------------------------------------------------ basics

func hx(s string) string {
	if s == "" {
		return "-"
	}
	return hex.EncodeToString([]byte(s))
}

// Kind is the protocol's mnemonic of a token type (own table, not TokenType.String()).
func Kind(t parser.TokenType) string {
	switch t {
	case parser.INVALID:
		return "INVALID"
	case parser.EOF:
		return "EOF"
	case parser.EOL:
		return "EOL"
	case parser.SPACE:
		return "SPACE"
	case parser.IDENT:
		return "IDENT"
	case parser.STRING:
		return "STRING"
	case parser.REGEX:
		return "REGEX"
	case parser.INT:
		return "INT"
	case parser.DECIMAL:
		return "DECIMAL"
	case parser.BOOL:
		return "BOOL"
	case parser.COMMENT:
		return "COMMENT"
	case parser.BLOCK_COMMENT:
		return "BLOCK_COMMENT"
	case parser.DESCRIPTION:
		return "DESCRIPTION"
	case parser.ASSIGN:
		return "ASSIGN"
	case parser.LBRACE:
		return "LBRACE"
	case parser.RBRACE:
		return "RBRACE"
	case parser.LBRACK:
		return "LBRACK"
	case parser.RBRACK:
		return "RBRACK"
	case parser.DOT:
		return "DOT"
	case parser.COMMA:
		return "COMMA"
	case parser.COLON:
		return "COLON"
	case parser.PLUS:
		return "PLUS"
	case parser.BANG:
		return "BANG"
	case parser.QUESTION:
		return "QUESTION"
	}
	return "T" + strconv.Itoa(int(t))
}

var opKinds = map[byte]string{'=': "ASSIGN", '{': "LBRACE", '}': "RBRACE", '[': "LBRACK", ']': "RBRACK", '.': "DOT",
	',': "COMMA", ':': "COLON", '+': "PLUS", '!': "BANG", '?': "QUESTION"}

// Classify maps a diagnostic to its protocol class. The text is only used to recognise which error
// site produced it; it is never compared with the model.
func Classify(e *errpos.Err) string {
	if e == nil || e.Err == nil {
		return "other"
	}
	m := e.Err.Error()
	switch {
	case m == "unexpected EOF":
		return "Leof"
	case strings.HasPrefix(m, "unexpected character: "):
		return "Lchr"
	case m == "unexpected second dot in number literal":
		return "Ldot"
	case strings.HasPrefix(m, "unexpected EOL in string"):
		return "Lseol"
	case strings.HasPrefix(m, "unexpected EOL in regex"):
		return "Lreol"
	case strings.HasPrefix(m, "invalid escape"):
		return "Lesc"
	case m == "unexpected close block":
		return "Xclose"
	case m == "unclosed block at EOF":
		return "Xopen"
	case strings.HasPrefix(m, "unexpected ") && strings.Contains(m, ", want "):
		rest := m[len("unexpected "):]
		if strings.HasPrefix(rest, "operator('") && len(rest) > len("operator('") {
			if k, ok := opKinds[rest[len("operator('")]]; ok {
				return "U:" + k
			}
			return "other"
		}
		i := 0
		for i < len(rest) && (rest[i] >= 'A' && rest[i] <= 'Z' || rest[i] == '_') {
			i++
		}
		switch name := rest[:i]; name {
		case "IDENT", "STRING", "REGEX", "INT", "DECIMAL", "BOOL", "COMMENT", "BLOCK_COMMENT", "DESCRIPTION", "EOF", "EOL", "INVALID", "SPACE":
			return "U:" + name
		}
	}
	return "other"
}

// source holds the line structure of an input for the position oracle.
type source struct {
	text     string
	runeLens []int
}

func newSource(s string) *source {
	lines := strings.Split(s, "\n")
	src := &source{text: s, runeLens: make([]int, len(lines))}
	for i, l := range lines {
		src.runeLens[i] = len([]rune(l))
	}
	return src
}

func (s *source) inside(p errpos.Point) bool {
	return p.Line >= 0 && p.Line < len(s.runeLens) && p.Column >= 0 && p.Column <= s.runeLens[p.Line]
}

func before(a, b errpos.Point) bool { // a <= b
	return a.Line < b.Line || (a.Line == b.Line && a.Column <= b.Column)
}

func (s *source) okRange(a, b errpos.Point) bool {
	return s.inside(a) && s.inside(b) && before(a, b)
}

func posStr(a, b errpos.Point) string {
	return fmt.Sprintf("%d:%d-%d:%d", a.Line, a.Column, b.Line, b.Column)
}

// ------------------------------------------------------------------ printer (with position oracle)

type printer struct {
	b      strings.Builder
	src    *source
	res    *Result
	nopos  bool // position-free rendering (no oracle either)
	badPos map[string]bool
}

func (p *printer) pos(what string, a, b errpos.Point) {
	if p.nopos {
		return
	}
	p.b.WriteByte('@')
	p.b.WriteString(posStr(a, b))
	if p.src != nil && !p.src.okRange(a, b) {
		if !p.badPos[what] {
			p.badPos[what] = true
			p.res.fail(what, "position %s is not a valid range inside the input (lines=%d)", posStr(a, b), len(p.src.runeLens))
		}
	}
}

func (p *printer) token(t parser.Token) {
	k := Kind(t.Type)
	p.b.WriteString(k)
	p.pos("tok-pos:"+k, t.Start, t.End)
	p.b.WriteByte('=')
	p.b.WriteString(hx(t.Lit))
}

func (p *printer) tokens(ts []parser.Token) {
	p.b.WriteByte('[')
	for i, t := range ts {
		if i > 0 {
			p.b.WriteByte(',')
		}
		p.token(t)
	}
	p.b.WriteByte(']')
}

func (p *printer) ref(r parser.Reference) {
	p.b.WriteString("r")
	p.pos("node-pos:r", r.Start, r.End)
	p.b.WriteByte('[')
	for i, id := range r.Idents {
		if i > 0 {
			p.b.WriteByte(',')
		}
		p.b.WriteString("i")
		p.pos("node-pos:i", id.Start, id.End)
		p.b.WriteByte('=')
		p.b.WriteString(hx(id.Value))
		p.b.WriteByte('~')
		p.token(id.Token)
	}
	p.b.WriteByte(']')
}

func (p *printer) value(v parser.Value) {
	tok, arr, isArr := parser.VerifValueParts(v)
	if !isArr {
		p.b.WriteString("v")
		p.pos("node-pos:v", v.Start, v.End)
		p.b.WriteByte('~')
		p.token(tok)
		return
	}
	p.b.WriteString("a")
	p.pos("node-pos:a", v.Start, v.End)
	p.b.WriteByte('[')
	for i, x := range arr {
		if i > 0 {
			p.b.WriteByte(',')
		}
		p.value(x)
	}
	p.b.WriteByte(']')
}

func (p *printer) tag(t parser.TagValue) {
	p.b.WriteString("t")
	p.pos("node-pos:t", t.Start, t.End)
	p.b.WriteByte('{')
	switch t.Mark {
	case parser.TagMarkNone:
		p.b.WriteString("n")
	case parser.TagMarkBang:
		p.b.WriteString("!~")
		p.token(t.MarkToken)
	case parser.TagMarkQuestion:
		p.b.WriteString("?~")
		p.token(t.MarkToken)
	default:
		p.b.WriteString("m" + strconv.Itoa(int(t.Mark)))
	}
	p.b.WriteByte(';')
	switch {
	case t.Reference != nil:
		p.ref(*t.Reference)
	case t.Value != nil:
		p.value(*t.Value)
	default:
		p.b.WriteString("nil")
	}
	p.b.WriteByte('}')
}

func (p *printer) tags(ts []parser.TagValue) {
	p.b.WriteByte('[')
	for i, t := range ts {
		if i > 0 {
			p.b.WriteByte(',')
		}
		p.tag(t)
	}
	p.b.WriteByte(']')
}

func (p *printer) desc(letter string, d *parser.Description) {
	if d == nil {
		p.b.WriteString("-")
		return
	}
	p.b.WriteString(letter)
	p.pos("node-pos:"+letter, d.Start, d.End)
	p.b.WriteByte('{')
	p.b.WriteString(hx(d.Value))
	p.b.WriteByte(';')
	p.tokens(d.Tokens)
	p.b.WriteByte('}')
}

func (p *printer) comment(c *parser.Comment) {
	if c == nil {
		p.b.WriteString("-")
		return
	}
	p.b.WriteString("c")
	p.pos("node-pos:c", c.Start, c.End)
	p.b.WriteByte('=')
	p.b.WriteString(hx(c.Value))
}

func (p *printer) header(letter string, h parser.BlockHeader) {
	p.b.WriteString(letter)
	p.pos("node-pos:"+letter, h.Start, h.End)
	p.b.WriteByte('{')
	p.ref(h.Type)
	p.b.WriteByte(';')
	p.tags(h.Tags)
	p.b.WriteByte(';')
	p.tags(h.Qualifiers)
	p.b.WriteByte(';')
	p.desc("d", h.Description)
	p.b.WriteByte(';')
	if h.Open {
		p.b.WriteString("1")
	} else {
		p.b.WriteString("0")
	}
	p.b.WriteByte(';')
	p.comment(h.Comment)
}

func (p *printer) assignment(a parser.Assignment) {
	p.b.WriteString("A")
	p.pos("node-pos:A", a.Start, a.End)
	p.b.WriteByte('{')
	p.ref(a.Key)
	p.b.WriteByte(';')
	if a.Append {
		p.b.WriteString("+=")
	} else {
		p.b.WriteString("=")
	}
	p.b.WriteByte(';')
	p.value(a.Value)
	p.b.WriteByte(';')
	p.comment(a.Comment)
	p.b.WriteByte('}')
}

func (p *printer) body(b parser.Body) {
	p.b.WriteByte('[')
	for i, st := range b.Statements {
		if i > 0 {
			p.b.WriteByte(',')
		}
		switch s := st.(type) {
		case *parser.Block:
			p.header("B", s.BlockHeader)
			p.b.WriteByte(';')
			p.body(s.Body)
			p.b.WriteByte('}')
		case *parser.Assignment:
			p.assignment(*s)
		case *parser.Description:
			p.desc("D", s)
		default:
			p.b.WriteString("?")
		}
	}
	p.b.WriteByte(']')
}

func (p *printer) diag(e *errpos.Err) {
	cls := Classify(e)
	p.b.WriteString(cls)
	if e == nil || e.Pos == nil {
		p.b.WriteString("@nopos")
		if !p.badPos["diag-pos:"+cls] {
			p.badPos["diag-pos:"+cls] = true
			p.res.fail("diag-pos:"+cls, "diagnostic without position")
		}
		return
	}
	p.pos("diag-pos:"+cls, e.Pos.Start, e.Pos.End)
}

// ------------------------------------------------------------------ bcl.parse

func guard(f func() string) (out string, panicked any) {
	defer func() {
		if r := recover(); r != nil {
			out = "panic"
			panicked = r
		}
	}()
	return f(), nil
}

type parseOut struct {
	text string
	tree *parser.File
	errs *errpos.ErrorsWithSource
}

func (r *Result) parseOnce(src *source, failFast bool) parseOut {
	var po parseOut
	text, pan := guard(func() string {
		f, err := parser.ParseFile(src.text, failFast)
		p := &printer{src: src, res: r, badPos: map[string]bool{}}
		if err == nil {
			po.tree = f
			if f == nil {
				r.fail("parse-neither", "ParseFile(failFast=%v) returned nil tree and nil error", failFast)
				return "fatal"
			}
			p.b.WriteString("tree(")
			p.body(f.Body)
			p.b.WriteString(")")
			return p.b.String()
		}
		var ews *errpos.ErrorsWithSource
		if !errors.As(err, &ews) || ews == nil {
			r.fail("parse-neither", "ParseFile(failFast=%v) returned an error that is not a diagnostics list: %v", failFast, err)
			return "fatal"
		}
		po.errs = ews
		if len(ews.Errors) == 0 {
			r.fail("parse-neither", "ParseFile(failFast=%v) returned an empty diagnostics list", failFast)
		}
		p.b.WriteString("errs(")
		for i, e := range ews.Errors {
			if i > 0 {
				p.b.WriteByte(',')
			}
			p.diag(e)
		}
		p.b.WriteString(")")
		return p.b.String()
	})
	if pan != nil {
		r.fail("parse-panic", "ParseFile(failFast=%v) panicked: %v", failFast, pan)
		po.tree, po.errs = nil, nil
	}
	po.text = text
	return po
}

// Parse evaluates op `parse HEX`.
func Parse(input string) *Result {
	r := &Result{}
	src := newSource(input)
	var sb strings.Builder

	// lex=
	// Token positions are checked by the oracle only up to the first lexer error: the property speaks
	// of diagnostics and tree nodes; tokens matter because nodes copy their positions, and after a
	// lexer error no tree is built (the collect-all lexer merely continues to find more diagnostics).
	nTok := 0
	lexText, pan := guard(func() string {
		p := &printer{src: src, res: r, badPos: map[string]bool{}}
		full := src
		l := parser.NewLexer(input)
		first := true
		for {
			tok, err := l.NextToken()
			if !first {
				p.b.WriteByte(',')
			}
			first = false
			if err != nil {
				pe, ok := errpos.AsError(err)
				p.b.WriteByte('!')
				p.src = nil // stop checking token positions (diagnostics below are still checked)
				if !ok {
					p.b.WriteString("other@nopos")
					r.fail("parse-neither", "lexer returned an error without position: %v", err)
				} else {
					p.src = full
					p.diag(pe)
					p.src = nil
					r.count("lexerr." + Classify(pe))
				}
				continue
			}
			if tok.Type == parser.EOF {
				// the EOF token never enters the token slice (AllTokens stops before appending it), so its
				// position is not observable through the parser: printed, not judged.
				p.src = nil
			}
			p.token(tok)
			nTok++
			r.count("tok." + Kind(tok.Type))
			if tok.Type == parser.EOF {
				break
			}
		}
		return p.b.String()
	})
	if pan != nil {
		r.fail("parse-panic", "lexer panicked: %v", pan)
	}
	sb.WriteString("lex=" + lexText)

	p0 := r.parseOnce(src, false)
	p1 := r.parseOnce(src, true)
	sb.WriteString(" p0=" + p0.text)
	if p1.text == p0.text {
		sb.WriteString(" p1==")
	} else {
		sb.WriteString(" p1=" + p1.text)
	}

	// fail-fast / collect-all consistency
	switch {
	case p0.text == "panic" || p1.text == "panic":
	case (p0.tree != nil) != (p1.tree != nil):
		r.fail("ff-mismatch", "collect-all gives %.40s…, fail-fast gives %.40s…", p0.text, p1.text)
	case p0.errs != nil && p1.errs != nil && len(p0.errs.Errors) > 0 && len(p1.errs.Errors) > 0:
		a, b := p0.errs.Errors[0], p1.errs.Errors[0]
		same := Classify(a) == Classify(b) && (a.Pos == nil) == (b.Pos == nil)
		if same && a.Pos != nil {
			same = a.Pos.Start == b.Pos.Start && a.Pos.End == b.Pos.End
		}
		if same && a.Err != nil && b.Err != nil {
			same = a.Err.Error() == b.Err.Error()
		}
		if !same {
			r.fail("ff-first", "collect-all first diagnostic %s differs from the fail-fast diagnostic %s", a.Error(), b.Error())
		}
	}
	if p0.tree != nil {
		r.count("parse.tree")
	} else if p0.errs != nil {
		r.count("parse.errs")
		r.count(fmt.Sprintf("parse.errs.n%d", min(len(p0.errs.Errors), 4)))
		if len(p0.errs.Errors) > 0 {
			r.count("diag." + Classify(p0.errs.Errors[0]))
		}
	}

	// fr=
	frText, pan := guard(func() string {
		frags, ok := parser.VerifFragments(input)
		if !ok {
			return "err"
		}
		p := &printer{src: src, res: r, badPos: map[string]bool{}}
		p.b.WriteByte('[')
		for i, f := range frags {
			if i > 0 {
				p.b.WriteByte(',')
			}
			switch s := f.(type) {
			case parser.BlockHeader:
				p.b.WriteString("H")
				p.pos("frag-pos:H", s.Start, s.End)
			case parser.CloseBlock:
				p.b.WriteString("X")
				p.pos("frag-pos:X", s.Start, s.End)
			case parser.Assignment:
				p.b.WriteString("A")
				p.pos("frag-pos:A", s.Start, s.End)
			case parser.Description:
				p.b.WriteString("D")
				p.pos("frag-pos:D", s.Start, s.End)
			case parser.Comment:
				p.b.WriteString("C")
				p.pos("frag-pos:C", s.Start, s.End)
				p.b.WriteByte('=')
				p.b.WriteString(hx(s.Value))
				p.b.WriteByte('~')
				p.token(s.Token)
			default:
				p.b.WriteString("?")
			}
		}
		p.b.WriteByte(']')
		return p.b.String()
	})
	if pan != nil {
		r.fail("parse-panic", "fragment walk panicked: %v", pan)
	}
	sb.WriteString(" fr=" + frText)

	// hs=
	hsText := "-"
	for i, po := range []parseOut{p0, p1} {
		if po.errs == nil {
			continue
		}
		// oracle: the object ParseFile really returned renders without failing
		_, pan := guard(func() string {
			out := po.errs.HumanString(2)
			if out == "" {
				r.fail("render-empty", "HumanString returned the empty string (failFast=%v)", i == 1)
			}
			return ""
		})
		if pan != nil {
			r.fail("render-panic", "HumanString panicked (failFast=%v): %v", i == 1, pan)
		}
	}
	if p0.errs != nil {
		hsText, pan = guard(func() string {
			stripped := make(errpos.Errors, len(p0.errs.Errors))
			for i, e := range p0.errs.Errors {
				ne := &errpos.Err{}
				if e != nil && e.Pos != nil {
					ne.Pos = &errpos.Position{Start: e.Pos.Start, End: e.Pos.End}
				}
				stripped[i] = ne
			}
			var ews *errpos.ErrorsWithSource
			if !errors.As(errpos.AddSource(stripped, input), &ews) {
				return "-"
			}
			return hx(ews.HumanString(2))
		})
		if pan != nil {
			r.fail("render-panic", "HumanString (messages stripped) panicked: %v", pan)
		}
	}
	sb.WriteString(" hs=" + hsText)

	r.Nontrivial = nTok >= 3 // at least two tokens besides EOF
	r.Line = sb.String()
	return r
}

// Render evaluates op `render L1 C1 L2 C2 CTX HEX`.
func Render(l1, c1, l2, c2, ctx int, input string) *Result {
	r := &Result{Nontrivial: true}
	text, pan := guard(func() string {
		errs := errpos.Errors{&errpos.Err{Pos: &errpos.Position{
			Start: errpos.Point{Line: l1, Column: c1}, End: errpos.Point{Line: l2, Column: c2}}}}
		var ews *errpos.ErrorsWithSource
		if !errors.As(errpos.AddSource(errs, input), &ews) {
			return "bad-op"
		}
		return "ok " + hx(ews.HumanString(ctx))
	})
	if pan != nil {
		r.fail("render-panic", "HumanString panicked for position %d:%d-%d:%d ctx=%d: %v", l1, c1, l2, c2, ctx, pan)
	}
	r.count("render")
	r.Line = text
	return r
}
