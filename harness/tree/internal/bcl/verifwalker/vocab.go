//go:build verif

package verifwalker

import (
	"sort"

	"github.com/pentops/j5/gen/j5/sourcedef/v1/sourcedef_j5pb"
	"github.com/pentops/j5/internal/j5s/j5parse"
	"github.com/pentops/j5/lib/j5schema"
)

// Vocabulary returns (sorted, without duplicates) every name the walker can resolve somewhere:
// the property names of the j5 schema closure of SourceFile, the alias names of J5SchemaSpec and
// the single forms of arrays and maps; and separately the alias names (block keywords) alone.
// For generators only.
func Vocabulary() (all []string, keywords []string) {
	set := map[string]bool{}
	kw := map[string]bool{}
	for _, b := range j5parse.J5SchemaSpec.Blocks {
		for _, a := range b.Alias {
			set[a.Name] = true
			kw[a.Name] = true
		}
	}
	cache := j5schema.NewSchemaCache()
	root, err := cache.Schema((&sourcedef_j5pb.SourceFile{}).ProtoReflect().Descriptor())
	if err == nil {
		seen := map[string]bool{}
		var visit func(s j5schema.RootSchema)
		var field func(fs j5schema.FieldSchema)
		field = func(fs j5schema.FieldSchema) {
			switch st := fs.(type) {
			case *j5schema.ObjectField:
				visit(st.Schema())
			case *j5schema.OneofField:
				visit(st.Schema())
			case *j5schema.ArrayField:
				if st.Ext != nil && st.Ext.SingleForm != nil {
					set[*st.Ext.SingleForm] = true
					kw[*st.Ext.SingleForm] = true
				}
				field(st.Schema)
			case *j5schema.MapField:
				if st.Ext != nil && st.Ext.SingleForm != nil {
					set[*st.Ext.SingleForm] = true
				}
				field(st.Schema)
			}
		}
		visit = func(s j5schema.RootSchema) {
			if seen[s.FullName()] {
				return
			}
			seen[s.FullName()] = true
			var props []*j5schema.ObjectProperty
			switch st := s.(type) {
			case *j5schema.ObjectSchema:
				props = st.ClientProperties()
			case *j5schema.OneofSchema:
				props = st.ClientProperties()
			}
			for _, p := range props {
				set[p.JSONName] = true
				field(p.Schema)
			}
		}
		visit(root)
	}
	for k := range set {
		all = append(all, k)
	}
	for k := range kw {
		keywords = append(keywords, k)
	}
	sort.Strings(all)
	sort.Strings(keywords)
	return all, keywords
}
