//go:build verif

package verifwalker

// Canonical dump of a walked message (harness/PROTOCOL-walker.md §3): the harness's own printer
// over protoreflect, driven by the j5 schema (property names and order as the walker sees them:
// ClientProperties of lib/j5schema, i.e. flattened message fields expanded, declaration order).
// It does not go through lib/j5reflect.

import (
	"encoding/hex"
	"fmt"
	"math"
	"sort"
	"strconv"
	"strings"

	"github.com/pentops/j5/gen/j5/schema/v1/schema_j5pb"
	"github.com/pentops/j5/lib/j5schema"
	"google.golang.org/protobuf/reflect/protoreflect"
)

func hx(b []byte) string {
	if len(b) == 0 {
		return "-"
	}
	return hex.EncodeToString(b)
}

type dumper struct {
	cache *j5schema.SchemaCache
	sb    strings.Builder
	// skipRoot names root-level properties that are not printed
	skipRoot map[string]bool
}

// Dump prints msg; an error means the printer met something it has no rule for (never expected).
func Dump(cache *j5schema.SchemaCache, msg protoreflect.Message) (string, error) {
	d := &dumper{cache: cache, skipRoot: map[string]bool{"sourceLocations": true}}
	root, err := cache.Schema(msg.Descriptor())
	if err != nil {
		return "", err
	}
	if err := d.container(root, msg, true); err != nil {
		return "", err
	}
	return d.sb.String(), nil
}

type hasProps interface {
	ClientProperties() []*j5schema.ObjectProperty
}

func (d *dumper) container(schema j5schema.RootSchema, msg protoreflect.Message, isRoot bool) error {
	var open, close byte
	var props []*j5schema.ObjectProperty
	switch st := schema.(type) {
	case *j5schema.ObjectSchema:
		open, close = '{', '}'
		props = st.ClientProperties()
	case *j5schema.OneofSchema:
		open, close = '<', '>'
		props = st.ClientProperties()
	default:
		return fmt.Errorf("dump: root schema %T", schema)
	}
	d.sb.WriteByte(open)
	first := true
	for _, p := range props {
		if isRoot && d.skipRoot[p.JSONName] {
			continue
		}
		walk, fd, ok, err := resolve(p, msg)
		if err != nil {
			return err
		}
		if !ok {
			continue // not populated
		}
		if !first {
			d.sb.WriteByte(',')
		}
		first = false
		d.sb.WriteString(p.JSONName)
		d.sb.WriteByte('=')
		if err := d.property(p, walk, fd); err != nil {
			return err
		}
	}
	d.sb.WriteByte(close)
	return nil
}

// resolve follows the proto path of p inside msg; ok = the property is populated.
func resolve(p *j5schema.ObjectProperty, msg protoreflect.Message) (protoreflect.Message, protoreflect.FieldDescriptor, bool, error) {
	if len(p.ProtoField) == 0 {
		return nil, nil, false, fmt.Errorf("dump: property %s without proto field (exposed oneof)", p.JSONName)
	}
	walk := msg
	for _, num := range p.ProtoField[:len(p.ProtoField)-1] {
		fd := walk.Descriptor().Fields().ByNumber(num)
		if fd == nil || fd.Kind() != protoreflect.MessageKind || fd.IsList() || fd.IsMap() {
			return nil, nil, false, fmt.Errorf("dump: bad proto path for %s", p.JSONName)
		}
		if !walk.Has(fd) {
			return nil, nil, false, nil
		}
		walk = walk.Get(fd).Message()
	}
	fd := walk.Descriptor().Fields().ByNumber(p.ProtoField[len(p.ProtoField)-1])
	if fd == nil {
		return nil, nil, false, fmt.Errorf("dump: bad proto path for %s", p.JSONName)
	}
	return walk, fd, walk.Has(fd), nil
}

// property prints the value of the populated property p (walk, fd from resolve).
func (d *dumper) property(p *j5schema.ObjectProperty, walk protoreflect.Message, fd protoreflect.FieldDescriptor) error {
	val := walk.Get(fd)
	switch st := p.Schema.(type) {
	case *j5schema.ArrayField:
		if !fd.IsList() {
			return fmt.Errorf("dump: array %s is not a list", p.JSONName)
		}
		list := val.List()
		d.sb.WriteByte('[')
		for i := 0; i < list.Len(); i++ {
			if i > 0 {
				d.sb.WriteByte(',')
			}
			if err := d.value(st.Schema, fd, list.Get(i)); err != nil {
				return err
			}
		}
		d.sb.WriteByte(']')
		return nil
	case *j5schema.MapField:
		if !fd.IsMap() {
			return fmt.Errorf("dump: map %s is not a map", p.JSONName)
		}
		m := val.Map()
		var keys []string
		m.Range(func(k protoreflect.MapKey, _ protoreflect.Value) bool {
			keys = append(keys, k.String())
			return true
		})
		sort.Strings(keys) // byte order
		d.sb.WriteByte('(')
		for i, k := range keys {
			if i > 0 {
				d.sb.WriteByte(',')
			}
			d.sb.WriteString(hx([]byte(k)))
			d.sb.WriteByte(':')
			if err := d.value(st.Schema, fd.MapValue(), m.Get(protoreflect.ValueOfString(k).MapKey())); err != nil {
				return err
			}
		}
		d.sb.WriteByte(')')
		return nil
	}
	return d.value(p.Schema, fd, val)
}

func (d *dumper) value(fs j5schema.FieldSchema, fd protoreflect.FieldDescriptor, val protoreflect.Value) error {
	switch st := fs.(type) {
	case *j5schema.ObjectField:
		return d.container(st.Schema(), val.Message(), false)
	case *j5schema.OneofField:
		return d.container(st.Schema(), val.Message(), false)
	case *j5schema.EnumField:
		num := int32(val.Enum())
		if opt := st.Schema().OptionByNumber(num); opt != nil {
			d.sb.WriteString("e:" + opt.Name())
		} else {
			d.sb.WriteString("e:#" + strconv.Itoa(int(num)))
		}
		return nil
	case *j5schema.AnyField:
		m := val.Message()
		fs := m.Descriptor().Fields()
		d.sb.WriteString("a:")
		for i := 0; i < fs.Len(); i++ {
			if i > 0 {
				d.sb.WriteByte(':')
			}
			f := fs.Get(i)
			switch f.Kind() {
			case protoreflect.StringKind:
				d.sb.WriteString(hx([]byte(m.Get(f).String())))
			case protoreflect.BytesKind:
				d.sb.WriteString(hx(m.Get(f).Bytes()))
			default:
				d.sb.WriteString("?")
			}
		}
		return nil
	case *j5schema.ScalarSchema:
		return d.scalar(st, fd, val)
	}
	return fmt.Errorf("dump: field schema %T", fs)
}

func (d *dumper) scalar(st *j5schema.ScalarSchema, fd protoreflect.FieldDescriptor, val protoreflect.Value) error {
	switch t := st.Proto.Type.(type) {
	case *schema_j5pb.Field_String_:
		d.sb.WriteString("s:" + hx([]byte(val.String())))
	case *schema_j5pb.Field_Key:
		d.sb.WriteString("k:" + hx([]byte(val.String())))
	case *schema_j5pb.Field_Bool:
		if val.Bool() {
			d.sb.WriteString("b:t")
		} else {
			d.sb.WriteString("b:f")
		}
	case *schema_j5pb.Field_Bytes:
		d.sb.WriteString("y:" + hx(val.Bytes()))
	case *schema_j5pb.Field_Integer:
		switch t.Integer.Format {
		case schema_j5pb.IntegerField_FORMAT_INT32:
			d.sb.WriteString("i32:" + strconv.FormatInt(val.Int(), 10))
		case schema_j5pb.IntegerField_FORMAT_INT64:
			d.sb.WriteString("i64:" + strconv.FormatInt(val.Int(), 10))
		case schema_j5pb.IntegerField_FORMAT_UINT32:
			d.sb.WriteString("u32:" + strconv.FormatUint(val.Uint(), 10))
		case schema_j5pb.IntegerField_FORMAT_UINT64:
			d.sb.WriteString("u64:" + strconv.FormatUint(val.Uint(), 10))
		default:
			return fmt.Errorf("dump: integer format %v", t.Integer.Format)
		}
	case *schema_j5pb.Field_Float:
		switch t.Float.Format {
		case schema_j5pb.FloatField_FORMAT_FLOAT32:
			d.sb.WriteString(fmt.Sprintf("f32:%08x", math.Float32bits(float32(val.Float()))))
		case schema_j5pb.FloatField_FORMAT_FLOAT64:
			d.sb.WriteString(fmt.Sprintf("f64:%016x", math.Float64bits(val.Float())))
		default:
			return fmt.Errorf("dump: float format %v", t.Float.Format)
		}
	case *schema_j5pb.Field_Timestamp, *schema_j5pb.Field_Date, *schema_j5pb.Field_Decimal:
		// message-typed scalars: the walker has no way to set them (scalarReflectFromAST rejects
		// the kind before anything is written); printed opaquely so that the printer is total.
		m := val.Message()
		tag := map[string]string{"timestamp": "t:", "date": "d:", "decimal": "c:"}[st.TypeName()]
		d.sb.WriteString(tag)
		fs := m.Descriptor().Fields()
		for i := 0; i < fs.Len(); i++ {
			if i > 0 {
				d.sb.WriteByte(':')
			}
			f := fs.Get(i)
			switch f.Kind() {
			case protoreflect.StringKind:
				d.sb.WriteString(hx([]byte(m.Get(f).String())))
			case protoreflect.Int32Kind, protoreflect.Int64Kind:
				d.sb.WriteString(strconv.FormatInt(m.Get(f).Int(), 10))
			default:
				d.sb.WriteString("?")
			}
		}
	default:
		return fmt.Errorf("dump: scalar type %T", st.Proto.Type)
	}
	return nil
}
