//go:build verif

// Package verifwalker runs the real j5s front end (BCL parser, schema walker, j5parse) on one
// source text, prints the canonical result line of harness/PROTOCOL-walker.md and evaluates the
// walker oracles of property C07 on the real code. It lives below internal/bcl so that it may
// import internal/bcl/internal/{parser,walker}; it is compiled only through the verification
// overlay (tag verif).
package verifwalker

import (
	"errors"
	"fmt"
	"regexp"
	"strconv"
	"strings"
	"unicode/utf8"

	"github.com/pentops/j5/internal/bcl"
	"github.com/pentops/j5/internal/bcl/errpos"
	"github.com/pentops/j5/internal/bcl/gen/j5/bcl/v1/bcl_j5pb"
	"github.com/pentops/j5/internal/bcl/internal/parser"
	"github.com/pentops/j5/internal/bcl/internal/walker"
	"github.com/pentops/j5/internal/bcl/internal/walker/schema"
	"github.com/pentops/j5/internal/j5s/j5parse"
	"github.com/pentops/j5/lib/j5schema"
	"google.golang.org/protobuf/reflect/protoreflect"
)

// Fail is one violation of a property oracle on the real code.
type Fail struct {
	Sig    string
	Detail string
}

// Result of one op.
type Result struct {
	Line       string
	Fails      []Fail
	Stats      []string
	Nontrivial bool
	// Debug: human-readable detail (error text), printed only by the development tools
	Debug string
}

func (r *Result) fail(sig, format string, args ...any) {
	r.Fails = append(r.Fails, Fail{Sig: sig, Detail: fmt.Sprintf(format, args...)})
}
func (r *Result) count(k string) { r.Stats = append(r.Stats, k) }

// Runner holds the long-lived parsers: like the j5 command, one parser serves many files, so the
// block-spec cache of its SchemaSet and the j5 schema cache of its reflector carry over from op
// to op. A fresh parser per op is run beside it (oracle walker-cache-dependent).
type Runner struct {
	shared *bcl.Parser     // VerifWalk + VerifValidate
	full   *j5parse.Parser // the real entry point, oracle only
	cache  *j5schema.SchemaCache
	// FreshEvery: compare with a freshly built parser on every n-th op (0 = never)
	FreshEvery int
	n          int
}

func NewRunner() (*Runner, error) {
	shared, err := bcl.NewParser(j5parse.J5SchemaSpec)
	if err != nil {
		return nil, err
	}
	full, err := j5parse.NewParser()
	if err != nil {
		return nil, err
	}
	return &Runner{shared: shared, full: full, cache: j5schema.NewSchemaCache(), FreshEvery: 4}, nil
}

type pos struct {
	ok             bool
	l1, c1, l2, c2 int
}

func (p pos) String() string {
	if !p.ok {
		return "nopos"
	}
	return fmt.Sprintf("%d:%d-%d:%d", p.l1, p.c1, p.l2, p.c2)
}

// firstPos: the position of the first *errpos.Err with a non-nil Pos met while unwrapping err
// (errors.Unwrap chain).
func firstPos(err error) pos {
	for e := err; e != nil; e = errors.Unwrap(e) {
		if pe, ok := e.(*errpos.Err); ok && pe != nil && pe.Pos != nil {
			return pos{true, pe.Pos.Start.Line, pe.Pos.Start.Column, pe.Pos.End.Line, pe.Pos.End.Column}
		}
	}
	return pos{}
}

type srcLines struct {
	runeLen []int
}

func newSrcLines(src string) srcLines {
	ls := strings.Split(src, "\n")
	out := make([]int, len(ls))
	for i, l := range ls {
		out[i] = utf8.RuneCountInString(l)
	}
	return srcLines{out}
}

func (s srcLines) pointInside(l, c int) bool {
	return l >= 0 && l < len(s.runeLen) && c >= 0 && c <= s.runeLen[l]
}

// inside: PROTOCOL-bcl.md §2 convention.
func (s srcLines) inside(p pos) bool {
	if !s.pointInside(p.l1, p.c1) || !s.pointInside(p.l2, p.c2) {
		return false
	}
	return p.l1 < p.l2 || (p.l1 == p.l2 && p.c1 <= p.c2)
}

var slugRe = regexp.MustCompile(`[^a-z]+`)

// classify: a coarse class for the statistics only (never part of the result line). Typed errors
// first; the rest by which message site produced it.
func classify(err error) string {
	var wpe *schema.WalkPathError
	if errors.As(err, &wpe) {
		names := map[schema.PathErrorType]string{
			schema.UnknownPathError: "unknown", schema.NodeNotContainer: "not-container", schema.NodeNotScalar: "not-scalar",
			schema.NodeNotScalarArray: "not-scalar-array", schema.NodeNotFound: "node-not-found", schema.RootNotFound: "root-not-found"}
		n, ok := names[wpe.Type]
		if !ok {
			n = strconv.Itoa(int(wpe.Type))
		}
		if wpe.Type == schema.UnknownPathError && wpe.Err != nil {
			n += ":" + msgSlug(wpe.Err.Error())
		}
		return "path." + n
	}
	var bte walker.BadTypeError
	if errors.As(err, &bte) {
		return "badtype." + bte.WantType
	}
	var et *walker.ErrExpectedTag
	if errors.As(err, &et) {
		return "expected-tag." + et.Label
	}
	if errors.Is(err, walker.ErrUnexpectedQualifier) {
		return "unexpected-qualifier"
	}
	if errors.Is(err, walker.ErrUnexpectedTag) {
		return "unexpected-tag"
	}
	var te *parser.TypeError
	if errors.As(err, &te) {
		return "literal-type." + strings.Fields(te.Expected + " x")[0]
	}
	var ne *strconv.NumError
	if errors.As(err, &ne) {
		if errors.Is(ne.Err, strconv.ErrRange) {
			return "literal-range"
		}
		return "literal-syntax"
	}
	msg := err.Error()
	var pe *errpos.Err
	if errors.As(err, &pe) && pe.Err != nil {
		msg = pe.Err.Error()
	}
	return "other." + msgSlug(msg)
}

var msgSites = []struct{ needle, slug string }{
	{"has no field", "no-field"},
	{"no field ", "no-field"},
	{"can not be set", "oneof-conflict"},
	{"is already set", "already-set"},
	{"already exists in map", "map-key-exists"},
	{"enum value", "enum-value"},
	{"unsupported scalar type", "unsupported-scalar"},
	{"no more tags expected", "extra-tags"},
	{"expected exactly one tag", "split-tags"},
	{"not expecting a qualifier", "no-qualifier"},
	{"has no description field", "no-description"},
	{"no description field", "no-description"},
	{"does not support bang", "no-bang"},
	{"does not support question", "no-question"},
	{"unexpected tag mark", "tag-mark"},
	{"needs to be a reference", "needs-reference"},
	{"has no method to set from array", "no-scalar-split"},
	{"requires an array", "split-needs-array"},
	{"more array fields", "split-too-many"},
	{"requires ", "split-too-few"},
	{"cannot append to container", "append-container"},
	{"value already set", "array-already-set"},
	{"not a container", "not-container"},
	{"is not a string", "literal-type"},
	{"is not a boolean", "literal-type"},
	{"is not a int", "literal-type"},
	{"is not a uint", "literal-type"},
	{"is not a float", "literal-type"},
	{"tag value is nil", "tag-nil"},
	{"unsupported array item schema", "array-item"},
	{"empty path", "empty-path"},
}

func msgSlug(m string) string {
	for _, s := range msgSites {
		if strings.Contains(m, s.needle) {
			return s.slug
		}
	}
	w := slugRe.ReplaceAllString(strings.ToLower(m), "-")
	if len(w) > 24 {
		w = w[:24]
	}
	return "x-" + strings.Trim(w, "-")
}

type walkOut struct {
	panicked bool
	panicVal any
	err      error
	msg      protoreflect.Message
	dump     string
	loc      *bcl_j5pb.SourceLocation
}

func (w *walkOut) locMsg() *bcl_j5pb.SourceLocation {
	if w.loc == nil {
		return &bcl_j5pb.SourceLocation{}
	}
	return w.loc
}

// walkWith runs FileStub + VerifWalk on p and dumps the message when the walk succeeds.
func (r *Runner) walkWith(p *bcl.Parser, tree *parser.File, filename string) *walkOut {
	w := &walkOut{}
	w.panicked, w.panicVal = guard(func() {
		w.msg = j5parse.FileStub(filename)
		w.loc, w.err = p.VerifWalk(tree, w.msg)
		if w.err == nil {
			d, err := Dump(r.cache, w.msg)
			if err != nil {
				panic(err) // the printer has no rule for what it met: never expected
			}
			w.dump = d
		}
	})
	return w
}

func guard(f func()) (panicked bool, val any) {
	defer func() {
		if r := recover(); r != nil {
			panicked, val = true, r
		}
	}()
	f()
	return false, nil
}

// Walk runs one `walk` op.
func (r *Runner) Walk(filename, source string) *Result {
	res := &Result{}
	r.n++
	lines := newSrcLines(source)

	// ---- the full entry point, for the oracles only
	var fullMsg protoreflect.Message
	var fullErr error
	fullPanic, fullPanicVal := guard(func() {
		out, err := r.full.ParseFile(filename, source)
		fullErr = err
		if err == nil && out != nil {
			fullMsg = out.ProtoReflect()
		}
	})
	if fullPanic {
		res.count("full.panic")
		res.fail("walker-panic", "j5parse.ParseFile panicked: %v", fullPanicVal)
	}

	// ---- BCL text -> tree (modelled by the bcl.* streams; no detail here)
	var tree *parser.File
	var perr error
	if p, v := guard(func() { tree, perr = parser.ParseFile(source, true) }); p {
		res.count("outcome.panic")
		res.fail("walker-panic", "parser.ParseFile panicked: %v", v)
		res.Line = "panic"
		return res
	}
	if perr != nil {
		res.count("outcome.perr")
		if !fullPanic && fullErr == nil {
			res.fail("walker-full-mismatch", "the BCL parser rejects the text but j5parse.ParseFile succeeds")
		}
		res.Line = "perr"
		return res
	}
	res.Nontrivial = len(tree.Body.Statements) > 0
	res.count(fmt.Sprintf("tree.statements.%s", bucket(len(tree.Body.Statements))))

	// ---- the walk (ParseAST minus validateFile), long-lived parser
	w := r.walkWith(r.shared, tree, filename)
	if w.panicked {
		res.count("outcome.panic")
		res.fail("walker-panic", "walk panicked: %v", w.panicVal)
		res.Line = "panic"
		return res
	}

	// ---- the same with a parser built for this op
	if r.FreshEvery > 0 && r.n%r.FreshEvery == 0 {
		fp, err := bcl.VerifNewWalkParser(j5parse.J5SchemaSpec)
		if err != nil {
			res.fail("walker-cache-dependent", "cannot build a fresh parser: %v", err)
		} else {
			var tree2 *parser.File
			guard(func() { tree2, _ = parser.ParseFile(source, true) })
			if tree2 != nil {
				f := r.walkWith(fp, tree2, filename)
				if f.panicked != w.panicked || (f.err == nil) != (w.err == nil) || f.dump != w.dump ||
					(f.err != nil && firstPos(f.err) != firstPos(w.err)) {
					res.fail("walker-cache-dependent", "long-lived parser: %s ; fresh parser: %s", w.summary(), f.summary())
				}
			}
		}
	}

	if w.err != nil {
		res.count("outcome.err")
		p := firstPos(w.err)
		res.count("err." + classify(w.err))
		if !p.ok {
			res.fail("walker-nopos", "walk error without position: %v", w.err)
		} else if !lines.inside(p) {
			res.fail("walker-pos-outside", "position %s is not inside the file (%d lines): %v", p, len(lines.runeLen), w.err)
		}
		if !fullPanic && fullErr == nil {
			res.fail("walker-full-mismatch", "the walk fails (%v) but j5parse.ParseFile succeeds", w.err)
		}
		res.Line = "err " + p.String()
		res.Debug = fmt.Sprintf("%v [%s] full: %v", w.err, classify(w.err), fullErr)
		return res
	}

	res.count("outcome.ok")
	// validation half on the walked message
	var verr error
	if p, v := guard(func() { verr = r.shared.VerifValidate(w.msg, w.locMsg()) }); p {
		res.count("validate.panic")
		res.fail("walker-panic", "validateFile panicked: %v", v)
	} else if !fullPanic {
		switch {
		case verr == nil && fullErr != nil:
			res.fail("walker-full-mismatch", "walk and validation succeed but j5parse.ParseFile fails: %v", fullErr)
		case verr != nil && fullErr == nil:
			res.fail("walker-full-mismatch", "validation of the walked message fails (%v) but j5parse.ParseFile succeeds", verr)
		case verr == nil:
			res.count("full.ok")
			fd, err := Dump(r.cache, fullMsg)
			if err != nil || fd != w.dump {
				res.fail("walker-full-mismatch", "message of j5parse.ParseFile differs from the walked message: %s vs %s (%v)", fd, w.dump, err)
			}
		default:
			res.count("full.validation-error")
			r.validationPositions(res, fullErr, lines)
		}
	}
	res.Line = "ok " + w.dump
	res.Debug = fmt.Sprintf("full: %v", fullErr) + res.Debug
	return res
}

// validationPositions: the positions protovalidate violations end up with (statistics, and the
// bounds half of the position rule as a separate signature).
func (r *Runner) validationPositions(res *Result, fullErr error, lines srcLines) {
	ews, ok := errpos.AsErrorsWithSource(fullErr)
	if !ok {
		res.count("full.validation-error.untyped")
		return
	}
	for _, e := range ews.Errors {
		if e.Pos == nil {
			res.count("full.valpos.nil")
			continue
		}
		p := pos{true, e.Pos.Start.Line, e.Pos.Start.Column, e.Pos.End.Line, e.Pos.End.Column}
		res.Debug += fmt.Sprintf(" [validation error at %s ctx %v]", p, e.Ctx)
		switch {
		case lines.inside(p):
			res.count("full.valpos.inside")
		case lines.pointInside(p.l1, p.c1) && lines.pointInside(p.l2, p.c2):
			res.count("full.valpos.end-before-start")
		default:
			res.count("full.valpos.outside")
			res.fail("walker-validate-pos-outside", "validation error position %s is not inside the file (%d lines): %v", p, len(lines.runeLen), e)
		}
	}
}

func (w *walkOut) summary() string {
	switch {
	case w.panicked:
		return fmt.Sprintf("panic(%v)", w.panicVal)
	case w.err != nil:
		return fmt.Sprintf("err %s (%v)", firstPos(w.err), w.err)
	}
	return "ok " + w.dump
}

func bucket(n int) string {
	switch {
	case n == 0:
		return "0"
	case n == 1:
		return "1"
	case n <= 4:
		return "2-4"
	case n <= 16:
		return "5-16"
	}
	return "17+"
}
