//go:build verif

package parser

// Verification hooks (overlay only, tag verif; never committed to /repo). They expose, read-only,
// what the harness needs from unexported parts of this package. No behaviour is changed.

// VerifFragments mirrors collectFmtFragments up to (and excluding) the formatter: the fail-fast
// token stream walked fail-fast. ok=false when the lexer or the walker reported errors.
func VerifFragments(input string) (frags []Fragment, ok bool) {
	l := NewLexer(input)
	tokens, ok, err := l.AllTokens(true)
	if err != nil || !ok {
		return nil, false
	}
	ww := &Walker{tokens: tokens, failFast: true}
	fragments, err := ww.walkFragments()
	if err != nil {
		return nil, false
	}
	return fragments, true
}

// VerifValueParts returns the unexported parts of a Value. isArray is `array != nil`, the test the
// formatter uses (valueTokens), not Value.IsArray (which is len > 0).
func VerifValueParts(v Value) (tok Token, arr []Value, isArray bool) {
	return v.token, v.array, v.array != nil
}

// VerifFmtFragments exposes collectFmtFragments (the per-fragment line ranges and new text).
func VerifFmtFragments(input string) ([]FmtDiff, error) {
	return collectFmtFragments(input)
}
