//go:build verif

// compileprobe: development tool. `compileprobe <dir>` loads every file under <dir> as an
// in-memory bundle (paths relative to <dir>), compiles every package with the real compiler and
// prints the generated .proto text (or the error).
package main

import (
	"context"
	"fmt"
	"io/fs"
	"os"
	"path/filepath"
	"sort"

	"github.com/pentops/j5/internal/j5s/protoprint"
	"github.com/pentops/j5/internal/verifh/j5sreal"
)

func main() {
	dir := os.Args[1]
	mb := j5sreal.NewMemBundle()
	var names []string
	_ = filepath.WalkDir(dir, func(p string, d fs.DirEntry, err error) error {
		if err != nil || d.IsDir() {
			return nil
		}
		rel, _ := filepath.Rel(dir, p)
		names = append(names, rel)
		return nil
	})
	sort.Strings(names)
	for _, n := range names {
		b, _ := os.ReadFile(filepath.Join(dir, n))
		mb.Add(n, string(b))
	}
	ps, err := j5sreal.NewPackageSet(mb)
	if err != nil {
		fmt.Println("NewPackageSet:", err)
		os.Exit(1)
	}
	ctx := context.Background()
	for _, pkg := range mb.Packages {
		func() {
			defer func() {
				if r := recover(); r != nil {
					fmt.Printf("=== %s PANIC: %v\n", pkg, r)
				}
			}()
			files, err := ps.CompilePackage(ctx, pkg)
			if err != nil {
				fmt.Printf("=== %s ERROR: %v\n", pkg, err)
				return
			}
			for _, f := range files {
				txt, err := protoprint.PrintFile(ctx, f, "")
				fmt.Printf("=== %s (%s)\n%s\n", f.Path(), pkg, txt)
				if err != nil {
					fmt.Println("print error:", err)
				}
			}
			if len(os.Args) > 2 {
				fmt.Println(j5sreal.SkeletonOfFiles(files))
			}
		}()
	}
}
