//go:build verif

package main

import (
	"fmt"
	"strings"

	"github.com/pentops/j5/internal/verifh/vh"
)

// description texts: what ends up in leading comments and in (j5.ext.v1.*).description strings
var descPool = []string{
	"Plain description", "with \"double quotes\" inside", "back\\slash and 'single'", "ünïcode — 日本語 😀",
	"ends a block comment */ and starts /* one", "// looks like a comment", "trailing spaces   ", "{braces} [brackets] ;semi",
	"a very long description " + strings.Repeat("lorem ipsum ", 12), "x", "tab\there", "percent %d %s",
}

func desc(h *vh.H, indent string) string {
	if h.Chance(1, 4) {
		return ""
	}
	n := 1
	if h.Chance(1, 3) {
		n = 2 + h.Rng.IntN(2)
	}
	var sb strings.Builder
	for i := 0; i < n; i++ {
		fmt.Fprintf(&sb, "%s| %s\n", indent, vh.Pick(h, descPool))
	}
	return sb.String()
}

func inlineDesc(h *vh.H) string {
	if h.Chance(1, 2) {
		return ""
	}
	return " | " + vh.Pick(h, descPool)
}

var tmplFieldTypes = []string{
	"string", "bool", "bytes", "date", "decimal", "timestamp", "any", "integer:INT32", "integer:INT64", "integer:UINT32", "integer:UINT64",
	"float:FLOAT32", "float:FLOAT64", "key", "key:uuid", "key:id62", "array:string", "map:string", "array:integer:INT32",
	"object:Other", "array:object:Other", "oneof:Choice", "enum:Status", "array:enum:Status", "map:enum:Status",
}

var tmplFieldNames = []string{"foo_bar", "fooBar", "name", "item_id", "a_b_c", "x", "value_2", "is_ok", "HTTPCode", "created_at", "tag_list", "userID", "n1", "snake_case_name", "key", "kind"}

// genTemplateJ5s: one package with objects, a oneof, enums, an entity, a service and a topic, a
// description on (almost) every element, snake_case and camelCase field names.
func genTemplateJ5s(h *vh.H) map[string]string {
	pkg := vh.Pick(h, []string{"foo.v1", "tmpl.v1", "a.b.v1", "gen.foo.v2"})
	var sb strings.Builder
	fmt.Fprintf(&sb, "package %s\n\n", pkg)

	fields := func(indent string, n int, kw string) {
		used := map[string]bool{}
		for i := 0; i < n; i++ {
			name := vh.Pick(h, tmplFieldNames)
			lname := strings.ToLower(strings.ReplaceAll(name, "_", ""))
			if used[lname] {
				continue
			}
			used[lname] = true
			typ := vh.Pick(h, tmplFieldTypes)
			if kw == "option" && (strings.HasPrefix(typ, "array") || strings.HasPrefix(typ, "map")) {
				typ = "object:Other"
			}
			req := ""
			if kw == "field" && h.Chance(1, 4) {
				req = vh.Pick(h, []string{"! ", "? "})
			}
			if kw == "option" {
				typ = vh.Pick(h, []string{"object:Other", "object:Thing"})
			}
			if h.Chance(1, 2) {
				fmt.Fprintf(&sb, "%s%s %s %s%s%s\n", indent, kw, name, req, typ, inlineDesc(h))
			} else {
				fmt.Fprintf(&sb, "%s%s %s %s%s {\n%s%s}\n", indent, kw, name, req, typ, desc(h, indent+"  "), indent)
			}
		}
	}

	fmt.Fprintf(&sb, "object Other {\n%s  field other_id string\n}\n\n", desc(h, "  "))
	fmt.Fprintf(&sb, "object Thing {\n%s", desc(h, "  "))
	fields("  ", 2+h.Rng.IntN(8), "field")
	if h.Chance(1, 2) {
		fmt.Fprintf(&sb, "\n  object Nested {\n%s    field deep_field string%s\n  }\n  field nested object {\n    ref.schema = \"Thing.Nested\"\n  }\n", desc(h, "    "), inlineDesc(h))
	}
	sb.WriteString("}\n\n")

	fmt.Fprintf(&sb, "oneof Choice {\n%s", desc(h, "  "))
	fields("  ", 1+h.Rng.IntN(3), "option")
	sb.WriteString("}\n\n")

	fmt.Fprintf(&sb, "enum Status {\n%s", desc(h, "  "))
	for _, o := range []string{"ACTIVE", "INACTIVE", "ON_HOLD"} {
		fmt.Fprintf(&sb, "  option %s%s\n", o, inlineDesc(h))
	}
	sb.WriteString("}\n\n")

	if h.Chance(2, 3) {
		fmt.Fprintf(&sb, "entity Acct {\n%s", desc(h, "  "))
		sb.WriteString("  key acct_id key:id62 {\n    primary = true\n  }\n")
		if h.Chance(1, 2) {
			sb.WriteString("  key tenant_id key:id62 {\n    primary = false\n    tenant = \"tenant\"\n  }\n")
		}
		fmt.Fprintf(&sb, "  data display_name string%s\n", inlineDesc(h))
		if h.Chance(1, 2) {
			sb.WriteString("  data thing_ref object:Thing\n")
		}
		fmt.Fprintf(&sb, "  status ACTIVE%s\n  status CLOSED%s\n", inlineDesc(h), inlineDesc(h))
		fmt.Fprintf(&sb, "  event Create {\n%s    field display_name string\n  }\n", desc(h, "    "))
		fmt.Fprintf(&sb, "  event Close {\n  }\n")
		if h.Chance(1, 2) {
			sb.WriteString("  summary {\n    field display_name string\n  }\n")
		}
		sb.WriteString("}\n\n")
	}

	if h.Chance(2, 3) {
		fmt.Fprintf(&sb, "service Thing {\n  basePath = \"/thing/v1\"\n")
		for i, m := range []string{"GetThing", "ListThings", "UpdateThing"} {
			if i > 0 && h.Chance(1, 2) {
				continue
			}
			verb := vh.Pick(h, []string{"GET", "POST", "PUT", "DELETE", "PATCH"})
			fmt.Fprintf(&sb, "  method %s {\n%s    httpMethod = \"%s\"\n    httpPath = \"/things/:thing_id/%s\"\n    request {\n      field thing_id string\n", m, desc(h, "    "), verb, strings.ToLower(m))
			if verb != "GET" && verb != "DELETE" {
				fields("      ", h.Rng.IntN(3), "field")
			}
			sb.WriteString("    }\n    response {\n")
			fields("      ", 1+h.Rng.IntN(3), "field")
			sb.WriteString("    }\n  }\n")
		}
		sb.WriteString("}\n\n")
	}

	if h.Chance(1, 2) {
		kind := vh.Pick(h, []string{"publish", "upsert"})
		fmt.Fprintf(&sb, "topic Notes %s {\n", kind)
		if kind == "publish" {
			fmt.Fprintf(&sb, "  message Added {\n%s", desc(h, "    "))
			fields("    ", 1+h.Rng.IntN(3), "field")
			sb.WriteString("  }\n")
		} else {
			sb.WriteString("  message {\n")
			fields("    ", 1+h.Rng.IntN(3), "field")
			sb.WriteString("  }\n")
		}
		sb.WriteString("}\n")
	}
	path := strings.ReplaceAll(pkg, ".", "/") + "/tmpl.j5s"
	return map[string]string{path: sb.String()}
}
