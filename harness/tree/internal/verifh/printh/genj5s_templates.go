//go:build verif

package main

import "github.com/pentops/j5/internal/verifh/vh"

func genTemplateJ5s(h *vh.H) map[string]string {
	return map[string]string{"foo/v1/a.j5s": "package foo.v1\n\nobject Foo {\n  | Foo desc\n  field foo_bar string\n}\n"}
}
