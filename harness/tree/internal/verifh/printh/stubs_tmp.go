//go:build verif

package main

import "github.com/pentops/j5/internal/verifh/vh"


type strImpl struct{}
type refImpl struct{}
type optImpl struct{}
type ordImpl struct{}

func (strImpl) Gen(h *vh.H, i int) string    { return "" }
func (strImpl) Exec(h *vh.H, op string) string { return "bad-op" }
func (refImpl) Gen(h *vh.H, i int) string    { return "" }
func (refImpl) Exec(h *vh.H, op string) string { return "bad-op" }
func (optImpl) Gen(h *vh.H, i int) string    { return "" }
func (optImpl) Exec(h *vh.H, op string) string { return "bad-op" }
func (ordImpl) Gen(h *vh.H, i int) string    { return "" }
func (ordImpl) Exec(h *vh.H, op string) string { return "bad-op" }
