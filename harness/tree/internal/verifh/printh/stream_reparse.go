//go:build verif

package main

import (
	"context"
	"fmt"
	"io/fs"
	"os"
	"path/filepath"
	"runtime/debug"
	"sort"
	"strings"
	"sync"

	"github.com/bufbuild/protocompile"
	"github.com/bufbuild/protocompile/linker"
	"github.com/pentops/j5/internal/j5s/protobuild"
	"github.com/pentops/j5/internal/protosrc"
	"github.com/pentops/j5/internal/verifh/vh"
	"google.golang.org/protobuf/reflect/protoreflect"
	"google.golang.org/protobuf/reflect/protoregistry"
	"google.golang.org/protobuf/types/descriptorpb"
)

// ---------------------------------------------------------------- repository .proto files

type repoProtos struct {
	once  sync.Once
	err   error
	roots []string          // bundle roots, relative to the repo ("proto/j5", ...)
	files []string          // "proto/j5/j5/ext/v1/annotations.proto"
	j5s   []string          // .j5s sources in the repo, relative
	comp  map[string]linker.File // import path -> compiled
	rel   map[string]string // repo-relative path -> import path
	res   protocompile.Resolver
}

var repo repoProtos

func (r *repoProtos) load() error {
	r.once.Do(func() {
		root := repoRoot()
		r.rel = map[string]string{}
		// bundle roots: directories under proto/ and j5stest/proto that carry a j5 config
		var roots []string
		for _, base := range []string{"proto", "j5stest"} {
			_ = filepath.WalkDir(filepath.Join(root, base), func(p string, d fs.DirEntry, err error) error {
				if err != nil || d.IsDir() {
					return nil
				}
				switch d.Name() {
				case "j5.yaml", "j5.bundle.yaml":
					rel, _ := filepath.Rel(root, filepath.Dir(p))
					if rel != "j5stest" { // repo-level config of the j5stest module, not a bundle root
						roots = append(roots, rel)
					}
				}
				return nil
			})
		}
		sort.Strings(roots)
		r.roots = roots
		var resolvers protocompile.CompositeResolver
		byRoot := map[string][]string{}
		for _, br := range roots {
			dir := filepath.Join(root, br)
			resolvers = append(resolvers, protosrc.NewFSResolver(os.DirFS(dir)))
			_ = filepath.WalkDir(dir, func(p string, d fs.DirEntry, err error) error {
				if err != nil || d.IsDir() {
					return nil
				}
				rel, _ := filepath.Rel(root, p)
				imp, _ := filepath.Rel(dir, p)
				switch {
				case strings.HasSuffix(p, ".proto"):
					r.files = append(r.files, rel)
					r.rel[rel] = imp
					byRoot[br] = append(byRoot[br], imp)
				case strings.HasSuffix(p, ".j5s"):
					r.j5s = append(r.j5s, rel)
				}
				return nil
			})
		}
		sort.Strings(r.files)
		sort.Strings(r.j5s)
		resolvers = append(resolvers, protosrc.BuiltinResolver)
		r.res = resolvers
		r.comp = map[string]linker.File{}
	})
	return r.err
}

// compile one repository file (import path) the way protosrc.Compiler does.
func (r *repoProtos) compile(imp string) (linker.File, error) {
	if f, ok := r.comp[imp]; ok {
		return f, nil
	}
	cc := protosrc.NewCompiler(r.res)
	files, err := cc.CompileToLinkers(context.Background(), []string{imp})
	if err != nil {
		return nil, err
	}
	r.comp[imp] = files[0]
	return files[0], nil
}

// ---------------------------------------------------------------- j5s packages

type memFiles struct {
	pkgs  []string
	files map[string][]byte
}

func (f *memFiles) ListPackages() []string { return f.pkgs }
func (f *memFiles) ListSourceFiles(ctx context.Context, prefix string) ([]string, error) {
	var out []string
	for k := range f.files {
		if strings.HasPrefix(k, prefix) {
			out = append(out, k)
		}
	}
	sort.Strings(out)
	return out, nil
}
func (f *memFiles) GetLocalFile(ctx context.Context, fn string) ([]byte, error) {
	if b, ok := f.files[fn]; ok {
		return b, nil
	}
	return nil, fmt.Errorf("no local file %s", fn)
}

type noDeps struct{}

func (noDeps) ListDependencyFiles(root string) []string { return nil }
func (noDeps) GetDependencyFile(fn string) (*descriptorpb.FileDescriptorProto, error) {
	return nil, fmt.Errorf("no dependency file %s", fn)
}

// compileJ5s compiles an in-memory bundle exactly as `j5 j5s genproto` does
// (protobuild.NewPackageSet + CompilePackage) and returns the .j5s.proto files.
func compileJ5s(files map[string][]byte) (out []linker.File, err error) {
	defer func() {
		if r := recover(); r != nil {
			err = fmt.Errorf("compiler panic: %v", r)
			if os.Getenv("PRINT_DEBUG") == "2" {
				fmt.Fprintf(os.Stderr, "%s\n", debug.Stack())
			}
		}
	}()
	pkgSet := map[string]bool{}
	for fn := range files {
		pkgSet[strings.ReplaceAll(filepath.Dir(fn), "/", ".")] = true
	}
	mf := &memFiles{files: files}
	for p := range pkgSet {
		mf.pkgs = append(mf.pkgs, p)
	}
	sort.Strings(mf.pkgs)
	ps, err := protobuild.NewPackageSet(noDeps{}, mf)
	if err != nil {
		return nil, err
	}
	for _, pkg := range mf.pkgs {
		fs, err := ps.CompilePackage(context.Background(), pkg)
		if err != nil {
			return nil, err
		}
		for _, f := range fs {
			if strings.HasSuffix(f.Path(), ".j5s.proto") {
				out = append(out, f)
			}
		}
	}
	sort.Slice(out, func(i, j int) bool { return out[i].Path() < out[j].Path() })
	return out, nil
}

// ---------------------------------------------------------------- the stream

type reparseImpl struct {
	queue []string
}

func (r *reparseImpl) Gen(h *vh.H, i int) string {
	if i == 0 {
		if err := repo.load(); err != nil {
			fmt.Fprintln(os.Stderr, "repo load:", err)
			os.Exit(2)
		}
		// every shard takes a quarter of the repository files (shard seeds are consecutive,
		// the engine runs >= 4 shards), so that each file is seen in every run.
		for j, f := range repo.files {
			if uint64(j)%4 == h.Seed%4 {
				r.queue = append(r.queue, "proto "+f)
			}
		}
		for j, f := range repo.j5s {
			if uint64(j)%4 == h.Seed%4 {
				r.queue = append(r.queue, "j5sfile "+f)
			}
		}
	}
	if len(r.queue) > 0 {
		op := r.queue[0]
		r.queue = r.queue[1:]
		return op
	}
	switch h.Rng.IntN(10) {
	case 0, 1, 2, 3:
		return genJ5sOp(h)
	default:
		return genFdpOp(h)
	}
}

func (r *reparseImpl) report(h *vh.H, op, origin string, results []reparseResult) string {
	var parts []string
	for _, res := range results {
		h.Count("file." + origin + "." + res.status)
		for _, f := range res.f.list {
			h.Fail(f.sig, op, f.detail)
			h.Count("sig." + f.sig)
		}
		switch res.status {
		case "ok":
			parts = append(parts, "ok")
		case "print-err":
			parts = append(parts, "print-err")
		default:
			parts = append(parts, "fail:"+strings.Join(res.f.sigs(), ","))
		}
		if os.Getenv("PRINT_DEBUG") != "" {
			fmt.Fprintf(os.Stderr, "---- %s [%s]\n%s\n", op[:min(len(op), 80)], res.status, res.text)
			for _, f := range res.f.list {
				fmt.Fprintf(os.Stderr, "  !! %s: %s\n", f.sig, f.detail)
			}
		}
	}
	return strings.Join(parts, " ")
}

// descriptorsOf runs the input part of an op (`proto` / `j5sfile` / `j5s` / `src` / `fdp`) and returns
// the descriptors to print; skip != "" when the input itself is unusable (result word of the op).
func descriptorsOf(h *vh.H, f []string) (fds []protoreflect.FileDescriptor, origin string, skip string) {
	switch f[0] {
	case "proto":
		if len(f) != 2 {
			return nil, "", "bad-op"
		}
		if err := repo.load(); err != nil {
			return nil, "", "bad-op"
		}
		imp, ok := repo.rel[f[1]]
		if !ok {
			return nil, "", "bad-op"
		}
		fd, err := repo.compile(imp)
		if err != nil {
			h.Count("file.proto.original-does-not-compile")
			return nil, "", "skip-uncompilable"
		}
		return []protoreflect.FileDescriptor{fd}, "proto", ""

	case "j5sfile", "j5s":
		files := map[string][]byte{}
		if f[0] == "j5sfile" {
			if len(f) != 2 {
				return nil, "", "bad-op"
			}
			if err := repo.load(); err != nil {
				return nil, "", "bad-op"
			}
			b, err := os.ReadFile(filepath.Join(repoRoot(), f[1]))
			if err != nil {
				return nil, "", "bad-op"
			}
			// import path = path below the bundle root
			imp := f[1]
			for _, br := range repo.roots {
				if strings.HasPrefix(f[1], br+"/") {
					imp = strings.TrimPrefix(f[1], br+"/")
				}
			}
			files[imp] = b
		} else {
			// j5s <path>=<hex> ...
			for _, kv := range f[1:] {
				i := strings.IndexByte(kv, '=')
				if i < 0 {
					return nil, "", "bad-op"
				}
				b, ok := vh.UnHex(kv[i+1:])
				if !ok {
					return nil, "", "bad-op"
				}
				files[kv[:i]] = b
			}
		}
		out, err := compileJ5s(files)
		if err != nil {
			h.Count("file.j5s.source-does-not-compile")
			if os.Getenv("PRINT_DEBUG") != "" {
				fmt.Fprintf(os.Stderr, "---- j5s compile error: %v\n", err)
				for k, v := range files {
					fmt.Fprintf(os.Stderr, "## %s\n%s\n", k, v)
				}
			}
			return nil, "", "skip-uncompilable"
		}
		for _, fd := range out {
			fds = append(fds, fd)
		}
		return fds, "j5s", ""

	case "src":
		// src <import path> <hex proto source>: a hand-written proto file, imports from the built-in registry
		if len(f) != 3 {
			return nil, "", "bad-op"
		}
		b, ok := vh.UnHex(f[2])
		if !ok {
			return nil, "", "bad-op"
		}
		fd, err := compileText(f[1], string(b), protosrc.BuiltinResolver)
		if err != nil {
			h.Count("file.src.original-does-not-compile")
			if os.Getenv("PRINT_DEBUG") != "" {
				fmt.Fprintf(os.Stderr, "---- src does not compile: %v\n", err)
			}
			return nil, "", "skip-uncompilable"
		}
		return []protoreflect.FileDescriptor{fd}, "src", ""

	case "fdp":
		// fdp <hex FileDescriptorProto dep>* <hex FileDescriptorProto main>; imports beyond the
		// listed files come from the Go registry (descriptor.proto, google/api, j5 annotations, ...)
		if len(f) < 2 {
			return nil, "", "bad-op"
		}
		reg := &protoregistry.Files{}
		var last protoreflect.FileDescriptor
		for _, hx := range f[1:] {
			b, ok := vh.UnHex(hx)
			if !ok {
				return nil, "", "bad-op"
			}
			fd, err := typedFile(b, reg)
			if err != nil {
				h.Count("file.fdp.invalid-descriptor")
				if os.Getenv("PRINT_DEBUG") != "" {
					fmt.Fprintf(os.Stderr, "---- fdp invalid: %v\n", err)
				}
				return nil, "", "skip-invalid"
			}
			if err := reg.RegisterFile(fd); err != nil {
				return nil, "", "skip-invalid"
			}
			last = fd
		}
		return []protoreflect.FileDescriptor{last}, "fdp", ""
	}
	return nil, "", "bad-op"
}

func (r *reparseImpl) Exec(h *vh.H, op string) string {
	f := strings.Split(op, " ")
	stats := func(k string) { h.Count(k) }
	fds, origin, skip := descriptorsOf(h, f)
	if skip != "" {
		return skip
	}
	var results []reparseResult
	nontrivial := origin == "j5s" || origin == "src"
	for _, fd := range fds {
		res := reparseFile(fd, nil, stats)
		if res.status != "print-err" {
			nontrivial = true
		}
		results = append(results, res)
	}
	if nontrivial {
		h.Nontrivial(op)
	}
	return r.report(h, op, origin, results)
}

// fallbackResolver looks in the op's own files first, then in the Go global registry.
type fallbackResolver struct{ local *protoregistry.Files }

func (r fallbackResolver) FindFileByPath(p string) (protoreflect.FileDescriptor, error) {
	if fd, err := r.local.FindFileByPath(p); err == nil {
		return fd, nil
	}
	return protoregistry.GlobalFiles.FindFileByPath(p)
}

func (r fallbackResolver) FindDescriptorByName(n protoreflect.FullName) (protoreflect.Descriptor, error) {
	if d, err := r.local.FindDescriptorByName(n); err == nil {
		return d, nil
	}
	return protoregistry.GlobalFiles.FindDescriptorByName(n)
}
