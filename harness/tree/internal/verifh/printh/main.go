//go:build verif

// printh: correspondence + property oracle for internal/j5s/protoprint (property C05).
//
// One binary, several streams selected by the environment variable PRINT_STREAM:
//
//	reparse  whole-file oracle (print -> protocompile -> compare -> print again); no model side
//	str      prototextString on arbitrary byte strings           <-> J5V.Print.TextString
//	ref      contextRefName / pathToPackage on scope configs      <-> J5V.Print.RefName
//	opt      option value tree -> text-format literal            <-> J5V.Print.OptionText
//	ord      sourceElements.Less / sort, option sort              <-> J5V.Print.Order
//	file     the whole PrintFile on descriptor summaries          <-> J5V.Print.Layout (+ Grammar)
//
// See /verif/harness/PROTOCOL-print.md for the line protocol.
package main

import (
	"os"

	"github.com/pentops/j5/internal/verifh/vh"
)

func repoRoot() string {
	if r := os.Getenv("PRINT_REPO"); r != "" {
		return r
	}
	if r := os.Getenv("VERIF_REPO"); r != "" {
		return r
	}
	return "/repo"
}

func main() {
	switch os.Getenv("PRINT_STREAM") {
	case "str":
		vh.Main("print.str", strImpl{})
	case "ref":
		vh.Main("print.ref", refImpl{})
	case "opt":
		vh.Main("print.opt", optImpl{})
	case "ord":
		vh.Main("print.ord", ordImpl{})
	case "file":
		extraCommentShapes = true
		vh.Main("print.file", &fileImpl{})
	default:
		vh.Main("print.reparse", &reparseImpl{})
	}
}
