//go:build verif

package main

// Kernel correspondence streams: the unexported helpers of protoprint (reached through the overlay
// hook files) against the Lean functions of J5V.Print.*; each op also runs the third-party reader
// (protocompile lexer / linker) so that the Lean reader specs are validated against it.

import (
	"bytes"
	"fmt"
	"math"
	"sort"
	"strconv"
	"strings"

	"github.com/bufbuild/protocompile/ast"
	"github.com/bufbuild/protocompile/linker"
	"github.com/bufbuild/protocompile/parser"
	"github.com/bufbuild/protocompile/reporter"
	"github.com/pentops/j5/internal/j5s/protoprint"
	"github.com/pentops/j5/internal/j5s/protoprint/optionreflect"
	"github.com/pentops/j5/internal/verifh/vh"
	"google.golang.org/protobuf/proto"
	"google.golang.org/protobuf/reflect/protodesc"
	"google.golang.org/protobuf/reflect/protoreflect"
	"google.golang.org/protobuf/reflect/protoregistry"
	"google.golang.org/protobuf/types/descriptorpb"
)

// ---------------------------------------------------------------- print.str

type strImpl struct{}

var runePool = []rune{0x80, 0xff, 0x100, 0x7ff, 0x800, 0xfffd, 0xffff, 0x10000, 0x10ffff, 0xd7ff, 0xe000, 'é', '日', '😀', 0x9f, 0xa0}

func genBytes(h *vh.H) []byte {
	n := h.Rng.IntN(16)
	if h.Chance(1, 10) {
		n = 16 + h.Rng.IntN(40)
	}
	var b []byte
	for i := 0; i < n; i++ {
		switch h.Rng.IntN(12) {
		case 0, 1, 2: // printable ASCII
			b = append(b, byte(32+h.Rng.IntN(95)))
		case 3: // control
			b = append(b, byte(1+h.Rng.IntN(31)))
		case 4: // the specials
			b = append(b, vh.Pick(h, []byte{'"', '\\', '\'', 0x7f, '\n', '\r', '\t', '?', 'x', 'u', 'U', '0'}))
		case 5, 6: // well-formed multi-byte
			if h.Chance(1, 2) {
				b = append(b, string(vh.Pick(h, runePool))...)
			} else {
				r := rune(h.Rng.IntN(0x110000))
				if r >= 0xd800 && r <= 0xdfff {
					r = 0x1f600
				}
				b = append(b, string(r)...)
			}
		case 7: // ill-formed: lone continuation, overlong, surrogate, truncated, > U+10FFFF
			b = append(b, vh.Pick(h, [][]byte{{0x80}, {0xbf}, {0xc0, 0x80}, {0xc1, 0xbf}, {0xed, 0xa0, 0x80}, {0xe2, 0x82}, {0xf0, 0x9f, 0x98},
				{0xf4, 0x90, 0x80, 0x80}, {0xf5, 0x80, 0x80, 0x80}, {0xff}, {0xfe}, {0xe0, 0x80, 0x80}, {0xf0, 0x80, 0x80, 0x80}, {0xc2}, {0xef, 0xbf}})...)
		case 8: // arbitrary byte
			b = append(b, byte(1+h.Rng.IntN(255)))
		case 9:
			if h.Chance(1, 6) {
				b = append(b, 0)
			} else {
				b = append(b, byte('a'+h.Rng.IntN(26)))
			}
		default:
			b = append(b, byte('a'+h.Rng.IntN(26)))
		}
	}
	return b
}

// literal bodies for the reader spec: escapes of every kind, well- and ill-formed
func genLiteral(h *vh.H) []byte {
	var b []byte
	b = append(b, '"')
	n := h.Rng.IntN(10)
	hexd := "0123456789abcdefABCDEF"
	for i := 0; i < n; i++ {
		switch h.Rng.IntN(14) {
		case 0:
			b = append(b, '\\', vh.Pick(h, []byte("abfnrtv\\'\"?")))
		case 1: // \x with 1..3 hex digits
			b = append(b, '\\', vh.Pick(h, []byte("xX")))
			for k := 1 + h.Rng.IntN(3); k > 0; k-- {
				b = append(b, hexd[h.Rng.IntN(len(hexd))])
			}
		case 2: // octal 1..4 digits
			b = append(b, '\\')
			for k := 1 + h.Rng.IntN(4); k > 0; k-- {
				b = append(b, byte('0'+h.Rng.IntN(8)))
			}
		case 3: // \u
			b = append(b, '\\', 'u')
			for k := vh.Pick(h, []int{4, 4, 4, 3, 5}); k > 0; k-- {
				b = append(b, hexd[h.Rng.IntN(len(hexd))])
			}
		case 4: // \U
			b = append(b, '\\', 'U')
			b = append(b, vh.Pick(h, []string{"0000", "0001", "0010", "0011", "00"})...)
			for k := vh.Pick(h, []int{4, 4, 4, 3}); k > 0; k-- {
				b = append(b, hexd[h.Rng.IntN(len(hexd))])
			}
		case 5: // bad escape
			b = append(b, '\\', vh.Pick(h, []byte("cdegz89 ")))
		case 6: // raw multi-byte / ill-formed byte
			if h.Chance(2, 3) {
				b = append(b, string(vh.Pick(h, runePool))...)
			} else {
				b = append(b, vh.Pick(h, []byte{0x80, 0xff, 0xc0, 0xe2}))
			}
		case 7: // raw control
			b = append(b, vh.Pick(h, []byte{0, 1, 9, 10, 13, 0x7f}))
		case 8: // escape cut short by the end
			if i == n-1 {
				b = append(b, '\\', vh.Pick(h, []byte("xuU0")))
			}
		default:
			b = append(b, byte('a'+h.Rng.IntN(26)))
		}
	}
	if !h.Chance(1, 15) {
		b = append(b, '"')
	}
	return b
}

func (strImpl) Gen(h *vh.H, i int) string {
	if i%4 == 3 {
		return "lit " + vh.Hex(genLiteral(h))
	}
	if i%8 == 1 {
		return genNumOp(h)
	}
	return "str " + vh.Hex(genBytes(h))
}

// numeric scalars of option values: integers through the model, floats by oracle text
func genNumOp(h *vh.H) string {
	switch h.Rng.IntN(5) {
	case 0:
		v := vh.Pick(h, []int64{0, 1, -1, 9, 10, -10, 99, 100, math.MaxInt32, math.MinInt32, math.MaxInt64, math.MinInt64, 1 << 53, int64(h.Rng.Uint64()), int64(h.Rng.Int32()), int64(h.Rng.IntN(1000)) - 500})
		return fmt.Sprintf("int %d", v)
	case 1:
		v := vh.Pick(h, []uint64{0, 1, 9, 10, 1 << 32, math.MaxUint32, math.MaxUint64, 1 << 63, h.Rng.Uint64(), uint64(h.Rng.Uint32())})
		return fmt.Sprintf("uint %d", v)
	case 2:
		// integer literal forms for the reader spec: decimal, octal, hex, signs, malformed
		forms := []string{"0", "00", "07", "017", "08", "0x1F", "0X1f", "0x", "0xG", "1.5", "1e5", "12a", "-0", "-017", "-0x10", "--1", "-", "1_000",
			fmt.Sprint(h.Rng.Uint32()), "0" + strconv.FormatUint(uint64(h.Rng.Uint32()), 8), "0x" + strconv.FormatUint(h.Rng.Uint64(), 16), "-" + fmt.Sprint(h.Rng.Uint32()),
			"18446744073709551615", "-9223372036854775808", "0777777777777777777777", "0xffffffffffffffff"}
		return "numlit " + vh.Hex([]byte(vh.Pick(h, forms)))
	case 3:
		v := vh.Pick(h, []float32{0, 1, -1.5, math.MaxFloat32, math.SmallestNonzeroFloat32, 0.1, float32(math.Inf(1)), float32(math.Inf(-1)), float32(math.NaN()), 1e10, 16777216, -0.0, math.Float32frombits(h.Rng.Uint32())})
		return completeFlt(fmt.Sprintf("flt 32 %08x", math.Float32bits(v)))
	default:
		v := vh.Pick(h, []float64{0, 1, -1.5, math.MaxFloat64, math.SmallestNonzeroFloat64, 0.1, math.Inf(1), math.Inf(-1), math.NaN(), 1e21, 1e-7, 123456789012345680, 1e20, 100000, math.Float64frombits(h.Rng.Uint64())})
		return completeFlt(fmt.Sprintf("flt 64 %016x", math.Float64bits(v)))
	}
}

// fltText: the text the real marshalSingular writes for the float with these bits
func fltText(size, hexbits string) (text string, want float64, ok bool) {
	bits, err := strconv.ParseUint(hexbits, 16, 64)
	if err != nil {
		return "", 0, false
	}
	if size == "32" {
		want = float64(math.Float32frombits(uint32(bits)))
		text, ok = optionreflect.VerifMarshalSingular(protoreflect.FloatKind, protoreflect.ValueOfFloat32(math.Float32frombits(uint32(bits))))
		return
	}
	want = math.Float64frombits(bits)
	text, ok = optionreflect.VerifMarshalSingular(protoreflect.DoubleKind, protoreflect.ValueOfFloat64(want))
	return
}

// completeFlt appends the oracle text (for the model, which does not format floats) to `flt <size> <bits>`.
func completeFlt(op string) string {
	f := strings.Split(op, " ")
	text, _, ok := fltText(f[1], f[2])
	if !ok {
		return ""
	}
	return strings.Join(f[:3], " ") + " " + vh.Hex([]byte(text))
}

// readValue parses `option x = <text>;` with protocompile and returns the value node.
func readValue(text string) (ast.ValueNode, bool) {
	src := "syntax = \"proto3\";\noption x = " + text + ";\n"
	var failed bool
	hd := reporter.NewHandler(reporter.NewReporter(func(reporter.ErrorWithPos) error { failed = true; return nil }, nil))
	f, err := parser.Parse("s.proto", strings.NewReader(src), hd)
	if err != nil || failed || f == nil {
		return nil, false
	}
	var opts []*ast.OptionNode
	for _, d := range f.Decls {
		if o, ok := d.(*ast.OptionNode); ok {
			opts = append(opts, o)
		} else {
			return nil, false
		}
	}
	if len(opts) != 1 {
		return nil, false
	}
	return opts[0].Val, true
}

// intClass: `int:<decimal>` when the text is read as an integer literal, else `other`.
func intClass(text string) string {
	v, ok := readValue(text)
	if !ok {
		return "other"
	}
	switch n := v.(type) {
	case *ast.UintLiteralNode:
		return "int:" + strconv.FormatUint(n.Val, 10)
	case *ast.NegativeIntLiteralNode:
		return "int:" + strconv.FormatInt(n.Val, 10)
	}
	return "other"
}

// tokenShape: how the text of a float is tokenised: `num`, `- num`, `ident`, `- ident`.
func tokenShape(text string) (shape string, val float64, ok bool) {
	v, ok := readValue(text)
	if !ok {
		return "err", 0, false
	}
	switch n := v.(type) {
	case *ast.UintLiteralNode:
		return "num", float64(n.Val), true
	case *ast.NegativeIntLiteralNode:
		return "- num", float64(n.Val), true
	case *ast.FloatLiteralNode:
		return "num", n.Val, true
	case *ast.SignedFloatLiteralNode:
		if _, special := n.Float.(*ast.SpecialFloatLiteralNode); special {
			return "- ident", n.Val, true
		}
		return "- num", n.Val, true
	case *ast.SpecialFloatLiteralNode:
		return "ident", n.Val, true
	case *ast.IdentNode:
		switch n.Val {
		case "inf":
			return "ident", math.Inf(1), true
		case "nan":
			return "ident", math.NaN(), true
		}
	}
	return "other", 0, false
}

func execNumOp(h *vh.H, op string, f []string) string {
	switch f[0] {
	case "int", "uint":
		if len(f) != 2 {
			return "bad-op"
		}
		var text string
		var okm bool
		if f[0] == "int" {
			v, err := strconv.ParseInt(f[1], 10, 64)
			if err != nil {
				return "bad-op"
			}
			text, okm = optionreflect.VerifMarshalSingular(vh.Pick(h, []protoreflect.Kind{protoreflect.Int64Kind, protoreflect.Sint64Kind, protoreflect.Sfixed64Kind, protoreflect.Int32Kind}), protoreflect.ValueOfInt64(v))
		} else {
			v, err := strconv.ParseUint(f[1], 10, 64)
			if err != nil {
				return "bad-op"
			}
			text, okm = optionreflect.VerifMarshalSingular(vh.Pick(h, []protoreflect.Kind{protoreflect.Uint64Kind, protoreflect.Fixed64Kind, protoreflect.Uint32Kind}), protoreflect.ValueOfUint64(v))
		}
		if !okm {
			return "err"
		}
		back := intClass(text)
		// the property on the real code: the text reads back as the number it was made from
		if back == "int:"+f[1] {
			h.Count("num.int-roundtrip-ok")
			h.Nontrivial(op)
		} else {
			h.Fail("int-option-roundtrip", op, fmt.Sprintf("text %q read back as %s", text, back))
		}
		return vh.Hex([]byte(text)) + " " + back
	case "numlit":
		if len(f) != 2 {
			return "bad-op"
		}
		b, ok := vh.UnHex(f[1])
		if !ok {
			return "bad-op"
		}
		c := intClass(string(b))
		h.Count("num.lit-" + strings.SplitN(c, ":", 2)[0])
		h.Nontrivial(op)
		return c
	case "flt":
		if len(f) != 4 || completeFlt(strings.Join(f[:3], " ")) != op {
			return "bad-op"
		}
		text, want, _ := fltText(f[1], f[2])
		shape, got, ok := tokenShape(text)
		same := ok && (got == want || (math.IsNaN(got) && math.IsNaN(want)))
		if ok && f[1] == "32" {
			same = float32(got) == float32(want) || (math.IsNaN(got) && math.IsNaN(want))
		}
		if same {
			h.Count("num.float-roundtrip-ok")
			h.Nontrivial(op)
		} else {
			h.Fail("float-option-roundtrip", op, fmt.Sprintf("text %q read back as %v (%s), want %v", text, got, shape, want))
		}
		return vh.Hex([]byte(text)) + " " + shape
	}
	return "bad-op"
}

// lexRead reads one string literal with protocompile's lexer/parser: the text is the whole value of
// a single option statement. ok=false when it is rejected or is not exactly one literal.
func lexRead(lit string) (string, bool) {
	// a sign directly after an escape introducer is accepted by strconv.ParseInt inside the lexer;
	// the generators never produce one
	src := "syntax = \"proto3\";\noption x = " + lit + ";\n"
	var failed bool
	h := reporter.NewHandler(reporter.NewReporter(func(reporter.ErrorWithPos) error { failed = true; return nil }, nil))
	f, err := parser.Parse("s.proto", strings.NewReader(src), h)
	if err != nil || failed || f == nil {
		return "", false
	}
	var opts []*ast.OptionNode
	for _, d := range f.Decls {
		if o, ok := d.(*ast.OptionNode); ok {
			opts = append(opts, o)
		} else if _, ok := d.(*ast.EmptyDeclNode); ok {
			return "", false
		} else {
			return "", false
		}
	}
	if len(opts) != 1 {
		return "", false
	}
	s, ok := opts[0].Val.(*ast.StringLiteralNode)
	if !ok {
		return "", false
	}
	// the literal must span the whole text we supplied (no comment or whitespace games)
	info := f.NodeInfo(s)
	if info.RawText() != lit {
		return "", false
	}
	return s.AsString(), true
}

func (strImpl) Exec(h *vh.H, op string) string {
	f := strings.Split(op, " ")
	switch f[0] {
	case "int", "uint", "numlit", "flt":
		return execNumOp(h, op, f)
	}
	if len(f) != 2 {
		return "bad-op"
	}
	b, ok := vh.UnHex(f[1])
	if !ok {
		return "bad-op"
	}
	switch f[0] {
	case "str":
		lit := optionreflect.VerifPrototextString(string(b))
		back, ok := lexRead(lit)
		res := "err"
		if ok {
			res = vh.Hex([]byte(back))
		}
		// the property on the real code: the literal reads back as the bytes it was made from
		switch {
		case ok && back == string(b):
			h.Count("str.roundtrip-ok")
			h.Nontrivial(op)
		case bytes.IndexByte(b, 0) >= 0:
			h.Count("str.nul")
			h.Fail("string-option-nul", op, fmt.Sprintf("literal %q is rejected / read back as %q", lit, back))
		default:
			h.Fail("string-literal-roundtrip", op, fmt.Sprintf("literal %q read back as %q (ok=%v)", lit, back, ok))
		}
		if len(lit) > len(b)+2 {
			h.Count("str.has-escape")
		}
		return vh.Hex([]byte(lit)) + " " + res
	case "lit":
		back, ok := lexRead(string(b))
		if ok {
			h.Count("lit.accepted")
			h.Nontrivial(op)
			return vh.Hex([]byte(back))
		}
		h.Count("lit.rejected")
		return "err"
	}
	return "bad-op"
}

// ---------------------------------------------------------------- print.ref

type refImpl struct{}

type rsym struct {
	kind string // m e s l
	path []string
}

var refNames = []string{"A", "B", "C", "D", "E", "F"}
var refPkgs = [][]string{{}, {"p"}, {"a", "b"}, {"b", "c"}, {"a"}, {"b"}, {"A"}, {"c", "a", "b"}, {"gen", "v1"}}

func dot(p []string) string {
	if len(p) == 0 {
		return "-"
	}
	return strings.Join(p, ".")
}

func undotGo(s string) []string {
	if s == "-" {
		return nil
	}
	return strings.Split(s, ".")
}

func (refImpl) Gen(h *vh.H, i int) string {
	pkg := vh.Pick(h, refPkgs)
	var syms []rsym
	var types []rsym // messages and enums below pkg (relative paths)
	var msgs []rsym
	var grow func(prefix []string, depth int)
	grow = func(prefix []string, depth int) {
		n := 1 + h.Rng.IntN(3)
		if depth == 0 {
			n = 1 + h.Rng.IntN(5)
		}
		used := map[string]bool{}
		for k := 0; k < n && len(used) < 6; k++ {
			name := vh.Pick(h, refNames)
			if used[name] {
				continue
			}
			used[name] = true
			p := append(append([]string{}, prefix...), name)
			r := h.Rng.IntN(10)
			switch {
			case r < 6 || depth == 0 && r < 8:
				syms = append(syms, rsym{"m", p})
				types = append(types, rsym{"m", p})
				msgs = append(msgs, rsym{"m", p})
				if depth < 3 && h.Chance(2, 3) {
					grow(p, depth+1)
				}
			case r < 8:
				syms = append(syms, rsym{"e", p})
				types = append(types, rsym{"e", p})
			default:
				if depth > 0 {
					syms = append(syms, rsym{"l", p}) // a field with a type-like name
				}
			}
		}
	}
	grow(nil, 0)
	if len(msgs) == 0 {
		syms = append(syms, rsym{"m", []string{"A"}})
		msgs = append(msgs, rsym{"m", []string{"A"}})
		types = append(types, rsym{"m", []string{"A"}})
	}
	only := "1"
	ctx := vh.Pick(h, msgs).path
	// service context (method request/response types)
	if h.Chance(1, 6) {
		sname := vh.Pick(h, []string{"S", "A", "B"})
		clash := false
		for _, s := range syms {
			if len(s.path) == 1 && s.path[0] == sname {
				clash = true
			}
		}
		if !clash {
			syms = append(syms, rsym{"s", []string{sname}})
			nm := h.Rng.IntN(3)
			seen := map[string]bool{}
			for k := 0; k < nm; k++ {
				mn := vh.Pick(h, refNames)
				if !seen[mn] {
					seen[mn] = true
					syms = append(syms, rsym{"l", []string{sname, mn}})
				}
			}
			ctx = []string{sname}
			only = "0"
		}
	}
	tpkg := pkg
	var tgt []string
	if h.Chance(1, 4) {
		// a target in another package: a chain of messages there
		for {
			tpkg = vh.Pick(h, refPkgs)
			if dot(tpkg) != dot(pkg) {
				break
			}
		}
		d := 1 + h.Rng.IntN(3)
		for k := 0; k < d; k++ {
			tgt = append(tgt, vh.Pick(h, refNames))
		}
	} else {
		cands := types
		if only == "0" {
			cands = msgs
		}
		tgt = vh.Pick(h, cands).path
	}
	// full paths on the wire
	var ss []string
	for _, s := range syms {
		ss = append(ss, s.kind+":"+dot(append(append([]string{}, pkg...), s.path...)))
	}
	pkgs := dot(pkg)
	allPkgs := [][]string{pkg, tpkg}
	if dot(tpkg) != dot(pkg) {
		for k := 1; k <= len(tgt); k++ {
			ss = append(ss, "m:"+dot(append(append([]string{}, tpkg...), tgt[:k]...)))
		}
		pkgs += "," + dot(tpkg)
		// a third file, imported by the first: a SIBLING package `<parent of pkg>.<first component of tpkg>[.v1]`
		// (its namespace captures the relative name of the target unless the printer writes the leading dot)
		if len(pkg) >= 1 && len(tpkg) >= 1 && h.Chance(1, 3) {
			k := h.Rng.IntN(len(pkg)) + 1 // parent prefix pkg[:k-1] .. pkg itself is prefix when k-1 == len(pkg)
			sib := append(append([]string{}, pkg[:k-1]...), tpkg[0])
			if h.Chance(1, 2) {
				sib = append(sib, "v1")
			}
			if dot(sib) != dot(pkg) && dot(sib) != dot(tpkg) {
				pkgs += "," + dot(sib)
				allPkgs = append(allPkgs, sib)
				h.Count("ref.gen-imported-sibling-package")
			}
		}
	}
	// a declaration may not have the name of a package (or of a prefix of one): protoc and
	// protocompile reject such files
	for _, s := range ss {
		p := undotGo(s[2:])
		for _, q := range allPkgs {
			if len(p) <= len(q) && dot(q[:len(p)]) == dot(p) {
				h.Count("ref.gen-rejected-name-is-package")
				return ""
			}
		}
	}
	sort.Strings(ss)
	return fmt.Sprintf("ref %s %s %s %s %s %s %s", only, dot(pkg), dot(ctx), dot(tpkg), dot(tgt), pkgs, strings.Join(ss, ","))
}

// buildFile turns declared symbols (full paths) of one package into a FileDescriptorProto.
func buildFile(name string, pkg []string, syms []rsym, anyMsg string) *descriptorpb.FileDescriptorProto {
	fdp := &descriptorpb.FileDescriptorProto{Name: proto.String(name), Syntax: proto.String("proto3")}
	if len(pkg) > 0 {
		fdp.Package = proto.String(strings.Join(pkg, "."))
	}
	msgs := map[string]*descriptorpb.DescriptorProto{}
	svcs := map[string]*descriptorpb.ServiceDescriptorProto{}
	sort.Slice(syms, func(i, j int) bool { return len(syms[i].path) < len(syms[j].path) })
	ecount := 0
	for _, s := range syms {
		rel := s.path[len(pkg):]
		parent := strings.Join(rel[:len(rel)-1], ".")
		last := rel[len(rel)-1]
		switch s.kind {
		case "m":
			dp := &descriptorpb.DescriptorProto{Name: proto.String(last)}
			msgs[strings.Join(rel, ".")] = dp
			if parent == "" {
				fdp.MessageType = append(fdp.MessageType, dp)
			} else if p, ok := msgs[parent]; ok {
				p.NestedType = append(p.NestedType, dp)
			}
		case "e":
			ecount++
			ep := &descriptorpb.EnumDescriptorProto{Name: proto.String(last), Value: []*descriptorpb.EnumValueDescriptorProto{{Name: proto.String(fmt.Sprintf("ZZV_%d", ecount)), Number: proto.Int32(0)}}}
			if parent == "" {
				fdp.EnumType = append(fdp.EnumType, ep)
			} else if p, ok := msgs[parent]; ok {
				p.EnumType = append(p.EnumType, ep)
			}
		case "s":
			sd := &descriptorpb.ServiceDescriptorProto{Name: proto.String(last)}
			svcs[strings.Join(rel, ".")] = sd
			fdp.Service = append(fdp.Service, sd)
		case "l":
			if p, ok := msgs[parent]; ok {
				p.Field = append(p.Field, &descriptorpb.FieldDescriptorProto{Name: proto.String(last), Number: proto.Int32(int32(len(p.Field) + 1)),
					Label: descriptorpb.FieldDescriptorProto_LABEL_OPTIONAL.Enum(), Type: descriptorpb.FieldDescriptorProto_TYPE_INT32.Enum(), JsonName: proto.String("j" + fmt.Sprint(len(p.Field)))})
			} else if sv, ok := svcs[parent]; ok {
				sv.Method = append(sv.Method, &descriptorpb.MethodDescriptorProto{Name: proto.String(last), InputType: proto.String(anyMsg), OutputType: proto.String(anyMsg)})
			}
		}
	}
	return fdp
}

func (refImpl) Exec(h *vh.H, op string) string {
	f := strings.Split(op, " ")
	if len(f) != 8 || f[0] != "ref" {
		return "bad-op"
	}
	only := f[1] == "1"
	pkg, ctx, tpkg, tgt := undotGo(f[2]), undotGo(f[3]), undotGo(f[4]), undotGo(f[5])
	var local, remote []rsym
	firstMsg := ""
	if f[7] != "-" {
		for _, s := range strings.Split(f[7], ",") {
			kv := strings.SplitN(s, ":", 2)
			if len(kv) != 2 {
				return "bad-op"
			}
			p := undotGo(kv[1])
			rs := rsym{kv[0], p}
			inLocal := len(p) > len(pkg) && dot(p[:len(pkg)]) == dot(pkg)
			inRemote := dot(tpkg) != dot(pkg) && len(p) > len(tpkg) && dot(p[:len(tpkg)]) == dot(tpkg)
			// a symbol belongs to the remote file only if it lies on the target chain
			full := append(append([]string{}, tpkg...), tgt...)
			onChain := inRemote && len(p) <= len(full) && dot(full[:len(p)]) == dot(p)
			switch {
			case onChain && !(inLocal && len(pkg) >= len(tpkg)):
				remote = append(remote, rs)
			case inLocal:
				local = append(local, rs)
				if rs.kind == "m" && firstMsg == "" {
					firstMsg = "." + kv[1]
				}
			case onChain:
				remote = append(remote, rs)
			default:
				return "bad-op"
			}
		}
	}
	if firstMsg == "" {
		return "bad-op"
	}
	cross := dot(tpkg) != dot(pkg)
	reg := &protoregistry.Files{}
	var depFd protoreflect.FileDescriptor
	var sibFds []protoreflect.FileDescriptor
	main := buildFile("main.proto", pkg, local, firstMsg)
	if cross {
		dep := buildFile("dep.proto", tpkg, remote, "")
		d, err := protodesc.NewFile(dep, reg)
		if err != nil {
			h.Count("ref.invalid-config")
			return "skip"
		}
		depFd = d
		_ = reg.RegisterFile(d)
		main.Dependency = []string{"dep.proto"}
	}
	// further imported files: one (empty) file per package of the op that is neither the context's nor the target's
	if f[6] != "-" {
		for i, q := range strings.Split(f[6], ",") {
			if q == f[2] || q == f[4] {
				continue
			}
			sib := &descriptorpb.FileDescriptorProto{Name: proto.String(fmt.Sprintf("sib%d.proto", i)), Syntax: proto.String("proto3")}
			if q != "-" {
				sib.Package = proto.String(q)
			}
			d, err := protodesc.NewFile(sib, reg)
			if err != nil {
				h.Count("ref.invalid-config")
				return "skip"
			}
			_ = reg.RegisterFile(d)
			sibFds = append(sibFds, d)
			main.Dependency = append(main.Dependency, sib.GetName())
			h.Count("ref.imported-sibling-package")
		}
	}
	fd, err := protodesc.NewFile(main, reg)
	if err != nil {
		h.Count("ref.invalid-config")
		return "skip"
	}
	find := func(file protoreflect.FileDescriptor, p []string) protoreflect.Descriptor {
		var d protoreflect.Descriptor
		for i, n := range p {
			if i == 0 {
				if m := file.Messages().ByName(protoreflect.Name(n)); m != nil {
					d = m
				} else if e := file.Enums().ByName(protoreflect.Name(n)); e != nil {
					d = e
				} else if s := file.Services().ByName(protoreflect.Name(n)); s != nil {
					d = s
				} else {
					return nil
				}
				continue
			}
			m, ok := d.(protoreflect.MessageDescriptor)
			if !ok {
				return nil
			}
			if x := m.Messages().ByName(protoreflect.Name(n)); x != nil {
				d = x
			} else if x := m.Enums().ByName(protoreflect.Name(n)); x != nil {
				d = x
			} else {
				return nil
			}
		}
		return d
	}
	ctxD := find(fd, ctx)
	var tgtD protoreflect.Descriptor
	if cross {
		tgtD = find(depFd, tgt)
	} else {
		tgtD = find(fd, tgt)
	}
	if ctxD == nil || tgtD == nil {
		return "bad-op"
	}
	name, err := protoprint.VerifContextRefName(ctxD, tgtD)
	if err != nil {
		return "err"
	}
	want := string(tgtD.FullName())
	// the reader: link a probe that uses the printed name from the context
	res := "err"
	if name != "" {
		probe := proto.Clone(main).(*descriptorpb.FileDescriptorProto)
		var locate func(ms []*descriptorpb.DescriptorProto, p []string) *descriptorpb.DescriptorProto
		locate = func(ms []*descriptorpb.DescriptorProto, p []string) *descriptorpb.DescriptorProto {
			for _, m := range ms {
				if m.GetName() == p[0] {
					if len(p) == 1 {
						return m
					}
					return locate(m.NestedType, p[1:])
				}
			}
			return nil
		}
		if only {
			m := locate(probe.MessageType, ctx)
			m.Field = append(m.Field, &descriptorpb.FieldDescriptorProto{Name: proto.String("zz_probe"), Number: proto.Int32(1000),
				Label: descriptorpb.FieldDescriptorProto_LABEL_OPTIONAL.Enum(), TypeName: proto.String(name), JsonName: proto.String("zzProbe")})
		} else {
			for _, s := range probe.Service {
				if s.GetName() == ctx[0] {
					s.Method = append(s.Method, &descriptorpb.MethodDescriptorProto{Name: proto.String("ZzProbe"), InputType: proto.String(name), OutputType: proto.String(firstMsg)})
				}
			}
		}
		var deps linker.Files
		if cross {
			lf, err := linker.NewFileRecursive(depFd)
			if err == nil {
				deps = append(deps, lf)
			}
		}
		for _, sd := range sibFds {
			lf, err := linker.NewFileRecursive(sd)
			if err == nil {
				deps = append(deps, lf)
			}
		}
		hd := reporter.NewHandler(reporter.NewReporter(func(e reporter.ErrorWithPos) error { return e }, nil))
		linked, err := linker.Link(parser.ResultWithoutAST(probe), deps, &linker.Symbols{}, hd)
		if err == nil {
			if only {
				if m, ok := find(linked, ctx).(protoreflect.MessageDescriptor); ok {
					pf := m.Fields().ByName("zz_probe")
					if pf != nil && pf.Message() != nil {
						res = string(pf.Message().FullName())
					} else if pf != nil && pf.Enum() != nil {
						res = string(pf.Enum().FullName())
					}
				}
			} else if s := linked.Services().ByName(protoreflect.Name(ctx[0])); s != nil {
				if pm := s.Methods().ByName("ZzProbe"); pm != nil && pm.Input() != nil {
					res = string(pm.Input().FullName())
				}
			}
		}
	}
	if res == want {
		h.Count("ref.resolves")
		h.Nontrivial(op)
	} else {
		h.Count("ref.captured")
		sig := "refname-shadowed:same-package"
		if cross {
			sig = "refname-shadowed:cross-package"
		}
		if name == "" {
			sig = "refname-empty"
		}
		h.Fail(sig, op, fmt.Sprintf("printed name %q in scope %s.%s resolves to %s, not %s", name, f[2], f[3], res, want))
	}
	if cross {
		h.Count("ref.cross-package")
	}
	if !only {
		h.Count("ref.service-context")
	}
	if name == "" {
		name = "-"
	}
	return "name=" + name + " res=" + res
}

// ---------------------------------------------------------------- print.ord

type ordImpl struct{}

func genElem(h *vh.H, lines bool) protoprint.VerifElem {
	e := protoprint.VerifElem{TypeOrder: h.Rng.IntN(3), Index: h.Rng.IntN(5)}
	if lines {
		e.StartLine = 1 + h.Rng.IntN(12)
	}
	return e
}

func elemStr(e protoprint.VerifElem) string {
	return fmt.Sprintf("%d,%d,%d", e.TypeOrder, e.StartLine, e.Index)
}

func (ordImpl) Gen(h *vh.H, i int) string {
	switch h.Rng.IntN(4) {
	case 0:
		return "less " + elemStr(genElem(h, h.Chance(2, 3))) + " " + elemStr(genElem(h, h.Chance(2, 3)))
	case 1:
		names := []string{"a.b", "a.c", "a.b.c", "b", "j5.ext.v1.field", "buf.validate.field"}
		return fmt.Sprintf("locless %d,%d,%d,%s %d,%d,%d,%s", h.Rng.IntN(2), h.Rng.IntN(4), h.Rng.IntN(3), vh.Hex([]byte(vh.Pick(h, names))),
			h.Rng.IntN(2), h.Rng.IntN(4), h.Rng.IntN(3), vh.Hex([]byte(vh.Pick(h, names))))
	default:
		n := 1 + h.Rng.IntN(9)
		mode := h.Rng.IntN(5) // 0: no lines, 1-3: all lines, 4: mixed
		parts := []string{"sort"}
		for k := 0; k < n; k++ {
			lines := mode >= 1 && mode <= 3 || (mode == 4 && h.Chance(1, 2))
			e := genElem(h, lines)
			if mode >= 1 && mode <= 3 {
				e.StartLine = 1 + h.Rng.IntN(40)
			}
			if mode == 0 {
				e.Index = k // Index() is unique per kind in a real descriptor
			}
			parts = append(parts, elemStr(e))
		}
		return strings.Join(parts, " ")
	}
}

func parseElemGo(s string) (protoprint.VerifElem, bool) {
	p := strings.Split(s, ",")
	if len(p) != 3 {
		return protoprint.VerifElem{}, false
	}
	a, e1 := strconv.Atoi(p[0])
	b, e2 := strconv.Atoi(p[1])
	c, e3 := strconv.Atoi(p[2])
	if e1 != nil || e2 != nil || e3 != nil {
		return protoprint.VerifElem{}, false
	}
	return protoprint.VerifElem{TypeOrder: a, StartLine: b, Index: c}, true
}

func (ordImpl) Exec(h *vh.H, op string) string {
	f := strings.Split(op, " ")
	switch f[0] {
	case "less":
		if len(f) != 3 {
			return "bad-op"
		}
		a, ok1 := parseElemGo(f[1])
		b, ok2 := parseElemGo(f[2])
		if !ok1 || !ok2 {
			return "bad-op"
		}
		h.Nontrivial(op)
		return strconv.FormatBool(protoprint.VerifLess(a, b))
	case "locless":
		if len(f) != 3 {
			return "bad-op"
		}
		parse := func(x string) (has bool, line int32, idx int, name string, ok bool) {
			p := strings.Split(x, ",")
			if len(p) != 4 {
				return
			}
			a, e1 := strconv.Atoi(p[0])
			b, e2 := strconv.Atoi(p[1])
			c, e3 := strconv.Atoi(p[2])
			n, okh := vh.UnHex(p[3])
			if e1 != nil || e2 != nil || e3 != nil || !okh {
				return
			}
			return a != 0, int32(b), c, string(n), true
		}
		ah, al, ai, an, ok1 := parse(f[1])
		bh, bl, bi, bn, ok2 := parse(f[2])
		if !ok1 || !ok2 {
			return "bad-op"
		}
		h.Nontrivial(op)
		return strconv.FormatBool(optionreflect.VerifLocLess(ah, al, ai, an, bh, bl, bi, bn))
	case "sort":
		var es []protoprint.VerifElem
		for k, s := range f[1:] {
			e, ok := parseElemGo(s)
			if !ok {
				return "bad-op"
			}
			e.Tag = k
			es = append(es, e)
		}
		// the order is determined by the comparison only if it is a strict weak order without ties
		all, none := true, true
		for _, e := range es {
			if e.StartLine == 0 {
				all = false
			} else {
				none = false
			}
		}
		ties := false
		for i := range es {
			for j := i + 1; j < len(es); j++ {
				if !protoprint.VerifLess(es[i], es[j]) && !protoprint.VerifLess(es[j], es[i]) {
					ties = true
				}
			}
		}
		if !(all || none) {
			h.Count("sort.mixed-lines")
			return "unspecified"
		}
		if ties {
			h.Count("sort.ties")
			return "unspecified"
		}
		h.Nontrivial(op)
		out := protoprint.VerifSort(es)
		// oracle: sorted w.r.t. the comparison
		pos := make([]protoprint.VerifElem, len(out))
		for i, t := range out {
			pos[i] = es[t]
		}
		for i := 0; i+1 < len(pos); i++ {
			if protoprint.VerifLess(pos[i+1], pos[i]) {
				h.Fail("sort-not-sorted", op, fmt.Sprint(out))
			}
		}
		ss := make([]string, len(out))
		for i, t := range out {
			ss[i] = strconv.Itoa(t)
		}
		return strings.Join(ss, ",")
	}
	return "bad-op"
}
