//go:build verif

package main

// Summary of a descriptor as the abstract element tree of J5V.Print.Layout (FileD / Item / FieldD /
// OptD): what the printer reads — names, numbers, printed type names (through the real
// fieldTypeName / contextRefName kernels), option value trees (real OptionsFor + WalkOptionField),
// source locations and comments. See PROTOCOL-print.md, stream print.file.

import (
	"fmt"
	"sort"
	"strings"

	"github.com/pentops/j5/internal/j5s/protoprint"
	"github.com/pentops/j5/internal/j5s/protoprint/optionreflect"
	"github.com/pentops/j5/internal/verifh/vh"
	"google.golang.org/protobuf/reflect/protoreflect"
)

type sumW struct {
	sb  strings.Builder
	err error
	// unspecified: some unstable sort of the printer is not determined by its comparison
	unspecified bool
	// second: summary of a re-parsed descriptor (no indices, option names / trees as printed)
	second bool
}

func (w *sumW) tok(s string)   { w.sb.WriteByte(' '); w.sb.WriteString(s) }
func (w *sumW) hex(s string)   { w.tok(vh.Hex([]byte(s))) }
func (w *sumW) num(n int)      { w.tok(fmt.Sprint(n)) }
func (w *sumW) flag(b bool)    { w.tok(map[bool]string{false: "0", true: "1"}[b]) }
func (w *sumW) idx(i int) {
	if !w.second {
		w.num(i)
	}
}
func (w *sumW) fail(err error) {
	if w.err == nil && err != nil {
		w.err = err
	}
}

func (w *sumW) loc(d protoreflect.Descriptor) protoreflect.SourceLocation {
	l := d.ParentFile().SourceLocations().ByDescriptor(d)
	w.putLoc(l)
	return l
}

// secondComments: the grammar model attributes comments (leading / trailing / detached)
const secondComments = true

func (w *sumW) putLoc(l protoreflect.SourceLocation) {
	w.tok("L")
	w.num(l.StartLine)
	w.num(l.EndLine)
	if w.second && !secondComments {
		return
	}
	w.num(len(l.LeadingDetachedComments))
	for _, c := range l.LeadingDetachedComments {
		w.hex(c)
	}
	w.hex(l.LeadingComments)
	w.hex(l.TrailingComments)
}

// options of d, in a canonical order on the wire. The order OptionsFor returns is the iteration order of a Go
// map; the printer sorts. Statement options (file, message, enum, oneof, service, method) are shipped in the
// order the printer writes them (optionsByLocation.Less, when it determines one), bracket options (field,
// enum value) by full name: a reader of the text finds them in that order, and the grammar theorem compares
// the options of an element position by position (optsOk). The model sorts them itself either way.
func (w *sumW) opts(d protoreflect.Descriptor) []*optionreflect.OptionDefinition {
	var b *optionreflect.Builder
	opts, err := b.OptionsFor(d)
	if err != nil {
		w.fail(err)
		w.num(0)
		return nil
	}
	if w.second {
		w.opts2(opts)
		return opts
	}
	if !optsDeterminedGo(opts) {
		w.unspecified = true
	}
	type enc struct {
		key, text string
		o         *optionreflect.OptionDefinition
	}
	byLoc := false
	switch d.(type) {
	case protoreflect.FieldDescriptor, protoreflect.EnumValueDescriptor:
	default:
		byLoc = optsDeterminedGo(opts)
	}
	encs := make([]enc, 0, len(opts))
	for _, o := range opts {
		var sb sumW
		sb.tok("O")
		sb.hex(string(o.Desc.FullName()))
		sb.flag(o.RootType.IsExtension())
		if o.RootType.IsExtension() {
			rel, err := protoprint.VerifContextRefName(o.Context, o.RootType)
			w.fail(err)
			sb.hex(rel)
		} else {
			sb.hex(string(o.RootType.Name()))
		}
		if sl := o.SourceLocation; sl != nil {
			sb.flag(true)
			sb.flag(sl.SingleLine)
			sb.flag(sl.InLineWithParent)
			sb.num(int(sl.StartLine))
		} else {
			sb.flag(false)
			sb.flag(false)
			sb.flag(false)
			sb.num(0)
		}
		sb.num(o.Desc.Index())
		tree, ok := walkGuard(o)
		if !ok {
			w.fail(fmt.Errorf("walk panic"))
		}
		treeWire(tree, &sb.sb)
		encs = append(encs, enc{string(o.Desc.FullName()), sb.sb.String(), o})
	}
	// canonical order: by full name (unique per element), or the printer's order
	for i := 0; i < len(encs); i++ {
		for j := i + 1; j < len(encs); j++ {
			before := encs[j].key < encs[i].key
			if byLoc {
				before = optLocLess(encs[j].o, encs[i].o)
			}
			if before {
				encs[i], encs[j] = encs[j], encs[i]
			}
		}
	}
	w.num(len(encs))
	for _, e := range encs {
		w.sb.WriteString(e.text)
	}
	return opts
}

// opts2: options as a reader of the text sees them — printed name, location flags, the value of
// every statement with the keys the text does not carry erased; in order of the printed name.
func (w *sumW) opts2(opts []*optionreflect.OptionDefinition) {
	type enc struct{ key, text string }
	var encs []enc
	for _, o := range opts {
		var sb sumW
		sl := o.SourceLocation // parseOption simplifies o in place; the location is not touched
		name, values := protoprint.VerifStatements(o)
		sb.tok("O")
		sb.hex(name)
		if sl != nil {
			sb.flag(true)
			sb.flag(sl.SingleLine)
			sb.flag(sl.InLineWithParent)
			sb.num(int(sl.StartLine))
		} else {
			sb.flag(false)
			sb.flag(false)
			sb.flag(false)
			sb.num(0)
		}
		sb.num(len(values))
		for _, v := range values {
			treeWire(eraseKeysGo(v, true), &sb.sb)
		}
		encs = append(encs, enc{name, sb.sb.String()})
	}
	for i := 0; i < len(encs); i++ {
		for j := i + 1; j < len(encs); j++ {
			if encs[j].key < encs[i].key {
				encs[i], encs[j] = encs[j], encs[i]
			}
		}
	}
	w.num(len(encs))
	for _, e := range encs {
		w.sb.WriteString(e.text)
	}
}

// eraseKeysGo blanks the keys the text cannot carry: of the root and of list elements.
func eraseKeysGo(o optionreflect.OptionField, blank bool) optionreflect.OptionField {
	out := optionreflect.OptionField{FieldType: o.FieldType, Key: o.Key, ScalarValue: o.ScalarValue}
	if blank {
		out.Key = ""
	}
	for _, c := range o.Children {
		out.Children = append(out.Children, eraseKeysGo(c, o.FieldType == optionreflect.FieldTypeArray))
	}
	if o.FieldType == optionreflect.FieldTypeMessage {
		// The order of the fields of a message literal carries no meaning (the walker lists them in the
		// order of the message's declaration, which for a message declared in the printed file itself is
		// the order of the text): canonical order by name, occurrences of one name stay in order.
		sort.SliceStable(out.Children, func(i, j int) bool { return out.Children[i].Key < out.Children[j].Key })
	}
	return out
}

func walkGuard(o *optionreflect.OptionDefinition) (t optionreflect.OptionField, ok bool) {
	defer func() {
		if recover() != nil {
			ok = false
		}
	}()
	return optionreflect.WalkOptionField(o.Desc, o.Value), true
}

func optLocLess(a, b *optionreflect.OptionDefinition) bool {
	al, bl := int32(0), int32(0)
	if a.SourceLocation != nil {
		al = a.SourceLocation.StartLine
	}
	if b.SourceLocation != nil {
		bl = b.SourceLocation.StartLine
	}
	return optionreflect.VerifLocLess(a.SourceLocation != nil, al, a.Desc.Index(), string(a.Desc.FullName()),
		b.SourceLocation != nil, bl, b.Desc.Index(), string(b.Desc.FullName()))
}

func optsDeterminedGo(opts []*optionreflect.OptionDefinition) bool {
	n := len(opts)
	if n <= 1 {
		return true
	}
	return strictWeakNoTies(n, func(i, j int) bool { return optLocLess(opts[i], opts[j]) })
}

func strictWeakNoTies(n int, lt func(i, j int) bool) bool {
	for i := 0; i < n; i++ {
		for j := i + 1; j < n; j++ {
			if !lt(i, j) && !lt(j, i) {
				return false
			}
		}
	}
	for a := 0; a < n; a++ {
		for b := 0; b < n; b++ {
			for c := 0; c < n; c++ {
				if lt(a, b) && lt(b, c) && !lt(a, c) {
					return false
				}
			}
		}
	}
	return true
}

type sumItem struct {
	typeOrder, startLine, index int
}

func (w *sumW) checkItems(items []sumItem) {
	if len(items) <= 12 {
		return
	}
	lt := func(i, j int) bool {
		return protoprint.VerifLess(protoprint.VerifElem{TypeOrder: items[i].typeOrder, StartLine: items[i].startLine, Index: items[i].index},
			protoprint.VerifElem{TypeOrder: items[j].typeOrder, StartLine: items[j].startLine, Index: items[j].index})
	}
	if !strictWeakNoTies(len(items), lt) {
		w.unspecified = true
	}
}

func (w *sumW) field(f protoreflect.FieldDescriptor) sumItem {
	w.tok("F")
	w.tok("f")
	l := w.loc(f)
	w.idx(f.Index())
	label, typ := "", ""
	if f.IsMap() {
		k, err := protoprint.VerifFieldTypeName(f.MapKey())
		w.fail(err)
		v, err := protoprint.VerifFieldTypeName(f.MapValue())
		w.fail(err)
		typ = "map<" + k + ", " + v + ">"
	} else {
		t, err := protoprint.VerifFieldTypeName(f)
		w.fail(err)
		typ = t
		if f.IsList() {
			label = "repeated "
		} else if f.HasOptionalKeyword() {
			label = "optional "
		}
	}
	w.hex(label)
	w.hex(typ)
	w.hex(string(f.Name()))
	w.num(int(f.Number()))
	if f.IsExtension() {
		w.tok("N")
	} else {
		w.tok("J" + vh.Hex([]byte(f.JSONName())))
	}
	w.opts(f)
	return sumItem{0, l.StartLine, f.Index()}
}

func (w *sumW) enumValue(v protoreflect.EnumValueDescriptor) sumItem {
	w.tok("F")
	w.tok("v")
	l := w.loc(v)
	w.idx(v.Index())
	w.hex("")
	w.hex("")
	w.hex(string(v.Name()))
	w.num(int(v.Number()))
	w.tok("N")
	w.opts(v)
	return sumItem{0, l.StartLine, v.Index()}
}

func (w *sumW) blockHead(kw string, typeOrder int, d protoreflect.Descriptor) sumItem {
	w.tok("B")
	w.hex(kw)
	w.num(typeOrder)
	l := w.loc(d)
	w.idx(d.Index())
	w.hex(string(d.Name()))
	w.opts(d)
	return sumItem{typeOrder, l.StartLine, d.Index()}
}

func (w *sumW) enum(e protoreflect.EnumDescriptor) sumItem {
	it := w.blockHead("enum", 2, e)
	vals := e.Values()
	w.num(vals.Len())
	var kids []sumItem
	for i := 0; i < vals.Len(); i++ {
		kids = append(kids, w.enumValue(vals.Get(i)))
	}
	w.checkItems(kids)
	return it
}

func (w *sumW) oneof(o protoreflect.OneofDescriptor) sumItem {
	it := w.blockHead("oneof", 0, o)
	fs := o.Fields()
	w.num(fs.Len())
	var kids []sumItem
	for i := 0; i < fs.Len(); i++ {
		kids = append(kids, w.field(fs.Get(i)))
	}
	w.checkItems(kids)
	return it
}

func (w *sumW) message(m protoreflect.MessageDescriptor) sumItem {
	it := w.blockHead("message", 1, m)
	// the order in which printMessage adds the elements
	var sub sumW
	sub.second = w.second
	n := 0
	var kids []sumItem
	fields := m.Fields()
	for i := 0; i < fields.Len(); i++ {
		f := fields.Get(i)
		if o := f.ContainingOneof(); o != nil && !o.IsSynthetic() {
			continue
		}
		kids = append(kids, sub.field(f))
		n++
	}
	oneofs := m.Oneofs()
	for i := 0; i < oneofs.Len(); i++ {
		if oneofs.Get(i).IsSynthetic() {
			continue
		}
		kids = append(kids, sub.oneof(oneofs.Get(i)))
		n++
	}
	nested := m.Messages()
	for i := 0; i < nested.Len(); i++ {
		if nested.Get(i).IsMapEntry() {
			continue
		}
		kids = append(kids, sub.message(nested.Get(i)))
		n++
	}
	enums := m.Enums()
	for i := 0; i < enums.Len(); i++ {
		kids = append(kids, sub.enum(enums.Get(i)))
		n++
	}
	w.num(n)
	w.sb.WriteString(sub.sb.String())
	w.fail(sub.err)
	w.unspecified = w.unspecified || sub.unspecified
	w.checkItems(kids)
	return it
}

func (w *sumW) service(s protoreflect.ServiceDescriptor) sumItem {
	it := w.blockHead("service", 0, s)
	ms := s.Methods()
	w.num(ms.Len())
	var kids []sumItem
	for i := 0; i < ms.Len(); i++ {
		m := ms.Get(i)
		w.tok("R")
		l := w.loc(m)
		w.idx(m.Index())
		w.hex(string(m.Name()))
		in, err := protoprint.VerifContextRefName(s, m.Input())
		w.fail(err)
		out, err := protoprint.VerifContextRefName(s, m.Output())
		w.fail(err)
		if m.IsStreamingClient() {
			in = "stream " + in
		}
		if m.IsStreamingServer() {
			out = "stream " + out
		}
		w.hex(in)
		w.hex(out)
		w.opts(m)
		kids = append(kids, sumItem{0, l.StartLine, m.Index()})
	}
	w.checkItems(kids)
	return it
}

// summarize encodes fd as `<gen> LOC <pkg> <nimports> imp* <nopts> OPT* <nexts> (<extendee> FIELD)* <nitems> ITEM*`.
func summarize(fd protoreflect.FileDescriptor) (text string, unspecified bool, err error) {
	return summarizeAs(fd, false)
}

// summarize2: the summary of a descriptor parsed from printed text, as far as a reader of the text can
// know it (no declaration indices, options as printed).
func summarize2(fd protoreflect.FileDescriptor) (string, error) {
	s, _, err := summarizeAs(fd, true)
	return strings.TrimPrefix(s, " "), err
}

func summarizeAs(fd protoreflect.FileDescriptor, second bool) (text string, unspecified bool, err error) {
	defer func() {
		if r := recover(); r != nil {
			err = fmt.Errorf("summary panic: %v", r)
		}
	}()
	w := &sumW{second: second}
	if !second {
		w.sb.WriteString(vh.Hex([]byte(genComment)))
		w.putLoc(fd.SourceLocations().ByPath(nil))
	}
	w.hex(string(fd.Package()))
	imps := fd.Imports()
	w.num(imps.Len())
	for i := 0; i < imps.Len(); i++ {
		w.hex(imps.Get(i).Path())
		switch {
		case imps.Get(i).IsPublic:
			w.hex("public ")
		case imps.Get(i).IsWeak:
			w.hex("weak ")
		default:
			w.hex("")
		}
	}
	w.opts(fd)
	exts := fd.Extensions()
	w.num(exts.Len())
	for i := 0; i < exts.Len(); i++ {
		// the extended message, named relative to the file (real contextRefName)
		extendee, err := protoprint.VerifContextRefName(exts.Get(i).Parent(), exts.Get(i).ContainingMessage())
		w.fail(err)
		w.hex(extendee)
		w.field(exts.Get(i))
	}
	var items []sumItem
	n := fd.Messages().Len() + fd.Services().Len() + fd.Enums().Len()
	w.num(n)
	for i := 0; i < fd.Messages().Len(); i++ {
		items = append(items, w.message(fd.Messages().Get(i)))
	}
	for i := 0; i < fd.Services().Len(); i++ {
		items = append(items, w.service(fd.Services().Get(i)))
	}
	for i := 0; i < fd.Enums().Len(); i++ {
		items = append(items, w.enum(fd.Enums().Get(i)))
	}
	w.checkItems(items)
	return w.sb.String(), w.unspecified, w.err
}
