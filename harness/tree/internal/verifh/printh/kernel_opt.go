//go:build verif

package main

// print.opt: option value trees through the real option printers vs J5V.Print.OptionText.

import (
	"fmt"
	"os"
	"sort"
	"strings"

	"github.com/pentops/j5/internal/j5s/protoprint"
	"github.com/pentops/j5/internal/j5s/protoprint/optionreflect"
	"github.com/pentops/j5/internal/verifh/vh"
	"google.golang.org/protobuf/proto"
	"google.golang.org/protobuf/reflect/protodesc"
	"google.golang.org/protobuf/reflect/protoreflect"
	"google.golang.org/protobuf/reflect/protoregistry"
	"google.golang.org/protobuf/types/descriptorpb"
)

type optImpl struct{}

func treeWire(o optionreflect.OptionField, sb *strings.Builder) {
	switch o.FieldType {
	case optionreflect.FieldTypeScalar:
		fmt.Fprintf(sb, " S %s %s", vh.Hex([]byte(o.Key)), vh.Hex([]byte(o.ScalarValue)))
	case optionreflect.FieldTypeMessage:
		fmt.Fprintf(sb, " M %s %d", vh.Hex([]byte(o.Key)), len(o.Children))
		for _, c := range o.Children {
			treeWire(c, sb)
		}
	case optionreflect.FieldTypeArray:
		fmt.Fprintf(sb, " A %s %d", vh.Hex([]byte(o.Key)), len(o.Children))
		for _, c := range o.Children {
			treeWire(c, sb)
		}
	}
}

// the context of the kernel ops: one message with one field in a package of its own
func optContext(fieldOpts *descriptorpb.FieldOptions, name, json string, deps []string) *descriptorpb.FileDescriptorProto {
	f := &descriptorpb.FieldDescriptorProto{Name: proto.String(name), Number: proto.Int32(1), Label: descriptorpb.FieldDescriptorProto_LABEL_OPTIONAL.Enum(),
		Type: descriptorpb.FieldDescriptorProto_TYPE_STRING.Enum(), Options: fieldOpts}
	if json != "" {
		f.JsonName = proto.String(json)
	}
	return &descriptorpb.FileDescriptorProto{Name: proto.String("ctx/v1/ctx.proto"), Package: proto.String("ctx.v1"), Syntax: proto.String("proto3"),
		Dependency:  deps,
		MessageType: []*descriptorpb.DescriptorProto{{Name: proto.String("Ctx"), Field: []*descriptorpb.FieldDescriptorProto{f}}}}
}

var optHolders = []func() proto.Message{
	func() proto.Message { return &descriptorpb.MessageOptions{} },
	func() proto.Message { return &descriptorpb.ServiceOptions{} },
	func() proto.Message { return &descriptorpb.MethodOptions{} },
	func() proto.Message { return &descriptorpb.EnumOptions{} },
	func() proto.Message { return &descriptorpb.EnumValueOptions{} },
	func() proto.Message { return &descriptorpb.OneofOptions{} },
	func() proto.Message { return &descriptorpb.FieldOptions{} },
}

func (optImpl) Gen(h *vh.H, i int) string {
	g := &fgen{h: h, feat: map[string]bool{}, fdp: &descriptorpb.FileDescriptorProto{}, clean: true}
	if i%2 == 0 {
		// statement form: one extension value
		holder := vh.Pick(h, optHolders)()
		xts := extensionsFor(holder.ProtoReflect().Descriptor().FullName())
		if len(xts) == 0 {
			return ""
		}
		xt := xts[h.Rng.IntN(len(xts))]
		if xt.TypeDescriptor().FullName() == "pb.go" {
			return ""
		}
		g.setExt(holder, xt)
		if !holder.ProtoReflect().Has(xt.TypeDescriptor()) {
			return ""
		}
		b, err := proto.MarshalOptions{Deterministic: true}.Marshal(holder)
		if err != nil {
			return ""
		}
		single := "1"
		if h.Chance(1, 3) {
			single = "0"
		}
		op := fmt.Sprintf("optstmt %s %s %s", single, vh.Hex([]byte(xt.TypeDescriptor().FullName())), vh.Hex(b))
		full, ok := completeStmt(op)
		if !ok {
			return ""
		}
		return full
	}
	// field form: 0..3 extension values on a field, maybe a custom JSON name
	fo := &descriptorpb.FieldOptions{}
	xts := extensionsFor("google.protobuf.FieldOptions")
	n := h.Rng.IntN(4)
	for k := 0; k < n; k++ {
		g.setExt(fo, xts[h.Rng.IntN(len(xts))])
	}
	name := vh.Pick(h, fieldNamePool)
	json := ""
	if h.Chance(1, 3) {
		json = vh.Pick(h, []string{name, "custom", "quo\"te", "ünï"})
	}
	fdp := optContext(fo, name, json, g.fdp.Dependency)
	b, err := proto.MarshalOptions{Deterministic: true}.Marshal(fdp)
	if err != nil {
		return ""
	}
	head := vh.Pick(h, []string{"string " + name, "optional string " + name, "repeated Foo.Bar " + name})
	op := fmt.Sprintf("optfield %s %d %s", vh.Hex([]byte(head)), 1+h.Rng.IntN(100), vh.Hex(b))
	full, ok := completeField(op)
	if !ok {
		return ""
	}
	return full
}

func hasMultiMap(m protoreflect.Message) bool {
	multi := false
	m.Range(func(fd protoreflect.FieldDescriptor, v protoreflect.Value) bool {
		switch {
		case fd.IsMap():
			if v.Map().Len() > 1 {
				multi = true
			}
		case fd.IsList() && fd.Message() != nil:
			for i := 0; i < v.List().Len(); i++ {
				if hasMultiMap(v.List().Get(i).Message()) {
					multi = true
				}
			}
		case fd.Message() != nil:
			if hasMultiMap(v.Message()) {
				multi = true
			}
		}
		return !multi
	})
	return multi
}

// stmtParts decodes the self-contained part of an optstmt op: the options message holding one extension.
func stmtParts(f []string) (holder proto.Message, xd protoreflect.ExtensionTypeDescriptor, ok bool) {
	if len(f) < 4 {
		return nil, nil, false
	}
	nameB, ok1 := vh.UnHex(f[2])
	b, ok2 := vh.UnHex(f[3])
	if !ok1 || !ok2 {
		return nil, nil, false
	}
	xt, err := protoregistry.GlobalTypes.FindExtensionByName(protoreflect.FullName(nameB))
	if err != nil {
		return nil, nil, false
	}
	xd = xt.TypeDescriptor()
	mt, err := protoregistry.GlobalTypes.FindMessageByName(xd.ContainingMessage().FullName())
	if err != nil {
		return nil, nil, false
	}
	holder = mt.New().Interface()
	if err := proto.Unmarshal(b, holder); err != nil {
		return nil, nil, false
	}
	return holder, xd, true
}

var ctxFile = func() protoreflect.FileDescriptor {
	fd, err := protodesc.NewFile(optContext(nil, "f", "", nil), protoregistry.GlobalFiles)
	if err != nil {
		panic(err)
	}
	return fd
}()

// completeStmt appends what the model needs (relative extension name, walked tree) to
// `optstmt <single> <ext> <bytes>`, computed with the real walker.
func completeStmt(op string) (string, bool) {
	f := strings.Split(op, " ")
	holder, xd, ok := stmtParts(f)
	if !ok {
		return "", false
	}
	v := holder.ProtoReflect().Get(xd)
	if xd.Message() != nil && !xd.IsList() && hasMultiMap(v.Message()) {
		return "", false
	}
	ctx := ctxFile.Messages().Get(0)
	rel, err := protoprint.VerifContextRefName(ctx, xd)
	if err != nil {
		return "", false
	}
	var sb strings.Builder
	treeWire(optionreflect.WalkOptionField(xd, v), &sb)
	return strings.Join(f[:4], " ") + " " + vh.Hex([]byte(rel)) + sb.String(), true
}

func fieldParts(f []string) (fd protoreflect.FieldDescriptor, ok bool) {
	if len(f) < 4 {
		return nil, false
	}
	b, ok := vh.UnHex(f[3])
	if !ok {
		return nil, false
	}
	reg := &protoregistry.Files{}
	file, err := typedFile(b, reg)
	if err != nil || file.Messages().Len() != 1 || file.Messages().Get(0).Fields().Len() != 1 {
		return nil, false
	}
	return file.Messages().Get(0).Fields().Get(0), true
}

// completeField: `optfield <head> <number> <fdp bytes>` + `<name> <json> <n> {<ext> <rel> <tree>}*`
func completeField(op string) (string, bool) {
	f := strings.Split(op, " ")
	fd, ok := fieldParts(f)
	if !ok {
		return "", false
	}
	var b *optionreflect.Builder
	opts, err := b.OptionsFor(fd)
	if err != nil {
		return "", false
	}
	// OptionsFor's order is unspecified for options without a source location (Range over the
	// extension map, then an unstable sort with ties): canonical order on the wire
	var parts []string
	for _, o := range opts {
		if o.Desc.Message() != nil && !o.Desc.IsList() && hasMultiMap(o.Value.Message()) {
			return "", false
		}
		rel, err := protoprint.VerifContextRefName(fd, o.RootType)
		if err != nil {
			return "", false
		}
		var sb strings.Builder
		fmt.Fprintf(&sb, " %s %s", vh.Hex([]byte(o.RootType.FullName())), vh.Hex([]byte(rel)))
		treeWire(optionreflect.WalkOptionField(o.Desc, o.Value), &sb)
		parts = append(parts, sb.String())
	}
	sort.Strings(parts)
	return fmt.Sprintf("%s %s %s %d", strings.Join(f[:4], " "), vh.Hex([]byte(fd.Name())), vh.Hex([]byte(fd.JSONName())), len(opts)) + strings.Join(parts, ""), true
}

func (optImpl) Exec(h *vh.H, op string) string {
	f := strings.Split(op, " ")
	switch f[0] {
	case "optstmt":
		holder, xd, ok := stmtParts(f)
		if !ok {
			return "bad-op"
		}
		// the op must carry the tree the real walker produces (replayed ops included)
		if want, ok := completeStmt(strings.Join(f[:4], " ")); !ok || want != op {
			return "bad-op"
		}
		def := &optionreflect.OptionDefinition{
			Context:  ctxFile.Messages().Get(0),
			RootType: xd,
			Desc:     xd,
			Value:    holder.ProtoReflect().Get(xd),
		}
		if f[1] == "0" {
			def.SourceLocation = &optionreflect.OptionSourceLocation{SingleLine: false, StartLine: 3}
		}
		out := protoprint.VerifPrintOptionStmt(def)
		h.Nontrivial(op)
		h.Count("opt.stmt")
		if strings.Count(out, "\n") > 1 {
			h.Count("opt.multi-line")
		}
		if len(def.SubPath) > 0 {
			h.Count("opt.simplified")
		}
		return vh.Hex([]byte(out))
	case "optfield":
		fd, ok := fieldParts(f)
		if !ok {
			return "bad-op"
		}
		if want, ok := completeField(strings.Join(f[:4], " ")); !ok || want != op {
			return "bad-op"
		}
		head, ok := vh.UnHex(f[1])
		if !ok {
			return "bad-op"
		}
		var num int32
		fmt.Sscanf(f[2], "%d", &num)
		out, err := protoprint.VerifPrintFieldStyle(string(head), num, fd)
		if err != nil {
			if os.Getenv("PRINT_DEBUG") != "" {
				fmt.Fprintln(os.Stderr, "optfield error:", err)
			}
			return "err"
		}
		h.Nontrivial(op)
		h.Count("opt.field")
		if strings.Contains(out, "json_name") {
			h.Count("opt.json_name")
		}
		return vh.Hex([]byte(out))
	}
	return "bad-op"
}
