//go:build verif

package main

// j5s inputs of the print.reparse stream (input class (b)): packages from the shared type-directed
// generator j5sgen (owned by the compile cluster) and template packages of this cluster which put a
// description on every element and use every annotation the j5s surface offers.

import (
	"math/rand/v2"
	"sort"
	"strings"

	"github.com/pentops/j5/internal/verifh/j5sgen"
	"github.com/pentops/j5/internal/verifh/vh"
)

func j5sOp(files map[string]string) string {
	keys := make([]string, 0, len(files))
	for k := range files {
		keys = append(keys, k)
	}
	sort.Strings(keys)
	var sb strings.Builder
	sb.WriteString("j5s")
	for _, k := range keys {
		sb.WriteString(" " + k + "=" + vh.Hex([]byte(files[k])))
	}
	return sb.String()
}

func genJ5sOp(h *vh.H) string {
	if h.Chance(1, 3) {
		h.Count("gen.j5s.template")
		return j5sOp(genTemplateJ5s(h))
	}
	cfg := j5sgen.DefaultConfig()
	cfg.Rules = h.Chance(1, 2)
	cfg.Capture = h.Chance(1, 10)
	cfg.MaxPkgs = 2
	cfg.MaxFiles = 2
	if cfg.Capture {
		h.Count("gen.j5s.capture-profile")
	}
	r := rand.New(rand.NewPCG(h.Rng.Uint64(), 17))
	b := j5sgen.New(r, cfg).Bundle()
	h.Count("gen.j5s.j5sgen")
	return j5sOp(j5sgen.PrintBundle(b, h.Rng.Uint64()))
}
