//go:build verif

package main

// Generator of FileDescriptorProtos for the print.reparse stream (input class (c)): nested
// messages, real oneofs, proto3 optional, maps, repeated, custom json_name, services / methods with
// google.api.http and j5 options, option values over hard strings, nested messages, repeated and
// map fields, numeric boundaries, enums, shadowing type names, leading comments.

import (
	"fmt"
	"math"
	"os"
	"strings"

	"github.com/pentops/j5/internal/verifh/vh"
	"google.golang.org/protobuf/proto"
	"google.golang.org/protobuf/reflect/protodesc"
	"google.golang.org/protobuf/reflect/protoreflect"
	"google.golang.org/protobuf/reflect/protoregistry"
	"google.golang.org/protobuf/types/descriptorpb"
	"google.golang.org/protobuf/types/dynamicpb"
)

var typeNamePool = []string{"Foo", "Bar", "Baz", "Qux", "Item", "Foo", "Bar", "Status", "Kind", "Entry", "V1", "Gen"}
var fieldNamePool = []string{"id", "name", "foo", "bar", "foo_bar", "baz_2", "item_id", "x", "value", "key", "kind", "status", "a_b_c", "fooBar", "FOO", "_lead", "trail_", "dbl__us", "n1", "foo_1bar", "google", "j5"}
// "x.google.v1" / "a.j5.v1": a parent package named like the first component of the packages the
// file refers to (google.protobuf.*, j5.types.*, option extensions j5.ext.v1.*, buf.validate.*)
var pkgPool = []string{"gen.v1", "gen.v1", "a.b.v1", "foo.v1", "gen.foo.v1", "x", "x.google.v1", "a.j5.v1", "a.buf.j5.v1"}

var hardStrings = []string{
	"", "plain", "with space", `quo"te`, `back\slash`, "new\nline", "tab\there", "cr\rhere", "nul\x00byte", "del\x7f",
	"ünï", "日本語", "emoji 😀", "'single'", "*/ //", "{}[];,", "/foo/{bar}/baz", "a:b", "<>&", "\u0080\u009f", " ",
	"very long " + strings.Repeat("x", 90), `\n`, `"`, `\`, "$%^", "{", "}", "]", "true", "inf", "-1", "0x10",
}

var scalarTypes = []descriptorpb.FieldDescriptorProto_Type{
	descriptorpb.FieldDescriptorProto_TYPE_DOUBLE, descriptorpb.FieldDescriptorProto_TYPE_FLOAT,
	descriptorpb.FieldDescriptorProto_TYPE_INT64, descriptorpb.FieldDescriptorProto_TYPE_UINT64,
	descriptorpb.FieldDescriptorProto_TYPE_INT32, descriptorpb.FieldDescriptorProto_TYPE_FIXED64,
	descriptorpb.FieldDescriptorProto_TYPE_FIXED32, descriptorpb.FieldDescriptorProto_TYPE_BOOL,
	descriptorpb.FieldDescriptorProto_TYPE_STRING, descriptorpb.FieldDescriptorProto_TYPE_BYTES,
	descriptorpb.FieldDescriptorProto_TYPE_UINT32, descriptorpb.FieldDescriptorProto_TYPE_SFIXED32,
	descriptorpb.FieldDescriptorProto_TYPE_SFIXED64, descriptorpb.FieldDescriptorProto_TYPE_SINT32,
	descriptorpb.FieldDescriptorProto_TYPE_SINT64,
}

var mapKeyTypes = []descriptorpb.FieldDescriptorProto_Type{
	descriptorpb.FieldDescriptorProto_TYPE_STRING, descriptorpb.FieldDescriptorProto_TYPE_INT32,
	descriptorpb.FieldDescriptorProto_TYPE_INT64, descriptorpb.FieldDescriptorProto_TYPE_UINT32,
	descriptorpb.FieldDescriptorProto_TYPE_BOOL, descriptorpb.FieldDescriptorProto_TYPE_SFIXED64,
}

// extraCommentShapes: set by the print.file stream
var extraCommentShapes = false

type gmsg struct {
	name   string
	path   []string // relative to the package
	parent *gmsg
	dp     *descriptorpb.DescriptorProto
	used   map[string]bool
	spath  []int32 // source path
}

type genum struct {
	path  []string
	ep    *descriptorpb.EnumDescriptorProto
	spath []int32
}

type fgen struct {
	h     *vh.H
	pkg   string
	fdp   *descriptorpb.FileDescriptorProto
	msgs  []*gmsg
	enums []*genum
	top   map[string]bool
	ext   []string // fully-qualified names of importable external types
	feat  map[string]bool
	clean bool
	names map[string]bool // clean profile: type names are unique in the whole file
	// source info
	srcMode int
	locs    []*descriptorpb.SourceCodeInfo_Location
	line    int32
}

func (g *fgen) pick(pool []string) string { return pool[g.h.Rng.IntN(len(pool))] }

func (g *fgen) fresh(used map[string]bool, pool []string) string {
	for k := 0; k < 20; k++ {
		n := g.pick(pool)
		if !used[n] {
			used[n] = true
			return n
		}
	}
	for i := 0; ; i++ {
		n := fmt.Sprintf("%s%d", pool[0], i)
		if !used[n] {
			used[n] = true
			return n
		}
	}
}

// typeName picks a type name; in the clean profile no two declarations of the file share one
// (so no relative reference can be captured).
func (g *fgen) typeName(used map[string]bool) string {
	if !g.clean {
		return g.fresh(used, typeNamePool)
	}
	for {
		n := g.pick(typeNamePool)
		if g.names[n] || used[n] {
			n = fmt.Sprintf("%s%d", n, len(g.names))
		}
		if !g.names[n] && !used[n] {
			g.names[n] = true
			used[n] = true
			return n
		}
	}
}

func full(pkg string, path []string) string {
	return "." + pkg + "." + strings.Join(path, ".")
}

func camel(s string) string {
	out := ""
	up := true
	for _, c := range s {
		if c == '_' {
			up = true
			continue
		}
		if up && c >= 'a' && c <= 'z' {
			c -= 32
		}
		up = false
		out += string(c)
	}
	return out
}

func (g *fgen) loc(path []int32, comment string, lines int32) {
	if g.srcMode == 0 {
		return
	}
	if g.srcMode == 2 && g.h.Chance(1, 2) {
		return
	}
	l := &descriptorpb.SourceCodeInfo_Location{Path: append([]int32{}, path...)}
	if comment != "" {
		g.line += int32(strings.Count(comment, "\n"))
		l.LeadingComments = proto.String(comment)
	}
	// Trailing and detached comments: j5s-compiled descriptors carry leading comments only, and these
	// fabricated shapes are not all what a parser attributes; they exercise the correspondence of
	// the printer / grammar models (print.file), not the property oracle (print.reparse).
	if extraCommentShapes && !g.clean && g.h.Chance(1, 8) {
		// trailing comment: one line (printed in line) or several (printed below the element)
		l.TrailingComments = proto.String(vh.Pick(g.h, []string{" trailing\n", " trailing one\n trailing two\n", "x\n", " t1\n\n t3\n"}))
		g.feat["trailing-comment"] = true
	}
	if extraCommentShapes && !g.clean && g.h.Chance(1, 10) {
		l.LeadingDetachedComments = vh.Pick(g.h, [][]string{{" detached\n"}, {" d1\n", " d2 line1\n d2 line2\n"}, {"\n"}})
		g.feat["detached-comment"] = true
	}
	if lines <= 1 {
		l.Span = []int32{g.line, 0, 10}
	} else {
		l.Span = []int32{g.line, 0, g.line + lines - 1, 1}
	}
	g.line += lines
	if g.h.Chance(1, 4) {
		g.line++ // blank line in the "source"
	}
	g.locs = append(g.locs, l)
}

func (g *fgen) comment() string {
	if g.srcMode == 0 || !g.h.Chance(1, 3) {
		return ""
	}
	switch g.h.Rng.IntN(6) {
	case 0:
		return " one line\n"
	case 1:
		return " first\n second line\n"
	case 2:
		return " ünïcode and \"quotes\" */ /*\n"
	case 3:
		return " para one\n\n para two\n"
	case 4:
		return "no leading space\n"
	default:
		return " trailing spaces   \n"
	}
}

func (g *fgen) addEnum(owner *gmsg, used map[string]bool) {
	name := g.typeName(used)
	ep := &descriptorpb.EnumDescriptorProto{Name: proto.String(name)}
	prefix := strings.ToUpper(name)
	n := 1 + g.h.Rng.IntN(4)
	for i := 0; i < n; i++ {
		vn := fmt.Sprintf("%s_V%d", prefix, i)
		if i == 0 {
			vn = prefix + "_UNSPECIFIED"
		}
		if used[vn] {
			vn = vn + "_X"
		}
		used[vn] = true
		num := int32(i)
		if i > 0 && g.h.Chance(1, 6) {
			num = int32(g.h.Rng.IntN(1000)) + int32(n)
		}
		ep.Value = append(ep.Value, &descriptorpb.EnumValueDescriptorProto{Name: proto.String(vn), Number: proto.Int32(num)})
	}
	ge := &genum{ep: ep}
	if owner == nil {
		ge.path = []string{name}
		ge.spath = []int32{5, int32(len(g.fdp.EnumType))}
		g.fdp.EnumType = append(g.fdp.EnumType, ep)
	} else {
		ge.path = append(append([]string{}, owner.path...), name)
		ge.spath = append(append([]int32{}, owner.spath...), 4, int32(len(owner.dp.EnumType)))
		owner.dp.EnumType = append(owner.dp.EnumType, ep)
	}
	g.enums = append(g.enums, ge)
}

func (g *fgen) addMsg(owner *gmsg, depth int) *gmsg {
	used := g.top
	if owner != nil {
		used = owner.used
	}
	name := g.typeName(used)
	m := &gmsg{name: name, parent: owner, dp: &descriptorpb.DescriptorProto{Name: proto.String(name)}, used: map[string]bool{}}
	if owner == nil {
		m.path = []string{name}
		m.spath = []int32{4, int32(len(g.fdp.MessageType))}
		g.fdp.MessageType = append(g.fdp.MessageType, m.dp)
	} else {
		m.path = append(append([]string{}, owner.path...), name)
		m.spath = append(append([]int32{}, owner.spath...), 3, int32(len(owner.dp.NestedType)))
		owner.dp.NestedType = append(owner.dp.NestedType, m.dp)
	}
	g.msgs = append(g.msgs, m)
	if depth < 3 {
		nn := g.h.Rng.IntN(3)
		if depth == 0 && g.h.Chance(1, 2) {
			nn++
		}
		for i := 0; i < nn; i++ {
			if g.h.Chance(2, 3) {
				g.addMsg(m, depth+1)
			} else {
				g.addEnum(m, m.used)
			}
		}
	}
	return m
}

func (g *fgen) typeRefField(f *descriptorpb.FieldDescriptorProto, from *gmsg) {
	r := g.h.Rng.IntN(10)
	switch {
	case r < 5 && len(g.msgs) > 0:
		var t *gmsg
		switch g.h.Rng.IntN(4) {
		case 0: // self or ancestor
			t = from
			for t.parent != nil && g.h.Chance(1, 2) {
				t = t.parent
			}
			g.feat["ref.self-or-ancestor"] = true
		default:
			t = g.msgs[g.h.Rng.IntN(len(g.msgs))]
		}
		f.Type = descriptorpb.FieldDescriptorProto_TYPE_MESSAGE.Enum()
		f.TypeName = proto.String(full(g.pkg, t.path))
	case r < 7 && len(g.enums) > 0:
		e := g.enums[g.h.Rng.IntN(len(g.enums))]
		f.Type = descriptorpb.FieldDescriptorProto_TYPE_ENUM.Enum()
		f.TypeName = proto.String(full(g.pkg, e.path))
	case r < 8 && len(g.ext) > 0:
		t := g.ext[g.h.Rng.IntN(len(g.ext))]
		if strings.HasSuffix(t, "#enum") {
			f.Type = descriptorpb.FieldDescriptorProto_TYPE_ENUM.Enum()
			f.TypeName = proto.String(strings.TrimSuffix(t, "#enum"))
		} else {
			f.Type = descriptorpb.FieldDescriptorProto_TYPE_MESSAGE.Enum()
			f.TypeName = proto.String(t)
		}
	default:
		f.Type = scalarTypes[g.h.Rng.IntN(len(scalarTypes))].Enum()
	}
}

// freshField picks a field name whose default JSON name is also unused in the message
// (protoc rejects two fields with the same default JSON name).
func (g *fgen) freshField(m *gmsg) string {
	for {
		n := g.fresh(m.used, fieldNamePool)
		j := "json:" + strings.ToLower(protocJSONName(n))
		if !m.used[j] {
			m.used[j] = true
			return n
		}
	}
}

func (g *fgen) addFields(m *gmsg) {
	n := g.h.Rng.IntN(6)
	num := int32(0)
	nextNum := func() int32 {
		num++
		if g.h.Chance(1, 8) && num < 1000000 {
			num += int32(g.h.Rng.IntN(100))
		}
		if num >= 19000 && num <= 19999 {
			num = 20000
		}
		if num > 536870911 {
			num = 536870911
		}
		return num
	}
	if g.h.Chance(1, 40) {
		num = 536870911 - int32(n) - 4 // near the maximum field number
	}
	for i := 0; i < n; i++ {
		name := g.freshField(m)
		f := &descriptorpb.FieldDescriptorProto{Name: proto.String(name), Number: proto.Int32(nextNum()), Label: descriptorpb.FieldDescriptorProto_LABEL_OPTIONAL.Enum()}
		kind := g.h.Rng.IntN(12)
		switch {
		case kind == 0: // map
			en := camel(name) + "Entry"
			if m.used[en] {
				continue
			}
			m.used[en] = true
			kf := &descriptorpb.FieldDescriptorProto{Name: proto.String("key"), Number: proto.Int32(1), Label: descriptorpb.FieldDescriptorProto_LABEL_OPTIONAL.Enum(), JsonName: proto.String("key"),
				Type: mapKeyTypes[g.h.Rng.IntN(len(mapKeyTypes))].Enum()}
			vf := &descriptorpb.FieldDescriptorProto{Name: proto.String("value"), Number: proto.Int32(2), Label: descriptorpb.FieldDescriptorProto_LABEL_OPTIONAL.Enum(), JsonName: proto.String("value")}
			g.typeRefField(vf, m)
			m.dp.NestedType = append(m.dp.NestedType, &descriptorpb.DescriptorProto{
				Name: proto.String(en), Field: []*descriptorpb.FieldDescriptorProto{kf, vf},
				Options: &descriptorpb.MessageOptions{MapEntry: proto.Bool(true)},
			})
			f.Label = descriptorpb.FieldDescriptorProto_LABEL_REPEATED.Enum()
			f.Type = descriptorpb.FieldDescriptorProto_TYPE_MESSAGE.Enum()
			f.TypeName = proto.String(full(g.pkg, append(append([]string{}, m.path...), en)))
			g.feat["map"] = true
		case kind <= 2: // repeated
			g.typeRefField(f, m)
			f.Label = descriptorpb.FieldDescriptorProto_LABEL_REPEATED.Enum()
		case kind == 3: // proto3 optional
			g.typeRefField(f, m)
			f.Proto3Optional = proto.Bool(true)
			g.feat["proto3-optional"] = true
		case kind == 4: // a real oneof with 1..3 consecutive members
			on := g.fresh(m.used, []string{"choice", "type", "kind_of", "sel"})
			idx := int32(len(m.dp.OneofDecl))
			m.dp.OneofDecl = append(m.dp.OneofDecl, &descriptorpb.OneofDescriptorProto{Name: proto.String(on)})
			g.typeRefField(f, m)
			f.OneofIndex = proto.Int32(idx)
			extra := g.h.Rng.IntN(3)
			for k := 0; k < extra; k++ {
				m.dp.Field = append(m.dp.Field, f)
				f = &descriptorpb.FieldDescriptorProto{Name: proto.String(g.freshField(m)), Number: proto.Int32(nextNum()),
					Label: descriptorpb.FieldDescriptorProto_LABEL_OPTIONAL.Enum(), OneofIndex: proto.Int32(idx)}
				g.typeRefField(f, m)
			}
			g.feat["oneof"] = true
		default:
			g.typeRefField(f, m)
		}
		if g.h.Chance(1, 8) {
			name := f.GetName() // the oneof case may have moved on to a later member
			jn := vh.Pick(g.h, []string{name, "custom" + camel(name), strings.ToUpper(name) + "_X", name + "ü", "with space " + name})
			if key := "json:" + strings.ToLower(jn); !m.used[key] || jn == name {
				m.used[key] = true
				f.JsonName = proto.String(jn)
				g.feat["json_name"] = true
			}
		}
		m.dp.Field = append(m.dp.Field, f)
	}
	// synthetic oneofs for proto3 optional fields come after the real ones
	for _, f := range m.dp.Field {
		if f.GetProto3Optional() {
			idx := int32(len(m.dp.OneofDecl))
			m.dp.OneofDecl = append(m.dp.OneofDecl, &descriptorpb.OneofDescriptorProto{Name: proto.String("_" + f.GetName())})
			f.OneofIndex = proto.Int32(idx)
		}
	}
}

// ---------------------------------------------------------------- option values

func (g *fgen) randString() string {
	for {
		s := hardStrings[g.h.Rng.IntN(len(hardStrings))]
		if g.clean && strings.ContainsRune(s, 0) {
			continue
		}
		return s
	}
}

func (g *fgen) randScalar(fd protoreflect.FieldDescriptor) (protoreflect.Value, bool) {
	r := g.h.Rng
	switch fd.Kind() {
	case protoreflect.BoolKind:
		return protoreflect.ValueOfBool(true), true
	case protoreflect.StringKind:
		return protoreflect.ValueOfString(g.randString()), true
	case protoreflect.BytesKind:
		b := []byte(g.randString())
		if g.h.Chance(1, 3) {
			b = append(b, 0xff, 0xc0, 0x80, byte(1+r.IntN(255)))
		}
		return protoreflect.ValueOfBytes(b), true
	case protoreflect.Int32Kind, protoreflect.Sint32Kind, protoreflect.Sfixed32Kind:
		return protoreflect.ValueOfInt32(vh.Pick(g.h, []int32{1, -1, math.MaxInt32, math.MinInt32, 42, int32(r.Int32())})), true
	case protoreflect.Int64Kind, protoreflect.Sint64Kind, protoreflect.Sfixed64Kind:
		return protoreflect.ValueOfInt64(vh.Pick(g.h, []int64{1, -1, math.MaxInt64, math.MinInt64, 1 << 53, int64(r.Uint64())})), true
	case protoreflect.Uint32Kind, protoreflect.Fixed32Kind:
		return protoreflect.ValueOfUint32(vh.Pick(g.h, []uint32{1, math.MaxUint32, 7, r.Uint32()})), true
	case protoreflect.Uint64Kind, protoreflect.Fixed64Kind:
		return protoreflect.ValueOfUint64(vh.Pick(g.h, []uint64{1, math.MaxUint64, 1 << 63, r.Uint64()})), true
	case protoreflect.FloatKind:
		return protoreflect.ValueOfFloat32(vh.Pick(g.h, []float32{1, -1.5, math.MaxFloat32, math.SmallestNonzeroFloat32, 0.1, float32(math.Inf(1)), float32(math.Inf(-1)), float32(math.NaN()), 1e10, 16777216})), true
	case protoreflect.DoubleKind:
		return protoreflect.ValueOfFloat64(vh.Pick(g.h, []float64{1, -1.5, math.MaxFloat64, math.SmallestNonzeroFloat64, 0.1, math.Inf(1), math.Inf(-1), math.NaN(), 1e21, 1e-7, 123456789012345680})), true
	case protoreflect.EnumKind:
		vals := fd.Enum().Values()
		if vals.Len() == 0 {
			return protoreflect.Value{}, false
		}
		v := vals.Get(r.IntN(vals.Len()))
		if v.Number() == 0 && vals.Len() > 1 {
			v = vals.Get(1 + r.IntN(vals.Len()-1))
		}
		return protoreflect.ValueOfEnum(v.Number()), true
	}
	return protoreflect.Value{}, false
}

// fill sets a random subset of m's fields. Returns whether the message holds a map with
// more than one entry (printing order of those is unspecified).
func (g *fgen) fill(m protoreflect.Message, depth int) {
	fields := m.Descriptor().Fields()
	oneofSet := map[protoreflect.FullName]bool{}
	p := 3
	if depth > 0 {
		p = 2
	}
	for i := 0; i < fields.Len(); i++ {
		fd := fields.Get(i)
		if !g.h.Chance(1, p+depth) {
			continue
		}
		if o := fd.ContainingOneof(); o != nil {
			if oneofSet[o.FullName()] {
				continue
			}
			oneofSet[o.FullName()] = true
		}
		switch {
		case fd.IsMap():
			mp := m.Mutable(fd).Map()
			n := 1
			if !g.clean && g.h.Chance(1, 4) {
				n = 2 + g.h.Rng.IntN(2)
				g.feat["opt.map-multi"] = true
			}
			for k := 0; k < n; k++ {
				kv, ok := g.randScalar(fd.MapKey())
				if !ok {
					continue
				}
				if fd.MapValue().Kind() == protoreflect.MessageKind {
					g.feat["opt.map-of-message"] = true
					vm := mp.NewValue()
					g.fill(vm.Message(), depth+2)
					mp.Set(kv.MapKey(), vm)
				} else if vv, ok := g.randScalar(fd.MapValue()); ok {
					mp.Set(kv.MapKey(), vv)
				}
			}
			g.feat["opt.map"] = true
		case fd.IsList():
			l := m.Mutable(fd).List()
			n := g.h.Rng.IntN(4)
			if g.h.Chance(1, 2) {
				n = 1
			}
			for k := 0; k < n; k++ {
				if fd.Kind() == protoreflect.MessageKind {
					if depth >= 3 {
						break
					}
					e := l.NewElement()
					g.fill(e.Message(), depth+1)
					l.Append(e)
				} else if v, ok := g.randScalar(fd); ok {
					l.Append(v)
				}
			}
			g.feat["opt.repeated"] = true
		case fd.Kind() == protoreflect.MessageKind:
			if depth >= 4 {
				continue
			}
			sub := m.Mutable(fd).Message()
			g.fill(sub, depth+1)
			g.feat["opt.nested"] = true
		case fd.Kind() == protoreflect.GroupKind:
			continue
		default:
			if v, ok := g.randScalar(fd); ok {
				m.Set(fd, v)
			}
		}
	}
}

// extensionsFor lists the extension types registered for an options message.
func extensionsFor(optName protoreflect.FullName) []protoreflect.ExtensionType {
	var out []protoreflect.ExtensionType
	seen := map[protoreflect.FieldNumber]bool{}
	protoregistry.GlobalTypes.RangeExtensionsByMessage(optName, func(xt protoreflect.ExtensionType) bool {
		// j5.sourcedef.v1 re-uses extension numbers of j5.ext.v1 (the two are never used together)
		if strings.HasPrefix(string(xt.TypeDescriptor().FullName()), "j5.sourcedef.") {
			return true
		}
		if seen[xt.TypeDescriptor().Number()] {
			return true
		}
		seen[xt.TypeDescriptor().Number()] = true
		out = append(out, xt)
		return true
	})
	// deterministic order
	for i := 0; i < len(out); i++ {
		for j := i + 1; j < len(out); j++ {
			if out[j].TypeDescriptor().FullName() < out[i].TypeDescriptor().FullName() {
				out[i], out[j] = out[j], out[i]
			}
		}
	}
	return out
}

func (g *fgen) setExt(opts proto.Message, xt protoreflect.ExtensionType) {
	xd := xt.TypeDescriptor()
	m := opts.ProtoReflect()
	switch {
	case xd.IsList():
		l := m.Mutable(xd).List()
		n := 1 + g.h.Rng.IntN(3)
		for k := 0; k < n; k++ {
			if xd.Kind() == protoreflect.MessageKind {
				e := l.NewElement()
				g.fill(e.Message(), 1)
				l.Append(e)
			} else if v, ok := g.randScalar(xd); ok {
				l.Append(v)
			}
		}
		g.feat["opt.ext-repeated"] = true
	case xd.Kind() == protoreflect.MessageKind:
		v := xt.New()
		g.fill(v.Message(), 0)
		m.Set(xd, v)
	default:
		if v, ok := g.randScalar(xd); ok {
			m.Set(xd, v)
			g.feat["opt.ext-scalar"] = true
		}
	}
	g.imports(xd.ParentFile())
}

func (g *fgen) imports(fd protoreflect.FileDescriptor) {
	p := fd.Path()
	if p == g.fdp.GetName() {
		return
	}
	for _, d := range g.fdp.Dependency {
		if d == p {
			return
		}
	}
	g.fdp.Dependency = append(g.fdp.Dependency, p)
	// option values may mention messages of further files; the printer never needs their names
}

func (g *fgen) maybeOptions(newOpts func() proto.Message, rate int) proto.Message {
	if !g.h.Chance(1, rate) {
		return nil
	}
	opts := newOpts()
	xts := extensionsFor(opts.ProtoReflect().Descriptor().FullName())
	if len(xts) == 0 {
		return nil
	}
	n := 1
	if g.h.Chance(1, 4) {
		n = 2
	}
	for k := 0; k < n; k++ {
		xt := xts[g.h.Rng.IntN(len(xts))]
		if xt.TypeDescriptor().FullName() == "pb.go" {
			continue
		}
		g.setExt(opts, xt)
	}
	if proto.Size(opts) == 0 {
		return nil
	}
	g.feat["options"] = true
	return opts
}

// ---------------------------------------------------------------- assembling one file

var externalTypes = []struct{ file, name string }{
	{"google/protobuf/timestamp.proto", ".google.protobuf.Timestamp"},
	{"google/protobuf/empty.proto", ".google.protobuf.Empty"},
	{"google/protobuf/struct.proto", ".google.protobuf.Value"},
	{"google/protobuf/struct.proto", ".google.protobuf.NullValue#enum"},
	{"j5/types/date/v1/date.proto", ".j5.types.date.v1.Date"},
	{"j5/types/decimal/v1/decimal.proto", ".j5.types.decimal.v1.Decimal"},
}

func genFdpOp(h *vh.H) string {
	g := &fgen{h: h, top: map[string]bool{}, feat: map[string]bool{}}
	g.pkg = g.pick(pkgPool)
	// two profiles: "clean" avoids the constructs behind recorded findings (shadowing names,
	// repeated top-level extensions, built-in options, NUL, missing source info), so that anything
	// it trips over is new; "adversarial" aims at them.
	g.clean = !h.Chance(3, 10)
	if g.clean {
		g.srcMode = 1
		g.names = map[string]bool{}
		h.Count("gen.fdp.profile-clean")
	} else {
		g.srcMode = vh.Pick(h, []int{0, 0, 1, 1, 1, 2})
		h.Count("gen.fdp.profile-adversarial")
	}
	g.fdp = &descriptorpb.FileDescriptorProto{
		Name:    proto.String(strings.ReplaceAll(g.pkg, ".", "/") + "/gen.proto"),
		Package: proto.String(g.pkg),
		Syntax:  proto.String("proto3"),
	}
	// external types available to fields
	nExt := h.Rng.IntN(3)
	for i := 0; i < nExt; i++ {
		e := externalTypes[h.Rng.IntN(len(externalTypes))]
		g.ext = append(g.ext, e.name)
		found := false
		for _, d := range g.fdp.Dependency {
			found = found || d == e.file
		}
		if !found {
			g.fdp.Dependency = append(g.fdp.Dependency, e.file)
		}
	}
	// further files of the op: types of the same (or another) package reached through a direct import,
	// an `import public` of the file itself, or the public import of an intermediate file
	var extraFiles []*descriptorpb.FileDescriptorProto
	// an imported SIBLING package whose name below the common parent is the first component of a root-level
	// package this file refers to (`a.google.v1` imported by `a.b.v1` which uses `google.protobuf.Timestamp`,
	// `a.j5.v1` / `a.buf.v1` for the option extensions `(j5.ext.v1.*)` / `(buf.validate.*)`): the relative name
	// would be captured by the imported package's namespace, the printer has to write the leading dot
	sibling := ""
	if parts := strings.Split(g.pkg, "."); len(parts) >= 2 && h.Chance(1, 5) {
		x := vh.Pick(h, []string{"google", "google", "j5", "buf"})
		cand := parts[0] + "." + x + ".v1"
		if cand != g.pkg && !strings.HasPrefix(g.pkg+".", cand+".") {
			sibling = cand
			g.feat["imported-sibling-package:"+x] = true
			h.Count("gen.fdp.imported-sibling-package")
			// make sure the file refers to a root-level package with that first component
			var want []struct{ file, name string }
			for _, e := range externalTypes {
				if strings.HasPrefix(e.name, "."+x+".") {
					want = append(want, e)
				}
			}
			for k := 0; k < 2 && len(want) > 0; k++ {
				e := want[h.Rng.IntN(len(want))]
				g.ext = append(g.ext, e.name, e.name)
				found := false
				for _, d := range g.fdp.Dependency {
					found = found || d == e.file
				}
				if !found {
					g.fdp.Dependency = append(g.fdp.Dependency, e.file)
				}
			}
		}
	}
	if sibling != "" || h.Chance(1, 4) {
		dpkg := g.pkg
		if sibling != "" {
			dpkg = sibling
		} else if h.Chance(1, 3) {
			dpkg = vh.Pick(h, []string{"dep.v1", "x.dep.v1", "gen.dep"})
		}
		depPath := strings.ReplaceAll(dpkg, ".", "/") + "/dep.proto"
		dep := &descriptorpb.FileDescriptorProto{
			Name: proto.String(depPath), Package: proto.String(dpkg), Syntax: proto.String("proto3"),
			MessageType: []*descriptorpb.DescriptorProto{
				{Name: proto.String("DepA"), Field: []*descriptorpb.FieldDescriptorProto{{Name: proto.String("id"), Number: proto.Int32(1), Label: descriptorpb.FieldDescriptorProto_LABEL_OPTIONAL.Enum(), Type: descriptorpb.FieldDescriptorProto_TYPE_STRING.Enum(), JsonName: proto.String("id")}},
					NestedType: []*descriptorpb.DescriptorProto{{Name: proto.String("DepInner")}}},
				{Name: proto.String("DepB")},
			},
			EnumType: []*descriptorpb.EnumDescriptorProto{{Name: proto.String("DepKind"), Value: []*descriptorpb.EnumValueDescriptorProto{{Name: proto.String("DEP_KIND_UNSPECIFIED"), Number: proto.Int32(0)}, {Name: proto.String("DEP_KIND_X"), Number: proto.Int32(1)}}}},
		}
		if !g.clean && h.Chance(1, 2) {
			// a declaration of the other file named like something this file may nest: shadowing across files
			n := g.pick(typeNamePool)
			dep.MessageType = append(dep.MessageType, &descriptorpb.DescriptorProto{Name: proto.String(n)})
			g.ext = append(g.ext, "."+dpkg+"."+n)
			if dpkg == g.pkg {
				g.top[n] = true
			}
		}
		g.ext = append(g.ext, "."+dpkg+".DepA", "."+dpkg+".DepA.DepInner", "."+dpkg+".DepB", "."+dpkg+".DepKind#enum")
		for _, n := range []string{"DepA", "DepB", "DepKind"} {
			g.top[n] = true
		}
		extraFiles = append(extraFiles, dep)
		switch h.Rng.IntN(3) {
		case 0:
			g.fdp.Dependency = append(g.fdp.Dependency, depPath)
			g.feat["second-file"] = true
		case 1:
			g.fdp.Dependency = append(g.fdp.Dependency, depPath)
			g.fdp.PublicDependency = append(g.fdp.PublicDependency, int32(len(g.fdp.Dependency)-1))
			g.feat["import-public"] = true
		default:
			pubPath := strings.ReplaceAll(dpkg, ".", "/") + "/pub.proto"
			extraFiles = append(extraFiles, &descriptorpb.FileDescriptorProto{
				Name: proto.String(pubPath), Package: proto.String(dpkg), Syntax: proto.String("proto3"),
				Dependency: []string{depPath}, PublicDependency: []int32{0},
			})
			g.fdp.Dependency = append(g.fdp.Dependency, pubPath)
			g.feat["import-public-transitive"] = true
		}
		if dpkg == g.pkg {
			g.feat["second-file-same-package"] = true
		}
	}
	nm := 1 + h.Rng.IntN(4)
	for i := 0; i < nm; i++ {
		g.addMsg(nil, 0)
	}
	ne := h.Rng.IntN(3)
	for i := 0; i < ne; i++ {
		g.addEnum(nil, g.top)
	}
	for _, m := range g.msgs {
		g.addFields(m)
	}
	// drop imports that no field uses (protodesc tolerates them, protocompile only warns)
	// services
	if h.Chance(1, 3) {
		ns := 1 + h.Rng.IntN(2)
		for s := 0; s < ns; s++ {
			sd := &descriptorpb.ServiceDescriptorProto{Name: proto.String(g.fresh(g.top, []string{"FooService", "BarService", "Foo", "Svc"}))}
			nmeth := h.Rng.IntN(4)
			used := map[string]bool{}
			for k := 0; k < nmeth; k++ {
				in := g.msgs[h.Rng.IntN(len(g.msgs))]
				out := g.msgs[h.Rng.IntN(len(g.msgs))]
				mpool := []string{"Get", "List", "Create", "Foo", "Bar"}
				if g.clean {
					mpool = []string{"Get", "List", "Create", "Update", "Delete"}
				}
				md := &descriptorpb.MethodDescriptorProto{
					Name:       proto.String(g.fresh(used, mpool)),
					InputType:  proto.String(full(g.pkg, in.path)),
					OutputType: proto.String(full(g.pkg, out.path)),
				}
				if !g.clean && h.Chance(1, 25) {
					md.ServerStreaming = proto.Bool(true)
					g.feat["streaming"] = true
				}
				if o := g.maybeOptions(func() proto.Message { return &descriptorpb.MethodOptions{} }, 2); o != nil {
					md.Options = o.(*descriptorpb.MethodOptions)
				}
				sd.Method = append(sd.Method, md)
			}
			if o := g.maybeOptions(func() proto.Message { return &descriptorpb.ServiceOptions{} }, 3); o != nil {
				sd.Options = o.(*descriptorpb.ServiceOptions)
			}
			g.fdp.Service = append(g.fdp.Service, sd)
			g.feat["service"] = true
		}
	}
	// file-local extensions: a scalar one, and one whose message holds a map with message values
	var localExts []protoreflect.ExtensionType
	if h.Chance(1, 6) {
		localExts = g.addLocalExtensions(extraFiles)
	}
	// options on messages, fields, oneofs, enums, values
	for _, m := range g.msgs {
		if len(localExts) > 0 && h.Chance(1, 2) {
			if m.dp.Options == nil {
				m.dp.Options = &descriptorpb.MessageOptions{}
			}
			for _, xt := range localExts {
				if xt.TypeDescriptor().ContainingMessage().FullName() == "google.protobuf.MessageOptions" && h.Chance(2, 3) {
					g.setExt(m.dp.Options, xt)
					g.feat["opt.local-extension"] = true
				}
			}
		}
	}
	for _, m := range g.msgs {
		if o := g.maybeOptions(func() proto.Message { return &descriptorpb.MessageOptions{} }, 5); o != nil {
			if m.dp.Options != nil {
				proto.Merge(m.dp.Options, o)
			} else {
				m.dp.Options = o.(*descriptorpb.MessageOptions)
			}
		}
		for _, f := range m.dp.Field {
			if o := g.maybeOptions(func() proto.Message { return &descriptorpb.FieldOptions{} }, 5); o != nil {
				f.Options = o.(*descriptorpb.FieldOptions)
			}
			if !g.clean && h.Chance(1, 30) {
				if f.Options == nil {
					f.Options = &descriptorpb.FieldOptions{}
				}
				f.Options.Deprecated = proto.Bool(true)
				g.feat["builtin-option"] = true
			}
		}
		for _, od := range m.dp.OneofDecl {
			if strings.HasPrefix(od.GetName(), "_") {
				continue
			}
			if o := g.maybeOptions(func() proto.Message { return &descriptorpb.OneofOptions{} }, 4); o != nil {
				od.Options = o.(*descriptorpb.OneofOptions)
			}
		}
	}
	for _, e := range g.enums {
		if o := g.maybeOptions(func() proto.Message { return &descriptorpb.EnumOptions{} }, 5); o != nil {
			e.ep.Options = o.(*descriptorpb.EnumOptions)
		}
		for _, v := range e.ep.Value {
			if o := g.maybeOptions(func() proto.Message { return &descriptorpb.EnumValueOptions{} }, 6); o != nil {
				v.Options = o.(*descriptorpb.EnumValueOptions)
			}
		}
	}
	// file options
	if h.Chance(1, 3) {
		fo := &descriptorpb.FileOptions{}
		k := h.Rng.IntN(7)
		switch k {
		case 0:
			fo.GoPackage = proto.String("github.com/x/y/gen_pb")
		case 1:
			fo.GoPackage = proto.String(g.randString())
			g.feat["file-option-hard-string"] = true
		case 2:
			fo.JavaMultipleFiles = proto.Bool(true)
			fo.JavaPackage = proto.String("com.x.y")
		case 3:
			fo.OptimizeFor = descriptorpb.FileOptions_CODE_SIZE.Enum()
			g.feat["file-option-enum"] = true
		case 4:
			fo.Deprecated = proto.Bool(true)
			fo.ObjcClassPrefix = proto.String("GEN")
		case 5:
			// extension-valued file options (google.api.resource_definition, ...)
			if o := g.maybeOptions(func() proto.Message { return &descriptorpb.FileOptions{} }, 1); o != nil {
				fo = o.(*descriptorpb.FileOptions)
				g.feat["file-option-extension"] = true
			}
			if h.Chance(1, 2) {
				fo.GoPackage = proto.String("github.com/x/y/gen_pb")
			}
		case 6:
			// (not LITE_RUNTIME: such a file may not declare extensions of descriptor.proto messages)
			fo.OptimizeFor = vh.Pick(h, []*descriptorpb.FileOptions_OptimizeMode{descriptorpb.FileOptions_SPEED.Enum(), descriptorpb.FileOptions_CODE_SIZE.Enum()})
			fo.CcEnableArenas = proto.Bool(false)
			fo.JavaPackage = proto.String(g.randString())
			g.feat["file-option-enum"] = true
		}
		g.fdp.Options = fo
	}
	g.sourceInfo()
	b, err := proto.MarshalOptions{Deterministic: true}.Marshal(g.fdp)
	if err != nil {
		return ""
	}
	for k := range g.feat {
		h.Count("gen.fdp." + k)
	}
	h.Count(fmt.Sprintf("gen.fdp.srcmode-%d", g.srcMode))
	op := "fdp"
	for _, x := range extraFiles {
		xb, err := proto.MarshalOptions{Deterministic: true}.Marshal(x)
		if err != nil {
			return ""
		}
		op += " " + vh.Hex(xb)
	}
	return op + " " + vh.Hex(b)
}

// addLocalExtensions declares `LocalOpt` (a message with a scalar, a map of scalars and a map with
// message values) and extensions of MessageOptions using it in the file under construction, and returns
// extension types (dynamic, from a throw-away build of the file so far) to set option values with.
func (g *fgen) addLocalExtensions(extraFiles []*descriptorpb.FileDescriptorProto) []protoreflect.ExtensionType {
	if g.top["LocalOpt"] {
		return nil
	}
	g.top["LocalOpt"] = true
	str := descriptorpb.FieldDescriptorProto_TYPE_STRING.Enum()
	opt := descriptorpb.FieldDescriptorProto_LABEL_OPTIONAL.Enum()
	rep := descriptorpb.FieldDescriptorProto_LABEL_REPEATED.Enum()
	msgT := descriptorpb.FieldDescriptorProto_TYPE_MESSAGE.Enum()
	entry := func(name string, val *descriptorpb.FieldDescriptorProto) *descriptorpb.DescriptorProto {
		val.Name, val.Number, val.Label, val.JsonName = proto.String("value"), proto.Int32(2), opt, proto.String("value")
		return &descriptorpb.DescriptorProto{Name: proto.String(name), Options: &descriptorpb.MessageOptions{MapEntry: proto.Bool(true)},
			Field: []*descriptorpb.FieldDescriptorProto{{Name: proto.String("key"), Number: proto.Int32(1), Label: opt, Type: str, JsonName: proto.String("key")}, val}}
	}
	full := "." + g.pkg + ".LocalOpt"
	local := &descriptorpb.DescriptorProto{Name: proto.String("LocalOpt"),
		Field: []*descriptorpb.FieldDescriptorProto{
			{Name: proto.String("note"), Number: proto.Int32(1), Label: opt, Type: str, JsonName: proto.String("note")},
			{Name: proto.String("tags"), Number: proto.Int32(2), Label: rep, Type: msgT, TypeName: proto.String(full + ".TagsEntry"), JsonName: proto.String("tags")},
			{Name: proto.String("by_key"), Number: proto.Int32(3), Label: rep, Type: msgT, TypeName: proto.String(full + ".ByKeyEntry"), JsonName: proto.String("byKey")},
			{Name: proto.String("count"), Number: proto.Int32(4), Label: opt, Type: descriptorpb.FieldDescriptorProto_TYPE_SINT64.Enum(), JsonName: proto.String("count")},
		},
		NestedType: []*descriptorpb.DescriptorProto{
			{Name: proto.String("Inner"), Field: []*descriptorpb.FieldDescriptorProto{
				{Name: proto.String("x"), Number: proto.Int32(1), Label: opt, Type: descriptorpb.FieldDescriptorProto_TYPE_INT32.Enum(), JsonName: proto.String("x")},
				{Name: proto.String("y"), Number: proto.Int32(2), Label: opt, Type: str, JsonName: proto.String("y")}}},
			entry("TagsEntry", &descriptorpb.FieldDescriptorProto{Type: str}),
			entry("ByKeyEntry", &descriptorpb.FieldDescriptorProto{Type: msgT, TypeName: proto.String(full + ".Inner")}),
		}}
	g.fdp.MessageType = append(g.fdp.MessageType, local)
	g.fdp.Extension = append(g.fdp.Extension,
		&descriptorpb.FieldDescriptorProto{Name: proto.String("local_opt"), Number: proto.Int32(50001), Label: opt, Type: msgT, TypeName: proto.String(full), Extendee: proto.String(".google.protobuf.MessageOptions")},
		&descriptorpb.FieldDescriptorProto{Name: proto.String("local_num"), Number: proto.Int32(50002), Label: opt, Type: descriptorpb.FieldDescriptorProto_TYPE_INT64.Enum(), Extendee: proto.String(".google.protobuf.MessageOptions")},
		&descriptorpb.FieldDescriptorProto{Name: proto.String("local_tags"), Number: proto.Int32(50003), Label: rep, Type: str, Extendee: proto.String(".google.protobuf.MessageOptions")},
	)
	g.imports(descriptorpb.File_google_protobuf_descriptor_proto)
	g.feat["local-extension-decl"] = true
	// a throw-away build to obtain extension types
	reg := &protoregistry.Files{}
	for _, x := range extraFiles {
		fd, err := protodesc.NewFile(x, fallbackResolver{reg})
		if err != nil || reg.RegisterFile(fd) != nil {
			return nil
		}
	}
	tmp, err := protodesc.NewFile(proto.Clone(g.fdp).(*descriptorpb.FileDescriptorProto), fallbackResolver{reg})
	if err != nil {
		if os.Getenv("PRINT_DEBUG") != "" {
			fmt.Fprintln(os.Stderr, "local extensions: throw-away build failed:", err)
		}
		return nil
	}
	var out []protoreflect.ExtensionType
	for i := 0; i < tmp.Extensions().Len(); i++ {
		out = append(out, dynamicpb.NewExtensionType(tmp.Extensions().Get(i)))
	}
	return out
}

// sourceInfo lays the declarations out on "lines" (a permutation of declaration order at each
// level, with comments) so that the printer's ordering, gap and comment logic is exercised.
func (g *fgen) sourceInfo() {
	if g.srcMode == 0 {
		return
	}
	g.line = 5
	type item struct {
		f func()
	}
	var emitMsg func(dp *descriptorpb.DescriptorProto, path []int32)
	emitEnum := func(ep *descriptorpb.EnumDescriptorProto, path []int32) {
		lines := int32(len(ep.Value)) + 2
		start := len(g.locs)
		g.loc(path, g.comment(), 1)
		for i := range ep.Value {
			g.loc(append(append([]int32{}, path...), 2, int32(i)), g.comment(), 1)
		}
		g.line++
		_ = lines
		g.closeSpan(start, path)
	}
	emitMsg = func(dp *descriptorpb.DescriptorProto, path []int32) {
		start := len(g.locs)
		g.loc(path, g.comment(), 1)
		var items []func()
		for i := range dp.Field {
			i := i
			if dp.Field[i].OneofIndex != nil && !dp.Field[i].GetProto3Optional() {
				continue
			}
			items = append(items, func() { g.loc(append(append([]int32{}, path...), 2, int32(i)), g.comment(), 1) })
		}
		for o := range dp.OneofDecl {
			o := o
			if strings.HasPrefix(dp.OneofDecl[o].GetName(), "_") {
				continue
			}
			items = append(items, func() {
				op := append(append([]int32{}, path...), 8, int32(o))
				st := len(g.locs)
				g.loc(op, g.comment(), 1)
				for i := range dp.Field {
					if dp.Field[i].OneofIndex != nil && dp.Field[i].GetOneofIndex() == int32(o) {
						g.loc(append(append([]int32{}, path...), 2, int32(i)), g.comment(), 1)
					}
				}
				g.line++
				g.closeSpan(st, op)
			})
		}
		for i := range dp.NestedType {
			i := i
			if dp.NestedType[i].GetOptions().GetMapEntry() {
				continue
			}
			items = append(items, func() { emitMsg(dp.NestedType[i], append(append([]int32{}, path...), 3, int32(i))) })
		}
		for i := range dp.EnumType {
			i := i
			items = append(items, func() { emitEnum(dp.EnumType[i], append(append([]int32{}, path...), 4, int32(i))) })
		}
		// (the message behind the file-local option keeps its declaration order: a parser numbers
		// fields in source order, and the order of the fields of an option value follows the numbering)
		if dp.GetName() != "LocalOpt" && dp.GetName() != "Inner" && g.h.Chance(1, 2) {
			g.h.Rng.Shuffle(len(items), func(a, b int) { items[a], items[b] = items[b], items[a] })
		}
		for _, it := range items {
			it()
		}
		g.line++
		g.closeSpan(start, path)
	}
	var items []func()
	for i := range g.fdp.MessageType {
		i := i
		items = append(items, func() { emitMsg(g.fdp.MessageType[i], []int32{4, int32(i)}) })
	}
	for i := range g.fdp.EnumType {
		i := i
		items = append(items, func() { emitEnum(g.fdp.EnumType[i], []int32{5, int32(i)}) })
	}
	for s := range g.fdp.Service {
		s := s
		items = append(items, func() {
			sp := []int32{6, int32(s)}
			st := len(g.locs)
			g.loc(sp, g.comment(), 1)
			for m := range g.fdp.Service[s].Method {
				g.loc([]int32{6, int32(s), 2, int32(m)}, g.comment(), 1)
			}
			g.line++
			g.closeSpan(st, sp)
		})
	}
	if g.h.Chance(1, 2) {
		g.h.Rng.Shuffle(len(items), func(a, b int) { items[a], items[b] = items[b], items[a] })
	}
	for _, it := range items {
		it()
	}
	g.fdp.SourceCodeInfo = &descriptorpb.SourceCodeInfo{Location: g.locs}
}

// closeSpan extends the span of the block whose location was appended at index `start`
// (if it was emitted at all) to the current line.
func (g *fgen) closeSpan(start int, path []int32) {
	if start >= len(g.locs) {
		return
	}
	l := g.locs[start]
	if len(l.Path) != len(path) {
		return
	}
	for i := range path {
		if l.Path[i] != path[i] {
			return
		}
	}
	l.Span = []int32{l.Span[0], 0, g.line - 1, 1}
}

// typedFile turns a serialized FileDescriptorProto into a descriptor whose option messages
// carry their extensions as typed values (what the toolchain's linker results look like),
// including extensions declared by the file itself.
func typedFile(b []byte, reg *protoregistry.Files) (protoreflect.FileDescriptor, error) {
	fdp := &descriptorpb.FileDescriptorProto{}
	if err := proto.Unmarshal(b, fdp); err != nil {
		return nil, err
	}
	res := fallbackResolver{reg}
	fd, err := protodesc.NewFile(fdp, res)
	if err != nil {
		return nil, err
	}
	if fd.Extensions().Len() > 0 {
		local := &protoregistry.Files{}
		_ = local.RegisterFile(fd)
		types := dynamicpb.NewTypes(local)
		fdp2 := &descriptorpb.FileDescriptorProto{}
		if err := (proto.UnmarshalOptions{Resolver: extResolver{types}}).Unmarshal(b, fdp2); err != nil {
			return nil, err
		}
		return protodesc.NewFile(fdp2, res)
	}
	return fd, nil
}

type extResolver struct{ local *dynamicpb.Types }

func (r extResolver) FindMessageByName(n protoreflect.FullName) (protoreflect.MessageType, error) {
	if t, err := protoregistry.GlobalTypes.FindMessageByName(n); err == nil {
		return t, nil
	}
	return r.local.FindMessageByName(n)
}
func (r extResolver) FindMessageByURL(u string) (protoreflect.MessageType, error) {
	if t, err := protoregistry.GlobalTypes.FindMessageByURL(u); err == nil {
		return t, nil
	}
	return r.local.FindMessageByURL(u)
}
func (r extResolver) FindExtensionByName(n protoreflect.FullName) (protoreflect.ExtensionType, error) {
	if t, err := protoregistry.GlobalTypes.FindExtensionByName(n); err == nil {
		return t, nil
	}
	return r.local.FindExtensionByName(n)
}
func (r extResolver) FindExtensionByNumber(m protoreflect.FullName, n protoreflect.FieldNumber) (protoreflect.ExtensionType, error) {
	if t, err := protoregistry.GlobalTypes.FindExtensionByNumber(m, n); err == nil {
		return t, nil
	}
	return r.local.FindExtensionByNumber(m, n)
}
