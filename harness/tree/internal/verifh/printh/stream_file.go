//go:build verif

package main

// print.file: the whole printer against its Lean model (J5V.Print.Layout) and the grammar model
// (J5V.Print.Grammar) against protocompile.
//
//   op      file <k> <input op of print.reparse …> @ <summary of the k-th descriptor>
//   result  <hex of the printed text> | print-err | unspecified
//
// The input part makes the op self-contained (replay recomputes the descriptor and checks that the
// shipped summary is the one the real descriptor has); the summary is what the model prints from.

import (
	"fmt"
	"os"
	"strconv"
	"strings"

	"github.com/pentops/j5/internal/verifh/vh"
	"google.golang.org/protobuf/reflect/protoreflect"
)

type fileImpl struct {
	inner   reparseImpl
	i       int
	pending []string
	// descriptors of the last input op (Gen and Exec of one op follow each other)
	cacheKey string
	cacheFds []protoreflect.FileDescriptor
}

func (r *fileImpl) descriptors(h *vh.H, input string) ([]protoreflect.FileDescriptor, string) {
	if input == r.cacheKey && r.cacheFds != nil {
		return r.cacheFds, ""
	}
	fds, _, skip := descriptorsOf(h, strings.Split(input, " "))
	if skip != "" {
		return nil, skip
	}
	r.cacheKey, r.cacheFds = input, fds
	return fds, ""
}

func (r *fileImpl) Gen(h *vh.H, i int) string {
	for tries := 0; tries < 50; tries++ {
		if len(r.pending) > 0 {
			op := r.pending[0]
			r.pending = r.pending[1:]
			return op
		}
		input := r.inner.Gen(h, r.i)
		r.i++
		if input == "" {
			continue
		}
		fds, skip := r.descriptors(h, input)
		if skip != "" {
			h.Count("file.input." + skip)
			continue
		}
		for k, fd := range fds {
			if fd.Syntax() != protoreflect.Proto3 {
				h.Count("file.not-proto3")
				continue
			}
			sum, _, err := summarize(fd)
			if err != nil {
				h.Count("file.summary-error")
				if os.Getenv("PRINT_DEBUG") != "" {
					fmt.Fprintln(os.Stderr, "summary error:", err)
				}
				continue
			}
			r.pending = append(r.pending, fmt.Sprintf("file %d %s @ %s", k, input, sum))
		}
	}
	return ""
}

func (r *fileImpl) Exec(h *vh.H, op string) string {
	at := strings.Index(op, " @ ")
	if at < 0 || !strings.HasPrefix(op, "file ") {
		return "bad-op"
	}
	head := strings.SplitN(op[:at], " ", 3)
	if len(head) != 3 {
		return "bad-op"
	}
	k, err := strconv.Atoi(head[1])
	if err != nil {
		return "bad-op"
	}
	fds, skip := r.descriptors(h, head[2])
	if skip != "" || k < 0 || k >= len(fds) {
		return "bad-op"
	}
	fd := fds[k]
	sum, unspecified, err := summarize(fd)
	if err != nil || sum != op[at+3:] {
		// the op must carry the summary the real descriptor has (replayed ops included)
		return "bad-op"
	}
	text, perr, pan := printGuard(fd)
	switch {
	case pan != nil:
		h.Fail("print-panic", op, fmt.Sprintf("PrintFile panicked: %v", pan))
		return "panic"
	case perr != nil:
		h.Count("file.print-err")
		return "print-err"
	case unspecified:
		h.Count("file.unspecified-sort")
		return "unspecified"
	}
	h.Nontrivial(op)
	h.Count("file.printed")
	if strings.Contains(text, "\n//") || strings.Contains(text, " //") {
		h.Count("file.with-comments")
	}
	// the reader: protocompile on the printed text, summarised as a reader of the text sees it
	second := "unread"
	fix := "na"
	if re, err := compileText(fd.Path(), text, depsOf(fd)); err == nil {
		if s2, err := summarize2(re); err == nil {
			second = s2
			h.Count("file.reread")
		} else {
			h.Count("file.reread-summary-error")
		}
		// the second print: does printing what was read reproduce the text? (the model prints what its
		// grammar read; the flag is compared, not demanded: print.reparse is the oracle for it)
		if text2, err2, pan2 := printGuard(re); pan2 == nil && err2 == nil {
			if text2 == text {
				fix = "same"
				h.Count("file.second-print-same")
			} else {
				fix = "differs:" + vh.Hex([]byte(text2))
				h.Count("file.second-print-differs")
			}
		}
	} else {
		h.Count("file.reread-error")
	}
	return vh.Hex([]byte(text)) + " " + second + " second-print=" + fix
}
