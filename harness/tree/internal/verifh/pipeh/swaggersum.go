//go:build verif

package main

import (
	"encoding/json"
	"fmt"
	"sort"
	"strings"

	"github.com/pentops/j5/internal/export"
	"github.com/pentops/j5/internal/verifh/vh"
)

// swaggerSummary: the canonical view of the OpenAPI document the Lean model (`Pipe/SwaggerDoc.lean`,
// `buildSwagger` on the model's client API) computes too. The order of path items and operations is
// the document's (`dd.Paths`); everything else is read from the JSON each operation / component
// marshals to (the same MarshalJSON code the whole document goes through).
//
//	W:<item>|<item>…            one <item> per path item, operations of an item joined by ';'
//	<op> = <verb>:<hex path>:P=<name@in,…>:B=<sorted body property names | - | ~ (no body)>:R=<0|1>:F=<refs>
//	X:<refs>                    references inside the components of the package
//
// <refs> = sorted, distinct reference targets inside the declared package, relative to it
// ("Name" / "service.Name"); references into other packages (j5.list.v1, j5.state.v1 …) are not
// in the model's graph and are left to the oracle below.
//
// Oracle (on the real document, all packages): every `$ref` names a key of components.schemas
// (`swagger:dangling-ref`); the `in: path` parameters of an operation are exactly the `:name`
// segments of its path (`swagger:path-param-missing`, `swagger:path-param-not-in-path`).
func swaggerSummary(out *sink, spec *Spec, doc *export.Document) string {
	prefix := "#/definitions/"
	var dangling []string
	seenDangling := map[string]bool{}
	refsOf := func(v any) []string {
		var all []string
		var walk func(v any)
		walk = func(v any) {
			switch t := v.(type) {
			case map[string]any:
				for k, x := range t {
					if s, ok := x.(string); ok && k == "$ref" {
						all = append(all, s)
						continue
					}
					walk(x)
				}
			case []any:
				for _, x := range t {
					walk(x)
				}
			}
		}
		walk(v)
		var inPkg []string
		have := map[string]bool{}
		for _, r := range all {
			name := strings.TrimPrefix(r, prefix)
			if _, ok := doc.Components.Schemas[name]; (!ok || !strings.HasPrefix(r, prefix)) && !seenDangling[r] {
				seenDangling[r] = true
				dangling = append(dangling, r)
			}
			if rest, ok := strings.CutPrefix(name, spec.Pkg+"."); ok && strings.HasPrefix(r, prefix) && !have[rest] {
				have[rest] = true
				inPkg = append(inPkg, rest)
			}
		}
		sort.Strings(inPkg)
		return inPkg
	}
	generic := func(v any) (map[string]any, error) {
		b, err := json.Marshal(v)
		if err != nil {
			return nil, err
		}
		var m map[string]any
		err = json.Unmarshal(b, &m)
		return m, err
	}
	dig := func(m map[string]any, keys ...string) (map[string]any, bool) {
		for _, k := range keys {
			next, ok := m[k].(map[string]any)
			if !ok {
				return nil, false
			}
			m = next
		}
		return m, true
	}

	var items []string
	for _, item := range doc.Paths {
		if item == nil {
			continue
		}
		var ops []string
		for _, op := range *item {
			m, err := generic(op)
			if err != nil {
				out.fail("swagger:err:operation-unreadable", err.Error())
				return "?"
			}
			var params []string
			inPath := map[string]bool{}
			if ps, ok := m["parameters"].([]any); ok {
				for _, p := range ps {
					pm, _ := p.(map[string]any)
					name, _ := pm["name"].(string)
					in, _ := pm["in"].(string)
					params = append(params, name+"@"+in)
					if in == "path" {
						inPath[name] = true
						if req, _ := pm["required"].(bool); !req {
							out.fail("swagger:path-param-not-required", fmt.Sprintf("%s %q: %s", op.Method, op.Path, name))
						}
					}
				}
			}
			want := pathParams(op.Path)
			for _, w := range want {
				if !inPath[w] {
					out.fail("swagger:path-param-missing", fmt.Sprintf("%s %q: no parameter in path named %q (have %v)", op.Method, op.Path, w, params))
				}
			}
			for n := range inPath {
				if !contains(want, n) {
					out.fail("swagger:path-param-not-in-path", fmt.Sprintf("%s %q: parameter %q", op.Method, op.Path, n))
				}
			}
			body := "~"
			if rb, ok := m["requestBody"]; ok && rb != nil {
				var names []string
				if sc, ok := dig(m, "requestBody", "content", "application/json", "schema"); ok {
					if props, ok := sc["properties"].(map[string]any); ok {
						for k := range props {
							names = append(names, k)
						}
					}
				}
				sort.Strings(names)
				body = csv(names, "-")
			}
			resp := "0"
			if _, ok := dig(m, "responses", "200", "content", "application/json"); ok {
				resp = "1"
			}
			ops = append(ops, op.Method+":"+vh.Hex([]byte(op.Path))+":P="+csv(params, "-")+":B="+body+":R="+resp+":F="+csv(refsOf(m), "-"))
		}
		items = append(items, strings.Join(ops, ";"))
	}

	var compRefs []string
	haveC := map[string]bool{}
	var keys []string
	for k := range doc.Components.Schemas {
		keys = append(keys, k)
	}
	sort.Strings(keys)
	for _, k := range keys {
		m, err := generic(doc.Components.Schemas[k])
		if err != nil {
			out.fail("swagger:err:component-unreadable", k+": "+err.Error())
			continue
		}
		rs := refsOf(m)
		if strings.HasPrefix(k, spec.Pkg+".") {
			for _, r := range rs {
				if !haveC[r] {
					haveC[r] = true
					compRefs = append(compRefs, r)
				}
			}
		}
	}
	sort.Strings(compRefs)
	for _, r := range dangling {
		out.fail("swagger:dangling-ref", fmt.Sprintf("$ref %q names no key of components.schemas", r))
	}
	out.count(fmt.Sprintf("swagger.path-items=%d", min(len(doc.Paths), 9)))
	if len(compRefs) > 0 {
		out.count("swagger.component-refs")
	}
	return "W:" + csvSep(items, "|", "-") + " X:" + csv(compRefs, "-")
}

func csvSep(xs []string, sep, empty string) string {
	if len(xs) == 0 {
		return empty
	}
	return strings.Join(xs, sep)
}
