//go:build verif

package main

import (
	"fmt"
	"os"
	"strings"
	"time"

	"github.com/pentops/j5/internal/j5client"
	"github.com/pentops/j5/internal/structure"
	"google.golang.org/protobuf/encoding/prototext"
)

// probe: pipeh probe <pkg> <file.j5s>... ; prints every stage's outcome (development aid).
func probeMain(args []string) {
	pkg := args[0]
	files := map[string][]byte{}
	dir := ""
	for _, c := range pkg {
		if c == '.' {
			dir += "/"
		} else {
			dir += string(c)
		}
	}
	for i, fn := range args[1:] {
		if _, f, ok := strings.Cut(fn, "="); ok {
			fn = f
		}
		b, err := os.ReadFile(fn)
		if err != nil {
			panic(err)
		}
		if other, _, ok := strings.Cut(args[1+i], "="); ok {
			// <pkg>=<file>: a source file of another local package
			files[fmt.Sprintf("%s/f%d.j5s", strings.ReplaceAll(other, ".", "/"), i)] = b
			continue
		}
		files[fmt.Sprintf("%s/f%d.j5s", dir, i)] = b
	}
	var out chainOut
	r := stage(20*time.Second, func() (err error) { out.files, err = compile(pkg, files); return })
	fmt.Println("compile:", r)
	if r.class != "ok" {
		return
	}
	for _, f := range out.files {
		fmt.Println("  file", f.Path())
	}
	route := os.Getenv("ROUTE")
	if route == "printed" {
		r = stage(20*time.Second, func() (err error) { out.image, out.printed, err = imagePrinted(pkg, out.files); return })
		if os.Getenv("PRINT") != "" {
			for k, v := range out.printed {
				fmt.Println("-----", k)
				fmt.Println(v)
			}
		}
	} else {
		r = stage(20*time.Second, func() (err error) { out.image, err = imageDirect(pkg, out.files); return })
	}
	fmt.Println("image:", r)
	if r.class != "ok" {
		return
	}
	r = stage(20*time.Second, func() (err error) { out.api, err = structure.APIFromImage(out.image); return })
	fmt.Println("api:", r)
	if r.class != "ok" {
		return
	}
	if os.Getenv("SHOWAPI") != "" {
		fmt.Println(prototext.MarshalOptions{Multiline: true}.Format(out.api))
	}
	r = stage(20*time.Second, func() (err error) { out.client, err = j5client.APIFromSource(out.api); return })
	fmt.Println("client:", r)
	if r.class != "ok" {
		return
	}
	if os.Getenv("SHOWCLIENT") != "" {
		fmt.Println(prototext.MarshalOptions{Multiline: true}.Format(out.client))
	}
	r = stage(20*time.Second, func() (err error) { out.clientJS, err = clientJSON(out.client); return })
	fmt.Println("json:", r, len(out.clientJS))
	r = stage(20*time.Second, func() (err error) { out.swagger, out.swaggerJS, err = swaggerJSON(out.client); return })
	fmt.Println("swagger:", r, len(out.swaggerJS))
	if os.Getenv("SHOWSWAGGER") != "" {
		fmt.Println(string(out.swaggerJS))
	}
}
