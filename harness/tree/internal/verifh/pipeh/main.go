//go:build verif

// pipeh: correspondence + property oracle for the compile -> image -> API -> client -> export
// chain (property C16).
package main

import (
	"fmt"
	"io"
	"os"
	"strings"

	"github.com/pentops/j5/internal/verifh/vh"
)

type impl struct{}

func main() {
	if len(os.Args) > 2 && os.Args[1] == "probe" {
		probeMain(os.Args[2:])
		return
	}
	if len(os.Args) > 1 && os.Args[1] == "render" {
		// pipeh render < op : print the j5s text of a chain op (development aid)
		b, _ := io.ReadAll(os.Stdin)
		spec, err := DecodeSpec(strings.TrimSpace(string(b)))
		if err != nil {
			fmt.Println("bad op:", err)
			os.Exit(1)
		}
		for k, v := range spec.Render() {
			fmt.Println("#", k)
			fmt.Println(string(v))
		}
		fmt.Println("# expect:", Expect(spec))
		return
	}
	if len(os.Args) > 1 && os.Args[1] == "worker" {
		workerMain()
		return
	}
	vh.Main("pipe.chain", impl{})
}
