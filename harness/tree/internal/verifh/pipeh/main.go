//go:build verif

// pipeh: correspondence + property oracle for the compile -> image -> API -> client -> export
// chain (property C16).
package main

import (
	"os"

	"github.com/pentops/j5/internal/verifh/vh"
)

type impl struct{}

func main() {
	if len(os.Args) > 2 && os.Args[1] == "probe" {
		probeMain(os.Args[2:])
		return
	}
	vh.Main("pipe.chain", impl{})
}

func (impl) Gen(h *vh.H, i int) string   { return "" }
func (impl) Exec(h *vh.H, op string) string { return "bad-op" }
