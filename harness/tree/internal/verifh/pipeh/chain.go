//go:build verif

package main

import (
	"context"
	"encoding/json"
	"fmt"
	"os"
	"sort"
	"strings"
	"testing/fstest"
	"time"

	"github.com/bufbuild/protocompile"
	"github.com/bufbuild/protocompile/linker"
	"github.com/pentops/j5/gen/j5/client/v1/client_j5pb"
	"github.com/pentops/j5/gen/j5/source/v1/source_j5pb"
	"github.com/pentops/j5/internal/codec"
	"github.com/pentops/j5/internal/export"
	"github.com/pentops/j5/internal/j5client"
	"github.com/pentops/j5/internal/j5s/protobuild"
	"github.com/pentops/j5/internal/j5s/protoprint"
	"github.com/pentops/j5/internal/protosrc"
	"github.com/pentops/j5/internal/structure"
	"google.golang.org/protobuf/reflect/protodesc"
	"google.golang.org/protobuf/reflect/protoreflect"
	"google.golang.org/protobuf/reflect/protoregistry"
	"google.golang.org/protobuf/types/descriptorpb"
)

// ---- in-memory bundle

type memFiles struct {
	pkgs []string
	m    map[string][]byte
}

func (f *memFiles) ListPackages() []string { return f.pkgs }
func (f *memFiles) ListSourceFiles(ctx context.Context, prefix string) ([]string, error) {
	var out []string
	for k := range f.m {
		if strings.HasPrefix(k, prefix+"/") {
			out = append(out, k)
		}
	}
	sort.Strings(out)
	return out, nil
}
func (f *memFiles) GetLocalFile(ctx context.Context, fn string) ([]byte, error) {
	if b, ok := f.m[fn]; ok {
		return b, nil
	}
	return nil, fmt.Errorf("file not found: %s", fn)
}

type noDeps struct{}

func (noDeps) ListDependencyFiles(root string) []string { return nil }
func (noDeps) GetDependencyFile(fn string) (*descriptorpb.FileDescriptorProto, error) {
	return nil, fmt.Errorf("no dependency %s", fn)
}

type emptyResolver struct{}

func (emptyResolver) FindFileByPath(fn string) (protocompile.SearchResult, error) {
	return protocompile.SearchResult{}, os.ErrNotExist
}

// stage runs f under recover and a timeout. A timed-out stage leaves its goroutine running
// (the caller is expected to stop the process soon after).
var stageTimedOut bool

type stageResult struct {
	class  string // ok | err | panic | timeout
	detail string
}

func stage(timeout time.Duration, f func() error) stageResult {
	ch := make(chan stageResult, 1)
	go func() {
		defer func() {
			if r := recover(); r != nil {
				ch <- stageResult{"panic", fmt.Sprint(r)}
			}
		}()
		if err := f(); err != nil {
			ch <- stageResult{"err", err.Error()}
			return
		}
		ch <- stageResult{"ok", ""}
	}()
	select {
	case r := <-ch:
		return r
	case <-time.After(timeout):
		stageTimedOut = true
		return stageResult{"timeout", ""}
	}
}

type chainOut struct {
	files     linker.Files
	image     *source_j5pb.SourceImage
	printed   map[string]string
	api       *source_j5pb.API
	client    *client_j5pb.API
	clientJS  []byte
	swagger   *export.Document
	swaggerJS []byte
}

// compile: every directory holding a source file is a local package of the bundle; pkg is the one compiled.
func compile(pkg string, files map[string][]byte) (linker.Files, error) {
	pkgs := []string{pkg}
	for fn := range files {
		if i := strings.LastIndex(fn, "/"); i > 0 {
			p := strings.ReplaceAll(fn[:i], "/", ".")
			found := false
			for _, q := range pkgs {
				found = found || q == p
			}
			if !found {
				pkgs = append(pkgs, p)
			}
		}
	}
	sort.Strings(pkgs[1:])
	mf := &memFiles{pkgs: pkgs, m: files}
	ps, err := protobuild.NewPackageSet(noDeps{}, mf)
	if err != nil {
		return nil, err
	}
	return ps.CompilePackage(context.Background(), pkg)
}

// imageDirect builds the source image straight from the linked descriptors (all files
// reachable through imports, dependencies first).
func imageDirect(pkg string, files linker.Files) (*source_j5pb.SourceImage, error) {
	img := &source_j5pb.SourceImage{
		Packages: []*source_j5pb.PackageInfo{{Name: pkg, Label: "Generated"}},
	}
	seen := map[string]bool{}
	var add func(fd protoreflect.FileDescriptor)
	add = func(fd protoreflect.FileDescriptor) {
		if seen[fd.Path()] {
			return
		}
		seen[fd.Path()] = true
		imps := fd.Imports()
		for i := 0; i < imps.Len(); i++ {
			add(imps.Get(i).FileDescriptor)
		}
		img.File = append(img.File, protodesc.ToFileDescriptorProto(fd))
	}
	for _, f := range files {
		add(f)
		img.SourceFilenames = append(img.SourceFilenames, f.Path())
	}
	return img, nil
}

// imagePrinted follows the production route: print every generated file as .proto text, put
// the text into a bundle file system and let protosrc.ReadFSImage compile it.
func imagePrinted(pkg string, files linker.Files) (*source_j5pb.SourceImage, map[string]string, error) {
	fsys := fstest.MapFS{}
	printed := map[string]string{}
	for _, f := range files {
		txt, err := protoprint.PrintFile(context.Background(), f, "")
		if err != nil {
			return nil, printed, fmt.Errorf("print %s: %w", f.Path(), err)
		}
		printed[f.Path()] = txt
		fsys[f.Path()] = &fstest.MapFile{Data: []byte(txt)}
	}
	img, err := protosrc.ReadFSImage(context.Background(), fsys, nil, emptyResolver{})
	if err != nil {
		return nil, printed, err
	}
	img.Packages = []*source_j5pb.PackageInfo{{Name: pkg, Label: "Generated"}}
	return img, printed, nil
}

// imageFromDescriptors: a hand-built file plus everything it imports from the built-in registry.
func imageFromDescriptors(pkg string, fds ...*descriptorpb.FileDescriptorProto) (*source_j5pb.SourceImage, error) {
	img := &source_j5pb.SourceImage{Packages: []*source_j5pb.PackageInfo{{Name: pkg, Label: "Kernel"}}}
	seen := map[string]bool{}
	var add func(path string) error
	add = func(path string) error {
		if seen[path] {
			return nil
		}
		seen[path] = true
		fd, err := protoregistry.GlobalFiles.FindFileByPath(path)
		if err != nil {
			return err
		}
		imps := fd.Imports()
		for i := 0; i < imps.Len(); i++ {
			if err := add(imps.Get(i).Path()); err != nil {
				return err
			}
		}
		img.File = append(img.File, protodesc.ToFileDescriptorProto(fd))
		return nil
	}
	for _, fd := range fds {
		for _, dep := range fd.Dependency {
			if err := add(dep); err != nil {
				return nil, err
			}
		}
		img.File = append(img.File, fd)
		img.SourceFilenames = append(img.SourceFilenames, fd.GetName())
	}
	return img, nil
}

func clientJSON(api *client_j5pb.API) ([]byte, error) {
	c := codec.NewCodec()
	return c.ProtoToJSON(api.ProtoReflect())
}

func swaggerJSON(api *client_j5pb.API) (*export.Document, []byte, error) {
	doc, err := export.BuildSwagger(api)
	if err != nil {
		return nil, nil, err
	}
	b, err := json.Marshal(doc)
	return doc, b, err
}

var _ = structure.APIFromImage
var _ = j5client.APIFromSource
