//go:build verif

package main

import (
	"path"
	"sort"
	"strings"

	"github.com/iancoleman/strcase"
	"github.com/pentops/j5/gen/j5/client/v1/client_j5pb"
	"github.com/pentops/j5/gen/j5/schema/v1/schema_j5pb"
	"github.com/pentops/j5/internal/verifh/vh"
)

// Summary is the canonical, order-defined view of a client API that the statement of C16
// speaks about: services, methods, verb, path, request split, response, list fields and the
// set of schemas present in the package. It is computed twice: from the declaration (Spec)
// and from what the real pipeline produced; the Lean driver computes the first one too.

type MethodSum struct {
	Name, Verb, Path string
	P, Q, B          []string
	HasBody          bool
	Resp             string // "" = none
	List             bool
	LF, LS, LQ       []string
}

type ServiceSum struct {
	Name    string
	Methods []MethodSum
}

// EntitySum: a state entity of the client API: name, primary keys, the generated query service,
// the command services and the event names.
type EntitySum struct {
	Name     string
	PK       []string
	Query    ServiceSum
	Commands []ServiceSum
	Events   []string
}

type Summary struct {
	Services []ServiceSum
	Entities []EntitySum
	Keys     []string
	// BadList: a method whose request has a j5.list.v1.QueryRequest property and whose response is not
	// list shaped (exactly one array, of objects): buildListRequest refuses the whole API
	BadList string
	// BadDefault: a list method's walk reaches an enum property whose default filter names no
	// option; buildListRequest refuses the whole API ("unknown enum value")
	BadDefault string
}

func csv(xs []string, empty string) string {
	if len(xs) == 0 {
		return empty
	}
	return strings.Join(xs, ",")
}

func (m MethodSum) String() string {
	b := "~"
	if m.HasBody {
		b = csv(m.B, "-")
	}
	r := m.Resp
	if r == "" {
		r = "~"
	}
	l := "~"
	if m.List {
		l = "f=" + strings.ReplaceAll(csv(m.LF, "-"), ",", ";") + "|s=" + strings.ReplaceAll(csv(m.LS, "-"), ",", ";") + "|q=" + strings.ReplaceAll(csv(m.LQ, "-"), ",", ";")
	}
	return m.Name + " " + m.Verb + " " + vh.Hex([]byte(m.Path)) + " P:" + csv(m.P, "-") + " Q:" + csv(m.Q, "-") + " B:" + b + " R:" + r + " L:" + l
}

func (sv ServiceSum) String() string {
	var b strings.Builder
	b.WriteString("[" + sv.Name + " " + itoa(len(sv.Methods)))
	for _, m := range sv.Methods {
		b.WriteString(" [" + m.String() + "]")
	}
	b.WriteString("]")
	return b.String()
}

func (s Summary) String() string {
	var b strings.Builder
	b.WriteString("S")
	b.WriteString(itoa(len(s.Services)))
	for _, sv := range s.Services {
		b.WriteString(" " + sv.String())
	}
	if len(s.Entities) > 0 {
		b.WriteString(" E" + itoa(len(s.Entities)))
		for _, en := range s.Entities {
			b.WriteString(" [" + en.Name + " PK:" + csv(en.PK, "-") + " " + en.Query.String() + " C" + itoa(len(en.Commands)))
			for _, c := range en.Commands {
				b.WriteString(" " + c.String())
			}
			b.WriteString(" EV:" + csv(en.Events, "-") + "]")
		}
	}
	b.WriteString(" K:" + csv(s.Keys, "-"))
	return b.String()
}

func itoa(i int) string {
	if i == 0 {
		return "0"
	}
	var d []byte
	for i > 0 {
		d = append([]byte{byte('0' + i%10)}, d...)
		i /= 10
	}
	return string(d)
}

// ---- expected summary, from the declaration

type expCtx struct {
	spec       *Spec
	keys       map[string]bool
	badDefault string
	badList    string
}

func (s *Spec) schema(name string) *Schema {
	for _, sc := range s.Schemas {
		if sc.Name == name {
			return sc
		}
	}
	return nil
}

// isFlat: an object field marked `flatten` (flag F on a direct reference to a declared object)
func isFlat(p *Prop) bool { return p.Has('F') && p.T.K == "R" && p.T.Sub == "o" }

// clientProps mirrors ObjectSchema.clientProperties: a flattened object field is replaced by the
// client properties of its object unless that object is already being flattened. An entry carries
// the message name its inline children are hoisted under.
type cprop struct {
	p      *Prop
	parent string
	prefix string // "" (package schema) or "service." (request / response message and what is hoisted from it)
}

func (c *expCtx) clientProps(prefix, self string, props []*Prop, flattening []string) []cprop {
	flattening = append(append([]string{}, flattening...), self)
	var out []cprop
	for _, p := range props {
		if isFlat(p) && !contains(flattening, p.T.Name) {
			if sc := c.spec.schema(p.T.Name); sc != nil && sc.Kind == "O" {
				out = append(out, c.clientProps("", sc.Name, sc.Props, flattening)...)
				continue
			}
		}
		out = append(out, cprop{p, self, prefix})
	}
	return out
}

// reach marks every schema reachable from a property type; parent is the name of the message
// the property belongs to (for the names of hoisted inline schemas), prefix its sub-package key prefix.
func (c *expCtx) reach(t *Type, prefix, parent, field string) {
	switch t.K {
	case "R":
		c.reachNamed(t.Name)
	case "A", "M":
		c.reach(t.Elem, prefix, parent, field)
	case "IO", "IU":
		name := parent + "_" + strcase.ToCamel(field)
		if c.keys[prefix+name] {
			return
		}
		c.keys[prefix+name] = true
		if t.K == "IO" {
			for _, cp := range c.clientProps(prefix, name, t.Props, nil) {
				c.reach(cp.p.T, cp.prefix, cp.parent, cp.p.Name)
			}
		} else {
			for _, p := range t.Props {
				c.reach(p.T, prefix, name, p.Name)
			}
		}
	case "IE":
		c.keys[prefix+parent+"_"+strcase.ToCamel(field)] = true
	}
}

func (c *expCtx) reachNamed(name string) {
	if c.keys[name] {
		return
	}
	sc := c.spec.schema(name)
	if sc == nil {
		return
	}
	c.keys[name] = true
	if sc.Kind == "O" {
		for _, cp := range c.clientProps("", name, sc.Props, nil) {
			c.reach(cp.p.T, cp.prefix, cp.parent, cp.p.Name)
		}
		return
	}
	for _, p := range sc.Props {
		c.reach(p.T, "", name, p.Name)
	}
}

const verbHasBody = "POST PUT DELETE PATCH"

// pathParams lists the names after ':' of the path's parameter segments, in order.
func pathParams(p string) []string {
	var out []string
	for _, part := range strings.Split(p, "/") {
		if strings.HasPrefix(part, ":") {
			out = append(out, part[1:])
		}
	}
	return out
}

func contains(xs []string, x string) bool {
	for _, y := range xs {
		if x == y {
			return true
		}
	}
	return false
}

// isQueryProp: what makes fillRequest build a list request
func isQueryProp(p *Prop) bool {
	return p.T.K == "X" && p.T.Pkg == "j5.list.v1" && p.T.Name == "QueryRequest"
}

// expectService: names, verb, resolved path, split, response and list fields of the methods of a
// service with sub-package prefix "service." (declared services and entity command services)
func (c *expCtx) expectService(name string, base *string, methods []*Method) ServiceSum {
	s := c.spec
	ss := ServiceSum{Name: name}
	for _, m := range methods {
		ms := MethodSum{Name: m.Name, Verb: m.Verb, Path: m.Path}
		if base != nil {
			ms.Path = path.Join(*base, m.Path)
		}
		params := pathParams(ms.Path)
		ms.HasBody = m.Verb != "GET"
		isQuery := false
		for _, p := range m.Req {
			isQuery = isQuery || isQueryProp(p)
			switch {
			case contains(params, p.Name):
				ms.P = append(ms.P, p.Name)
			case ms.HasBody:
				// the body goes through ToJ5ClientObject: flattened object fields show their children
				for _, cp := range c.clientProps("service.", m.Name+"Request", []*Prop{p}, nil) {
					ms.B = append(ms.B, cp.p.Name)
				}
			default:
				ms.Q = append(ms.Q, p.Name)
			}
			c.reach(p.T, "service.", m.Name+"Request", p.Name)
		}
		if m.HasResp {
			ms.Resp = m.Name + "Response"
			for _, p := range m.Resp {
				c.reach(p.T, "service.", m.Name+"Response", p.Name)
			}
		}
		if isQuery {
			ms.List = true
			item := listItem(s, m)
			if item == nil {
				if c.badList == "" {
					c.badList = name + "." + m.Name
				}
			} else {
				for _, cp := range c.clientProps("", item.Name, item.Props, nil) {
					c.listWalk(&ms, cp, nil, []string{item.Name})
				}
			}
		}
		ss.Methods = append(ss.Methods, ms)
	}
	return ss
}

// listItem: the declared object the list request of a method is built from; nil when the response
// is not list shaped (no response, not exactly one array, array of something else than objects)
func listItem(s *Spec, m *Method) *Schema {
	if !m.HasResp {
		return nil
	}
	var arrays []*Type
	for _, p := range m.Resp {
		if p.T.K == "A" {
			arrays = append(arrays, p.T)
		}
	}
	if len(arrays) != 1 || arrays[0].Elem.K != "R" || arrays[0].Elem.Sub != "o" {
		return nil
	}
	sc := s.schema(arrays[0].Elem.Name)
	if sc == nil || sc.Kind != "O" {
		return nil
	}
	return sc
}

func entityBase(s *Spec, en *Entity) string {
	return "/" + strings.ReplaceAll(s.Pkg, ".", "/") + "/" + strcase.ToSnake(en.Name)
}

func Expect(s *Spec) Summary {
	c := &expCtx{spec: s, keys: map[string]bool{}}
	var out Summary
	for _, sv := range s.Services {
		out.Services = append(out.Services, c.expectService(sv.Name+"Service", sv.Base, sv.Methods))
	}
	for _, en := range s.Entities {
		es := EntitySum{Name: strcase.ToSnake(en.Name)}
		camel := strcase.ToCamel(en.Name)
		var getKeys, listKeys []string
		for _, k := range en.Keys {
			if k.Has('p') {
				es.PK = append(es.PK, k.Name)
			}
			if k.Has('p') || k.Has('h') {
				getKeys = append(getKeys, k.Name)
			}
			if k.Has('h') {
				listKeys = append(listKeys, k.Name)
			}
		}
		colon := func(ks []string, tail ...string) string {
			var segs []string
			for _, k := range ks {
				segs = append(segs, ":"+k)
			}
			return strings.Join(append(segs, tail...), "/")
		}
		qbase := entityBase(s, en) + "/q"
		es.Query = ServiceSum{Name: camel + "QueryService", Methods: []MethodSum{
			{Name: camel + "Get", Verb: "GET", Path: path.Join(qbase, colon(getKeys)), P: getKeys, Resp: camel + "GetResponse"},
			{Name: camel + "List", Verb: "GET", Path: path.Join(qbase, colon(listKeys)), P: listKeys, Q: []string{"page", "query"}, Resp: camel + "ListResponse", List: true},
			{Name: camel + "Events", Verb: "GET", Path: path.Join(qbase, colon(getKeys, "events")), P: getKeys, Q: []string{"page", "query"}, Resp: camel + "EventsResponse", List: true},
		}}
		for _, cs := range en.Commands {
			name := cs.Name
			if name == "" {
				name = camel
			}
			if !strings.HasSuffix(name, "Command") {
				name += "Command"
			}
			base := entityBase(s, en) + "/c"
			if cs.Base != nil {
				base = entityBase(s, en) + "/" + *cs.Base
			}
			es.Commands = append(es.Commands, c.expectService(name+"Service", &base, cs.Methods))
		}
		for _, ev := range en.Events {
			es.Events = append(es.Events, strcase.ToLowerCamel(ev.Name))
			c.keys[camel+"EventType_"+ev.Name] = true
			for _, cp := range c.clientProps("", camel+"EventType_"+ev.Name, ev.Props, nil) {
				c.reach(cp.p.T, cp.prefix, cp.parent, cp.p.Name)
			}
		}
		for _, part := range []string{"Keys", "Data", "Status", "State", "EventType", "Event"} {
			c.keys[camel+part] = true
		}
		for _, cp := range c.clientProps("", camel+"Data", en.Data, nil) {
			c.reach(cp.p.T, cp.prefix, cp.parent, cp.p.Name)
		}
		out.Entities = append(out.Entities, es)
	}
	for k := range c.keys {
		out.Keys = append(out.Keys, k)
	}
	sort.Strings(out.Keys)
	out.BadDefault = c.badDefault
	out.BadList = c.badList
	return out
}

// listWalk mirrors buildListRequest over WalkSchemaFields (asClient): visit the client property,
// recurse into the client properties of object fields and the properties of oneof fields (named
// or inline), never into a schema that is already being walked.
func (c *expCtx) listWalk(ms *MethodSum, cp cprop, pth []string, stack []string) {
	p := cp.p
	pp := append(append([]string{}, pth...), p.Name)
	name := strings.Join(pp, ".")
	if (p.T.K == "R" && p.T.Sub == "e" || p.T.K == "IE") && c.spec.defaultFilter(p) == "BOGUS" && c.badDefault == "" {
		c.badDefault = ms.Name + ":" + name
	}
	switch k := p.T.K; {
	case k == "R" && p.T.Sub == "e", k == "IE", k == "bool", k == "id62", k == "uuid", k == "key":
		if p.Has('f') {
			ms.LF = append(ms.LF, name)
		}
	case k == "i32", k == "i64", k == "u32", k == "u64", k == "f32", k == "f64", k == "ts":
		if p.Has('f') {
			ms.LF = append(ms.LF, name)
		}
		if p.Has('s') {
			ms.LS = append(ms.LS, name)
		}
	case k == "str":
		if p.Has('q') {
			ms.LQ = append(ms.LQ, name)
		}
	}
	// (list rules on a oneof field compile, and are not looked at by buildListRequest)
	switch p.T.K {
	case "R":
		if p.T.Sub == "e" || contains(stack, p.T.Name) {
			return
		}
		if sc := c.spec.schema(p.T.Name); sc != nil {
			st := append(append([]string{}, stack...), sc.Name)
			if sc.Kind == "O" {
				for _, ch := range c.clientProps("", sc.Name, sc.Props, nil) {
					c.listWalk(ms, ch, pp, st)
				}
			} else {
				for _, ch := range sc.Props {
					c.listWalk(ms, cprop{ch, sc.Name, ""}, pp, st)
				}
			}
		}
	case "IO", "IU":
		name := cp.parent + "_" + strcase.ToCamel(p.Name)
		if contains(stack, name) {
			// a hoisted inline object can be reached again from below itself through flattened fields
			return
		}
		st := append(append([]string{}, stack...), name)
		if p.T.K == "IO" {
			for _, ch := range c.clientProps(cp.prefix, name, p.T.Props, nil) {
				c.listWalk(ms, ch, pp, st)
			}
		} else {
			for _, ch := range p.T.Props {
				c.listWalk(ms, cprop{ch, name, cp.prefix}, pp, st)
			}
		}
	}
}

// ---- actual summary, from the client API produced by the real pipeline

func propNamesPB(ps []*schema_j5pb.ObjectProperty) []string {
	var out []string
	for _, p := range ps {
		out = append(out, p.Name)
	}
	return out
}

var verbName = map[client_j5pb.HTTPMethod]string{
	client_j5pb.HTTPMethod_HTTP_METHOD_GET:    "GET",
	client_j5pb.HTTPMethod_HTTP_METHOD_POST:   "POST",
	client_j5pb.HTTPMethod_HTTP_METHOD_PUT:    "PUT",
	client_j5pb.HTTPMethod_HTTP_METHOD_DELETE: "DELETE",
	client_j5pb.HTTPMethod_HTTP_METHOD_PATCH:  "PATCH",
}

func methodSum(m *client_j5pb.Method) MethodSum {
	ms := MethodSum{Name: m.Name, Verb: verbName[m.HttpMethod], Path: m.HttpPath}
	if ms.Verb == "" {
		ms.Verb = "?" + m.HttpMethod.String()
	}
	if m.Request != nil {
		ms.P = propNamesPB(m.Request.PathParameters)
		ms.Q = propNamesPB(m.Request.QueryParameters)
		if m.Request.Body != nil {
			ms.HasBody = true
			ms.B = propNamesPB(m.Request.Body.Properties)
		}
		if l := m.Request.List; l != nil {
			ms.List = true
			for _, f := range l.FilterableFields {
				ms.LF = append(ms.LF, f.Name)
			}
			for _, f := range l.SortableFields {
				ms.LS = append(ms.LS, f.Name)
			}
			for _, f := range l.SearchableFields {
				ms.LQ = append(ms.LQ, f.Name)
			}
		}
	}
	if m.ResponseBody != nil {
		ms.Resp = m.ResponseBody.Name
	}
	return ms
}

func Actual(pkgName string, api *client_j5pb.API) Summary {
	var out Summary
	for _, pkg := range api.Packages {
		if pkg.Name != pkgName {
			continue
		}
		for _, sv := range pkg.Services {
			out.Services = append(out.Services, serviceSum(sv))
		}
		for _, en := range pkg.StateEntities {
			es := EntitySum{Name: en.Name, PK: en.PrimaryKey}
			if en.QueryService != nil {
				es.Query = serviceSum(en.QueryService)
			}
			for _, cs := range en.CommandServices {
				es.Commands = append(es.Commands, serviceSum(cs))
			}
			for _, ev := range en.Events {
				es.Events = append(es.Events, ev.Name)
			}
			out.Entities = append(out.Entities, es)
		}
		for k := range pkg.Schemas {
			out.Keys = append(out.Keys, k)
		}
	}
	sort.Strings(out.Keys)
	return out
}

func serviceSum(sv *client_j5pb.Service) ServiceSum {
	ss := ServiceSum{Name: sv.Name}
	for _, m := range sv.Methods {
		ss.Methods = append(ss.Methods, methodSum(m))
	}
	return ss
}
