//go:build verif

package main

import (
	"path"
	"sort"
	"strings"

	"github.com/iancoleman/strcase"
	"github.com/pentops/j5/gen/j5/client/v1/client_j5pb"
	"github.com/pentops/j5/gen/j5/schema/v1/schema_j5pb"
	"github.com/pentops/j5/internal/verifh/vh"
)

// Summary is the canonical, order-defined view of a client API that the statement of C16
// speaks about: services, methods, verb, path, request split, response, list fields and the
// set of schemas present in the package. It is computed twice: from the declaration (Spec)
// and from what the real pipeline produced; the Lean driver computes the first one too.

type MethodSum struct {
	Name, Verb, Path string
	P, Q, B          []string
	HasBody          bool
	Resp             string // "" = none
	List             bool
	LF, LS, LQ       []string
}

type ServiceSum struct {
	Name    string
	Methods []MethodSum
}

type Summary struct {
	Services []ServiceSum
	Keys     []string
	// BadDefault: a list method's walk reaches an enum property whose default filter names no
	// option; buildListRequest refuses the whole API ("unknown enum value")
	BadDefault string
}

func csv(xs []string, empty string) string {
	if len(xs) == 0 {
		return empty
	}
	return strings.Join(xs, ",")
}

func (m MethodSum) String() string {
	b := "~"
	if m.HasBody {
		b = csv(m.B, "-")
	}
	r := m.Resp
	if r == "" {
		r = "~"
	}
	l := "~"
	if m.List {
		l = "f=" + strings.ReplaceAll(csv(m.LF, "-"), ",", ";") + "|s=" + strings.ReplaceAll(csv(m.LS, "-"), ",", ";") + "|q=" + strings.ReplaceAll(csv(m.LQ, "-"), ",", ";")
	}
	return m.Name + " " + m.Verb + " " + vh.Hex([]byte(m.Path)) + " P:" + csv(m.P, "-") + " Q:" + csv(m.Q, "-") + " B:" + b + " R:" + r + " L:" + l
}

func (s Summary) String() string {
	var b strings.Builder
	b.WriteString("S")
	b.WriteString(itoa(len(s.Services)))
	for _, sv := range s.Services {
		b.WriteString(" [" + sv.Name + " " + itoa(len(sv.Methods)))
		for _, m := range sv.Methods {
			b.WriteString(" [" + m.String() + "]")
		}
		b.WriteString("]")
	}
	b.WriteString(" K:" + csv(s.Keys, "-"))
	return b.String()
}

func itoa(i int) string {
	if i == 0 {
		return "0"
	}
	var d []byte
	for i > 0 {
		d = append([]byte{byte('0' + i%10)}, d...)
		i /= 10
	}
	return string(d)
}

// ---- expected summary, from the declaration

type expCtx struct {
	spec       *Spec
	keys       map[string]bool
	badDefault string
}

func (s *Spec) schema(name string) *Schema {
	for _, sc := range s.Schemas {
		if sc.Name == name {
			return sc
		}
	}
	return nil
}

// reach marks every schema reachable from a property type; parent is the name of the message
// the property belongs to (for the names of hoisted inline schemas), prefix its sub-package key prefix.
func (c *expCtx) reach(t *Type, prefix, parent, field string) {
	switch t.K {
	case "R":
		c.reachNamed(t.Name)
	case "A", "M":
		c.reach(t.Elem, prefix, parent, field)
	case "IO", "IU":
		name := parent + "_" + strcase.ToCamel(field)
		if c.keys[prefix+name] {
			return
		}
		c.keys[prefix+name] = true
		for _, p := range t.Props {
			c.reach(p.T, prefix, name, p.Name)
		}
	case "IE":
		c.keys[prefix+parent+"_"+strcase.ToCamel(field)] = true
	}
}

func (c *expCtx) reachNamed(name string) {
	if c.keys[name] {
		return
	}
	sc := c.spec.schema(name)
	if sc == nil {
		return
	}
	c.keys[name] = true
	for _, p := range sc.Props {
		c.reach(p.T, "", name, p.Name)
	}
}

const verbHasBody = "POST PUT DELETE PATCH"

// pathParams lists the names after ':' of the path's parameter segments, in order.
func pathParams(p string) []string {
	var out []string
	for _, part := range strings.Split(p, "/") {
		if strings.HasPrefix(part, ":") {
			out = append(out, part[1:])
		}
	}
	return out
}

func contains(xs []string, x string) bool {
	for _, y := range xs {
		if x == y {
			return true
		}
	}
	return false
}

func Expect(s *Spec) Summary {
	c := &expCtx{spec: s, keys: map[string]bool{}}
	var out Summary
	for _, sv := range s.Services {
		ss := ServiceSum{Name: sv.Name + "Service"}
		for _, m := range sv.Methods {
			ms := MethodSum{Name: m.Name, Verb: m.Verb, Path: m.Path, List: m.List}
			if sv.Base != nil {
				ms.Path = path.Join(*sv.Base, m.Path)
			}
			params := pathParams(ms.Path)
			ms.HasBody = m.Verb != "GET"
			for _, p := range m.Req {
				switch {
				case contains(params, p.Name):
					ms.P = append(ms.P, p.Name)
				case ms.HasBody:
					ms.B = append(ms.B, p.Name)
				default:
					ms.Q = append(ms.Q, p.Name)
				}
				c.reach(p.T, "service.", m.Name+"Request", p.Name)
			}
			if m.HasResp {
				ms.Resp = m.Name + "Response"
				for _, p := range m.Resp {
					c.reach(p.T, "service.", m.Name+"Response", p.Name)
				}
			}
			if m.List {
				item := s.schema(leaf(m.Resp[0].T).Name)
				c.listWalk(&ms, item.Props, nil, []string{item.Name}, item.Name)
			}
			ss.Methods = append(ss.Methods, ms)
		}
		out.Services = append(out.Services, ss)
	}
	for k := range c.keys {
		out.Keys = append(out.Keys, k)
	}
	sort.Strings(out.Keys)
	out.BadDefault = c.badDefault
	return out
}

// listWalk mirrors buildListRequest over WalkSchemaFields: visit every property, recurse into
// object and oneof fields (named or inline), never into a schema that is already being walked.
func (c *expCtx) listWalk(ms *MethodSum, props []*Prop, pth []string, stack []string, parent string) {
	for _, p := range props {
		pp := append(append([]string{}, pth...), p.Name)
		name := strings.Join(pp, ".")
		if (p.T.K == "R" && p.T.Sub == "e" || p.T.K == "IE") && p.Has('f') && c.spec.defaultFilter(p) == "BOGUS" && c.badDefault == "" {
			c.badDefault = ms.Name + ":" + name
		}
		switch k := p.T.K; {
		case k == "R" && p.T.Sub == "e", k == "IE", k == "bool", k == "id62", k == "uuid", k == "key", k == "R" && p.T.Sub == "u", k == "IU":
			if p.Has('f') {
				ms.LF = append(ms.LF, name)
			}
		case k == "i32", k == "i64", k == "u32", k == "u64", k == "f32", k == "f64", k == "ts":
			if p.Has('f') {
				ms.LF = append(ms.LF, name)
			}
			if p.Has('s') {
				ms.LS = append(ms.LS, name)
			}
		case k == "str":
			if p.Has('q') {
				ms.LQ = append(ms.LQ, name)
			}
		}
		switch p.T.K {
		case "R":
			if p.T.Sub == "e" || contains(stack, p.T.Name) {
				continue
			}
			if sc := c.spec.schema(p.T.Name); sc != nil {
				c.listWalk(ms, sc.Props, pp, append(append([]string{}, stack...), sc.Name), sc.Name)
			}
		case "IO", "IU":
			name := parent + "_" + strcase.ToCamel(p.Name)
			c.listWalk(ms, p.T.Props, pp, append(append([]string{}, stack...), name), name)
		}
	}
}

// ---- actual summary, from the client API produced by the real pipeline

func propNamesPB(ps []*schema_j5pb.ObjectProperty) []string {
	var out []string
	for _, p := range ps {
		out = append(out, p.Name)
	}
	return out
}

var verbName = map[client_j5pb.HTTPMethod]string{
	client_j5pb.HTTPMethod_HTTP_METHOD_GET:    "GET",
	client_j5pb.HTTPMethod_HTTP_METHOD_POST:   "POST",
	client_j5pb.HTTPMethod_HTTP_METHOD_PUT:    "PUT",
	client_j5pb.HTTPMethod_HTTP_METHOD_DELETE: "DELETE",
	client_j5pb.HTTPMethod_HTTP_METHOD_PATCH:  "PATCH",
}

func methodSum(m *client_j5pb.Method) MethodSum {
	ms := MethodSum{Name: m.Name, Verb: verbName[m.HttpMethod], Path: m.HttpPath}
	if ms.Verb == "" {
		ms.Verb = "?" + m.HttpMethod.String()
	}
	if m.Request != nil {
		ms.P = propNamesPB(m.Request.PathParameters)
		ms.Q = propNamesPB(m.Request.QueryParameters)
		if m.Request.Body != nil {
			ms.HasBody = true
			ms.B = propNamesPB(m.Request.Body.Properties)
		}
		if l := m.Request.List; l != nil {
			ms.List = true
			for _, f := range l.FilterableFields {
				ms.LF = append(ms.LF, f.Name)
			}
			for _, f := range l.SortableFields {
				ms.LS = append(ms.LS, f.Name)
			}
			for _, f := range l.SearchableFields {
				ms.LQ = append(ms.LQ, f.Name)
			}
		}
	}
	if m.ResponseBody != nil {
		ms.Resp = m.ResponseBody.Name
	}
	return ms
}

func Actual(pkgName string, api *client_j5pb.API) Summary {
	var out Summary
	for _, pkg := range api.Packages {
		if pkg.Name != pkgName {
			continue
		}
		for _, sv := range pkg.Services {
			ss := ServiceSum{Name: sv.Name}
			for _, m := range sv.Methods {
				ss.Methods = append(ss.Methods, methodSum(m))
			}
			out.Services = append(out.Services, ss)
		}
		for k := range pkg.Schemas {
			out.Keys = append(out.Keys, k)
		}
	}
	sort.Strings(out.Keys)
	return out
}
