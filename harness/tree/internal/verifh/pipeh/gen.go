//go:build verif

package main

import (
	"fmt"
	"os"
	"strings"

	"github.com/iancoleman/strcase"
	"github.com/pentops/j5/internal/verifh/vh"
)

// ---- seeded generator of structured packages

var pkgNames = []string{"foo.v1", "foo.bar.v1", "ab.v2", "acme.billing.v1", "x.v10"}
var schemaNames = []string{"Bar", "Node", "Tree", "Leaf", "Item", "Thing", "Widget", "Part", "Account", "Address", "Tag", "Money", "Shape", "Color", "Mode", "Kind2", "HTTPThing", "A",
	// short names that also exist in the built-in packages a list method / an entity pulls in (j5.list.v1, j5.state.v1, j5.auth.v1)
	"Filter", "Sort", "Range", "Search", "Field", "Actor", "Cause", "Action"}
var fieldNames = []string{"name", "fooId", "barID", "x", "a1", "foo_bar", "createdAt", "isOK", "id", "nodeId", "itemCount", "v2Field", "q", "child", "children", "parent", "items", "value", "kind", "status", "owner", "ref", "note", "amount", "when", "data2", "httpCode", "b", "thingID", "userURL"}
var serviceNames = []string{"Foo", "Bar", "Admin", "Thing", "Widget", "Report", "FooQuery", "FooCommand", "X"}
var methodNames = []string{"GetFoo", "ListFoos", "CreateFoo", "UpdateFoo", "DeleteFoo", "PatchFoo", "Download", "Search", "Get", "Put", "Do", "RunX", "A", "ListNodes", "ListItems", "FooBar"}
var topicNames = []string{"Ping", "Notify", "Work", "FooEvents2", "Audit", "Sync", "fooBar", "foo_bar", "HTTPPing", "pingV2"}
var msgNames = []string{"Hello", "Bye", "Started", "Done", "Failed", "Tick"}
var enumOpts = []string{"RED", "BLUE", "GREEN", "ONE", "TWO", "ACTIVE", "INACTIVE", "A", "B", "LONG_NAME", "X1"}
var literalSegs = []string{"foo", "bar", "v1", "items", "x", "foo-bar", "foo_bar", "a.b", "Q", "123", "nodes", "by-id", "sub"}

var scalarKinds = []string{"str", "i32", "i64", "u32", "u64", "f32", "f64", "bool", "bytes", "dec", "date", "ts", "id62", "uuid", "key", "any"}

// scalars that may carry list rules, and which
// (date and decimal rules arrive and are ignored by buildListRequest; so are the filtering rules of a
// oneof field: OneofField is no ScalarSchema, the arm for it in buildListRequest is never reached)
var canFilter = map[string]bool{"i32": true, "i64": true, "u32": true, "u64": true, "f32": true, "f64": true, "bool": true, "id62": true, "uuid": true, "key": true, "date": true, "dec": true, "ts": true}
var canSort = map[string]bool{"i32": true, "i64": true, "u32": true, "u64": true, "f32": true, "f64": true, "dec": true, "ts": true}
var canSearch = map[string]bool{"str": true}

type genCtx struct {
	h       *vh.H
	objects []string
	oneofs  []string
	enums   []string
	rich    bool // use every field type
	spec    *Spec
}

func pickN[T any](h *vh.H, xs []T, n int) []T {
	idx := h.Rng.Perm(len(xs))
	if n > len(xs) {
		n = len(xs)
	}
	out := make([]T, 0, n)
	for _, i := range idx[:n] {
		out = append(out, xs[i])
	}
	return out
}

// uniqueFieldNames picks n names whose snake forms are pairwise distinct.
func uniqueFieldNames(h *vh.H, n int, avoid ...string) []string {
	seen := map[string]bool{}
	for _, a := range avoid {
		seen[strcase.ToSnake(a)] = true
	}
	var out []string
	for _, i := range h.Rng.Perm(len(fieldNames)) {
		if len(out) == n {
			break
		}
		sn := strcase.ToSnake(fieldNames[i])
		if seen[sn] {
			continue
		}
		seen[sn] = true
		out = append(out, fieldNames[i])
	}
	return out
}

func (g *genCtx) scalar() *Type {
	if g.rich {
		return &Type{K: vh.Pick(g.h, scalarKinds)}
	}
	// plain packages stay on the types every stage is known to handle
	return &Type{K: vh.Pick(g.h, []string{"str", "str", "i32", "i64", "u64", "f64", "bool", "any"})}
}

func (g *genCtx) typ(depth int) *Type {
	h := g.h
	r := h.Rng.IntN(100)
	switch {
	case r < 45:
		return g.scalar()
	case r < 60 && len(g.objects) > 0:
		return &Type{K: "R", Sub: "o", Name: vh.Pick(h, g.objects)}
	case r < 66 && len(g.oneofs) > 0:
		return &Type{K: "R", Sub: "u", Name: vh.Pick(h, g.oneofs)}
	case r < 72 && len(g.enums) > 0:
		return &Type{K: "R", Sub: "e", Name: vh.Pick(h, g.enums)}
	case r < 80 && depth < 2:
		return &Type{K: "A", Elem: g.elemType(depth + 1)}
	case r < 85 && depth < 2:
		return &Type{K: "M", Elem: g.elemType(depth + 1)}
	case r < 90 && depth < 2:
		return &Type{K: "IO", Props: g.props(h.Rng.IntN(3), depth+1, false)}
	case r < 93 && depth < 2:
		return &Type{K: "IU", Props: g.props(1+h.Rng.IntN(2), depth+1, true)}
	case r < 96:
		return &Type{K: "IE", Opts: pickN(h, enumOpts, 1+h.Rng.IntN(3))}
	}
	return g.scalar()
}

// elemType: array / map element (no nested array or map: proto has no repeated repeated)
func (g *genCtx) elemType(depth int) *Type {
	for {
		t := g.typ(depth)
		if t.K != "A" && t.K != "M" {
			return t
		}
	}
}

func (g *genCtx) props(n, depth int, oneof bool) []*Prop {
	names := uniqueFieldNames(g.h, n)
	out := make([]*Prop, 0, n)
	for _, nm := range names {
		p := &Prop{Name: nm, T: g.typ(depth)}
		if oneof {
			p.T = g.elemType(depth) // a oneof option cannot be repeated
		} else {
			g.flags(p)
		}
		out = append(out, p)
	}
	return out
}

func (g *genCtx) flags(p *Prop) {
	h := g.h
	if p.T.K == "A" || p.T.K == "M" {
		return
	}
	if p.T.K == "R" && p.T.Sub == "o" && h.Chance(1, 4) {
		p.Flags += "F" // flattened object field (self- and mutually flattening objects included)
	}
	if g.rich && (p.T.K == "R" && p.T.Sub == "u" || p.T.K == "IU") && h.Chance(1, 4) {
		p.Flags += "f" // compiles, and has no effect on the list request
	}
	switch h.Rng.IntN(6) {
	case 0:
		p.Flags += "r"
	case 1:
		if p.T.K != "R" && p.T.K != "X" && p.T.K != "IO" && p.T.K != "IU" {
			p.Flags += "o"
		}
	}
	if g.rich && h.Chance(1, 3) {
		if canFilter[p.T.K] && h.Chance(1, 2) {
			p.Flags += "f"
		}
		if canSort[p.T.K] && h.Chance(1, 2) {
			p.Flags += "s"
		}
		if canSearch[p.T.K] && h.Chance(1, 2) {
			p.Flags += "q"
		}
		if (p.T.K == "R" && p.T.Sub == "e" || p.T.K == "IE") && h.Chance(1, 2) {
			p.Flags += "f"
			switch r := h.Rng.IntN(30); {
			case r < 8:
				p.Flags += "d" // default filter naming a declared option
			case r < 14:
				p.Flags += "P" // the same, spelled with the enum's prefix
			case r < 16:
				p.Flags += "D" // default filter naming no option: the compiler has to reject the package (fix b6c593a)
			}
		}
	}
}

// pathParamType: what may stand in a path position
func (g *genCtx) pathParamType() *Type {
	h := g.h
	if !g.rich {
		return &Type{K: vh.Pick(h, []string{"str", "str", "i64", "i32", "bool"})}
	}
	if len(g.enums) > 0 && h.Chance(1, 8) {
		return &Type{K: "R", Sub: "e", Name: vh.Pick(h, g.enums)}
	}
	return &Type{K: vh.Pick(h, []string{"str", "i32", "i64", "u32", "u64", "f32", "f64", "bool", "bytes", "dec", "date", "ts", "id62", "uuid", "key"})}
}

func genSpec(h *vh.H) *Spec {
	g := &genCtx{h: h, rich: h.Chance(1, 2)}
	s := &Spec{Pkg: vh.Pick(h, pkgNames)}
	g.spec = s

	// schema skeleton first, so that references may point forward, backward and at themselves
	nSchemas := h.Rng.IntN(6)
	names := pickN(h, schemaNames, nSchemas)
	for _, n := range names {
		sc := &Schema{Name: n}
		switch r := h.Rng.IntN(10); {
		case r < 6:
			sc.Kind = "O"
			g.objects = append(g.objects, n)
		case r < 8:
			sc.Kind = "U"
			g.oneofs = append(g.oneofs, n)
		default:
			sc.Kind = "E"
			g.enums = append(g.enums, n)
		}
		s.Schemas = append(s.Schemas, sc)
	}
	for _, sc := range s.Schemas {
		switch sc.Kind {
		case "O":
			sc.Props = g.props(h.Rng.IntN(5), 0, false)
			if h.Chance(1, 3) { // force a self reference (direct, or through an array / map)
				nm := uniqueFieldNames(h, 1, propNames(sc.Props)...)
				if len(nm) == 1 {
					t := &Type{K: "R", Sub: "o", Name: sc.Name}
					switch h.Rng.IntN(3) {
					case 1:
						t = &Type{K: "A", Elem: t}
					case 2:
						t = &Type{K: "M", Elem: t}
					}
					sp := &Prop{Name: nm[0], T: t}
					if t.K == "R" && h.Chance(1, 3) {
						sp.Flags = "F" // an object flattening itself
					}
					sc.Props = append(sc.Props, sp)
				}
			}
		case "U":
			sc.Props = g.props(1+h.Rng.IntN(3), 0, true)
		case "E":
			sc.Opts = pickN(h, enumOpts, 1+h.Rng.IntN(4))
		}
	}
	if len(g.objects) >= 2 && h.Chance(1, 2) { // force a mutual recursion a -> b -> a
		a, b := s.object(g.objects[0]), s.object(g.objects[1])
		if n := uniqueFieldNames(h, 1, propNames(a.Props)...); len(n) == 1 {
			ap := &Prop{Name: n[0], T: &Type{K: "R", Sub: "o", Name: b.Name}}
			if h.Chance(1, 3) {
				ap.Flags = "F"
			}
			a.Props = append(a.Props, ap)
		}
		if n := uniqueFieldNames(h, 1, propNames(b.Props)...); len(n) == 1 {
			t := &Type{K: "R", Sub: "o", Name: a.Name}
			bp := &Prop{Name: n[0], T: t}
			switch h.Rng.IntN(3) {
			case 0:
				bp.T = &Type{K: "A", Elem: t}
			case 1:
				bp.Flags = "F" // two objects flattening each other
			}
			b.Props = append(b.Props, bp)
		}
	}

	if len(g.objects) >= 1 && len(g.oneofs) >= 1 && h.Chance(1, 3) { // recursion through a oneof: object -> oneof -> object
		a, u := s.object(g.objects[0]), s.schema(g.oneofs[0])
		if n := uniqueFieldNames(h, 1, propNames(u.Props)...); len(n) == 1 {
			u.Props = append(u.Props, &Prop{Name: n[0], T: &Type{K: "R", Sub: "o", Name: a.Name}})
		}
		if n := uniqueFieldNames(h, 1, propNames(a.Props)...); len(n) == 1 {
			t := &Type{K: "R", Sub: "u", Name: u.Name}
			switch h.Rng.IntN(4) {
			case 1:
				t = &Type{K: "A", Elem: t}
			case 2:
				t = &Type{K: "M", Elem: t}
			}
			a.Props = append(a.Props, &Prop{Name: n[0], T: t})
		}
	}

	// rarely: an inline field whose hoisted message name equals a declared schema's name, next to a
	// reference to that schema (nested `Outer.Tag` shadows top-level `Tag` inside `Outer`)
	if len(g.objects) >= 2 && h.Chance(1, 25) {
		outer, target := s.object(g.objects[0]), s.object(g.objects[1])
		lower := strings.ToLower(target.Name[:1]) + target.Name[1:]
		if strcase.ToCamel(lower) == target.Name && !contains(propNames(outer.Props), lower) {
			if n := uniqueFieldNames(h, 1, append(propNames(outer.Props), lower)...); len(n) == 1 {
				outer.Props = append(outer.Props,
					&Prop{Name: lower, T: &Type{K: "IO", Props: []*Prop{{Name: "nested", T: &Type{K: "str"}}}}},
					&Prop{Name: n[0], T: &Type{K: "R", Sub: "o", Name: target.Name}})
			}
		}
	}
	if nSchemas > 1 && h.Chance(1, 4) {
		s.Extra = 1 + h.Rng.IntN(nSchemas-1)
	}

	// services
	nServices := h.Rng.IntN(3)
	if nSchemas == 0 || h.Chance(1, 2) {
		nServices++
	}
	mnames := pickN(h, methodNames, len(methodNames))
	for _, sn := range pickN(h, serviceNames, nServices) {
		sv := &Service{Name: sn}
		switch h.Rng.IntN(6) {
		case 0:
		case 1:
			b := "/" + strings.ReplaceAll(s.Pkg, ".", "/") + "/"
			sv.Base = &b
		case 2:
			b := "/"
			sv.Base = &b
		default:
			b := "/" + strings.ReplaceAll(s.Pkg, ".", "/")
			sv.Base = &b
		}
		nm := 1 + h.Rng.IntN(4)
		for k := 0; k < nm && len(mnames) > 0; k++ {
			name := mnames[0]
			mnames = mnames[1:]
			sv.Methods = append(sv.Methods, g.method(name, sv.Base != nil))
		}
		s.Services = append(s.Services, sv)
	}

	// topics
	if h.Chance(1, 3) {
		for _, tn := range pickN(h, topicNames, 1+h.Rng.IntN(2)) {
			t := &Topic{Name: tn}
			switch h.Rng.IntN(4) {
			case 0, 1:
				t.Kind = "P"
				for _, mn := range pickN(h, msgNames, 1+h.Rng.IntN(3)) {
					t.Msgs = append(t.Msgs, &TopicMsg{Name: mn, Props: g.props(h.Rng.IntN(4), 1, false)})
				}
			case 2:
				t.Kind = "Q"
				t.Msgs = []*TopicMsg{{Name: "-", Props: g.props(h.Rng.IntN(3), 1, false)}, {Name: "-", Props: g.props(h.Rng.IntN(3), 1, false)}}
			case 3:
				t.Kind = vh.Pick(h, []string{"W", "V"})
				t.Entity = "thing"
				t.Msgs = []*TopicMsg{{Name: "-", Props: g.props(1+h.Rng.IntN(3), 1, false)}}
			}
			s.Topics = append(s.Topics, t)
		}
		s.Topics = dedupTopicMessages(s.Topics)
	}

	// entities
	if h.Chance(1, 4) {
		en := &Entity{Name: vh.Pick(h, []string{"Foo", "Order", "Acct", "Doc", "APIKey", "fooBar", "OrderX"})}
		if s.object(en.Name) == nil && !clashes(s, en.Name) {
			kn := uniqueFieldNames(h, 1+h.Rng.IntN(2))
			for i, k := range kn {
				p := &Prop{Name: k, T: &Type{K: vh.Pick(h, []string{"id62", "uuid", "key"})}}
				if i == 0 {
					p.Flags = "p"
				} else if h.Chance(1, 2) {
					p.Flags = "h" // shard key: a path parameter of Get, List and Events
				}
				en.Keys = append(en.Keys, p)
			}
			for _, d := range uniqueFieldNames(h, h.Rng.IntN(3), kn...) {
				en.Data = append(en.Data, &Prop{Name: d, T: g.typ(1)})
			}
			en.Status = pickN(h, []string{"ACTIVE", "INACTIVE", "DRAFT", "DONE"}, 1+h.Rng.IntN(3))
			nEvents := 1 + h.Rng.IntN(3)
			if h.Chance(1, 12) {
				nEvents = 0 // known finding (C17's, visible here as api:err:empty-event-oneof)
			}
			for _, ev := range pickN(h, []string{"Create", "Archive", "Update", "Touch"}, nEvents) {
				en.Events = append(en.Events, &TopicMsg{Name: ev, Props: g.props(h.Rng.IntN(3), 1, false)})
			}
			// command services: `commands [Name] { basePath? method… }`
			cnames := pickN(h, []string{"", "Admin", "Ops", "FooCommand"}, h.Rng.IntN(3))
			for _, cn := range cnames {
				if cn != "" && clashes(s, cn) {
					continue
				}
				cs := &Service{Name: cn}
				if h.Chance(1, 3) {
					b := vh.Pick(h, []string{"admin", "ops/v2", "x"})
					cs.Base = &b
				}
				for k := 0; k < 1+h.Rng.IntN(2) && len(mnames) > 0; k++ {
					name := mnames[0]
					mnames = mnames[1:]
					if strings.HasPrefix(name, en.Name) {
						continue
					}
					cs.Methods = append(cs.Methods, g.method(name, true))
				}
				if len(cs.Methods) > 0 {
					en.Commands = append(en.Commands, cs)
				}
			}
			s.Entities = append(s.Entities, en)
		}
	}
	return s
}

// hasFlag: does any property of the package (inline schemas included) carry flag c
func (s *Spec) hasFlag(c byte) bool {
	var any func(ps []*Prop) bool
	any = func(ps []*Prop) bool {
		for _, p := range ps {
			if p.Has(c) {
				return true
			}
			for t := p.T; t != nil; t = t.Elem {
				if any(t.Props) {
					return true
				}
			}
		}
		return false
	}
	for _, sc := range s.Schemas {
		if any(sc.Props) {
			return true
		}
	}
	for _, sv := range s.Services {
		for _, m := range sv.Methods {
			if any(m.Req) || any(m.Resp) {
				return true
			}
		}
	}
	for _, t := range s.Topics {
		for _, m := range t.Msgs {
			if any(m.Props) {
				return true
			}
		}
	}
	for _, en := range s.Entities {
		if any(en.Keys) || any(en.Data) {
			return true
		}
		for _, ev := range en.Events {
			if any(ev.Props) {
				return true
			}
		}
	}
	return false
}

func rotate(xs []string, k int) []string {
	k %= len(xs)
	return append(append([]string{}, xs[k:]...), xs[:k]...)
}

func dedupTopicMessages(ts []*Topic) []*Topic {
	seen := map[string]bool{}
	for _, t := range ts {
		if t.Kind != "P" {
			continue
		}
		var keep []*TopicMsg
		for _, m := range t.Msgs {
			if !seen[m.Name] {
				seen[m.Name] = true
				keep = append(keep, m)
			}
		}
		t.Msgs = keep
	}
	var out []*Topic
	for _, t := range ts {
		if len(t.Msgs) > 0 {
			out = append(out, t)
		}
	}
	return out
}

func clashes(s *Spec, entity string) bool {
	for _, sc := range s.Schemas {
		if strings.HasPrefix(sc.Name, entity) {
			return true
		}
	}
	for _, sv := range s.Services {
		if strings.HasPrefix(sv.Name, entity) {
			return true
		}
		for _, m := range sv.Methods {
			if strings.HasPrefix(m.Name, entity) {
				return true
			}
		}
	}
	return false
}

func propNames(ps []*Prop) []string {
	out := make([]string, len(ps))
	for i, p := range ps {
		out[i] = p.Name
	}
	return out
}

func (s *Spec) object(name string) *Schema {
	for _, sc := range s.Schemas {
		if sc.Name == name && sc.Kind == "O" {
			return sc
		}
	}
	return nil
}

func (g *genCtx) method(name string, hasBase bool) *Method {
	h := g.h
	m := &Method{Name: name, Verb: vh.Pick(h, []string{"GET", "GET", "POST", "POST", "PUT", "DELETE", "PATCH"})}

	isList := len(g.objects) > 0 && h.Chance(1, 4)
	nPath := h.Rng.IntN(4)
	if nPath == 3 {
		nPath = h.Rng.IntN(3)
	}
	nOther := h.Rng.IntN(4)
	avoid := []string{}
	if isList {
		avoid = []string{"page", "query"}
	}
	names := uniqueFieldNames(h, nPath+nOther, avoid...)
	if len(names) < nPath {
		nPath = len(names)
	}
	var pathProps []*Prop
	for i, nm := range names {
		if i < nPath {
			p := &Prop{Name: nm, T: g.pathParamType()}
			if h.Chance(1, 3) {
				p.Flags = "r"
			}
			pathProps = append(pathProps, p)
			m.Req = append(m.Req, p)
		} else {
			t := g.typ(0)
			if m.Verb == "GET" && !g.rich {
				// query parameters: keep to scalars for the plain half
				t = g.scalar()
			}
			p := &Prop{Name: nm, T: t}
			g.flags(p)
			m.Req = append(m.Req, p)
		}
	}
	// shuffle request property order so that path parameters are not always first
	h.Rng.Shuffle(len(m.Req), func(i, j int) { m.Req[i], m.Req[j] = m.Req[j], m.Req[i] })

	// path: literal and parameter segments interleaved
	var segs []string
	if h.Chance(4, 5) {
		segs = append(segs, vh.Pick(h, literalSegs))
	}
	for _, p := range pathProps {
		segs = append(segs, ":"+p.Name)
		if h.Chance(1, 3) {
			segs = append(segs, vh.Pick(h, literalSegs))
		}
	}
	path := "/" + strings.Join(segs, "/")
	switch h.Rng.IntN(12) {
	case 0:
		path += "/" // trailing slash
	case 1:
		if hasBase {
			path = strings.TrimPrefix(path, "/") // relative to the base path
		}
	case 2:
		if hasBase && len(segs) > 0 {
			path = "/" + path // doubled slash, cleaned by path.Join
		}
	}
	if len(segs) == 0 && !hasBase {
		path = "/"
	}
	m.Path = path

	if isList {
		m.List = true
		m.Req = append(m.Req, &Prop{Name: "page", T: &Type{K: "X", Pkg: "j5.list.v1", Name: "PageRequest"}},
			&Prop{Name: "query", T: &Type{K: "X", Pkg: "j5.list.v1", Name: "QueryRequest"}})
		m.HasResp = true
		item := vh.Pick(h, g.objects)
		m.Resp = []*Prop{{Name: vh.Pick(h, []string{"items", "nodes", "results"}), T: &Type{K: "A", Elem: &Type{K: "R", Sub: "o", Name: item}}},
			{Name: "page", T: &Type{K: "X", Pkg: "j5.list.v1", Name: "PageResponse"}}}
		if h.Chance(1, 3) {
			// an envelope: a flattened object field beside the one array (preferably an object that has an
			// array property itself: the array search of buildListRequest is over the response's own
			// properties, like the compiler's checkListMethod, not over its client properties — seeded change C16-m8)
			env := vh.Pick(h, g.objects)
			for _, cand := range g.objects {
				if sc := g.spec.object(cand); sc != nil && hasArrayProp(sc) && h.Chance(2, 3) {
					env = cand
					break
				}
			}
			if nm := uniqueFieldNames(h, 1, append(propNames(m.Resp), "page", "query")...); len(nm) == 1 {
				ep := &Prop{Name: nm[0], Flags: "F", T: &Type{K: "R", Sub: "o", Name: env}}
				if h.Chance(1, 2) {
					m.Resp = append([]*Prop{ep}, m.Resp...) // in front of the array
				} else {
					m.Resp = append(m.Resp, ep)
				}
				h.Count("gen.list-response.flattened-envelope")
				if sc := g.spec.object(env); sc != nil && hasArrayProp(sc) {
					h.Count("gen.list-response.flattened-envelope-with-array")
				}
			}
		}
		return m
	}
	if h.Chance(5, 6) {
		m.HasResp = true
		m.Resp = g.props(h.Rng.IntN(4), 0, false)
	}
	if h.Chance(1, 150) && !contains(propNames(m.Req), "query") {
		// repaired finding client:err:list-response-shape: a j5.list.v1.QueryRequest property on a method
		// whose response is (most likely) not list shaped; the compiler has to reject it (fix 57821b0)
		m.Req = append(m.Req, &Prop{Name: "query", T: &Type{K: "X", Pkg: "j5.list.v1", Name: "QueryRequest"}})
	}
	return m
}

// Gen: 4 of 10 ops are whole packages. The property quantifies over *valid* packages, i.e.
// those the compiler accepts, so a candidate is first compiled (in the worker) and replaced by
// a fresh one when it is rejected; the rejections are counted by class.
func (impl) Gen(h *vh.H, i int) string {
	if i%10 >= 4 {
		return genKernel(h, i)
	}
	for try := 0; try < 8; try++ {
		spec := genSpec(h)
		op := spec.Encode()
		if spec.hasFlag('D') {
			// "the compiler must reject" class: a default filter that names no option of the enum.
			// Not filtered: both sides have to answer compile-err (a compiler that lets it through
			// again shows up as `fail client` + oracle failure client:err:list-enum-default)
			h.Count("gen.must-reject.enum-default")
			return op
		}
		if Expect(spec).BadList != "" {
			// "the compiler must reject" class: a QueryRequest on a method whose response is not exactly
			// one array of objects (fix 57821b0); a compiler that lets it through again shows up as
			// `fail client` + oracle failure client:err:list-response-shape
			h.Count("gen.must-reject.list-shape")
			return op
		}
		res := callWorker(h, "valid "+strings.TrimPrefix(op, "chain "), false)
		if res.died == "" && res.result == "valid" {
			return op
		}
		cls := res.result
		if res.died != "" {
			cls = "compile-" + res.died
		}
		h.Count("gen.rejected." + strings.ReplaceAll(cls, " ", "."))
		if os.Getenv("VERIF_SHOW_REJECTED") != "" {
			fmt.Fprintln(os.Stderr, "REJECTED:", cls, "\n", op)
		}
	}
	return ""
}

func hasArrayProp(sc *Schema) bool {
	for _, p := range sc.Props {
		if p.T.K == "A" {
			return true
		}
	}
	return false
}

var _ = fmt.Sprint
