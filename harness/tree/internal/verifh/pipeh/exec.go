//go:build verif

package main

import (
	"bufio"
	"bytes"
	"encoding/json"
	"fmt"
	"io"
	"os"
	"os/exec"
	"regexp"
	"runtime/debug"
	"sort"
	"strings"
	"sync"
	"time"

	"github.com/iancoleman/strcase"
	"github.com/pentops/j5/gen/j5/client/v1/client_j5pb"
	"github.com/pentops/j5/gen/j5/schema/v1/schema_j5pb"
	"github.com/pentops/j5/internal/j5client"
	"github.com/pentops/j5/internal/structure"
	"github.com/pentops/j5/internal/verifh/vh"
	"google.golang.org/protobuf/encoding/prototext"
	"google.golang.org/protobuf/proto"
)

// ---------------------------------------------------------------------------------------------
// Worker side. Every op is executed in a separate worker process (same binary, argument
// "worker"): infinite recursion ends in a fatal stack overflow that no recover() can catch, so
// the parent only loses the worker, attributes the crash to the op and the stage it was in, and
// starts a new one. Worker protocol on stdout, one record per line:
//   S <stage>            entering a stage
//   F <sig>\t<detail>    oracle failure
//   C <key>              counter
//   N                    the op is non-trivial
//   R <result line>      canonical result, ends the op
// ---------------------------------------------------------------------------------------------

const stageTimeout = 60 * time.Second // generous: the sandbox is shared, runaway recursion ends by stack overflow long before

type sink struct{ w *bufio.Writer }

func (s *sink) emit(kind, rest string) {
	s.w.WriteString(kind)
	if rest != "" {
		s.w.WriteByte(' ')
		s.w.WriteString(strings.ReplaceAll(rest, "\n", "\\n"))
	}
	s.w.WriteByte('\n')
	s.w.Flush()
}
func (s *sink) stage(n string)      { s.emit("S", n) }
func (s *sink) count(k string)      { s.emit("C", k) }
func (s *sink) fail(sig, d string) {
	if len(d) > 1500 {
		d = d[:1500] + "…"
	}
	s.emit("F", sig+"\t"+d)
}

func workerMain() {
	debug.SetMaxStack(32 << 20) // runaway recursion dies in well under a second
	in := bufio.NewReaderSize(os.Stdin, 1<<20)
	out := &sink{w: bufio.NewWriterSize(os.Stdout, 1<<16)}
	for {
		line, err := in.ReadString('\n')
		line = strings.TrimRight(line, "\r\n")
		if line != "" {
			stageTimedOut = false
			res := runOp(out, line)
			if stageTimedOut {
				// a timed-out stage is still running in its goroutine: do not let it spill into the next op
				out.emit("X", "")
				out.emit("R", res)
				os.Exit(3)
			}
			out.emit("R", res)
		}
		if err != nil {
			return
		}
	}
}

func runOp(out *sink, op string) string {
	switch {
	case strings.HasPrefix(op, "chain "):
		return runChain(out, op, false)
	case strings.HasPrefix(op, "valid "):
		return runChain(out, "chain "+op[6:], true)
	}
	return runKernel(out, op)
}

// errClass maps an error / panic text to a narrow, stable class name (identification only; it
// is never compared between implementation and model).
var errClasses = []struct {
	re  *regexp.Regexp
	cls string
}{
	{regexp.MustCompile(`unknown schema type for swagger \*schema_j5pb\.Field_(\w+)`), "unhandled-field-type:$1"},
	{regexp.MustCompile(`nil pointer dereference`), "nil-pointer"},
	{regexp.MustCompile(`invalid path part`), "invalid-path-part"},
	{regexp.MustCompile(`path field .* not found in input`), "path-field-not-found"},
	{regexp.MustCompile(`unsupported service name`), "unsupported-service-name"},
	{regexp.MustCompile(`service input message must be`), "input-name-rejected"},
	{regexp.MustCompile(`service output message must be`), "output-name-rejected"},
	{regexp.MustCompile(`topic input message must be`), "topic-input-rejected"},
	{regexp.MustCompile(`topic output message must be`), "topic-output-rejected"},
	{regexp.MustCompile(`missing http rule`), "missing-http-rule"},
	{regexp.MustCompile(`no array found in response|found multiple arrays|expected object schema|method has no response body`), "list-response-shape"},
	{regexp.MustCompile(`unknown enum value`), "list-enum-default"},
	{regexp.MustCompile(`unresolved reference|unlinked ref`), "unresolved-ref"},
	{regexp.MustCompile(`missing schema for entity|missing event oneof|event field is not oneof`), "entity-shape"},
	{regexp.MustCompile(`(arrays|maps) of \S*Any are not supported`), "collection-of-any"},
	{regexp.MustCompile(`unknown entity`), "unknown-entity"},
	{regexp.MustCompile(`message oneof .* must contain at least one field`), "empty-event-oneof"},
	{regexp.MustCompile(`syntax error`), "proto-syntax"},
	{regexp.MustCompile(`index out of range|slice bounds out of range`), "index-out-of-range"},
	{regexp.MustCompile(`interface conversion`), "type-assertion"},
	{regexp.MustCompile(`no type set|no schema on object property|no valid child`), "swagger-empty-schema"},
}

func classify(text string) string {
	for _, c := range errClasses {
		if m := c.re.FindStringSubmatchIndex(text); m != nil {
			return strings.ToLower(string(c.re.ExpandString(nil, c.cls, text, m)))
		}
	}
	return "other"
}

func (r stageResult) sig(stageName string) string {
	switch r.class {
	case "err":
		return stageName + ":err:" + classify(r.detail)
	case "panic":
		return stageName + ":panic:" + classify(r.detail)
	}
	return stageName + ":" + r.class
}

// runChain: the five stages of the property, the oracle, and the canonical summary of the
// client API. validateOnly stops after the compile (used by the generator to keep to *valid*
// packages, which is what the property quantifies over).
func runChain(out *sink, op string, validateOnly bool) string {
	spec, err := DecodeSpec(op)
	if err != nil {
		return "bad-op"
	}
	files := spec.Render()
	var co chainOut

	out.stage("compile")
	r := stage(stageTimeout, func() (err error) { co.files, err = compile(spec.Pkg, files); return })
	if r.class != "ok" {
		out.count("compile." + r.class)
		if r.class == "err" {
			out.count("compile.err." + compileErrClass(r.detail))
			return "compile-err"
		}
		// a compiler that crashes or hangs on the package is C07's business; here the package is simply not valid
		return "compile-" + r.class
	}
	if validateOnly {
		return "valid"
	}
	out.count("compile.ok")
	describe(out, spec)

	failed := ""
	run := func(name string, f func() error) bool {
		out.stage(name)
		r := stage(stageTimeout, f)
		if r.class != "ok" {
			out.fail(r.sig(name), r.detail)
			if failed == "" {
				failed = name
			}
			return false
		}
		return true
	}

	// direct route: linked descriptors -> image
	ok := run("image", func() (err error) { co.image, err = imageDirect(spec.Pkg, co.files); return })
	ok = ok && run("api", func() (err error) { co.api, err = structure.APIFromImage(co.image); return })
	if ok {
		out.stage("client")
		r := stage(stageTimeout, func() (err error) { co.client, err = j5client.APIFromSource(co.api); return })
		if r.class != "ok" {
			ok, failed = false, "client"
			if bad := Expect(spec).BadDefault; bad != "" && r.class == "err" && classify(r.detail) == "list-enum-default" {
				// the declaration itself names a default filter that is no option of the enum and the compiler accepted it
				// (repaired finding client:err:list-enum-default, fix b6c593a: a regression of the compile-side check)
				out.fail("client:err:list-enum-default", "list method reaches "+bad+": "+r.detail)
				out.count("pkg.bad-enum-default")
				return "fail client"
			}
			if bad := Expect(spec).BadList; bad != "" && r.class == "err" && classify(r.detail) == "list-response-shape" {
				// a method with a j5.list.v1.QueryRequest property whose response is not list shaped, and the
				// compiler accepted it (repaired finding, fix 57821b0: a regression of checkListMethod)
				out.fail("client:err:list-response-shape", "method "+bad+": "+r.detail)
				out.count("pkg.bad-list-shape")
				return "fail client"
			}
			out.fail(r.sig("client"), r.detail)
		}
	}
	if ok {
		run("json", func() (err error) {
			co.clientJS, err = clientJSON(co.client)
			if err == nil && !json.Valid(co.clientJS) {
				err = fmt.Errorf("rendering is not well-formed JSON")
			}
			return
		})
		run("swagger", func() (err error) {
			co.swagger, co.swaggerJS, err = swaggerJSON(co.client)
			if err == nil && !json.Valid(co.swaggerJS) {
				err = fmt.Errorf("document is not well-formed JSON")
			}
			return
		})
		if co.swaggerJS != nil {
			checkSwagger(out, spec, co.swaggerJS)
		}
	}

	// production route: print the generated files as .proto text and read them back
	// (only when route (a) went through: its failure is already reported, and there is nothing to compare with)
	var pimg chainOut
	pok := ok
	prun := func(name string, f func() error) {
		if !pok {
			return
		}
		out.stage("printed-" + name)
		r := stage(stageTimeout, f)
		if r.class != "ok" {
			out.fail("printed-"+r.sig(name), r.detail)
			pok = false
		}
	}
	prun("image", func() (err error) { pimg.image, pimg.printed, err = imagePrinted(spec.Pkg, co.files); return })
	prun("api", func() (err error) { pimg.api, err = structure.APIFromImage(pimg.image); return })
	prun("client", func() (err error) { pimg.client, err = j5client.APIFromSource(pimg.api); return })
	if pok && ok {
		a, b := proto.Clone(co.client).(*client_j5pb.API), proto.Clone(pimg.client).(*client_j5pb.API)
		a.Metadata, b.Metadata = nil, nil
		// the order of the indirectly referenced packages follows map iteration (C14's subject, not this one)
		sort.SliceStable(a.Packages, func(i, j int) bool { return a.Packages[i].Name < a.Packages[j].Name })
		sort.SliceStable(b.Packages, func(i, j int) bool { return b.Packages[i].Name < b.Packages[j].Name })
		if !proto.Equal(a, b) {
			sa, sb := Actual(spec.Pkg, a), Actual(spec.Pkg, b)
			switch {
			case shadowedName(spec) != "":
				// protoprint's relative type names do not look at enclosing scopes (print cluster's finding)
				out.fail("printed-client:differs-from-direct:shadowed-name", "inline field hoisted as "+shadowedName(spec)+", which is also a declared schema\n"+firstDiff(a, b))
			case sa.String() != sb.String():
				out.fail("printed-client:differs-from-direct:summary", "direct:  "+sa.String()+"\nprinted: "+sb.String())
			default:
				out.fail("printed-client:differs-from-direct:schemas", "client APIs differ below the summary level\n"+firstDiff(a, b))
			}
		}
	}

	if !ok {
		return "fail " + failed
	}
	out.stage("oracle")
	act := Actual(spec.Pkg, co.client)
	exp := Expect(spec)
	oracle(out, spec, exp, act, co.client)
	out.emit("N", "")
	// the topics the source API lists (name + message schemas), in order: ties the producer's topic
	// naming (sourcewalk/topic.go) to Names.topicName / messageName
	var topics []string
	for _, p := range co.api.Packages {
		for _, sp := range p.SubPackages {
			for _, t := range sp.Topics {
				var ms []string
				for _, m := range t.Messages {
					ms = append(ms, m.Schema)
				}
				topics = append(topics, t.Name+"="+strings.Join(ms, "+"))
			}
		}
	}
	// the OpenAPI document: operations (path grouping, parameters, body, response, references) and the
	// references inside the components, against the model's document (Pipe/SwaggerDoc.lean)
	w := "W:! X:!"
	if co.swagger != nil {
		out.stage("swagger-summary")
		w = swaggerSummary(out, spec, co.swagger)
	}
	return "ok " + act.String() + " T:" + csv(topics, "-") + " " + w
}

// shadowedName: a declared schema whose name is also the hoisted name of an inline field of some
// declared object or oneof ("" when there is none).
func shadowedName(s *Spec) string {
	for _, sc := range s.Schemas {
		for _, p := range sc.Props {
			if k := leaf(p.T).K; k == "IO" || k == "IU" || k == "IE" {
				if n := strcase.ToCamel(p.Name); s.schema(n) != nil {
					out := sc.Name + "." + n
					return out
				}
			}
		}
	}
	return ""
}

func firstDiff(a, b proto.Message) string {
	mo := prototext.MarshalOptions{Multiline: true}
	la, lb := strings.Split(mo.Format(a), "\n"), strings.Split(mo.Format(b), "\n")
	for i := 0; i < len(la) && i < len(lb); i++ {
		if strings.Join(strings.Fields(la[i]), " ") != strings.Join(strings.Fields(lb[i]), " ") {
			lo := i - 6
			if lo < 0 {
				lo = 0
			}
			return fmt.Sprintf("line %d\ndirect:  %s\nprinted: %s\ncontext:\n%s", i, la[i], lb[i], strings.Join(la[lo:i], "\n"))
		}
	}
	return fmt.Sprintf("lengths %d / %d", len(la), len(lb))
}

func compileErrClass(msg string) string {
	for _, k := range []string{"not found", "already defined", "duplicate", "unknown", "invalid type", "syntax", "required", "unexpected", "no such", "missing"} {
		if strings.Contains(strings.ToLower(msg), k) {
			return strings.ReplaceAll(k, " ", "-")
		}
	}
	return "other"
}

// describe prints the input distribution of a (valid) package into the counters.
func describe(out *sink, s *Spec) {
	out.count(fmt.Sprintf("pkg.services=%d", len(s.Services)))
	if s.Extra > 0 {
		out.count("pkg.two-source-files")
	}
	if shadowedName(s) != "" {
		out.count("pkg.shadowed-name")
	}
	if len(s.Topics) > 0 {
		out.count("pkg.with-topics")
	}
	if len(s.Entities) > 0 {
		out.count("pkg.with-entities")
	}
	var walk func(t *Type, pos string)
	walk = func(t *Type, pos string) {
		out.count("type." + pos + "." + t.K)
		if t.Elem != nil {
			walk(t.Elem, pos)
		}
		for _, p := range t.Props {
			walk(p.T, pos)
		}
	}
	for _, sc := range s.Schemas {
		for _, p := range sc.Props {
			walk(p.T, "schema")
			if leaf(p.T).K == "R" && leaf(p.T).Name == sc.Name {
				out.count("pkg.self-recursive-object")
			}
		}
	}
	for _, sv := range s.Services {
		if sv.Base != nil {
			out.count("svc.base-path")
		}
		for _, m := range sv.Methods {
			out.count("verb." + m.Verb)
			params := pathParams(m.Path)
			out.count(fmt.Sprintf("path.params=%d", len(params)))
			if !m.HasResp {
				out.count("method.no-response")
			}
			if m.List {
				out.count("method.list")
			}
			for _, p := range m.Req {
				if contains(params, p.Name) {
					walk(p.T, "path")
				} else {
					walk(p.T, "request")
				}
			}
			for _, p := range m.Resp {
				walk(p.T, "response")
			}
		}
	}
}

// ---- the property oracle on the real client API

func oracle(out *sink, spec *Spec, exp, act Summary, api *client_j5pb.API) {
	// (1) exactly the declared services and methods, with the declared verb and path
	compareServices(out, "client", exp.Services, act.Services, true)
	// (1b) the same for what entities generate: the query service (Get / List / Events with the keys
	// as path parameters; its list fields come from generated schemas and are left to the model)
	// and the command services
	if len(exp.Entities) != len(act.Entities) {
		out.fail("client:entities-differ", fmt.Sprintf("declared %d entities, client API lists %d", len(exp.Entities), len(act.Entities)))
	} else {
		for i := range exp.Entities {
			ee, ae := exp.Entities[i], act.Entities[i]
			switch {
			case ee.Name != ae.Name:
				out.fail("client:entity-name", fmt.Sprintf("want %s got %s", ee.Name, ae.Name))
				continue
			case csv(ee.PK, "") != csv(ae.PK, ""):
				out.fail("client:entity-primary-key", fmt.Sprintf("%s: want %v got %v", ee.Name, ee.PK, ae.PK))
			case csv(ee.Events, "") != csv(ae.Events, ""):
				out.fail("client:entity-events", fmt.Sprintf("%s: want %v got %v", ee.Name, ee.Events, ae.Events))
			}
			compareServices(out, "client:entity-query", []ServiceSum{ee.Query}, []ServiceSum{ae.Query}, false)
			compareServices(out, "client:entity-command", ee.Commands, ae.Commands, true)
		}
	}
	// (2) generic, declaration-independent checks on every method of the client API
	// (declared services and the services generated for entities alike)
	for _, pkg := range api.Packages {
		var all []*client_j5pb.Service
		all = append(all, pkg.Services...)
		for _, en := range pkg.StateEntities {
			if en.QueryService != nil {
				all = append(all, en.QueryService)
			}
			all = append(all, en.CommandServices...)
		}
		for _, sv := range all {
			for _, m := range sv.Methods {
				checkMethod(out, sv.Name, m)
			}
		}
	}
	// (3) every schema reachable from a method or entity is present
	for _, k := range exp.Keys {
		if !contains(act.Keys, k) {
			out.fail("client:schema-missing", fmt.Sprintf("declared-reachable schema %q is not in package %s (have %v)", k, spec.Pkg, act.Keys))
		}
	}
	if len(spec.Entities) == 0 {
		for _, k := range act.Keys {
			if !contains(exp.Keys, k) {
				out.fail("client:schema-extra", fmt.Sprintf("schema %q is present but not reachable from any declared method (want %v)", k, exp.Keys))
			}
		}
	}
	checkClosure(out, api)
}

// compareServices: names, order, verb, path, split, response (and list request presence) of the
// methods (the list fields themselves are not in the property's statement: they are compared with the
// model through the result line only); signatures are
// <sigBase>:services-differ|service-name|methods-differ|method-name|verb|path|split|response|list-request
func compareServices(out *sink, sigBase string, exp, act []ServiceSum, withList bool) {
	if len(exp) != len(act) {
		out.fail(sigBase+":services-differ", fmt.Sprintf("declared %d services, client API lists %d\nwant %v\ngot  %v", len(exp), len(act), exp, act))
		return
	}
	for i := range exp {
		es, as := exp[i], act[i]
		if es.Name != as.Name {
			out.fail(sigBase+":service-name", fmt.Sprintf("want %s got %s", es.Name, as.Name))
			continue
		}
		if len(es.Methods) != len(as.Methods) {
			out.fail(sigBase+":methods-differ", fmt.Sprintf("service %s: declared %d methods, listed %d", es.Name, len(es.Methods), len(as.Methods)))
			continue
		}
		for j := range es.Methods {
			em, am := es.Methods[j], as.Methods[j]
			at := es.Name + "." + em.Name
			switch {
			case em.Name != am.Name:
				out.fail(sigBase+":method-name", fmt.Sprintf("%s: got %s", at, am.Name))
			case em.Verb != am.Verb:
				out.fail(sigBase+":verb", fmt.Sprintf("%s: declared %s, got %s", at, em.Verb, am.Verb))
			case em.Path != am.Path:
				out.fail(sigBase+":path", fmt.Sprintf("%s: declared %q, got %q", at, em.Path, am.Path))
			case csv(em.P, "") != csv(am.P, "") || csv(em.Q, "") != csv(am.Q, "") || csv(em.B, "") != csv(am.B, "") || em.HasBody != am.HasBody:
				out.fail(sigBase+":split", fmt.Sprintf("%s: want %s\ngot  %s", at, em, am))
			case em.Resp != am.Resp:
				out.fail(sigBase+":response", fmt.Sprintf("%s: want %q got %q", at, em.Resp, am.Resp))
			case withList && em.List != am.List:
				out.fail(sigBase+":list-request", fmt.Sprintf("%s: list method=%v, client list request=%v", at, em.List, am.List))
			}
		}
	}
}

func checkMethod(out *sink, svc string, m *client_j5pb.Method) {
	at := svc + "." + m.Name
	if m.Request == nil {
		out.fail("client:no-request", at)
		return
	}
	params := pathParams(m.HttpPath)
	pnames := propNamesPB(m.Request.PathParameters)
	for _, p := range params {
		if !contains(pnames, p) {
			out.fail("client:path-param-missing", fmt.Sprintf("%s: path %q parameter %q names no path property (have %v)", at, m.HttpPath, p, pnames))
		}
	}
	for _, p := range pnames {
		if !contains(params, p) {
			out.fail("client:path-property-not-in-path", fmt.Sprintf("%s: %q", at, p))
		}
	}
	isGet := m.HttpMethod == client_j5pb.HTTPMethod_HTTP_METHOD_GET
	if isGet && m.Request.Body != nil {
		out.fail("client:get-with-body", at)
	}
	if !isGet && (m.Request.Body == nil || len(m.Request.QueryParameters) > 0) {
		out.fail("client:body-verb-without-body", at)
	}
	// identity of a property = its proto field path (a flattened child has its parent's number in
	// front; its JSON name may well equal a sibling's, which is the declaration's business)
	seen := map[string]int{}
	ident := func(ps []*schema_j5pb.ObjectProperty) {
		for _, p := range ps {
			seen[fmt.Sprint(p.ProtoField)+" "+p.Name]++
		}
	}
	ident(m.Request.PathParameters)
	ident(m.Request.QueryParameters)
	if m.Request.Body != nil {
		ident(m.Request.Body.Properties)
	}
	for n, c := range seen {
		if c != 1 {
			out.fail("client:split-overlap", fmt.Sprintf("%s: property %q lands in %d places", at, n, c))
		}
	}
}

// checkClosure: every reference found anywhere in the client API resolves to a schema that is
// present in the API (in the package, or sub-package key, the reference names).
func checkClosure(out *sink, api *client_j5pb.API) {
	have := map[string]bool{}
	for _, pkg := range api.Packages {
		for k := range pkg.Schemas {
			// key is "Name" or "sub.Name" relative to the package
			have[pkg.Name+"."+k] = true
		}
	}
	var refs []string
	var field func(f *schema_j5pb.Field)
	props := func(ps []*schema_j5pb.ObjectProperty) {
		for _, p := range ps {
			field(p.Schema)
		}
	}
	ref := func(r *schema_j5pb.Ref) { refs = append(refs, r.Package+"."+r.Schema) }
	field = func(f *schema_j5pb.Field) {
		switch t := f.GetType().(type) {
		case *schema_j5pb.Field_Object:
			if r := t.Object.GetRef(); r != nil {
				ref(r)
			} else if o := t.Object.GetObject(); o != nil {
				props(o.Properties)
			}
		case *schema_j5pb.Field_Oneof:
			if r := t.Oneof.GetRef(); r != nil {
				ref(r)
			} else if o := t.Oneof.GetOneof(); o != nil {
				props(o.Properties)
			}
		case *schema_j5pb.Field_Enum:
			if r := t.Enum.GetRef(); r != nil {
				ref(r)
			}
		case *schema_j5pb.Field_Array:
			field(t.Array.Items)
		case *schema_j5pb.Field_Map:
			field(t.Map.ItemSchema)
		}
	}
	method := func(m *client_j5pb.Method) {
		if m.Request != nil {
			props(m.Request.PathParameters)
			props(m.Request.QueryParameters)
			if m.Request.Body != nil {
				props(m.Request.Body.Properties)
			}
		}
		if m.ResponseBody != nil {
			props(m.ResponseBody.Properties)
		}
	}
	for _, pkg := range api.Packages {
		for _, sv := range pkg.Services {
			for _, m := range sv.Methods {
				method(m)
			}
		}
		for _, en := range pkg.StateEntities {
			if !have[en.SchemaName] {
				out.fail("client:entity-state-schema-missing", en.SchemaName)
			}
			for _, sv := range append([]*client_j5pb.Service{en.QueryService}, en.CommandServices...) {
				if sv == nil {
					continue
				}
				for _, m := range sv.Methods {
					method(m)
				}
			}
		}
		for _, sc := range pkg.Schemas {
			switch t := sc.Type.(type) {
			case *schema_j5pb.RootSchema_Object:
				props(t.Object.Properties)
			case *schema_j5pb.RootSchema_Oneof:
				props(t.Oneof.Properties)
			}
		}
	}
	for _, r := range refs {
		if !have[r] {
			out.fail("client:dangling-ref", fmt.Sprintf("reference to %s, which is not present in the client API", r))
		}
	}
}

// checkSwagger: every declared operation is in the document under its path and verb.
func checkSwagger(out *sink, spec *Spec, js []byte) {
	var doc struct {
		Paths map[string]map[string]json.RawMessage `json:"paths"`
	}
	if err := json.Unmarshal(js, &doc); err != nil {
		out.fail("swagger:err:unreadable", err.Error())
		return
	}
	for _, sv := range Expect(spec).Services {
		for _, m := range sv.Methods {
			ops, ok := doc.Paths[m.Path]
			if !ok {
				out.fail("swagger:path-missing", fmt.Sprintf("%s.%s: %q", sv.Name, m.Name, m.Path))
				continue
			}
			if _, ok := ops[strings.ToLower(m.Verb)]; !ok {
				out.fail("swagger:operation-missing", fmt.Sprintf("%s.%s: %s %q", sv.Name, m.Name, m.Verb, m.Path))
			}
		}
	}
}

// ---------------------------------------------------------------------------------------------
// Parent side
// ---------------------------------------------------------------------------------------------

type worker struct {
	cmd    *exec.Cmd
	in     io.WriteCloser
	out    *bufio.Reader
	stderr *tailBuf
}

type tailBuf struct {
	mu sync.Mutex
	b  []byte
}

func (t *tailBuf) Write(p []byte) (int, error) {
	t.mu.Lock()
	defer t.mu.Unlock()
	// keep the head (the fatal error line and the top frames are what identify a crash)
	if len(t.b) < 16<<10 {
		n := 16<<10 - len(t.b)
		if n > len(p) {
			n = len(p)
		}
		t.b = append(t.b, p[:n]...)
	}
	return len(p), nil
}
func (t *tailBuf) String() string { t.mu.Lock(); defer t.mu.Unlock(); return string(t.b) }

var theWorker *worker

func startWorker() (*worker, error) {
	exe, err := os.Executable()
	if err != nil {
		return nil, err
	}
	cmd := exec.Command(exe, "worker")
	cmd.Env = append(os.Environ(), "GOTRACEBACK=single")
	in, err := cmd.StdinPipe()
	if err != nil {
		return nil, err
	}
	outp, err := cmd.StdoutPipe()
	if err != nil {
		return nil, err
	}
	tb := &tailBuf{}
	cmd.Stderr = tb
	if err := cmd.Start(); err != nil {
		return nil, err
	}
	return &worker{cmd: cmd, in: in, out: bufio.NewReaderSize(outp, 1<<20), stderr: tb}, nil
}

func (w *worker) kill() {
	w.in.Close()
	w.cmd.Process.Kill()
	w.cmd.Wait()
}

type opResult struct {
	result string
	stage  string
	died   string // "", "crash", "timeout"
	retire bool
	stderr string
}

// callWorker sends one op to the worker and relays its records into h.
func callWorker(h *vh.H, op string, record bool) opResult {
	if theWorker == nil {
		w, err := startWorker()
		if err != nil {
			fmt.Fprintln(os.Stderr, "cannot start worker:", err)
			os.Exit(2)
		}
		theWorker = w
	}
	w := theWorker
	res := opResult{}
	if _, err := io.WriteString(w.in, op+"\n"); err != nil {
		res.died = "crash"
	}
	type rec struct {
		line string
		err  error
	}
	lines := make(chan rec, 64)
	go func() {
		for {
			l, err := w.out.ReadString('\n')
			lines <- rec{strings.TrimRight(l, "\n"), err}
			if err != nil || strings.HasPrefix(l, "R ") {
				return
			}
		}
	}()
	deadline := time.After(4 * stageTimeout)
loop:
	for res.died == "" {
		select {
		case r := <-lines:
			if len(r.line) >= 1 {
				kind, rest := r.line[:1], ""
				if len(r.line) > 2 {
					rest = r.line[2:]
				}
				switch kind {
				case "S":
					res.stage = rest
				case "C":
					if record {
						h.Count(rest)
					}
				case "N":
					if record {
						h.Nontrivial(op)
					}
				case "F":
					if record {
						sig, detail, _ := strings.Cut(rest, "\t")
						h.Fail(sig, op, strings.ReplaceAll(detail, "\\n", "\n"))
					}
				case "X":
					res.retire = true
				case "R":
					res.result = rest
					break loop
				}
			}
			if r.err != nil {
				res.died = "crash"
			}
		case <-deadline:
			res.died = "timeout"
		}
	}
	if res.died != "" || res.retire {
		w.kill()
		res.stderr = w.stderr.String()
		theWorker = nil
	}
	return res
}

var crashFuncs = []struct{ fn, name string }{
	{"walkSchemaFields", "list-request:infinite-recursion"},
	{"ClientProperties", "client-properties:infinite-recursion"},
	{"collectPackageRefs", "collect-refs:infinite-recursion"},
	{"assertRefsLink", "assert-refs:infinite-recursion"},
	{"convertSchema", "swagger:infinite-recursion"},
}

func (impl) Exec(h *vh.H, op string) string {
	res := callWorker(h, op, true)
	if res.died == "" {
		h.Count("op." + strings.SplitN(op, " ", 2)[0])
		return res.result
	}
	stage := res.stage
	if stage == "" {
		stage = "start"
	}
	sig := stage + ":" + res.died
	if strings.Contains(res.stderr, "stack overflow") || strings.Contains(res.stderr, "goroutine stack exceeds") {
		sig = stage + ":stack-overflow"
		for _, c := range crashFuncs {
			if strings.Contains(res.stderr, c.fn) {
				sig = c.name
				break
			}
		}
	}
	if stage == "compile" && strings.HasPrefix(op, "chain ") {
		// the compiler dying on a package is not this property's business (C07); the package is not valid
		h.Count("compile." + res.died)
		return "compile-" + res.died
	}
	head := res.stderr
	if len(head) > 1200 {
		head = head[:1200]
	}
	h.Fail(sig, op, "worker process "+res.died+" in stage "+stage+"\n"+head)
	h.Count("worker." + res.died)
	return "crash " + stage
}

var _ = bytes.NewReader
