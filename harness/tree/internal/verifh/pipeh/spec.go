//go:build verif

package main

import (
	"fmt"
	"strconv"
	"strings"

	"github.com/iancoleman/strcase"
	"github.com/pentops/j5/internal/verifh/vh"
)

// ---- structured package description: the op on the wire, the j5s text and the declared
// services (the expectation of the oracle) are all derived from it.

type Spec struct {
	Pkg      string
	Extra    int // the last Extra schemas are declared in a second source file (wire: "<pkg>+<n>")
	Schemas  []*Schema
	Services []*Service
	Topics   []*Topic
	Entities []*Entity
}

type Schema struct {
	Kind  string // O object, U oneof, E enum
	Name  string
	Props []*Prop
	Opts  []string
}

type Prop struct {
	Name  string
	Flags string // r required, o optional, f filterable, s sortable, q searchable, p primary key, h shard key, F flattened object field, d / P / D default filter (a declared option / the same with the enum's prefix / not an option)
	T     *Type
}

func (p *Prop) Has(c byte) bool { return strings.IndexByte(p.Flags, c) >= 0 }

// Type kinds: scalars (see scalarJ5s), R ref (Sub = o|u|e, Name), X external object ref (Pkg, Name),
// A array (Elem), M map (Elem), IO/IU/IE inline object/oneof/enum.
type Type struct {
	K     string
	Sub   string
	Pkg   string
	Name  string
	Elem  *Type
	Props []*Prop
	Opts  []string
}

type Service struct {
	Name    string
	Base    *string
	Methods []*Method
}

type Method struct {
	Name    string
	Verb    string
	Path    string
	Req     []*Prop
	HasResp bool
	Resp    []*Prop
	List    bool
}

type Topic struct {
	Kind   string // P publish, Q reqres, W upsert, V event
	Name   string
	Entity string
	Msgs   []*TopicMsg // P: named messages; Q: [request, reply]; W, V: one message
}

type TopicMsg struct {
	Name  string
	Props []*Prop
}

type Entity struct {
	Name     string
	Keys     []*Prop // flags: p primary key, h shard key
	Data     []*Prop
	Status   []string
	Events   []*TopicMsg
	Commands []*Service // `commands [Name] { … }` blocks; Name "" = unnamed (wire: "~")
}

var scalarJ5s = map[string]string{
	"str": "string", "i32": "integer:INT32", "i64": "integer:INT64", "u32": "integer:UINT32", "u64": "integer:UINT64",
	"f32": "float:FLOAT32", "f64": "float:FLOAT64", "bool": "bool", "bytes": "bytes", "dec": "decimal", "date": "date",
	"ts": "timestamp", "id62": "key:id62", "uuid": "key:uuid", "key": "key", "any": "any",
}

// ---- wire encoding (prefix notation with explicit counts; every token is space free)

type enc struct{ toks []string }

func (e *enc) add(t ...string) { e.toks = append(e.toks, t...) }
func (e *enc) n(i int)         { e.toks = append(e.toks, strconv.Itoa(i)) }

func (e *enc) props(ps []*Prop) {
	e.n(len(ps))
	for _, p := range ps {
		fl := p.Flags
		if fl == "" {
			fl = "-"
		}
		e.add(p.Name, fl)
		e.typ(p.T)
	}
}

func (e *enc) typ(t *Type) {
	switch t.K {
	case "R":
		e.add("R", t.Sub, t.Name)
	case "X":
		e.add("X", t.Pkg, t.Name)
	case "A", "M":
		e.add(t.K)
		e.typ(t.Elem)
	case "IO", "IU":
		e.add(t.K)
		e.props(t.Props)
	case "IE":
		e.add("IE")
		e.n(len(t.Opts))
		e.add(t.Opts...)
	default:
		e.add(t.K)
	}
}

func (e *enc) service(sv *Service) {
	if sv.Name == "" {
		e.add("~")
	} else {
		e.add(sv.Name)
	}
	if sv.Base == nil {
		e.add("~")
	} else {
		e.add(vh.Hex([]byte(*sv.Base)))
	}
	e.n(len(sv.Methods))
	for _, m := range sv.Methods {
		e.add(m.Name, m.Verb, vh.Hex([]byte(m.Path)))
		e.props(m.Req)
		if m.HasResp {
			e.add("1")
		} else {
			e.add("0")
		}
		e.props(m.Resp)
		if m.List {
			e.add("1")
		} else {
			e.add("0")
		}
	}
}

func (s *Spec) Encode() string {
	e := &enc{}
	if s.Extra > 0 {
		e.add("chain", s.Pkg+"+"+strconv.Itoa(s.Extra))
	} else {
		e.add("chain", s.Pkg)
	}
	e.n(len(s.Schemas))
	for _, sc := range s.Schemas {
		e.add(sc.Kind, sc.Name)
		if sc.Kind == "E" {
			e.n(len(sc.Opts))
			e.add(sc.Opts...)
		} else {
			e.props(sc.Props)
		}
	}
	e.n(len(s.Services))
	for _, sv := range s.Services {
		e.service(sv)
	}
	e.n(len(s.Topics))
	for _, t := range s.Topics {
		e.add(t.Kind, t.Name)
		if t.Kind == "W" || t.Kind == "V" {
			e.add(t.Entity)
		}
		e.n(len(t.Msgs))
		for _, m := range t.Msgs {
			e.add(m.Name)
			e.props(m.Props)
		}
	}
	e.n(len(s.Entities))
	for _, en := range s.Entities {
		e.add(en.Name)
		e.props(en.Keys)
		e.props(en.Data)
		e.n(len(en.Status))
		e.add(en.Status...)
		e.n(len(en.Events))
		for _, m := range en.Events {
			e.add(m.Name)
			e.props(m.Props)
		}
		e.n(len(en.Commands))
		for _, sv := range en.Commands {
			e.service(sv)
		}
	}
	return strings.Join(e.toks, " ")
}

type dec struct {
	toks []string
	pos  int
	err  error
}

func (d *dec) next() string {
	if d.pos >= len(d.toks) {
		d.err = fmt.Errorf("short op")
		return ""
	}
	t := d.toks[d.pos]
	d.pos++
	return t
}

func (d *dec) n() int {
	v, err := strconv.Atoi(d.next())
	if err != nil || v < 0 || v > 10000 {
		d.err = fmt.Errorf("bad count")
		return 0
	}
	return v
}

func (d *dec) props() []*Prop {
	n := d.n()
	out := []*Prop{}
	for i := 0; i < n && d.err == nil; i++ {
		p := &Prop{Name: d.next(), Flags: d.next()}
		if p.Flags == "-" {
			p.Flags = ""
		}
		p.T = d.typ()
		out = append(out, p)
	}
	return out
}

func (d *dec) strs() []string {
	n := d.n()
	out := []string{}
	for i := 0; i < n && d.err == nil; i++ {
		out = append(out, d.next())
	}
	return out
}

func (d *dec) typ() *Type {
	if d.err != nil {
		return &Type{K: "str"}
	}
	k := d.next()
	switch k {
	case "R":
		return &Type{K: "R", Sub: d.next(), Name: d.next()}
	case "X":
		return &Type{K: "X", Pkg: d.next(), Name: d.next()}
	case "A", "M":
		return &Type{K: k, Elem: d.typ()}
	case "IO", "IU":
		return &Type{K: k, Props: d.props()}
	case "IE":
		return &Type{K: "IE", Opts: d.strs()}
	}
	if _, ok := scalarJ5s[k]; !ok {
		d.err = fmt.Errorf("bad type %q", k)
	}
	return &Type{K: k}
}

func unhexStr(d *dec) string {
	b, ok := vh.UnHex(d.next())
	if !ok {
		d.err = fmt.Errorf("bad hex")
	}
	return string(b)
}

func (d *dec) service() *Service {
	sv := &Service{Name: d.next()}
	if sv.Name == "~" {
		sv.Name = ""
	}
	if d.pos < len(d.toks) && d.toks[d.pos] == "~" {
		d.next()
	} else {
		b := unhexStr(d)
		sv.Base = &b
	}
	for j, m := 0, d.n(); j < m && d.err == nil; j++ {
		me := &Method{Name: d.next(), Verb: d.next()}
		me.Path = unhexStr(d)
		me.Req = d.props()
		me.HasResp = d.next() == "1"
		me.Resp = d.props()
		me.List = d.next() == "1"
		sv.Methods = append(sv.Methods, me)
	}
	return sv
}

func DecodeSpec(op string) (*Spec, error) {
	d := &dec{toks: strings.Split(op, " ")}
	if d.next() != "chain" {
		return nil, fmt.Errorf("not a chain op")
	}
	s := &Spec{Pkg: d.next()}
	if pkg, extra, ok := strings.Cut(s.Pkg, "+"); ok {
		s.Pkg = pkg
		s.Extra, _ = strconv.Atoi(extra)
	}
	for i, n := 0, d.n(); i < n && d.err == nil; i++ {
		sc := &Schema{Kind: d.next(), Name: d.next()}
		switch sc.Kind {
		case "E":
			sc.Opts = d.strs()
		case "O", "U":
			sc.Props = d.props()
		default:
			d.err = fmt.Errorf("bad schema kind")
		}
		s.Schemas = append(s.Schemas, sc)
	}
	for i, n := 0, d.n(); i < n && d.err == nil; i++ {
		s.Services = append(s.Services, d.service())
	}
	for i, n := 0, d.n(); i < n && d.err == nil; i++ {
		t := &Topic{Kind: d.next(), Name: d.next()}
		if t.Kind == "W" || t.Kind == "V" {
			t.Entity = d.next()
		}
		for j, m := 0, d.n(); j < m && d.err == nil; j++ {
			t.Msgs = append(t.Msgs, &TopicMsg{Name: d.next(), Props: d.props()})
		}
		s.Topics = append(s.Topics, t)
	}
	for i, n := 0, d.n(); i < n && d.err == nil; i++ {
		en := &Entity{Name: d.next()}
		en.Keys = d.props()
		en.Data = d.props()
		en.Status = d.strs()
		for j, m := 0, d.n(); j < m && d.err == nil; j++ {
			en.Events = append(en.Events, &TopicMsg{Name: d.next(), Props: d.props()})
		}
		for j, m := 0, d.n(); j < m && d.err == nil; j++ {
			en.Commands = append(en.Commands, d.service())
		}
		s.Entities = append(s.Entities, en)
	}
	if d.err == nil && d.pos != len(d.toks) {
		d.err = fmt.Errorf("trailing tokens")
	}
	if s.Extra < 0 || s.Extra > len(s.Schemas) {
		d.err = fmt.Errorf("bad file split")
	}
	return s, d.err
}

// ---- rendering as j5s source text

type rend struct {
	b    strings.Builder
	ind  int
	spec *Spec
}

// enumOptions of the enum a property's type refers to (declared or inline)
func (s *Spec) enumOptions(t *Type) []string {
	switch {
	case t.K == "IE":
		return t.Opts
	case t.K == "R" && t.Sub == "e":
		if sc := s.schema(t.Name); sc != nil {
			return sc.Opts
		}
	}
	return nil
}

// enumPrefix: the value-name prefix of the enum a property's type refers to: SCREAMING_SNAKE of the
// enum's name (an inline enum is hoisted under the camel-cased field name)
func enumPrefix(p *Prop) string {
	if p.T.K == "IE" {
		return strcase.ToScreamingSnake(strcase.ToCamel(p.Name)) + "_"
	}
	return strcase.ToScreamingSnake(p.T.Name) + "_"
}

// defaultFilter: the default filter value the flags 'd' (a declared option), 'P' (the same option
// spelled with the enum's prefix) / 'D' (no option of the enum) put on an enum property; "" when
// there is none
func (s *Spec) defaultFilter(p *Prop) string {
	opts := s.enumOptions(p.T)
	switch {
	case p.Has('D'):
		return "BOGUS"
	case p.Has('P') && len(opts) > 0:
		return enumPrefix(p) + opts[0]
	case p.Has('d') && len(opts) > 0:
		return opts[0]
	}
	return ""
}

func (r *rend) line(f string, a ...any) {
	r.b.WriteString(strings.Repeat("\t", r.ind))
	fmt.Fprintf(&r.b, f, a...)
	r.b.WriteByte('\n')
}

func typeHead(t *Type) string {
	switch t.K {
	case "R":
		return map[string]string{"o": "object", "u": "oneof", "e": "enum"}[t.Sub] + ":" + t.Name
	case "X":
		return "object:" + t.Pkg + "." + t.Name
	case "A":
		return "array:" + typeHead(t.Elem)
	case "M":
		return "map:" + typeHead(t.Elem)
	case "IO":
		return "object"
	case "IU":
		return "oneof"
	case "IE":
		return "enum"
	}
	return scalarJ5s[t.K]
}

// leaf returns the innermost type of array/map nests (the one a body belongs to).
func leaf(t *Type) *Type {
	for t.K == "A" || t.K == "M" {
		t = t.Elem
	}
	return t
}

// listRulesPrefix is the attribute path of the list rules for a property type.
func listRuleLines(p *Prop) []string {
	var out []string
	if p.Has('f') {
		out = append(out, "listRules.filtering.filterable = true")
	}
	if p.Has('s') {
		out = append(out, "listRules.sorting.sortable = true")
	}
	if p.Has('q') {
		out = append(out, "listRules.searching.searchable = true")
	}
	return out
}

func (r *rend) prop(word string, p *Prop) {
	mark := ""
	if p.Has('r') {
		mark = " !"
	} else if p.Has('o') {
		mark = " ?"
	}
	head := fmt.Sprintf("%s %s%s %s", word, p.Name, mark, typeHead(p.T))
	lf := leaf(p.T)
	var body []func()
	for _, l := range listRuleLines(p) {
		l := l
		body = append(body, func() { r.line("%s", l) })
	}
	if df := r.spec.defaultFilter(p); df != "" {
		body = append(body, func() { r.line("listRules.filtering.defaultFilters = [%q]", df) })
	}
	if word == "key" && p.Has('p') {
		body = append(body, func() { r.line("primary = true") })
	}
	if word == "key" && p.Has('h') {
		body = append(body, func() { r.line("shardKey = true") })
	}
	if p.Has('F') && lf.K == "R" && lf.Sub == "o" && p.T.K == "R" {
		body = append(body, func() { r.line("flatten = true") })
	}
	switch lf.K {
	case "IO":
		for _, c := range lf.Props {
			c := c
			body = append(body, func() { r.prop("field", c) })
		}
	case "IU":
		for _, c := range lf.Props {
			c := c
			body = append(body, func() { r.prop("option", c) })
		}
	case "IE":
		for _, o := range lf.Opts {
			o := o
			body = append(body, func() { r.line("option %s", o) })
		}
	}
	if len(body) == 0 && lf.K != "IO" && lf.K != "IU" && lf.K != "IE" {
		r.line("%s", head)
		return
	}
	r.line("%s {", head)
	r.ind++
	for _, f := range body {
		f()
	}
	r.ind--
	r.line("}")
}

func (r *rend) props(word string, ps []*Prop) {
	for _, p := range ps {
		r.prop(word, p)
	}
}

// Render gives the source files of the package (path -> content): gen.j5s, and extra.j5s with
// the last s.Extra schemas when s.Extra > 0.
func (s *Spec) Render() map[string][]byte {
	dir := strings.ReplaceAll(s.Pkg, ".", "/")
	out := map[string][]byte{}
	first := s.Schemas
	if s.Extra > 0 && s.Extra <= len(s.Schemas) {
		first = s.Schemas[:len(s.Schemas)-s.Extra]
		x := &rend{spec: s}
		x.line("package %s", s.Pkg)
		x.line("")
		x.schemas(s.Schemas[len(s.Schemas)-s.Extra:])
		out[dir+"/extra.j5s"] = []byte(x.b.String())
	}
	r := &rend{spec: s}
	r.line("package %s", s.Pkg)
	r.line("")
	r.schemas(first)
	r.rest(s)
	out[dir+"/gen.j5s"] = []byte(r.b.String())
	return out
}

func (r *rend) schemas(scs []*Schema) {
	for _, sc := range scs {
		switch sc.Kind {
		case "O":
			r.line("object %s {", sc.Name)
			r.ind++
			r.props("field", sc.Props)
		case "U":
			r.line("oneof %s {", sc.Name)
			r.ind++
			r.props("option", sc.Props)
		case "E":
			r.line("enum %s {", sc.Name)
			r.ind++
			for _, o := range sc.Opts {
				r.line("option %s", o)
			}
		}
		r.ind--
		r.line("}")
		r.line("")
	}
}

func (r *rend) methods(ms []*Method) {
	for _, m := range ms {
		r.line("")
		r.line("method %s {", m.Name)
		r.ind++
		r.line("httpMethod = %q", m.Verb)
		r.line("httpPath = %s", strconv.Quote(m.Path))
		r.line("request {")
		r.ind++
		r.props("field", m.Req)
		r.ind--
		r.line("}")
		if m.HasResp {
			r.line("response {")
			r.ind++
			r.props("field", m.Resp)
			r.ind--
			r.line("}")
		}
		r.ind--
		r.line("}")
	}
}

func (r *rend) rest(s *Spec) {
	for _, sv := range s.Services {
		r.line("service %s {", sv.Name)
		r.ind++
		if sv.Base != nil {
			r.line("basePath = %s", strconv.Quote(*sv.Base))
		}
		r.methods(sv.Methods)
		r.ind--
		r.line("}")
		r.line("")
	}
	for _, t := range s.Topics {
		switch t.Kind {
		case "P":
			r.line("topic %s publish {", t.Name)
			r.ind++
			for _, m := range t.Msgs {
				r.line("message %s {", m.Name)
				r.ind++
				r.props("field", m.Props)
				r.ind--
				r.line("}")
			}
		case "Q":
			r.line("topic %s reqres {", t.Name)
			r.ind++
			for i, m := range t.Msgs {
				r.line("%s {", []string{"request", "reply"}[i%2])
				r.ind++
				r.props("field", m.Props)
				r.ind--
				r.line("}")
			}
		case "W", "V":
			r.line("topic %s %s {", t.Name, map[string]string{"W": "upsert", "V": "event"}[t.Kind])
			r.ind++
			r.line("entityName = %q", t.Entity)
			for _, m := range t.Msgs {
				r.line("message {")
				r.ind++
				r.props("field", m.Props)
				r.ind--
				r.line("}")
			}
		}
		r.ind--
		r.line("}")
		r.line("")
	}
	for _, en := range s.Entities {
		r.line("entity %s {", en.Name)
		r.ind++
		r.props("key", en.Keys)
		r.props("data", en.Data)
		for _, st := range en.Status {
			r.line("status %s", st)
		}
		for _, ev := range en.Events {
			r.line("event %s {", ev.Name)
			r.ind++
			r.props("field", ev.Props)
			r.ind--
			r.line("}")
		}
		for _, sv := range en.Commands {
			if sv.Name == "" {
				r.line("commands {")
			} else {
				r.line("commands %s {", sv.Name)
			}
			r.ind++
			if sv.Base != nil {
				r.line("basePath = %s", strconv.Quote(*sv.Base))
			}
			r.methods(sv.Methods)
			r.ind--
			r.line("}")
		}
		r.ind--
		r.line("}")
		r.line("")
	}
}
