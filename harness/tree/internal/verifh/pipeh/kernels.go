//go:build verif

package main

import (
	"bytes"
	"encoding/json"
	"fmt"
	"sort"
	"strings"

	"github.com/iancoleman/strcase"
	"github.com/pentops/j5/gen/j5/client/v1/client_j5pb"
	"github.com/pentops/j5/gen/j5/list/v1/list_j5pb"
	"github.com/pentops/j5/gen/j5/schema/v1/schema_j5pb"
	"github.com/pentops/j5/gen/j5/source/v1/source_j5pb"
	"github.com/pentops/j5/gen/j5/sourcedef/v1/sourcedef_j5pb"
	"github.com/pentops/j5/internal/export"
	"github.com/pentops/j5/internal/j5client"
	"github.com/pentops/j5/internal/j5s/j5convert"
	"github.com/pentops/j5/internal/structure"
	"github.com/pentops/j5/internal/verifh/vh"
	"google.golang.org/genproto/googleapis/api/annotations"
	"google.golang.org/protobuf/proto"
	"google.golang.org/protobuf/types/descriptorpb"
)

// Kernel ops: the small functions the Lean model mirrors, driven through the narrowest public
// entry point of the real code that reaches them.
//
//   rw <path> <name>*                     producer rewrite  (j5convert.ConvertJ5File on a synthetic service)
//   unrw <path> (<field> <json>)*         consumer rewrite  (structure.APIFromImage on a synthetic descriptor)
//   split <VERB> <path> <json>*           request split     (j5client.APIFromSource on a synthetic source API)
//   name <service> <method> <in> <out>    consumer naming tests (structure.APIFromImage)
//   graph <root> <n> node*                schema walks      (list request fields + collected schema keys)
//       node := <Name> <o|u|e> <nProps> (<prop> <d|a|m|s> <target|->)*
//
// All strings are hex.

func hexList(xs []string) string {
	if len(xs) == 0 {
		return "-"
	}
	hs := make([]string, len(xs))
	for i, x := range xs {
		hs[i] = vh.Hex([]byte(x))
	}
	return strings.Join(hs, ",")
}

type noTypes struct{}

func (noTypes) ResolveType(pkg, name string) (*j5convert.TypeRef, error) {
	return nil, fmt.Errorf("no type %s.%s", pkg, name)
}

func strProp(name string) *schema_j5pb.ObjectProperty {
	return &schema_j5pb.ObjectProperty{Name: name, Schema: &schema_j5pb.Field{Type: &schema_j5pb.Field_String_{String_: &schema_j5pb.StringField{}}}}
}

func unhexAll(xs []string) ([]string, bool) {
	out := make([]string, len(xs))
	for i, x := range xs {
		b, ok := vh.UnHex(x)
		if !ok {
			return nil, false
		}
		out[i] = string(b)
	}
	return out, true
}

func runKernel(out *sink, op string) string {
	f := strings.Split(op, " ")
	args, ok := unhexAll(f[1:])
	switch f[0] {
	case "rw":
		if !ok || len(args) < 1 {
			return "bad-op"
		}
		return kRewrite(out, args[0], args[1:])
	case "pp":
		if !ok || len(args) < 1 {
			return "bad-op"
		}
		return kPathPair(out, args[0], args[1:])
	case "unrw":
		if !ok || len(args) < 1 || len(args)%2 != 1 {
			return "bad-op"
		}
		return kUnrewrite(out, args[0], args[1:])
	case "split":
		if len(f) < 3 {
			return "bad-op"
		}
		a, ok := unhexAll(f[2:])
		if !ok {
			return "bad-op"
		}
		return kSplit(out, f[1], a[0], a[1:])
	case "name":
		if !ok || len(args) != 4 {
			return "bad-op"
		}
		return kName(out, args[0], args[1], args[2], args[3])
	case "graph":
		return kGraph(out, f[1:])
	case "swag":
		return kSwagger(out, f[1:])
	case "paths":
		return kPaths(out, f[1:])
	}
	return "bad-op"
}

// ---- swag: convertSchema through export.ConvertRootSchema on an object with one property.
//   tree := any|str|int|float|bool|bytes|dec|date|ts|key|eref|einl|eunset|oref|ounset|uref|uunset|unset|nil
//         | arr tree | map tree | oinl <n> tree* | uinl <n> tree*

func swagField(d *dec) *schema_j5pb.Field {
	ref := &schema_j5pb.Ref{Package: "k.v1", Schema: "X"}
	switch k := d.next(); k {
	case "any":
		return &schema_j5pb.Field{Type: &schema_j5pb.Field_Any{Any: &schema_j5pb.AnyField{}}}
	case "str":
		return &schema_j5pb.Field{Type: &schema_j5pb.Field_String_{String_: &schema_j5pb.StringField{}}}
	case "int":
		return &schema_j5pb.Field{Type: &schema_j5pb.Field_Integer{Integer: &schema_j5pb.IntegerField{Format: schema_j5pb.IntegerField_FORMAT_INT64}}}
	case "float":
		return &schema_j5pb.Field{Type: &schema_j5pb.Field_Float{Float: &schema_j5pb.FloatField{Format: schema_j5pb.FloatField_FORMAT_FLOAT64}}}
	case "bool":
		return &schema_j5pb.Field{Type: &schema_j5pb.Field_Bool{Bool: &schema_j5pb.BoolField{}}}
	case "bytes":
		return &schema_j5pb.Field{Type: &schema_j5pb.Field_Bytes{Bytes: &schema_j5pb.BytesField{}}}
	case "dec":
		return &schema_j5pb.Field{Type: &schema_j5pb.Field_Decimal{Decimal: &schema_j5pb.DecimalField{}}}
	case "date":
		return &schema_j5pb.Field{Type: &schema_j5pb.Field_Date{Date: &schema_j5pb.DateField{}}}
	case "ts":
		return &schema_j5pb.Field{Type: &schema_j5pb.Field_Timestamp{Timestamp: &schema_j5pb.TimestampField{}}}
	case "key":
		return &schema_j5pb.Field{Type: &schema_j5pb.Field_Key{Key: &schema_j5pb.KeyField{Format: &schema_j5pb.KeyFormat{Type: &schema_j5pb.KeyFormat_Id62{Id62: &schema_j5pb.KeyFormat_ID62{}}}}}}
	case "eref":
		return &schema_j5pb.Field{Type: &schema_j5pb.Field_Enum{Enum: &schema_j5pb.EnumField{Schema: &schema_j5pb.EnumField_Ref{Ref: ref}}}}
	case "einl":
		return &schema_j5pb.Field{Type: &schema_j5pb.Field_Enum{Enum: &schema_j5pb.EnumField{Schema: &schema_j5pb.EnumField_Enum{Enum: &schema_j5pb.Enum{Name: "E", Options: []*schema_j5pb.Enum_Option{{Name: "A"}}}}}}}
	case "eunset":
		return &schema_j5pb.Field{Type: &schema_j5pb.Field_Enum{Enum: &schema_j5pb.EnumField{}}}
	case "oref":
		return &schema_j5pb.Field{Type: &schema_j5pb.Field_Object{Object: &schema_j5pb.ObjectField{Schema: &schema_j5pb.ObjectField_Ref{Ref: ref}}}}
	case "ounset":
		return &schema_j5pb.Field{Type: &schema_j5pb.Field_Object{Object: &schema_j5pb.ObjectField{}}}
	case "uref":
		return &schema_j5pb.Field{Type: &schema_j5pb.Field_Oneof{Oneof: &schema_j5pb.OneofField{Schema: &schema_j5pb.OneofField_Ref{Ref: ref}}}}
	case "uunset":
		return &schema_j5pb.Field{Type: &schema_j5pb.Field_Oneof{Oneof: &schema_j5pb.OneofField{}}}
	case "unset":
		return &schema_j5pb.Field{}
	case "nil":
		return nil
	case "arr":
		return &schema_j5pb.Field{Type: &schema_j5pb.Field_Array{Array: &schema_j5pb.ArrayField{Items: swagField(d)}}}
	case "map":
		return &schema_j5pb.Field{Type: &schema_j5pb.Field_Map{Map: &schema_j5pb.MapField{ItemSchema: swagField(d)}}}
	case "oinl", "uinl":
		n := d.n()
		var props []*schema_j5pb.ObjectProperty
		for i := 0; i < n && d.err == nil; i++ {
			props = append(props, &schema_j5pb.ObjectProperty{Name: fmt.Sprintf("p%d", i), Schema: swagField(d)})
		}
		if k == "oinl" {
			return &schema_j5pb.Field{Type: &schema_j5pb.Field_Object{Object: &schema_j5pb.ObjectField{Schema: &schema_j5pb.ObjectField_Object{Object: &schema_j5pb.Object{Name: "O", Properties: props}}}}}
		}
		return &schema_j5pb.Field{Type: &schema_j5pb.Field_Oneof{Oneof: &schema_j5pb.OneofField{Schema: &schema_j5pb.OneofField_Oneof{Oneof: &schema_j5pb.Oneof{Name: "U", Properties: props}}}}}
	}
	d.err = fmt.Errorf("bad tree")
	return nil
}

// describeSwagger reads the canonical type description back from the marshalled JSON schema.
func describeSwagger(v any) string {
	m, ok := v.(map[string]any)
	if !ok {
		return "?"
	}
	if _, ok := m["$ref"]; ok {
		return "ref"
	}
	switch m["type"] {
	case "array":
		return "array(" + describeSwagger(m["items"]) + ")"
	case "object":
		if ap, ok := m["additionalProperties"]; ok {
			if _, isBool := ap.(bool); isBool {
				return "any"
			}
			return "map(" + describeSwagger(ap) + ")"
		}
		props, _ := m["properties"].(map[string]any)
		parts := make([]string, len(props))
		for i := range parts {
			parts[i] = describeSwagger(props[fmt.Sprintf("p%d", i)])
		}
		if m["x-is-oneof"] == true {
			return "oneof{" + strings.Join(parts, ",") + "}"
		}
		return "object{" + strings.Join(parts, ",") + "}"
	}
	if s, ok := m["type"].(string); ok {
		return s
	}
	return "?"
}

func kSwagger(out *sink, toks []string) string {
	d := &dec{toks: toks}
	f := swagField(d)
	if d.err != nil || d.pos != len(toks) {
		return "bad-op"
	}
	root := objectRoot("Root", &schema_j5pb.ObjectProperty{Name: "p0", Schema: f})
	var js []byte
	r := stage(stageTimeout, func() error {
		sc, err := export.ConvertRootSchema(root)
		if err != nil {
			return err
		}
		js, err = json.Marshal(sc)
		return err
	})
	out.count("swag." + r.class)
	if r.class != "ok" {
		return r.class
	}
	var v map[string]any
	if err := json.Unmarshal(js, &v); err != nil {
		out.fail("swag:unreadable-json", err.Error())
		return "err"
	}
	props, _ := v["properties"].(map[string]any)
	out.emit("N", "")
	return "ok " + describeSwagger(props["p0"])
}

// ---- paths: Document.addMethod's grouping of operations by path + OrderedMap rendering
//   paths <n> (<VERB> <pathHex>)*   methods M0.. of two services (even / odd index), in order

// orderedKeys reads the keys of the JSON object at the decoder's position, in document order,
// with the raw value of each.
func orderedKeys(dec *json.Decoder) ([]string, []json.RawMessage, error) {
	t, err := dec.Token()
	if err != nil {
		return nil, nil, err
	}
	if d, ok := t.(json.Delim); !ok || d != '{' {
		return nil, nil, fmt.Errorf("not an object")
	}
	var keys []string
	var vals []json.RawMessage
	for dec.More() {
		kt, err := dec.Token()
		if err != nil {
			return nil, nil, err
		}
		k, ok := kt.(string)
		if !ok {
			return nil, nil, fmt.Errorf("key is no string")
		}
		var raw json.RawMessage
		if err := dec.Decode(&raw); err != nil {
			return nil, nil, err
		}
		keys = append(keys, k)
		vals = append(vals, raw)
	}
	_, err = dec.Token()
	return keys, vals, err
}

func kPaths(out *sink, toks []string) string {
	d := &dec{toks: toks}
	n := d.n()
	type op struct{ verb, path string }
	var ops []op
	for i := 0; i < n && d.err == nil; i++ {
		v := d.next()
		p := unhexStr(d)
		if _, ok := verbEnum[v]; !ok {
			return "bad-op"
		}
		ops = append(ops, op{v, p})
	}
	if d.err != nil || d.pos != len(toks) {
		return "bad-op"
	}
	svcs := []*client_j5pb.Service{{Name: "AService"}, {Name: "BService"}}
	for i, o := range ops {
		sv := svcs[i%2]
		sv.Methods = append(sv.Methods, &client_j5pb.Method{
			Name: fmt.Sprintf("M%d", i), FullGrpcName: fmt.Sprintf("/k.v1.%s/M%d", sv.Name, i),
			HttpMethod: verbEnum[o.verb], HttpPath: o.path, Request: &client_j5pb.Method_Request{},
		})
	}
	api := &client_j5pb.API{Packages: []*client_j5pb.Package{{Name: "k.v1", Services: svcs}}}
	var js []byte
	r := stage(stageTimeout, func() error {
		doc, err := export.BuildSwagger(api)
		if err != nil {
			return err
		}
		js, err = json.Marshal(doc)
		return err
	})
	out.count("paths." + r.class)
	if r.class != "ok" {
		out.fail("paths-"+r.sig("swagger"), r.detail)
		return r.class
	}
	if !json.Valid(js) {
		out.fail("paths:invalid-json", string(js))
		return "err"
	}
	var top struct {
		Paths json.RawMessage `json:"paths"`
	}
	if err := json.Unmarshal(js, &top); err != nil || top.Paths == nil {
		out.fail("paths:unreadable-json", fmt.Sprint(err))
		return "err"
	}
	keys, vals, err := orderedKeys(json.NewDecoder(bytes.NewReader(top.Paths)))
	if err != nil {
		out.fail("paths:unreadable-json", err.Error())
		return "err"
	}
	var parts []string
	seen := map[string]bool{}
	have := map[string]bool{}
	for i, k := range keys {
		if seen[k] {
			out.fail("swagger:path-key-duplicated", fmt.Sprintf("path %q occurs twice in the paths object", k))
		}
		seen[k] = true
		verbs, _, err := orderedKeys(json.NewDecoder(bytes.NewReader(vals[i])))
		if err != nil {
			out.fail("paths:unreadable-json", err.Error())
			return "err"
		}
		for _, v := range verbs {
			have[k+" "+v] = true
		}
		parts = append(parts, vh.Hex([]byte(k))+"="+strings.Join(verbs, "+"))
	}
	// the property: every operation is in the document under its path and verb
	for _, o := range ops {
		if !have[o.path+" "+strings.ToLower(o.verb)] {
			out.fail("swagger:operation-missing", fmt.Sprintf("%s %q", o.verb, o.path))
		}
	}
	if len(keys) < len(ops) {
		out.emit("N", "") // at least two operations share a path
	}
	return "ok " + csv(parts, "-")
}

// ---- rw: `:name` -> `{snake}`

func kRewrite(out *sink, path string, names []string) string {
	props := make([]*schema_j5pb.ObjectProperty, len(names))
	for i, n := range names {
		props[i] = strProp(n)
	}
	src := &sourcedef_j5pb.SourceFile{
		Path:    "k/v1/k.j5s",
		Package: &sourcedef_j5pb.Package{Name: "k.v1"},
		Elements: []*sourcedef_j5pb.RootElement{{Type: &sourcedef_j5pb.RootElement_Service{Service: &sourcedef_j5pb.Service{
			Name: proto.String("K"),
			Methods: []*sourcedef_j5pb.APIMethod{{
				Name:       "M",
				HttpPath:   path,
				HttpMethod: client_j5pb.HTTPMethod_HTTP_METHOD_GET,
				Request:    &sourcedef_j5pb.AnonymousObject{Properties: props},
				Response:   &sourcedef_j5pb.AnonymousObject{},
			}},
		}}}},
	}
	var files []*descriptorpb.FileDescriptorProto
	r := stage(stageTimeout, func() (err error) { files, err = j5convert.ConvertJ5File(noTypes{}, src); return })
	out.count("rw." + r.class)
	if r.class != "ok" {
		return r.class
	}
	for _, fd := range files {
		for _, sv := range fd.Service {
			for _, m := range sv.Method {
				rule, _ := proto.GetExtension(m.Options, annotations.E_Http).(*annotations.HttpRule)
				if rule == nil {
					return "no-rule"
				}
				if strings.Contains(rule.GetGet(), "{") {
					out.emit("N", "")
				}
				return "ok " + vh.Hex([]byte(rule.GetGet()))
			}
		}
	}
	return "no-service"
}

// ---- pp: the producer's rewrite followed by the consumer's, on the request message the compiler
// emits for the given property names (proto name ToSnake(n), JSON name n)

func producePattern(path string, names []string) (string, stageResult) {
	props := make([]*schema_j5pb.ObjectProperty, len(names))
	for i, n := range names {
		props[i] = strProp(n)
	}
	src := &sourcedef_j5pb.SourceFile{
		Path:    "k/v1/k.j5s",
		Package: &sourcedef_j5pb.Package{Name: "k.v1"},
		Elements: []*sourcedef_j5pb.RootElement{{Type: &sourcedef_j5pb.RootElement_Service{Service: &sourcedef_j5pb.Service{
			Name: proto.String("K"),
			Methods: []*sourcedef_j5pb.APIMethod{{
				Name: "M", HttpPath: path, HttpMethod: client_j5pb.HTTPMethod_HTTP_METHOD_GET,
				Request: &sourcedef_j5pb.AnonymousObject{Properties: props}, Response: &sourcedef_j5pb.AnonymousObject{},
			}},
		}}}},
	}
	var files []*descriptorpb.FileDescriptorProto
	r := stage(stageTimeout, func() (err error) { files, err = j5convert.ConvertJ5File(noTypes{}, src); return })
	if r.class != "ok" {
		return "", r
	}
	for _, fd := range files {
		for _, sv := range fd.Service {
			for _, m := range sv.Method {
				if rule, _ := proto.GetExtension(m.Options, annotations.E_Http).(*annotations.HttpRule); rule != nil {
					return rule.GetGet(), r
				}
			}
		}
	}
	return "", stageResult{"err", "no http rule produced"}
}

func kPathPair(out *sink, path string, names []string) string {
	pattern, r := producePattern(path, names)
	if r.class != "ok" {
		out.count("pp.producer-" + r.class)
		return r.class + "-producer"
	}
	var fields []string
	for _, n := range names {
		fields = append(fields, strcase.ToSnake(n), n)
	}
	fd := serviceFile("KService", "M", "MRequest", "MResponse", &annotations.HttpRule{Pattern: &annotations.HttpRule_Get{Get: pattern}}, fields)
	img, err := kernelImage(fd)
	if err != nil {
		return "bad-desc"
	}
	var api *source_j5pb.API
	r = stage(stageTimeout, func() (err error) { api, err = structure.APIFromImage(img); return })
	if r.class != "ok" {
		if strings.Contains(r.detail, "new files") {
			return "bad-desc"
		}
		out.count("pp.consumer-" + r.class)
		// the compiler accepted the path, the next stage cannot read what it emitted
		switch cls := classify(r.detail); cls {
		case "invalid-path-part":
			out.fail("path:literal-rejected-downstream", fmt.Sprintf("j5s path %q compiles to pattern %q, which structure.buildMethod rejects: %s", path, pattern, r.detail))
		default:
			out.fail("path:"+r.class+":"+cls, fmt.Sprintf("j5s path %q compiles to pattern %q: %s", path, pattern, r.detail))
		}
		return r.class + "-consumer"
	}
	got := api.Packages[0].SubPackages[0].Services[0].Methods[0].HttpPath
	if got != path {
		out.fail("path:roundtrip-differs", fmt.Sprintf("declared %q, pattern %q, client path %q", path, pattern, got))
	}
	out.count("pp.ok")
	if strings.Contains(path, ":") {
		out.emit("N", "")
	}
	return "ok " + vh.Hex([]byte(got))
}

// ---- unrw: `{snake}` -> `:jsonName`

func serviceFile(svcName, method, in, outName string, pattern *annotations.HttpRule, fields []string) *descriptorpb.FileDescriptorProto {
	fd := &descriptorpb.FileDescriptorProto{
		Name:       proto.String("k/v1/service/k.proto"),
		Package:    proto.String("k.v1.service"),
		Syntax:     proto.String("proto3"),
		Dependency: []string{"google/api/annotations.proto"},
	}
	req := &descriptorpb.DescriptorProto{Name: proto.String(in)}
	for i := 0; i+1 < len(fields); i += 2 {
		req.Field = append(req.Field, &descriptorpb.FieldDescriptorProto{
			Name:     proto.String(fields[i]),
			JsonName: proto.String(fields[i+1]),
			Number:   proto.Int32(int32(i/2 + 1)),
			Type:     descriptorpb.FieldDescriptorProto_TYPE_STRING.Enum(),
			Label:    descriptorpb.FieldDescriptorProto_LABEL_OPTIONAL.Enum(),
		})
	}
	fd.MessageType = append(fd.MessageType, req)
	outType := ".k.v1.service." + outName
	switch outName {
	case "google.api.HttpBody":
		fd.Dependency = append(fd.Dependency, "google/api/httpbody.proto")
		outType = ".google.api.HttpBody"
	case "google.protobuf.Empty":
		fd.Dependency = append(fd.Dependency, "google/protobuf/empty.proto")
		outType = ".google.protobuf.Empty"
	default:
		if outName != in {
			fd.MessageType = append(fd.MessageType, &descriptorpb.DescriptorProto{Name: proto.String(outName)})
		}
	}
	opts := &descriptorpb.MethodOptions{}
	if pattern != nil {
		proto.SetExtension(opts, annotations.E_Http, pattern)
	}
	fd.Service = []*descriptorpb.ServiceDescriptorProto{{
		Name: proto.String(svcName),
		Method: []*descriptorpb.MethodDescriptorProto{{
			Name:       proto.String(method),
			InputType:  proto.String(".k.v1.service." + in),
			OutputType: proto.String(outType),
			Options:    opts,
		}},
	}}
	return fd
}

func kernelImage(fd *descriptorpb.FileDescriptorProto) (*source_j5pb.SourceImage, error) {
	img, err := imageFromDescriptors("k.v1", fd)
	return img, err
}

func kUnrewrite(out *sink, path string, fields []string) string {
	fd := serviceFile("KService", "M", "MRequest", "MResponse", &annotations.HttpRule{Pattern: &annotations.HttpRule_Get{Get: path}}, fields)
	img, err := kernelImage(fd)
	if err != nil {
		out.count("unrw.bad-descriptor")
		return "bad-op"
	}
	var api *source_j5pb.API
	r := stage(stageTimeout, func() (err error) { api, err = structure.APIFromImage(img); return })
	out.count("unrw." + r.class)
	if r.class != "ok" {
		if strings.Contains(r.detail, "new files") {
			out.count("unrw.protodesc-rejects")
			return "bad-op"
		}
		return r.class
	}
	for _, p := range api.Packages {
		for _, sp := range p.SubPackages {
			for _, sv := range sp.Services {
				for _, m := range sv.Methods {
					if strings.Contains(m.HttpPath, ":") {
						out.emit("N", "")
					}
					return "ok " + vh.Hex([]byte(m.HttpPath))
				}
			}
		}
	}
	return "no-service"
}

// ---- name: which service / method / message names the consumer accepts

func kName(out *sink, svc, method, in, outName string) string {
	var rule *annotations.HttpRule
	rule = &annotations.HttpRule{Pattern: &annotations.HttpRule_Get{Get: "/k"}}
	fd := serviceFile(svc, method, in, outName, rule, nil)
	img, err := kernelImage(fd)
	if err != nil {
		out.count("name.bad-descriptor")
		return "bad-op"
	}
	var api *source_j5pb.API
	r := stage(stageTimeout, func() (err error) { api, err = structure.APIFromImage(img); return })
	if r.class != "ok" {
		if strings.Contains(r.detail, "new files") {
			out.count("name.protodesc-rejects")
			return "bad-op"
		}
		out.count("name." + r.class)
		return r.class
	}
	out.emit("N", "")
	for _, p := range api.Packages {
		for _, sp := range p.SubPackages {
			if len(sp.Services) > 0 {
				out.count("name.service")
				return "service " + vh.Hex([]byte(sp.Services[0].Methods[0].ResponseSchema))
			}
			if len(sp.Topics) > 0 {
				out.count("name.topic")
				return "topic " + vh.Hex([]byte(sp.Topics[0].Messages[0].Schema))
			}
		}
	}
	out.count("name.ignored")
	return "ignored"
}

// ---- split: fillRequest

func objectRoot(name string, props ...*schema_j5pb.ObjectProperty) *schema_j5pb.RootSchema {
	return &schema_j5pb.RootSchema{Type: &schema_j5pb.RootSchema_Object{Object: &schema_j5pb.Object{Name: name, Properties: props}}}
}

var verbEnum = map[string]client_j5pb.HTTPMethod{
	"GET":    client_j5pb.HTTPMethod_HTTP_METHOD_GET,
	"POST":   client_j5pb.HTTPMethod_HTTP_METHOD_POST,
	"PUT":    client_j5pb.HTTPMethod_HTTP_METHOD_PUT,
	"DELETE": client_j5pb.HTTPMethod_HTTP_METHOD_DELETE,
	"PATCH":  client_j5pb.HTTPMethod_HTTP_METHOD_PATCH,
}

func kSplit(out *sink, verb, path string, names []string) string {
	v, ok := verbEnum[verb]
	if !ok {
		return "bad-op"
	}
	props := make([]*schema_j5pb.ObjectProperty, len(names))
	for i, n := range names {
		props[i] = strProp(n)
	}
	api := &source_j5pb.API{Packages: []*source_j5pb.Package{{
		Name:    "k.v1",
		Schemas: map[string]*schema_j5pb.RootSchema{},
		SubPackages: []*source_j5pb.SubPackage{{
			Name: "service",
			Schemas: map[string]*schema_j5pb.RootSchema{
				"MRequest":  objectRoot("MRequest", props...),
				"MResponse": objectRoot("MResponse"),
			},
			Services: []*source_j5pb.Service{{
				Name: "KService",
				Methods: []*source_j5pb.Method{{
					Name: "M", HttpMethod: v, HttpPath: path, RequestSchema: "MRequest", ResponseSchema: "MResponse",
				}},
			}},
		}},
	}}}
	var client *client_j5pb.API
	r := stage(stageTimeout, func() (err error) { client, err = j5client.APIFromSource(api); return })
	out.count("split." + r.class)
	if r.class != "ok" {
		return r.class
	}
	m := client.Packages[0].Services[0].Methods[0]
	body := "~"
	if m.Request.Body != nil {
		body = hexList(propNamesPB(m.Request.Body.Properties))
	}
	if len(m.Request.PathParameters) > 0 {
		out.emit("N", "")
	}
	checkMethodKernel(out, m, names)
	return "ok P:" + hexList(propNamesPB(m.Request.PathParameters)) + " Q:" + hexList(propNamesPB(m.Request.QueryParameters)) + " B:" + body
}

// the partition statement of the property, on the real output of fillRequest
func checkMethodKernel(out *sink, m *client_j5pb.Method, names []string) {
	got := append(append([]string{}, propNamesPB(m.Request.PathParameters)...), propNamesPB(m.Request.QueryParameters)...)
	if m.Request.Body != nil {
		got = append(got, propNamesPB(m.Request.Body.Properties)...)
	}
	a, b := append([]string{}, names...), append([]string{}, got...)
	sort.Strings(a)
	sort.Strings(b)
	if strings.Join(a, "\x00") != strings.Join(b, "\x00") {
		out.fail("split:not-a-partition", fmt.Sprintf("properties %q were split into %q", names, got))
	}
	isGet := m.HttpMethod == client_j5pb.HTTPMethod_HTTP_METHOD_GET
	if isGet != (m.Request.Body == nil) || (!isGet && len(m.Request.QueryParameters) > 0) {
		out.fail("split:verb", fmt.Sprintf("%v: body=%v query=%d", m.HttpMethod, m.Request.Body != nil, len(m.Request.QueryParameters)))
	}
}

// ---- graph: walkSchemaFields (through buildListRequest) and collectPackageRefs

type gNode struct {
	name  string
	kind  string
	props []gProp
}
type gProp struct {
	name, how, target string
}

func parseGraph(toks []string) (root string, nodes []gNode, ok bool) {
	d := &dec{toks: toks}
	root = d.next()
	n := d.n()
	for i := 0; i < n && d.err == nil; i++ {
		nd := gNode{name: d.next(), kind: d.next()}
		k := d.n()
		for j := 0; j < k && d.err == nil; j++ {
			nd.props = append(nd.props, gProp{d.next(), d.next(), d.next()})
		}
		nodes = append(nodes, nd)
	}
	return root, nodes, d.err == nil && d.pos == len(toks)
}

func refField(kind, name string) *schema_j5pb.Field {
	ref := &schema_j5pb.Ref{Package: "k.v1", Schema: name}
	switch kind {
	case "u":
		return &schema_j5pb.Field{Type: &schema_j5pb.Field_Oneof{Oneof: &schema_j5pb.OneofField{Schema: &schema_j5pb.OneofField_Ref{Ref: ref}}}}
	case "e":
		return &schema_j5pb.Field{Type: &schema_j5pb.Field_Enum{Enum: &schema_j5pb.EnumField{Schema: &schema_j5pb.EnumField_Ref{Ref: ref}}}}
	}
	return &schema_j5pb.Field{Type: &schema_j5pb.Field_Object{Object: &schema_j5pb.ObjectField{Schema: &schema_j5pb.ObjectField_Ref{Ref: ref}}}}
}

func kGraph(out *sink, toks []string) string {
	root, nodes, ok := parseGraph(toks)
	if !ok {
		return "bad-op"
	}
	kinds := map[string]string{}
	for _, n := range nodes {
		kinds[n.name] = n.kind
	}
	if kinds[root] != "o" {
		return "bad-op"
	}
	schemas := map[string]*schema_j5pb.RootSchema{}
	cyclicEdges := 0
	for _, n := range nodes {
		var props []*schema_j5pb.ObjectProperty
		for i, p := range n.props {
			var f *schema_j5pb.Field
			if p.how == "s" {
				// searchable string: makes the visit of this property observable in the list request
				f = &schema_j5pb.Field{Type: &schema_j5pb.Field_String_{String_: &schema_j5pb.StringField{
					ListRules: &list_j5pb.OpenTextRules{Searching: &list_j5pb.SearchingConstraint{Searchable: true}},
				}}}
			} else {
				// a target that is not a node is a reference nothing resolves (object field)
				tk := kinds[p.target]
				f = refField(tk, p.target)
				switch p.how {
				case "a":
					f = &schema_j5pb.Field{Type: &schema_j5pb.Field_Array{Array: &schema_j5pb.ArrayField{Items: f}}}
				case "m":
					f = &schema_j5pb.Field{Type: &schema_j5pb.Field_Map{Map: &schema_j5pb.MapField{ItemSchema: f, KeySchema: strProp("k").Schema}}}
				case "d":
					cyclicEdges++
				case "f":
					// flattened object field (flatten exists on object fields only; otherwise a plain reference)
					cyclicEdges++
					if of := f.GetObject(); of != nil && tk == "o" {
						of.Flatten = true
					}
				default:
					return "bad-op"
				}
			}
			props = append(props, &schema_j5pb.ObjectProperty{Name: p.name, Schema: f, ProtoField: []int32{int32(i + 1)}})
		}
		switch n.kind {
		case "o":
			schemas[n.name] = objectRoot(n.name, props...)
		case "u":
			schemas[n.name] = &schema_j5pb.RootSchema{Type: &schema_j5pb.RootSchema_Oneof{Oneof: &schema_j5pb.Oneof{Name: n.name, Properties: props}}}
		case "e":
			schemas[n.name] = &schema_j5pb.RootSchema{Type: &schema_j5pb.RootSchema_Enum{Enum: &schema_j5pb.Enum{Name: n.name, Prefix: strings.ToUpper(n.name) + "_",
				Options: []*schema_j5pb.Enum_Option{{Name: "UNSPECIFIED", Number: 0}, {Name: "A", Number: 1}}}}}
		default:
			return "bad-op"
		}
	}
	// the query marker: any object field referring to j5.list.v1.QueryRequest makes the method a list method
	listPkg := &source_j5pb.Package{Name: "j5.list.v1", Indirect: true, Schemas: map[string]*schema_j5pb.RootSchema{"QueryRequest": objectRoot("QueryRequest")}}
	queryRef := &schema_j5pb.Field{Type: &schema_j5pb.Field_Object{Object: &schema_j5pb.ObjectField{Schema: &schema_j5pb.ObjectField_Ref{Ref: &schema_j5pb.Ref{Package: "j5.list.v1", Schema: "QueryRequest"}}}}}
	items := &schema_j5pb.Field{Type: &schema_j5pb.Field_Array{Array: &schema_j5pb.ArrayField{Items: refField("o", root)}}}
	api := &source_j5pb.API{Packages: []*source_j5pb.Package{{
		Name:    "k.v1",
		Schemas: schemas,
		SubPackages: []*source_j5pb.SubPackage{{
			Name: "service",
			Schemas: map[string]*schema_j5pb.RootSchema{
				"LRequest":  objectRoot("LRequest", &schema_j5pb.ObjectProperty{Name: "query", Schema: queryRef}),
				"LResponse": objectRoot("LResponse", &schema_j5pb.ObjectProperty{Name: "items", Schema: items}),
			},
			Services: []*source_j5pb.Service{{
				Name: "KService",
				Methods: []*source_j5pb.Method{{
					Name: "L", HttpMethod: client_j5pb.HTTPMethod_HTTP_METHOD_GET, HttpPath: "/l", RequestSchema: "LRequest", ResponseSchema: "LResponse",
				}},
			}},
		}},
	}, listPkg}}
	out.stage("graph-client")
	var client *client_j5pb.API
	r := stage(stageTimeout, func() (err error) { client, err = j5client.APIFromSource(api); return })
	out.count("graph." + r.class)
	if r.class == "err" && classify(r.detail) == "unresolved-ref" {
		out.count("graph.unresolved-ref")
		return "err"
	}
	if r.class != "ok" {
		out.fail("graph-"+r.sig("client"), r.detail)
		return r.class
	}
	if cyclicEdges > 0 {
		out.emit("N", "")
	}
	m := client.Packages[0].Services[0].Methods[0]
	var paths []string
	if m.Request.List != nil {
		for _, s := range m.Request.List.SearchableFields {
			paths = append(paths, s.Name)
		}
	}
	var keys []string
	for k := range client.Packages[0].Schemas {
		keys = append(keys, k)
	}
	sort.Strings(keys)
	return "ok L:" + csv(paths, "-") + " K:" + csv(keys, "-")
}

// ---- generators for the kernel ops

var kNames = []string{"id", "fooId", "barID", "foo_bar", "a1", "x", "HTTPCode", "v2Field", "isOK", "fooBarBaz", "A", "aB", "ab_", "_x", "a__b", "a-b", "a.b", "a b", "ID", "userID2", "x1y2", "ÿ", "foo_id"}

func genName(h *vh.H) string {
	if h.Chance(3, 4) {
		return vh.Pick(h, kNames)
	}
	n := 1 + h.Rng.IntN(8)
	b := make([]byte, n)
	for i := range b {
		b[i] = vh.Pick(h, []byte("abcxyzABCXYZ0189_-. "))
	}
	return string(b)
}

func genIdent(h *vh.H) string {
	for {
		n := 1 + h.Rng.IntN(8)
		b := make([]byte, n)
		for i := range b {
			b[i] = vh.Pick(h, []byte("abcxyzABCXYZ0189_"))
		}
		if b[0] >= '0' && b[0] <= '9' {
			continue
		}
		return string(b)
	}
}

func distinct(xs []string) []string {
	seen := map[string]bool{}
	var out []string
	for _, x := range xs {
		if !seen[x] {
			seen[x] = true
			out = append(out, x)
		}
	}
	return out
}

// ppNames: property names whose snake form is a valid, distinct proto identifier
var ppNames = []string{"id", "fooId", "barID", "foo_bar", "a1", "x", "HTTPCode", "v2Field", "isOK", "fooBarBaz", "A", "aB", "userID2", "x1y2", "name", "nodeId"}

func genPathPair(h *vh.H) string {
	names := pickN(h, ppNames, h.Rng.IntN(4))
	var segs []string
	for k := 0; k < 1+h.Rng.IntN(4); k++ {
		switch r := h.Rng.IntN(10); {
		case r < 4 && len(names) > 0:
			segs = append(segs, ":"+vh.Pick(h, names))
		case r < 8:
			segs = append(segs, vh.Pick(h, literalSegs))
		case r < 9:
			segs = append(segs, vh.Pick(h, []string{"", "a:b", "*", "**", "{x}", "x{y}", "a}", "{", "v1:verb", ":nosuch"}))
		default:
			segs = append(segs, genIdent(h))
		}
	}
	path := "/" + strings.Join(segs, "/")
	toks := []string{"pp", vh.Hex([]byte(path))}
	for _, nm := range names {
		toks = append(toks, vh.Hex([]byte(nm)))
	}
	return strings.Join(toks, " ")
}

func genSwagTree(h *vh.H, depth int, malformed bool) []string {
	leaves := []string{"any", "str", "int", "float", "bool", "bytes", "dec", "date", "ts", "key", "eref", "einl", "oref", "uref"}
	if malformed && h.Chance(1, 4) {
		return []string{vh.Pick(h, []string{"eunset", "ounset", "uunset", "unset", "nil"})}
	}
	if depth >= 3 || h.Chance(1, 2) {
		return []string{vh.Pick(h, leaves)}
	}
	switch h.Rng.IntN(4) {
	case 0:
		return append([]string{"arr"}, genSwagTree(h, depth+1, malformed)...)
	case 1:
		return append([]string{"map"}, genSwagTree(h, depth+1, malformed)...)
	default:
		n := h.Rng.IntN(4)
		out := []string{vh.Pick(h, []string{"oinl", "uinl"}), fmt.Sprint(n)}
		for k := 0; k < n; k++ {
			out = append(out, genSwagTree(h, depth+1, malformed)...)
		}
		return out
	}
}

func genKernel(h *vh.H, i int) string {
	if h.Chance(1, 5) {
		return genPathPair(h)
	}
	if h.Chance(1, 6) {
		return "swag " + strings.Join(genSwagTree(h, 0, h.Chance(1, 3)), " ")
	}
	if h.Chance(1, 12) {
		// paths: few distinct paths (also "", "/", trailing slash, differing only by a parameter name) so that operations share path items
		pool := pickN(h, []string{"/", "", "/a", "/a/", "/a/:id", "/a/:x", "/b", "/a/b", "//a", "/:id"}, 1+h.Rng.IntN(4))
		n := h.Rng.IntN(7)
		toks := []string{"paths", fmt.Sprint(n)}
		for k := 0; k < n; k++ {
			toks = append(toks, vh.Pick(h, []string{"GET", "POST", "PUT", "DELETE", "PATCH"}), vh.Hex([]byte(vh.Pick(h, pool))))
		}
		return strings.Join(toks, " ")
	}
	switch h.Rng.IntN(5) {
	case 0: // rw
		n := h.Rng.IntN(4)
		names := make([]string, n)
		for k := range names {
			names[k] = genName(h)
		}
		var segs []string
		for k := 0; k < 1+h.Rng.IntN(4); k++ {
			switch h.Rng.IntN(6) {
			case 0, 1:
				if n > 0 {
					segs = append(segs, ":"+vh.Pick(h, names))
					continue
				}
				fallthrough
			case 2, 3:
				segs = append(segs, vh.Pick(h, literalSegs))
			case 4:
				segs = append(segs, vh.Pick(h, []string{"", ":", ":nosuch", "{x}", "a:b", "*", "x{y}", ":" + genName(h)}))
			default:
				segs = append(segs, genName(h))
			}
		}
		path := "/" + strings.Join(segs, "/")
		if h.Chance(1, 8) {
			path = strings.TrimPrefix(path, "/")
		}
		toks := []string{"rw", vh.Hex([]byte(path))}
		for _, nm := range names {
			toks = append(toks, vh.Hex([]byte(nm)))
		}
		return strings.Join(toks, " ")
	case 1: // unrw
		n := h.Rng.IntN(4)
		var fields []string
		var fnames []string
		for k := 0; k < n; k++ {
			fnames = append(fnames, genIdent(h))
		}
		fnames = distinct(fnames)
		jsonSeen := map[string]bool{}
		for _, fn := range fnames {
			js := genName(h)
			if h.Chance(1, 2) {
				js = fn
			}
			for jsonSeen[js] || js == "" {
				js += "x"
			}
			jsonSeen[js] = true
			fields = append(fields, fn, js)
		}
		var segs []string
		for k := 0; k < 1+h.Rng.IntN(4); k++ {
			switch h.Rng.IntN(6) {
			case 0, 1:
				if len(fnames) > 0 {
					segs = append(segs, "{"+vh.Pick(h, fnames)+"}")
					continue
				}
				fallthrough
			case 2, 3:
				segs = append(segs, vh.Pick(h, literalSegs))
			case 4:
				segs = append(segs, vh.Pick(h, []string{"", "{}", "{nosuch}", "{", "}", "{a", "a}", "a:b", ":x", "*", "x{y}", "{x}y", "{{x}}", "{x}{y}"}))
			default:
				segs = append(segs, genName(h))
			}
		}
		path := "/" + strings.Join(segs, "/")
		toks := []string{"unrw", vh.Hex([]byte(path))}
		for _, f := range fields {
			toks = append(toks, vh.Hex([]byte(f)))
		}
		return strings.Join(toks, " ")
	case 2: // split
		n := h.Rng.IntN(5)
		var names []string
		for k := 0; k < n; k++ {
			names = append(names, genName(h))
		}
		names = distinct(names)
		var segs []string
		for k := 0; k < 1+h.Rng.IntN(4); k++ {
			switch h.Rng.IntN(5) {
			case 0, 1:
				if len(names) > 0 {
					segs = append(segs, ":"+vh.Pick(h, names))
					continue
				}
				fallthrough
			case 2:
				segs = append(segs, vh.Pick(h, literalSegs))
			case 3:
				extra := []string{"", ":", ":nosuch", "::x", "a:b", ":" + genName(h)}
				if len(names) > 0 {
					// a doubled colon: TrimPrefix leaves ":name", which is not a property
					extra = append(extra, "::"+vh.Pick(h, names), "::"+vh.Pick(h, names))
				}
				segs = append(segs, vh.Pick(h, extra))
			default:
				segs = append(segs, genName(h))
			}
		}
		toks := []string{"split", vh.Pick(h, []string{"GET", "POST", "PUT", "DELETE", "PATCH"}), vh.Hex([]byte("/" + strings.Join(segs, "/")))}
		for _, nm := range names {
			toks = append(toks, vh.Hex([]byte(nm)))
		}
		return strings.Join(toks, " ")
	case 3: // name
		base := vh.Pick(h, []string{"Foo", "Bar", "X", "", "FooService", "Events", "Topic", "FooEvents", "ATopic"})
		method := vh.Pick(h, []string{"Get", "M", "DoIt", "Hello", "HttpBody"})
		var suffix, in, outN string
		switch h.Rng.IntN(4) {
		case 0, 1: // what the producer emits for a service method
			suffix, in, outN = vh.Pick(h, []string{"Service", "Service", "Sandbox"}), method+"Request", vh.Pick(h, []string{method + "Response", "google.api.HttpBody"})
		case 2: // … for a topic message
			suffix, in, outN = "Topic", method+"Message", "google.protobuf.Empty"
		default:
			suffix, in, outN = "Events", method+"Message", "google.protobuf.Empty"
		}
		// perturb one element in half of the cases
		if h.Chance(1, 2) {
			switch h.Rng.IntN(3) {
			case 0:
				suffix = vh.Pick(h, []string{"service", "Srv", "", "ServiceX", "Topics", "TopicService", "ServiceTopic", "Event", "Sandboxes"})
			case 1:
				in = method + vh.Pick(h, []string{"Req", "", "Response", "request", "Message", "Request"})
			default:
				outN = vh.Pick(h, []string{method + "Reply", in, "google.protobuf.Empty", "google.api.HttpBody", method + "Response", "Response"})
			}
		}
		svc := base + suffix
		if svc == "" {
			svc = "S"
		}
		if in == "" {
			in = "In"
		}
		return strings.Join([]string{"name", vh.Hex([]byte(svc)), vh.Hex([]byte(method)), vh.Hex([]byte(in)), vh.Hex([]byte(outN))}, " ")
	default: // graph
		n := 1 + h.Rng.IntN(5)
		names := []string{"N0", "N1", "N2", "N3", "N4"}[:n]
		kinds := make([]string, n)
		for k := range kinds {
			kinds[k] = vh.Pick(h, []string{"o", "o", "o", "u", "e"})
		}
		kinds[0] = "o"
		toks := []string{"graph", "N0", fmt.Sprint(n)}
		for k := 0; k < n; k++ {
			toks = append(toks, names[k], kinds[k])
			if kinds[k] == "e" {
				toks = append(toks, "0")
				continue
			}
			np := h.Rng.IntN(4)
			if kinds[k] == "u" && np == 0 {
				np = 1
			}
			toks = append(toks, fmt.Sprint(np))
			pn := pickN(h, []string{"a", "b", "c", "d", "e"}, np)
			for _, p := range pn {
				if h.Chance(1, 3) {
					toks = append(toks, p, "s", "-")
				} else {
					target := vh.Pick(h, names)
					if h.Chance(1, 40) {
						target = "ZZ" // unresolved reference: assertRefsLink must refuse the schema set
					}
					toks = append(toks, p, vh.Pick(h, []string{"d", "d", "d", "a", "m", "f", "f"}), target)
				}
			}
		}
		return strings.Join(toks, " ")
	}
}
