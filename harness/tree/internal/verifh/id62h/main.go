//go:build verif

// id62h: correspondence + property oracle for lib/id62 (property C20).
package main

import (
	"bytes"
	"crypto/sha1"
	"fmt"
	"math/big"
	"strings"

	"github.com/pentops/j5/internal/verifh/vh"
	"github.com/pentops/j5/lib/id62"
)

type impl struct{}

func main() { vh.Main("id62", impl{}) }

var alnum = []byte("0123456789abcdefghijklmnopqrstuvwxyzABCDEFGHIJKLMNOPQRSTUVWXYZ")

func (impl) Gen(h *vh.H, i int) string {
	switch i % 4 {
	case 0, 1: // render
		var id [16]byte
		switch h.Rng.IntN(8) {
		case 0: // all zero / all one / single bit / leading zero bytes
			switch h.Rng.IntN(4) {
			case 0:
			case 1:
				for k := range id {
					id[k] = 0xff
				}
			case 2:
				bit := h.Rng.IntN(128)
				id[bit/8] = 1 << (bit % 8)
			case 3:
				nz := 1 + h.Rng.IntN(15)
				for k := nz; k < 16; k++ {
					id[k] = byte(h.Rng.IntN(256))
				}
			}
		case 1: // 62^k + d, d in {-1,0,1}
			k := h.Rng.IntN(22)
			v := new(big.Int).Exp(big.NewInt(62), big.NewInt(int64(k)), nil)
			v.Add(v, big.NewInt(int64(h.Rng.IntN(3)-1)))
			if v.Sign() >= 0 && v.BitLen() <= 128 {
				v.FillBytes(id[:])
			}
		case 2: // 256^k + d
			k := h.Rng.IntN(16)
			v := new(big.Int).Lsh(big.NewInt(1), uint(8*k))
			v.Add(v, big.NewInt(int64(h.Rng.IntN(3)-1)))
			if v.Sign() >= 0 && v.BitLen() <= 128 {
				v.FillBytes(id[:])
			}
		default:
			for k := range id {
				id[k] = byte(h.Rng.IntN(256))
			}
		}
		return "render " + vh.Hex(id[:])
	case 2: // parse
		return "parse " + vh.Hex(genString(h))
	default:
		if h.Chance(1, 2) {
			return "match " + vh.Hex(genString(h))
		}
		if h.Chance(1, 2) {
			return genHashPair(h)
		}
		n := h.Rng.IntN(4)
		parts := make([]string, 0, n+1)
		var all []byte
		for k := 0; k <= n; k++ {
			g := genString(h)
			all = append(all, g...)
			parts = append(parts, vh.Hex(g))
		}
		// the digest is shipped with the op: the model treats sha1 as uninterpreted
		sum := sha1.Sum(all)
		return "hash " + vh.Hex(sum[:]) + " " + strings.Join(parts, " ")
	}
}

// genHashPair: two argument lists that a sloppy cache key / separator-joining implementation
// would confuse (same concatenation split differently, or parts joined by a separator), called
// A, B, A in one process. Purity means each call equals the hash of its own byte stream.
func genHashPair(h *vh.H) string {
	word := func() []byte {
		n := h.Rng.IntN(6)
		b := make([]byte, n)
		for i := range b {
			b[i] = vh.Pick(h, []byte("abcxyz019"))
		}
		return b
	}
	n := 1 + h.Rng.IntN(3)
	a := [][]byte{word()}
	for k := 0; k < n; k++ {
		a = append(a, word())
	}
	var b [][]byte
	if h.Chance(1, 2) {
		// join two adjacent inputs of A with a separator-like byte
		sep := vh.Pick(h, []byte("/:|,\x00 -_.;+"))
		k := 1 + h.Rng.IntN(len(a)-1)
		for i, p := range a {
			if i == k && i+1 < len(a) {
				continue
			}
			b = append(b, p)
		}
		if k+1 < len(a) {
			b[k] = append(append(append([]byte{}, a[k]...), sep), a[k+1]...)
			b = append(b[:k+1], a[k+2:]...)
		} else {
			// join namespace and first input instead
			b = append([][]byte{append(append(append([]byte{}, a[0]...), sep), a[1]...)}, a[2:]...)
		}
	} else {
		// same byte stream, different split
		all := bytes.Join(a, nil)
		cut := 0
		if len(all) > 0 {
			cut = h.Rng.IntN(len(all) + 1)
		}
		b = [][]byte{all[:cut], all[cut:]}
	}
	enc := func(ps [][]byte) (string, string) {
		sum := sha1.Sum(bytes.Join(ps, nil))
		hs := make([]string, len(ps))
		for i, p := range ps {
			hs[i] = vh.Hex(p)
		}
		return vh.Hex(sum[:]), strings.Join(hs, " ")
	}
	da, sa := enc(a)
	db, sb := enc(b)
	return fmt.Sprintf("hashpair %s %s %d %s %s", da, db, len(a), sa, sb)
}

func genString(h *vh.H) []byte {
	switch h.Rng.IntN(10) {
	case 0:
		return []byte{}
	case 1: // arbitrary bytes
		b := make([]byte, h.Rng.IntN(40))
		for i := range b {
			b[i] = byte(h.Rng.IntN(256))
		}
		return b
	case 2: // sign + digits
		b := []byte{vh.Pick(h, []byte("+-"))}
		n := h.Rng.IntN(25)
		for i := 0; i < n; i++ {
			b = append(b, vh.Pick(h, alnum))
		}
		return b
	case 3: // digits with one foreign char
		n := 1 + h.Rng.IntN(24)
		b := make([]byte, n)
		for i := range b {
			b[i] = vh.Pick(h, alnum)
		}
		b[h.Rng.IntN(n)] = vh.Pick(h, []byte("_ .:/\x00\xff-+\n"))
		return b
	case 4: // around 2^128 boundary: 22 chars starting near the max "7n42DGM5Tflk9n8mt7Fhc7"
		max := []byte("7N42dgm5tFLK9N8MT7fHC7")
		b := append([]byte{}, max...)
		k := h.Rng.IntN(22)
		b[k] = vh.Pick(h, alnum)
		return b
	case 5: // long
		n := 22 + h.Rng.IntN(30)
		b := make([]byte, n)
		for i := range b {
			b[i] = vh.Pick(h, alnum)
		}
		return b
	case 6: // leading zeros then anything
		n := h.Rng.IntN(40)
		b := bytes.Repeat([]byte("0"), n)
		m := h.Rng.IntN(23)
		for i := 0; i < m; i++ {
			b = append(b, vh.Pick(h, alnum))
		}
		return b
	default: // 1..22 valid chars
		n := 1 + h.Rng.IntN(22)
		b := make([]byte, n)
		for i := range b {
			b[i] = vh.Pick(h, alnum)
		}
		return b
	}
}

func (impl) Exec(h *vh.H, op string) string {
	f := strings.Split(op, " ")
	// "parsing never panics on any string" / rendering never panics: a panic in the real code is a
	// violation with this op as the replay (the engine's Guard still turns it into the result "panic")
	defer func() {
		if r := recover(); r != nil {
			h.Fail(f[0]+"-panic", op, fmt.Sprint(r))
			panic(r)
		}
	}()
	switch f[0] {
	case "render":
		b, ok := vh.UnHex(f[1])
		if !ok || len(b) != 16 {
			return "bad-op"
		}
		var id id62.UUID
		copy(id[:], b)
		s := id.String()
		h.Count("render")
		h.Nontrivial(op)
		// property oracle on the real code
		if len(s) != 22 {
			h.Fail("render-length", op, fmt.Sprintf("len=%d %q", len(s), s))
		}
		if !id62.Pattern.MatchString(s) {
			h.Fail("render-pattern", op, s)
		}
		back, err := id62.Parse(s)
		if err != nil || back != id {
			h.Fail("roundtrip", op, fmt.Sprintf("%q -> %x, %v", s, back, err))
		}
		return "ok " + vh.Hex([]byte(s))
	case "parse":
		b, ok := vh.UnHex(f[1])
		if !ok {
			return "bad-op"
		}
		id, err := id62.Parse(string(b))
		if err != nil {
			h.Count("parse.err")
			return "err"
		}
		h.Count("parse.ok")
		h.Nontrivial(op)
		// oracle: accepted strings denote exactly the stored value (independent big.Int check)
		s := strings.TrimLeft(string(b), "+-")
		if v, ok := new(big.Int).SetString(s, 62); !ok || v.BitLen() > 128 || v.Cmp(new(big.Int).SetBytes(id[:])) != 0 {
			h.Fail("parse-inexact", op, fmt.Sprintf("%q -> %x", b, id))
		}
		return "ok " + vh.Hex(id[:])
	case "match":
		b, ok := vh.UnHex(f[1])
		if !ok {
			return "bad-op"
		}
		h.Count("match")
		return fmt.Sprint(id62.Pattern.Match(b))
	case "hashpair":
		var na int
		fmt.Sscan(f[3], &na)
		var ps [][]byte
		for _, x := range f[4:] {
			b, ok := vh.UnHex(x)
			if !ok {
				return "bad-op"
			}
			ps = append(ps, b)
		}
		if na < 1 || na > len(ps)-1 {
			return "bad-op"
		}
		call := func(p [][]byte) id62.UUID {
			ins := make([]string, 0, len(p))
			for _, x := range p[1:] {
				ins = append(ins, string(x))
			}
			return id62.NewHash(string(p[0]), ins...)
		}
		a, b := ps[:na], ps[na:]
		r1, r2, r3 := call(a), call(b), call(a)
		sa, sb := sha1.Sum(bytes.Join(a, nil)), sha1.Sum(bytes.Join(b, nil))
		if !bytes.Equal(r1[:], sa[:16]) || !bytes.Equal(r2[:], sb[:16]) || r3 != r1 {
			h.Fail("hash-impure", op, fmt.Sprintf("A=%x B=%x A'=%x want A=%x B=%x", r1, r2, r3, sa[:16], sb[:16]))
		}
		h.Count("hashpair")
		h.Nontrivial(op)
		return "ok " + vh.Hex(r1[:]) + " " + vh.Hex(r2[:]) + " " + vh.Hex(r3[:])
	case "hash":
		var parts [][]byte
		for _, x := range f[2:] {
			b, ok := vh.UnHex(x)
			if !ok {
				return "bad-op"
			}
			parts = append(parts, b)
		}
		ins := make([]string, 0, len(parts))
		for _, p := range parts[1:] {
			ins = append(ins, string(p))
		}
		a := id62.NewHash(string(parts[0]), ins...)
		b := id62.NewHash(string(parts[0]), ins...)
		if a != b {
			h.Fail("hash-impure", op, fmt.Sprintf("%x vs %x", a, b))
		}
		sum := sha1.Sum(bytes.Join(parts, nil))
		if !bytes.Equal(a[:], sum[:16]) {
			h.Fail("hash-not-sha1-prefix", op, fmt.Sprintf("%x vs %x", a, sum))
		}
		h.Count("hash")
		h.Nontrivial(op)
		return "ok " + vh.Hex(a[:])
	}
	return "bad-op"
}
