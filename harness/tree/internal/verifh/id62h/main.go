//go:build verif

// id62h: correspondence + property oracle for lib/id62 (property C20).
package main

import (
	"bytes"
	"crypto/sha1"
	"fmt"
	"math/big"
	"strings"

	"github.com/pentops/j5/internal/verifh/vh"
	"github.com/pentops/j5/lib/id62"
)

type impl struct{}

func main() { vh.Main("id62", impl{}) }

var alnum = []byte("0123456789abcdefghijklmnopqrstuvwxyzABCDEFGHIJKLMNOPQRSTUVWXYZ")

func (impl) Gen(h *vh.H, i int) string {
	switch i % 4 {
	case 0, 1: // render
		var id [16]byte
		switch h.Rng.IntN(8) {
		case 0: // all zero / all one / single bit / leading zero bytes
			switch h.Rng.IntN(4) {
			case 0:
			case 1:
				for k := range id {
					id[k] = 0xff
				}
			case 2:
				bit := h.Rng.IntN(128)
				id[bit/8] = 1 << (bit % 8)
			case 3:
				nz := 1 + h.Rng.IntN(15)
				for k := nz; k < 16; k++ {
					id[k] = byte(h.Rng.IntN(256))
				}
			}
		case 1: // 62^k + d, d in {-1,0,1}
			k := h.Rng.IntN(22)
			v := new(big.Int).Exp(big.NewInt(62), big.NewInt(int64(k)), nil)
			v.Add(v, big.NewInt(int64(h.Rng.IntN(3)-1)))
			if v.Sign() >= 0 && v.BitLen() <= 128 {
				v.FillBytes(id[:])
			}
		case 2: // 256^k + d
			k := h.Rng.IntN(16)
			v := new(big.Int).Lsh(big.NewInt(1), uint(8*k))
			v.Add(v, big.NewInt(int64(h.Rng.IntN(3)-1)))
			if v.Sign() >= 0 && v.BitLen() <= 128 {
				v.FillBytes(id[:])
			}
		default:
			for k := range id {
				id[k] = byte(h.Rng.IntN(256))
			}
		}
		return "render " + vh.Hex(id[:])
	case 2: // parse
		return "parse " + vh.Hex(genString(h))
	default:
		if h.Chance(1, 2) {
			return "match " + vh.Hex(genString(h))
		}
		n := h.Rng.IntN(4)
		parts := make([]string, 0, n+1)
		var all []byte
		for k := 0; k <= n; k++ {
			g := genString(h)
			all = append(all, g...)
			parts = append(parts, vh.Hex(g))
		}
		// the digest is shipped with the op: the model treats sha1 as uninterpreted
		sum := sha1.Sum(all)
		return "hash " + vh.Hex(sum[:]) + " " + strings.Join(parts, " ")
	}
}

func genString(h *vh.H) []byte {
	switch h.Rng.IntN(10) {
	case 0:
		return []byte{}
	case 1: // arbitrary bytes
		b := make([]byte, h.Rng.IntN(40))
		for i := range b {
			b[i] = byte(h.Rng.IntN(256))
		}
		return b
	case 2: // sign + digits
		b := []byte{vh.Pick(h, []byte("+-"))}
		n := h.Rng.IntN(25)
		for i := 0; i < n; i++ {
			b = append(b, vh.Pick(h, alnum))
		}
		return b
	case 3: // digits with one foreign char
		n := 1 + h.Rng.IntN(24)
		b := make([]byte, n)
		for i := range b {
			b[i] = vh.Pick(h, alnum)
		}
		b[h.Rng.IntN(n)] = vh.Pick(h, []byte("_ .:/\x00\xff-+\n"))
		return b
	case 4: // around 2^128 boundary: 22 chars starting near the max "7n42DGM5Tflk9n8mt7Fhc7"
		max := []byte("7N42dgm5tFLK9N8MT7fHC7")
		b := append([]byte{}, max...)
		k := h.Rng.IntN(22)
		b[k] = vh.Pick(h, alnum)
		return b
	case 5: // long
		n := 22 + h.Rng.IntN(30)
		b := make([]byte, n)
		for i := range b {
			b[i] = vh.Pick(h, alnum)
		}
		return b
	case 6: // leading zeros then anything
		n := h.Rng.IntN(40)
		b := bytes.Repeat([]byte("0"), n)
		m := h.Rng.IntN(23)
		for i := 0; i < m; i++ {
			b = append(b, vh.Pick(h, alnum))
		}
		return b
	default: // 1..22 valid chars
		n := 1 + h.Rng.IntN(22)
		b := make([]byte, n)
		for i := range b {
			b[i] = vh.Pick(h, alnum)
		}
		return b
	}
}

func (impl) Exec(h *vh.H, op string) string {
	f := strings.Split(op, " ")
	switch f[0] {
	case "render":
		b, ok := vh.UnHex(f[1])
		if !ok || len(b) != 16 {
			return "bad-op"
		}
		var id id62.UUID
		copy(id[:], b)
		s := id.String()
		h.Count("render")
		h.Nontrivial(op)
		// property oracle on the real code
		if len(s) != 22 {
			h.Fail("render-length", op, fmt.Sprintf("len=%d %q", len(s), s))
		}
		if !id62.Pattern.MatchString(s) {
			h.Fail("render-pattern", op, s)
		}
		back, err := id62.Parse(s)
		if err != nil || back != id {
			h.Fail("roundtrip", op, fmt.Sprintf("%q -> %x, %v", s, back, err))
		}
		return "ok " + vh.Hex([]byte(s))
	case "parse":
		b, ok := vh.UnHex(f[1])
		if !ok {
			return "bad-op"
		}
		id, err := id62.Parse(string(b))
		if err != nil {
			h.Count("parse.err")
			return "err"
		}
		h.Count("parse.ok")
		h.Nontrivial(op)
		// oracle: accepted strings denote exactly the stored value (independent big.Int check)
		s := strings.TrimLeft(string(b), "+-")
		if v, ok := new(big.Int).SetString(s, 62); !ok || v.BitLen() > 128 || v.Cmp(new(big.Int).SetBytes(id[:])) != 0 {
			h.Fail("parse-inexact", op, fmt.Sprintf("%q -> %x", b, id))
		}
		return "ok " + vh.Hex(id[:])
	case "match":
		b, ok := vh.UnHex(f[1])
		if !ok {
			return "bad-op"
		}
		h.Count("match")
		return fmt.Sprint(id62.Pattern.Match(b))
	case "hash":
		var parts [][]byte
		for _, x := range f[2:] {
			b, ok := vh.UnHex(x)
			if !ok {
				return "bad-op"
			}
			parts = append(parts, b)
		}
		ins := make([]string, 0, len(parts))
		for _, p := range parts[1:] {
			ins = append(ins, string(p))
		}
		a := id62.NewHash(string(parts[0]), ins...)
		b := id62.NewHash(string(parts[0]), ins...)
		if a != b {
			h.Fail("hash-impure", op, fmt.Sprintf("%x vs %x", a, b))
		}
		sum := sha1.Sum(bytes.Join(parts, nil))
		if !bytes.Equal(a[:], sum[:16]) {
			h.Fail("hash-not-sha1-prefix", op, fmt.Sprintf("%x vs %x", a, sum))
		}
		h.Count("hash")
		h.Nontrivial(op)
		return "ok " + vh.Hex(a[:])
	}
	return "bad-op"
}
