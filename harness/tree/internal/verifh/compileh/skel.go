//go:build verif

package main

import (
	"fmt"
	"strconv"
	"strings"

	"github.com/pentops/j5/internal/verifh/j5sgen"
	"github.com/pentops/j5/internal/verifh/j5sreal"
	"github.com/pentops/j5/internal/verifh/vh"
)

func cfgFor(h *vh.H, profile string) j5sgen.Config {
	c := j5sgen.DefaultConfig()
	c.ListMethods = true
	if h.Tier == "thorough" {
		c.MaxElems, c.MaxProps, c.MaxDepth, c.MaxFiles = 7, 8, 4, 4
	}
	switch profile {
	case "entity":
		c.EntityOnly = true
		c.MaxPkgs, c.MaxFiles = 2, 2
		c.OddEntNames = true
	}
	return c
}

func genSkel(h *vh.H, i int) string {
	g := j5sgen.New(h.Rng, cfgFor(h, "skel"))
	b := g.Bundle()
	if h.Chance(1, 6) {
		// a package import and a file-path import that share the short name, the type in both packages
		g.AddFileImportClash(b)
		h.Count("skel.gen.file-import-clash")
	}
	pkg := b.Pkgs[len(b.Pkgs)-1]
	if h.Chance(1, 4) {
		pkg = vh.Pick(h, b.Pkgs)
	}
	style := uint64(0)
	if h.Chance(2, 3) {
		style = 1 + h.Rng.Uint64N(1<<30)
	}
	return fmt.Sprintf("skel %s %s %d", b.Sexp().String(), j5sgen.S(pkg.Name).String(), style)
}

func genEntity(h *vh.H, i int) string {
	g := j5sgen.New(h.Rng, cfgFor(h, "entity"))
	b := g.Bundle()
	pkg := b.Pkgs[len(b.Pkgs)-1]
	style := uint64(0)
	if h.Chance(1, 2) {
		style = 1 + h.Rng.Uint64N(1<<30)
	}
	return fmt.Sprintf("entity %s %s %d", b.Sexp().String(), j5sgen.S(pkg.Name).String(), style)
}

// parsed op: bundle + package + style
type compileOp struct {
	b     *j5sgen.Bundle
	pkg   string
	style uint64
	rest  []*j5sgen.Node
}

func parseCompileOp(args []*j5sgen.Node, extra int) (*compileOp, bool) {
	if len(args) < 3+extra {
		return nil, false
	}
	b, err := j5sgen.DecodeBundle(args[0])
	if err != nil {
		return nil, false
	}
	if args[1].List {
		return nil, false
	}
	pkg := func() (s string) {
		defer func() {
			if recover() != nil {
				s = "\x00"
			}
		}()
		return args[1].Str()
	}()
	if pkg == "\x00" || b.Pkg(pkg) == nil {
		return nil, false
	}
	last := args[len(args)-1]
	if last.List {
		return nil, false
	}
	style, err := strconv.ParseUint(last.Atom, 10, 64)
	if err != nil {
		return nil, false
	}
	return &compileOp{b: b, pkg: pkg, style: style, rest: args[2 : len(args)-1]}, true
}

func execOp(h *vh.H, op string) string {
	name, args, err := j5sgen.ParseLine(op)
	if err != nil {
		return "bad-op"
	}
	switch name {
	case "skel", "entity":
		co, ok := parseCompileOp(args, 0)
		if !ok || len(co.rest) != 0 {
			return "bad-op"
		}
		return execSkel(h, op, name, co)
	case "evolve":
		co, ok := parseCompileOp(args, 1)
		if !ok || len(co.rest) != 1 {
			return "bad-op"
		}
		return execEvolve(h, op, co)
	case "total.ast":
		co, ok := parseCompileOp(args, 0)
		if !ok || len(co.rest) != 0 {
			return "bad-op"
		}
		return execTotalAst(h, op, co)
	case "total.neg":
		if len(args) < 1 || args[0].List {
			return "bad-op"
		}
		co, ok := parseCompileOp(args[1:], 0)
		if !ok || len(co.rest) != 0 {
			return "bad-op"
		}
		return execTotalNeg(h, op, args[0].Atom, co)
	case "total.src":
		return execTotalSrc(h, op, args)
	case "det":
		return execDet(h, op, args)
	case "strcase":
		return execStrcase(h, op, args)
	}
	return "bad-op"
}

func execSkel(h *vh.H, op, name string, co *compileOp) string {
	mb := j5sreal.FromAST(co.b, co.style)
	res := j5sreal.Compile(mb, co.pkg)
	h.Count(name + "." + res.Class)
	switch res.Class {
	case "panic":
		h.Fail(name+"-panic:"+panicSig(res.Panic), op, res.Panic+"\n"+trimStack(res.Stack)+"\n"+dumpSources(mb))
		return "panic"
	case "err":
		// every generated package is within the documented language: it must compile and link
		h.Fail(name+"-rejected:"+errSig(res.Err), op, res.Err.Error()+"\n"+dumpSources(mb))
		return "err"
	}
	sk := j5sreal.Skeletons(res.Files)
	out := j5sreal.SkeletonString(sk)
	h.Nontrivial(out)
	statsOf(h, name, co.b.Pkg(co.pkg))
	oracleC02(h, op, name, co, sk)
	if name == "entity" {
		oracleC17(h, op, co, sk, res)
	}
	return "ok " + out
}

func dumpSources(mb *j5sreal.MemBundle) string {
	var sb strings.Builder
	for _, k := range j5sreal.SortedKeys(mb.Files) {
		fmt.Fprintf(&sb, "--- %s\n%s\n", k, mb.Files[k])
	}
	return sb.String()
}

// errSig / panicSig reduce an error to a narrow class name usable as a finding signature: the
// message with identifiers, numbers and quoted strings removed.
func errSig(err error) string {
	return classify(err.Error())
}

func panicSig(s string) string { return classify(s) }

func classify(msg string) string {
	// keep only the trailing clause (the root cause) and strip names; fall back to earlier clauses
	// when the last one holds nothing but names
	clauses := strings.Split(msg, ": ")
	for i := len(clauses) - 1; i >= 0; i-- {
		if len(clauses[i]) <= 12 && i > 0 {
			continue
		}
		if c := classifyClause(clauses[i]); c != "other" || i == 0 {
			return c
		}
	}
	return "other"
}

func classifyClause(msg string) string {
	var sb strings.Builder
	words := strings.Fields(msg)
	for _, w := range words {
		keep := true
		for _, r := range w {
			if !(r >= 'a' && r <= 'z') {
				keep = false
				break
			}
		}
		if keep {
			if sb.Len() > 0 {
				sb.WriteByte('-')
			}
			sb.WriteString(w)
		}
		if strings.Count(sb.String(), "-") >= 4 {
			break // five words identify the message; later words tend to be names
		}
	}
	if sb.Len() == 0 {
		return "other"
	}
	return sb.String()
}

func statsOf(h *vh.H, name string, p *j5sgen.Pkg) {
	h.CountN(name+".files", len(p.Files))
	for _, f := range p.Files {
		if f.Proto {
			h.Count(name + ".protofile")
			continue
		}
		h.CountN(name+".imports", len(f.Imports))
		for _, e := range f.Elems {
			h.Count(name + ".elem." + e.Kind)
		}
	}
}

func trimStack(s string) string {
	var out []string
	for _, l := range strings.Split(s, "\n") {
		if (strings.Contains(l, "pentops/j5/") || strings.Contains(l, "/internal/") || strings.Contains(l, "/lib/")) && !strings.Contains(l, "verifh/") {
			out = append(out, strings.TrimSpace(l))
		}
		if len(out) >= 16 {
			break
		}
	}
	return strings.Join(out, "\n")
}
