//go:build verif

package main

import (
	"fmt"
	"strings"

	"github.com/pentops/j5/internal/verifh/vh"
)

// Truncation + escape material for the totality stream (C07: "for any source text … never panics").
//
// Two gaps of the token-level mutations are closed here:
//   - a source that ENDS at an arbitrary byte offset (what an editor / the lint path sees while a line is
//     typed): inside a string literal, right after a backslash, inside an escape sequence, inside a comment,
//     a description line, a regex literal;
//   - backslash material inside string literals (`\n \\ \" \t é \x41 \U0001F600 \101 …`, complete and
//     incomplete): whatever the lexer rejects must come back as a positioned error.
//
// Kinds: `cut-det-*` (deterministic: every prefix of every escape at the end of the file, and the complete
// escape in a complete file) and `cut` (random). The result class is compared like every `total.src` kind.

// cutTemplates: valid sources with string literals, a regex, descriptions and comments in several positions.
var cutTemplates = []string{
	"package foo.v1\n\nservice S {\n  basePath = \"/caf\"\n  method M {\n    httpMethod = \"GET\"\n    httpPath = \"/x/:id\"\n    request {\n      field id ! key:uuid\n    }\n  }\n}\n",
	"package foo.v1\n\n// a line comment\n/* a block\n comment */\nobject Foo {\n  | a description line\n  | second line\n\n  field a string {\n    rules.pattern = \"^[a-z]+$\"\n    | field description\n  }\n\n  field b string {\n    rules.pattern = /^a+$/\n  }\n}\n",
	"package foo.v1\n\nentity Foo {\n  key fooId key:id62 {\n    primary = true\n  }\n  status A\n  summary {\n    name = \"X\"\n  }\n  query {\n    defaultStatusFilter = [\"A\"]\n  }\n}\n",
	"package foo.v1\n\nimport \"bar/v1/x.proto\"\n\nobject Foo {\n  field a enum {\n    option A\n    rules.in = [\"A\", \"B\"]\n  }\n}\n",
	numberTemplate,
}

// numberTemplate: numeric literals as attribute values (integer and float rules, array bounds)
const numberTemplate = "package foo.v1\n\nobject Foo {\n  field a integer:INT64 {\n    rules.minimum = 5\n    rules.maximum = 70\n  }\n\n  field b float:FLOAT64\n\n  field c array:string {\n    rules.minItems = 1\n  }\n}\n"

// numberMaterial: number-like tokens of common literal dialects, complete and cut short
var numberMaterial = []string{
	"0", "007", "-5", "-", "+5", "1.5", "1.", ".5", "1..2", "1.5.5", "1e5", "1e", "1e+", "1e-3", "1E5",
	"0x1F", "0x", "0X", "0b101", "0o17", "1_000", "1_", "5u", "5L", "1f",
	"99999999999999999999999999999999", "-99999999999999999999999999999999", "٣٤", "１２", "1٣", "NaN", "Inf", "-Inf",
}

// escapeMaterial: backslash sequences of common string-literal dialects, complete and cut short.
var escapeMaterial = []string{
	`\n`, `\\`, `\"`, `\t`, `\r`, `\'`, `\q`, `\0`, `\101`, `\1`,
	`é`, `\u00e`, `\u00`, `\u0`, `\u`, `\uD800`, `\uZZZZ`, `\u{1F600}`, `\u{`,
	`\U0001F600`, `\U0001F60`, `\U0001`, `\U`,
	`\x41`, `\x4`, `\x`, `\xZZ`,
	`\`, "\\\n",
}

type cutDet struct{ class, text string }

var cutDetCases = buildCutDet()

// buildCutDet: for every escape material m, the file that ends inside an open string literal after each
// non-empty prefix of m (EOF in the middle of the escape), the same for the text ending in m + one, two
// and three further characters, and the complete file with m inside a closed string.
func buildCutDet() []cutDet {
	var out []cutDet
	t := cutTemplates[0]
	i := strings.Index(t, "\"/caf\"")
	head, tail := t[:i]+"\"/caf", t[i+len("\"/caf"):] // tail starts with the closing quote
	for _, m := range escapeMaterial {
		name := strings.NewReplacer("\\", "bs", "\n", "nl", "\"", "dq", "'", "sq", "{", "lb", "}", "rb").Replace(m)
		for k := 1; k <= len(m); k++ {
			out = append(out, cutDet{"cut-det-eof-" + name + "-" + string(rune('0'+k%10)), head + m[:k]})
		}
		out = append(out, cutDet{"cut-det-closed-" + name, head + m + tail})
		out = append(out, cutDet{"cut-det-eol-" + name, head + m + "\n"})
		out = append(out, cutDet{"cut-det-quote-" + name, head + m + "\""})
	}
	// numbers: every material as the value of `rules.minimum`, complete and with EOF after each prefix
	ni := strings.Index(numberTemplate, "= 5\n")
	nhead, ntail := numberTemplate[:ni+2], numberTemplate[ni+3:]
	for mi, m := range numberMaterial {
		name := fmt.Sprintf("num%d", mi)
		out = append(out, cutDet{"cut-det-number-" + name, nhead + m + ntail})
		for k := 1; k <= len(m); k++ {
			if k > 6 && k < len(m) {
				continue // long digit runs: first six prefixes and the whole
			}
			out = append(out, cutDet{"cut-det-number-eof-" + name, nhead + m[:k]})
		}
	}
	// every prefix of a template that holds a regex, descriptions and comments
	t2 := cutTemplates[1]
	for k := 0; k < len(t2); k += 3 {
		out = append(out, cutDet{"cut-det-prefix", t2[:k]})
	}
	return out
}

// stringSpans: [open, close) byte offsets of the contents of the one-line "…" literals of text.
func stringSpans(text string) [][2]int {
	var spans [][2]int
	open := -1
	for i := 0; i < len(text); i++ {
		switch text[i] {
		case '"':
			if open < 0 {
				open = i + 1
			} else {
				spans = append(spans, [2]int{open, i})
				open = -1
			}
		case '\\':
			if open >= 0 {
				i++
			}
		case '\n':
			open = -1
		}
	}
	return spans
}

// cutText: base with escape material dropped into string literals and / or cut off at an offset class.
func cutText(h *vh.H, base string) string {
	text := base
	mark := -1 // offset right after the last inserted material
	mlen := 0
	if spans := stringSpans(text); len(spans) > 0 && !h.Chance(1, 5) {
		n := 1 + h.Rng.IntN(2)
		for k := 0; k < n; k++ {
			spans = stringSpans(text)
			if len(spans) == 0 {
				break
			}
			sp := spans[h.Rng.IntN(len(spans))]
			at := sp[0] + h.Rng.IntN(sp[1]-sp[0]+1)
			m := vh.Pick(h, escapeMaterial)
			text = text[:at] + m + text[at:]
			mark, mlen = at+len(m), len(m)
		}
		h.Count("total.cut.escape")
	}
	if spans := numberSpans(text); len(spans) > 0 && h.Chance(1, 3) {
		sp := spans[h.Rng.IntN(len(spans))]
		m := vh.Pick(h, numberMaterial)
		text = text[:sp[0]] + m + text[sp[1]:]
		if h.Chance(1, 2) {
			mark, mlen = sp[0]+len(m), len(m)
		}
		h.Count("total.cut.number")
	}
	switch mode := h.Rng.IntN(8); {
	case mode == 0:
		h.Count("total.cut.mode.none")
	case mode <= 3 && mark >= 0:
		// end of input inside, or up to 4 bytes after, the inserted escape
		k := mark - mlen + 1 + h.Rng.IntN(mlen+4)
		if k > len(text) {
			k = len(text)
		}
		text = text[:k]
		h.Count("total.cut.mode.escape")
	case mode <= 4:
		if spans := stringSpans(text); len(spans) > 0 {
			sp := spans[h.Rng.IntN(len(spans))]
			text = text[:sp[0]+h.Rng.IntN(sp[1]-sp[0]+1)]
			h.Count("total.cut.mode.string")
			break
		}
		fallthrough
	case mode <= 5:
		// inside / right after a comment, description or regex opener
		var at []int
		for _, opener := range []string{"//", "/*", "*/", "|", "/^", "= /", "\\"} {
			for off := 0; ; {
				j := strings.Index(text[off:], opener)
				if j < 0 {
					break
				}
				at = append(at, off+j)
				off += j + 1
			}
		}
		if len(at) > 0 {
			k := at[h.Rng.IntN(len(at))] + h.Rng.IntN(6)
			if k > len(text) {
				k = len(text)
			}
			text = text[:k]
			h.Count("total.cut.mode.comment")
			break
		}
		fallthrough
	default:
		text = text[:h.Rng.IntN(len(text)+1)]
		h.Count("total.cut.mode.any")
	}
	return text
}

// numberSpans: [start, end) of the digit runs that follow "= " (attribute values)
func numberSpans(text string) [][2]int {
	var spans [][2]int
	for off := 0; ; {
		j := strings.Index(text[off:], "= ")
		if j < 0 {
			break
		}
		st := off + j + 2
		en := st
		for en < len(text) && text[en] >= '0' && text[en] <= '9' {
			en++
		}
		if en > st {
			spans = append(spans, [2]int{st, en})
		}
		off = st
	}
	return spans
}
