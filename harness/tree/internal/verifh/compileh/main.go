//go:build verif

// compileh: correspondence + property oracles for the j5s compiler cluster
// (C02 compile.skel, C13 compile.evolve, C17 compile.entity, C07 compile.total, C14 compile.det, strcase).
// The stream is selected by the environment variable COMPILEH_STREAM (set by checks/Cxx.py).
package main

import (
	"os"

	"github.com/pentops/j5/internal/verifh/vh"
)

type impl struct{ stream string }

func main() {
	if len(os.Args) > 1 && os.Args[1] == "child" {
		childMain(os.Args[2:])
		return
	}
	if len(os.Args) > 2 && os.Args[1] == "corpus" {
		corpusMain(os.Args[2])
		return
	}
	s := os.Getenv("COMPILEH_STREAM")
	if s == "" {
		s = "skel"
	}
	vh.Main("compile."+s, impl{stream: s})
}

func (im impl) Gen(h *vh.H, i int) string {
	switch im.stream {
	case "skel":
		return genSkel(h, i)
	case "entity":
		return genEntity(h, i)
	case "evolve":
		return genEvolve(h, i)
	case "total":
		return genTotal(h, i)
	case "det":
		return genDet(h, i)
	case "strcase":
		return genStrcase(h, i)
	}
	return ""
}

func (im impl) Exec(h *vh.H, op string) string {
	return execOp(h, op)
}
