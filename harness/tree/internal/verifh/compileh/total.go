//go:build verif

package main

// Stream compile.total (property C07): the compiler is total, errors are positioned inside the
// offending file, and the documented language is accepted (in particular every rule on every
// field type in an otherwise empty file).

import (
	"context"
	"errors"
	"fmt"
	"regexp"
	"strings"
	"time"
	"unicode/utf8"

	"github.com/pentops/j5/internal/bcl/errpos"
	"github.com/pentops/j5/internal/j5s/protobuild"
	"github.com/pentops/j5/internal/verifh/j5sgen"
	"github.com/pentops/j5/internal/verifh/j5sreal"
	"github.com/pentops/j5/internal/verifh/vh"
)

// ---- the rule × field-type matrix

type matrixCase struct {
	name  string
	field *j5sgen.Field
}

func li(n uint64) j5sgen.Lit  { return j5sgen.Lit{Kind: "i", N: n} }
func ls(s string) j5sgen.Lit  { return j5sgen.Lit{Kind: "s", S: s} }
func lb(b bool) j5sgen.Lit    { return j5sgen.Lit{Kind: "b", B: b} }
func rule(n string, l j5sgen.Lit) j5sgen.Rule { return j5sgen.Rule{Name: n, Lit: l} }

func buildMatrix() []matrixCase {
	var out []matrixCase
	add := func(name string, mk func() *j5sgen.Field, rules ...j5sgen.Rule) {
		f := mk()
		f.Rules = rules
		out = append(out, matrixCase{name, f})
		// the same rule on the item of an array and as the value of a map
		item := mk()
		item.Rules = rules
		out = append(out, matrixCase{"array-" + name, &j5sgen.Field{Kind: j5sgen.FArray, Items: item}})
		item2 := mk()
		item2.Rules = rules
		out = append(out, matrixCase{"map-" + name, &j5sgen.Field{Kind: j5sgen.FMap, Items: item2}})
	}
	k := func(kind, fmtv string) func() *j5sgen.Field {
		return func() *j5sgen.Field { return &j5sgen.Field{Kind: kind, Fmt: fmtv} }
	}
	// every type without rules, in isolation
	for _, kind := range []string{j5sgen.FString, j5sgen.FBool, j5sgen.FBytes, j5sgen.FDate, j5sgen.FDecimal, j5sgen.FTimestamp, j5sgen.FAny} {
		add(kind+"-plain", k(kind, ""))
	}
	for _, f := range []string{"int32", "int64", "uint32", "uint64"} {
		add("integer-"+f+"-plain", k(j5sgen.FInteger, f))
	}
	for _, f := range []string{"float32", "float64"} {
		add("float-"+f+"-plain", k(j5sgen.FFloat, f))
	}
	for _, f := range []string{"none", "informal", "uuid", "id62"} {
		add("key-"+f+"-plain", k(j5sgen.FKey, f))
	}
	add("key-custom-plain", func() *j5sgen.Field { return &j5sgen.Field{Kind: j5sgen.FKey, Fmt: "custom", Pattern: "^[a-z]+$"} })
	// string
	add("string-pattern", k(j5sgen.FString, ""), rule("pattern", ls("^[a-z]+$")))
	add("string-minLength", k(j5sgen.FString, ""), rule("minLength", li(1)))
	add("string-maxLength", k(j5sgen.FString, ""), rule("maxLength", li(10)))
	add("string-all", k(j5sgen.FString, ""), rule("minLength", li(1)), rule("maxLength", li(10)), rule("pattern", ls("x")))
	// bytes
	add("bytes-minLength", k(j5sgen.FBytes, ""), rule("minLength", li(1)))
	add("bytes-maxLength", k(j5sgen.FBytes, ""), rule("maxLength", li(10)))
	// bool
	add("bool-const-true", k(j5sgen.FBool, ""), rule("const", lb(true)))
	add("bool-const-false", k(j5sgen.FBool, ""), rule("const", lb(false)))
	// integers: every rule, small and format-boundary literals
	bounds := map[string][]uint64{"int32": {0, 7, 2147483647}, "uint32": {0, 7, 4294967295, 3000000000},
		"int64": {0, 7, 3000000000, 9223372036854775807}, "uint64": {0, 7, 3000000000, 9223372036854775807}}
	for _, f := range []string{"int32", "int64", "uint32", "uint64"} {
		for _, v := range bounds[f] {
			add(fmt.Sprintf("integer-%s-minimum-%d", f, v), k(j5sgen.FInteger, f), rule("minimum", li(v)))
			add(fmt.Sprintf("integer-%s-maximum-%d", f, v), k(j5sgen.FInteger, f), rule("maximum", li(v)))
		}
		add("integer-"+f+"-exclusiveMinimum", k(j5sgen.FInteger, f), rule("minimum", li(1)), rule("exclusiveMinimum", lb(true)))
		add("integer-"+f+"-exclusiveMaximum", k(j5sgen.FInteger, f), rule("maximum", li(9)), rule("exclusiveMaximum", lb(true)))
		add("integer-"+f+"-exclusiveMinimum-false", k(j5sgen.FInteger, f), rule("minimum", li(1)), rule("exclusiveMinimum", lb(false)))
		add("integer-"+f+"-multipleOf", k(j5sgen.FInteger, f), rule("multipleOf", li(5)))
		add("integer-"+f+"-range", k(j5sgen.FInteger, f), rule("minimum", li(1)), rule("maximum", li(9)))
	}
	// floats
	for _, f := range []string{"float32", "float64"} {
		add("float-"+f+"-minimum", k(j5sgen.FFloat, f), rule("minimum", li(1)))
		add("float-"+f+"-maximum", k(j5sgen.FFloat, f), rule("maximum", li(9)))
		add("float-"+f+"-exclusiveMinimum", k(j5sgen.FFloat, f), rule("minimum", li(1)), rule("exclusiveMinimum", lb(true)))
		add("float-"+f+"-exclusiveMaximum", k(j5sgen.FFloat, f), rule("maximum", li(9)), rule("exclusiveMaximum", lb(true)))
		add("float-"+f+"-multipleOf", k(j5sgen.FFloat, f), rule("multipleOf", li(2)))
	}
	// decimal and date
	for _, kind := range []string{j5sgen.FDecimal, j5sgen.FDate} {
		lo, hi := "1.5", "99.25"
		if kind == j5sgen.FDate {
			lo, hi = "2020-01-01", "2030-12-31"
		}
		add(kind+"-minimum", k(kind, ""), rule("minimum", ls(lo)))
		add(kind+"-maximum", k(kind, ""), rule("maximum", ls(hi)))
		add(kind+"-exclusiveMinimum", k(kind, ""), rule("minimum", ls(lo)), rule("exclusiveMinimum", lb(true)))
		add(kind+"-exclusiveMaximum", k(kind, ""), rule("maximum", ls(hi)), rule("exclusiveMaximum", lb(true)))
	}
	// timestamp
	add("timestamp-exclusiveMinimum", k(j5sgen.FTimestamp, ""), rule("exclusiveMinimum", lb(true)))
	add("timestamp-exclusiveMaximum", k(j5sgen.FTimestamp, ""), rule("exclusiveMaximum", lb(true)))
	// object / oneof / enum (inline, so the file needs nothing else)
	inlObj := func() *j5sgen.Field {
		return &j5sgen.Field{Kind: j5sgen.FObject, Ref: &j5sgen.TRef{Kind: j5sgen.RInlObj, Props: []*j5sgen.Prop{{Name: "x", Field: &j5sgen.Field{Kind: j5sgen.FString}}}}}
	}
	inlOneof := func() *j5sgen.Field {
		return &j5sgen.Field{Kind: j5sgen.FOneof, Ref: &j5sgen.TRef{Kind: j5sgen.RInlOneof, Props: []*j5sgen.Prop{{Name: "a", Field: inlObj()}}}}
	}
	inlEnum := func() *j5sgen.Field {
		return &j5sgen.Field{Kind: j5sgen.FEnum, Ref: &j5sgen.TRef{Kind: j5sgen.RInlEnum, Opts: []string{"A", "B", "C"}}}
	}
	add("object-plain", inlObj)
	add("object-minProperties", inlObj, rule("minProperties", li(1)))
	add("object-maxProperties", inlObj, rule("maxProperties", li(3)))
	add("oneof-plain", inlOneof)
	add("enum-plain", inlEnum)
	add("enum-in", inlEnum, rule("in", j5sgen.Lit{Kind: "strs", Strs: []string{"A", "B"}}))
	add("enum-notIn", inlEnum, rule("notIn", j5sgen.Lit{Kind: "strs", Strs: []string{"C"}}))
	// array and map rules proper
	for _, it := range []string{j5sgen.FString, j5sgen.FBool, j5sgen.FDate} {
		mk := func(kind string, rules ...j5sgen.Rule) matrixCase {
			return matrixCase{kind + "-of-" + it + "-" + rules[0].Name, &j5sgen.Field{Kind: kind, Items: &j5sgen.Field{Kind: it}, Rules: rules}}
		}
		out = append(out, mk(j5sgen.FArray, rule("minItems", li(1))), mk(j5sgen.FArray, rule("maxItems", li(5))), mk(j5sgen.FArray, rule("uniqueItems", lb(true))),
			mk(j5sgen.FMap, rule("minPairs", li(1))), mk(j5sgen.FMap, rule("maxPairs", li(5))))
	}
	return out
}

var matrix = buildMatrix()

func isolatedBundle(f *j5sgen.Field, req bool) *j5sgen.Bundle {
	return &j5sgen.Bundle{Pkgs: []*j5sgen.Pkg{{Name: "iso.v1", Files: []*j5sgen.File{{Path: "iso/v1/only.j5s", Elems: []*j5sgen.Elem{
		{Kind: j5sgen.KObject, Object: &j5sgen.Object{Name: "Only", Props: []*j5sgen.Prop{{Name: "f", Req: req, Field: f}}}},
	}}}}}}
}

// ---- hand-written sources with exactly one semantic error (or one doubtful construct)

type semCase struct{ class, text string }

var semCases = []semCase{
	{"unknown-type", "package foo.v1\n\nobject Foo {\n  field a object:Nope\n}\n"},
	{"unknown-enum", "package foo.v1\n\nobject Foo {\n  field a enum:Nope\n}\n"},
	{"unknown-package", "package foo.v1\n\nobject Foo {\n  field a object:nopkg.Nope\n}\n"},
	{"unknown-import", "package foo.v1\n\nimport nope.v1\n\nobject Foo {\n  field a object:nope.Thing\n}\n"},
	{"unused-import", "package foo.v1\n\nimport nope.v1\n\nobject Foo {\n  field a string\n}\n"},
	{"dup-field", "package foo.v1\n\nobject Foo {\n  field a string\n  field a string\n}\n"},
	{"dup-field-snake", "package foo.v1\n\nobject Foo {\n  field fooId string\n  field foo_id string\n}\n"},
	{"dup-type", "package foo.v1\n\nobject Foo {\n}\n\nobject Foo {\n}\n"},
	{"dup-enum-option", "package foo.v1\n\nenum E {\n  option A\n  option A\n}\n"},
	{"unknown-attr", "package foo.v1\n\nobject Foo {\n  field a string {\n    bogus = 1\n  }\n}\n"},
	{"unknown-block", "package foo.v1\n\nwidget Foo {\n}\n"},
	{"unknown-field-type", "package foo.v1\n\nobject Foo {\n  field a wibble\n}\n"},
	{"req-and-opt", "package foo.v1\n\nobject Foo {\n  field a ! string {\n    optional = true\n  }\n}\n"},
	{"req-and-opt-marks", "package foo.v1\n\nobject Foo {\n  field a string {\n    required = true\n    explicitlyOptional = true\n  }\n}\n"},
	{"enum-not-message", "package foo.v1\n\nenum E {\n  option A\n}\n\nobject Foo {\n  field a object:E\n}\n"},
	{"message-not-enum", "package foo.v1\n\nobject O {\n}\n\nobject Foo {\n  field a enum:O\n}\n"},
	{"enum-rule-unknown-value", "package foo.v1\n\nobject Foo {\n  field a enum {\n    option A\n    rules.in = [\"NOPE\"]\n  }\n}\n"},
	{"path-param-missing", "package foo.v1\n\nservice S {\n  method M {\n    httpMethod = \"GET\"\n    httpPath = \"/x/:nope\"\n    request {\n    }\n  }\n}\n"},
	{"method-no-request", "package foo.v1\n\nservice S {\n  method M {\n    httpMethod = \"GET\"\n    httpPath = \"/x\"\n  }\n}\n"},
	{"method-no-verb", "package foo.v1\n\nservice S {\n  method M {\n    httpPath = \"/x\"\n    request {\n    }\n  }\n}\n"},
	{"method-bad-verb", "package foo.v1\n\nservice S {\n  method M {\n    httpMethod = \"FETCH\"\n    httpPath = \"/x\"\n    request {\n    }\n  }\n}\n"},
	{"service-no-methods", "package foo.v1\n\nservice S {\n}\n"},
	{"dup-method", "package foo.v1\n\nservice S {\n  method M {\n    httpMethod = \"GET\"\n    httpPath = \"/x\"\n    request {\n    }\n  }\n  method M {\n    httpMethod = \"GET\"\n    httpPath = \"/y\"\n    request {\n    }\n  }\n}\n"},
	{"topic-two-unnamed", "package foo.v1\n\ntopic T publish {\n  message {\n  }\n  message {\n  }\n}\n"},
	{"topic-no-type", "package foo.v1\n\ntopic T {\n}\n"},
	{"topic-bad-type", "package foo.v1\n\ntopic T broadcast {\n}\n"},
	{"topic-upsert-no-message", "package foo.v1\n\ntopic T upsert {\n}\n"},
	{"topic-reqres-empty", "package foo.v1\n\ntopic T reqres {\n}\n"},
	{"entity-no-status", "package foo.v1\n\nentity Foo {\n  key fooId key:id62 {\n    primary = true\n  }\n}\n"},
	{"entity-no-keys", "package foo.v1\n\nentity Foo {\n  status A\n}\n"},
	{"entity-bad-filter", "package foo.v1\n\nentity Foo {\n  key fooId key:id62 {\n    primary = true\n  }\n  status A\n  query {\n    defaultStatusFilter = [\"NOPE\"]\n  }\n}\n"},
	{"entity-dup-summary", "package foo.v1\n\nentity Foo {\n  key fooId key:id62 {\n    primary = true\n  }\n  status A\n  summary {\n    name = \"X\"\n  }\n  summary {\n    name = \"X\"\n  }\n}\n"},
	{"entity-primary-on-string", "package foo.v1\n\nentity Foo {\n  key fooId string {\n    primary = true\n  }\n  status A\n}\n"},
	{"entity-dup-event", "package foo.v1\n\nentity Foo {\n  key fooId key:id62 {\n    primary = true\n  }\n  status A\n  event E {\n  }\n  event E {\n  }\n}\n"},
	{"wrong-package", "package other.v1\n\nobject Foo {\n}\n"},
	{"no-package", "object Foo {\n}\n"},
	{"empty-file", ""},
	{"only-comment", "// nothing\n"},
	{"literal-string-for-int", "package foo.v1\n\nobject Foo {\n  field a string {\n    rules.minLength = \"abc\"\n  }\n}\n"},
	{"literal-int-overflow", "package foo.v1\n\nobject Foo {\n  field a integer:INT32 {\n    rules.maximum = 99999999999999999999999\n  }\n}\n"},
	{"literal-negative", "package foo.v1\n\nobject Foo {\n  field a integer:INT32 {\n    rules.minimum = -5\n  }\n}\n"},
	{"literal-bool-for-string", "package foo.v1\n\nobject Foo {\n  field a string {\n    rules.pattern = true\n  }\n}\n"},
	{"array-of-array", "package foo.v1\n\nobject Foo {\n  field a array:array:string\n}\n"},
	{"map-of-map", "package foo.v1\n\nobject Foo {\n  field a map:map:string\n}\n"},
	{"integer-no-format", "package foo.v1\n\nobject Foo {\n  field a integer\n}\n"},
	{"float-no-format", "package foo.v1\n\nobject Foo {\n  field a float\n}\n"},
	{"integer-bad-format", "package foo.v1\n\nobject Foo {\n  field a integer:INT128\n}\n"},
	{"key-bad-format", "package foo.v1\n\nobject Foo {\n  field a key:ulid\n}\n"},
	{"oneof-scalar-option", "package foo.v1\n\noneof C {\n  option a string\n}\n"},
	{"oneof-map-option", "package foo.v1\n\noneof C {\n  option a map:string\n}\n"},
	{"inline-enum-empty", "package foo.v1\n\nobject Foo {\n  field a enum {\n  }\n}\n"},
	{"empty-oneof", "package foo.v1\n\noneof C {\n}\n"},
	{"VALID-capture-inline-name", "package foo.v1\n\nobject Foo {\n  field foo object {\n    field x string\n  }\n}\n"},
	{"VALID-capture-deep", "package foo.v1\n\nobject Foo {\n  field bar object {\n    field foo object {\n    }\n  }\n}\n"},
	{"VALID-self-ref", "package foo.v1\n\nobject Foo {\n  field next object:Foo\n}\n"},
	{"VALID-readme-array-implicit-object", "package foo.v1\n\nobject Foo {\n  field bars array {\n    field barId key:id62\n  }\n}\n"},
	{"VALID-array-singleForm", "package foo.v1\n\nobject Foo {\n  field bars array:string {\n    ext.singleForm = \"bar\"\n  }\n}\n"},
	{"VALID-any-types", "package foo.v1\n\nobject Foo {\n  field a any {\n    types = [\"foo.v1.Bar\"]\n  }\n}\n"},
	{"VALID-required-map", "package foo.v1\n\nobject Foo {\n  field m ! map:string\n}\n"},
	{"optional-array", "package foo.v1\n\nobject Foo {\n  field m ? array:string\n}\n"},
	{"flatten-scalar", "package foo.v1\n\nobject Foo {\n  field a string {\n    flatten = true\n  }\n}\n"},
	{"nested-ref-dotted", "package foo.v1\n\nobject Foo {\n  field a object:Foo.Inner\n  object Inner {\n  }\n}\n"},
	{"description-not-first", "package foo.v1\n\nobject Foo {\n  field a string\n  | late description\n}\n"},
	{"name-with-dot", "package foo.v1\n\nservice Part {\n  method Do.x {\n    httpMethod = \"PUT\"\n    httpPath = \"/x\"\n    request {\n    }\n    response {\n      field m map:enum {\n        option A\n      }\n    }\n  }\n}\n"},
	{"type-named-like-subpackage", "package foo.v1\n\nenum topic {\n  option upsert\n}\n\x00FILE foo/v1/t.j5s\x00package foo.v1\n\ntopic Pub publish {\n  message M {\n  }\n}\n"},
	{"import-version-first", "package foo.v1\n\nimport v2.thing\n\nobject Foo {\n  field a string\n}\n"},
	{"import-version-first-versioned", "package foo.v1\n\nimport v1.foo.v1\n\nobject Foo {\n  field a object:foo.Thing\n}\n"},
	{"import-version-only", "package foo.v1\n\nimport v1\n\nobject Foo {\n  field a string\n}\n"},
	{"import-subpackage", "package foo.v1\n\nimport bar.v1.service\n\nobject Foo {\n  field a object:bar.Thing\n}\n"},
	{"import-unversioned", "package foo.v1\n\nimport bar.baz\n\nobject Foo {\n  field a object:bar.Thing\n}\n"},
	{"import-single-element", "package foo.v1\n\nimport bar\n\nobject Foo {\n  field a object:bar.Thing\n}\n"},
	{"import-version-first-alias", "package foo.v1\n\nimport v2.thing : t\n\nobject Foo {\n  field a object:t.Thing\n}\n"},
	{"import-own-package", "package foo.v1\n\nimport foo.v1\n\nobject Foo {\n  field a object:foo.Foo\n}\n"},
	{"unterminated-body", "package foo.v1\n\nobject Foo {\n  field a string\n"},
	{"stray-close", "package foo.v1\n\nobject Foo {\n}\n}\n"},
}

// ---- abstract bundles that the compiler must REJECT (op total.neg): the same branch is visible to the
// model, which answers from the abstract package

type negCase struct {
	class string
	b     *j5sgen.Bundle
	pkg   string
}

func negObj(name string, props ...*j5sgen.Prop) *j5sgen.Elem {
	return &j5sgen.Elem{Kind: j5sgen.KObject, Object: &j5sgen.Object{Name: name, Props: props}}
}

func negFile(path, decl string, imports []j5sgen.Import, elems ...*j5sgen.Elem) *j5sgen.File {
	return &j5sgen.File{Path: path, DeclPkg: decl, Imports: imports, Elems: elems}
}

func buildNegCases() []negCase {
	inlEnum := func(filters ...string) *j5sgen.Field {
		return &j5sgen.Field{Kind: j5sgen.FEnum, Ref: &j5sgen.TRef{Kind: j5sgen.RInlEnum, Opts: []string{"A", "B", "C"}}, HasList: true, ListFilters: filters}
	}
	refEnum := func(schema string, filters ...string) *j5sgen.Field {
		return &j5sgen.Field{Kind: j5sgen.FEnum, Ref: &j5sgen.TRef{Kind: j5sgen.RRef, Schema: schema}, HasList: true, ListFilters: filters}
	}
	color := &j5sgen.Elem{Kind: j5sgen.KEnum, Enum: &j5sgen.Enum{Name: "Color", Opts: []string{"RED", "BLUE"}}}
	one := func(class string, elems ...*j5sgen.Elem) negCase {
		return negCase{class, &j5sgen.Bundle{Pkgs: []*j5sgen.Pkg{{Name: "foo.v1", Files: []*j5sgen.File{negFile("foo/v1/a.j5s", "", nil, elems...)}}}}, "foo.v1"}
	}
	str := func() *j5sgen.Prop { return &j5sgen.Prop{Name: "x", Field: &j5sgen.Field{Kind: j5sgen.FString}} }
	out := []negCase{
		one("enum-default-filter-inline", negObj("Foo", &j5sgen.Prop{Name: "f", Field: inlEnum("NOPE")})),
		one("enum-default-filter-inline-second", negObj("Foo", &j5sgen.Prop{Name: "f", Field: inlEnum("A", "F_B", "NOPE")})),
		one("enum-default-filter-ref", color, negObj("Item", &j5sgen.Prop{Name: "shade", Field: refEnum("Color", "BOGUS")})),
		one("enum-default-filter-prefixed-twice", color, negObj("Item", &j5sgen.Prop{Name: "shade", Field: refEnum("Color", "COLOR_COLOR_RED")})),
		one("enum-default-filter-array-item", negObj("Foo", &j5sgen.Prop{Name: "f", Field: &j5sgen.Field{Kind: j5sgen.FArray, Items: inlEnum("NOPE")}})),
		{"package-mismatch", &j5sgen.Bundle{Pkgs: []*j5sgen.Pkg{{Name: "foo.v1", Files: []*j5sgen.File{
			negFile("foo/v1/a.j5s", "other.v1", nil, negObj("Foo", str()))}}}}, "foo.v1"},
		{"package-mismatch-second-file", &j5sgen.Bundle{Pkgs: []*j5sgen.Pkg{{Name: "foo.v1", Files: []*j5sgen.File{
			negFile("foo/v1/a.j5s", "", nil, negObj("Foo", str())),
			negFile("foo/v1/b.j5s", "foo.v2", nil, negObj("Bar", str()))}}}}, "foo.v1"},
		{"package-mismatch-prefix", &j5sgen.Bundle{Pkgs: []*j5sgen.Pkg{{Name: "foo.v1", Files: []*j5sgen.File{
			negFile("foo/v1/a.j5s", "foo", nil, negObj("Foo", str()))}}}}, "foo.v1"},
		{"package-mismatch-in-dependency", &j5sgen.Bundle{Pkgs: []*j5sgen.Pkg{
			{Name: "dep.v1", Files: []*j5sgen.File{negFile("dep/v1/d.j5s", "dep.v2", nil, negObj("Dep", str()))}},
			{Name: "foo.v1", Files: []*j5sgen.File{negFile("foo/v1/a.j5s", "", []j5sgen.Import{{Path: "dep.v1"}},
				negObj("Foo", &j5sgen.Prop{Name: "d", Field: &j5sgen.Field{Kind: j5sgen.FObject, Ref: &j5sgen.TRef{Kind: j5sgen.RRef, Pkg: "dep", Schema: "Dep"}}}))}},
		}}, "foo.v1"},
	}
	// list methods (request takes j5.list.v1.QueryRequest) whose response is not list shaped
	listSvc := func(res []*j5sgen.Prop, hasRes bool) *j5sgen.Elem {
		return &j5sgen.Elem{Kind: j5sgen.KService, Service: &j5sgen.Service{Name: "Foo", Methods: []*j5sgen.Method{{
			Name: "ListFoos", Verb: "get", Path: "/foos",
			Req:    []*j5sgen.Prop{{Name: "query", Field: &j5sgen.Field{Kind: j5sgen.FObject, Ref: &j5sgen.TRef{Kind: j5sgen.RRef, Pkg: "j5.list.v1", Schema: "QueryRequest"}}}},
			HasRes: hasRes, Res: res}}}}
	}
	row := func() *j5sgen.Field {
		return &j5sgen.Field{Kind: j5sgen.FObject, Ref: &j5sgen.TRef{Kind: j5sgen.RInlObj, Props: []*j5sgen.Prop{{Name: "x", Field: &j5sgen.Field{Kind: j5sgen.FString}}}}}
	}
	arrOf := func(f *j5sgen.Field) *j5sgen.Field { return &j5sgen.Field{Kind: j5sgen.FArray, Items: f} }
	out = append(out,
		one("list-no-response", listSvc(nil, false)),
		one("list-no-array", listSvc([]*j5sgen.Prop{{Name: "x", Field: &j5sgen.Field{Kind: j5sgen.FString}}}, true)),
		one("list-two-arrays", listSvc([]*j5sgen.Prop{{Name: "rows", Field: arrOf(row())}, {Name: "more", Field: arrOf(&j5sgen.Field{Kind: j5sgen.FString})}}, true)),
		one("list-array-of-scalars", listSvc([]*j5sgen.Prop{{Name: "rows", Field: arrOf(&j5sgen.Field{Kind: j5sgen.FString})}}, true)),
	)
	return out
}

var negCases = buildNegCases()

func negOp(nc negCase, style uint64) string {
	return fmt.Sprintf("total.neg %s %s %s %d", nc.class, nc.b.Sexp().String(), j5sgen.S(nc.pkg).String(), style)
}

// breakBundle turns a valid generated bundle into one that must be rejected: a wrong package
// declaration in one file, or a default filter that names no option of an inline enum.
func breakBundle(h *vh.H, b *j5sgen.Bundle) negCase {
	p := b.Pkgs[0]
	var enums []*j5sgen.Field
	var walkProps func(ps []*j5sgen.Prop)
	walkField := func(f *j5sgen.Field) {}
	walkField = func(f *j5sgen.Field) {
		if f == nil {
			return
		}
		if f.Kind == j5sgen.FEnum && f.Ref != nil && f.Ref.Kind == j5sgen.RInlEnum {
			enums = append(enums, f)
		}
		if f.Ref != nil {
			walkProps(f.Ref.Props)
		}
		walkField(f.Items)
	}
	walkProps = func(ps []*j5sgen.Prop) {
		for _, pr := range ps {
			walkField(pr.Field)
		}
	}
	var walkObj func(o *j5sgen.Object)
	walkObj = func(o *j5sgen.Object) {
		walkProps(o.Props)
		for _, n := range o.Nested {
			if n.Object != nil {
				walkObj(n.Object)
			}
		}
	}
	var j5s []*j5sgen.File
	for _, f := range p.Files {
		if f.Proto {
			continue
		}
		j5s = append(j5s, f)
		for _, e := range f.Elems {
			if e.Object != nil {
				walkObj(e.Object)
			}
		}
	}
	if len(enums) > 0 && h.Chance(1, 2) {
		f := vh.Pick(h, enums)
		f.HasList = true
		bogus := vh.Pick(h, []string{"NOPE", "ZZ_NOT_AN_OPTION", "unspecified", "UNSPECIFIED_X"})
		i := h.Rng.IntN(len(f.ListFilters) + 1)
		f.ListFilters = append(f.ListFilters[:i:i], append([]string{bogus}, f.ListFilters[i:]...)...)
		return negCase{"rand-enum-default-filter", b, p.Name}
	}
	f := vh.Pick(h, j5s)
	f.DeclPkg = vh.Pick(h, []string{"other.v1", p.Name + ".sub", "v1", strings.TrimSuffix(p.Name, ".v1") + ".v2"})
	if f.DeclPkg == p.Name {
		f.DeclPkg = "other.v1"
	}
	return negCase{"rand-package-mismatch", b, p.Name}
}

// file cycle: two files of one package that refer to each other
var cycleA = "package foo.v1\n\nobject A {\n  field b object:B\n}\n"
var cycleB = "package foo.v1\n\nobject B {\n  field a object:A\n}\n"

var tokRe = regexp.MustCompile(`[A-Za-z_][A-Za-z0-9_.]*|[0-9]+|"[^"\n]*"|\s+|.`)
var tokPool = []string{"{", "}", "=", ":", "!", "?", "|", "\"", ".", ",", "[", "]", "\n", " ", "object", "field", "enum", "option", "oneof", "service", "topic",
	"entity", "method", "request", "response", "key", "array", "map", "string", "integer:INT32", "true", "false", "0", "1", "99999999999999999999", "\"x\"", "rules.minLength",
	"required", "ref", "import", "package", "foo.v1", "Foo", "x", "-", "/", "//", "/*", "\\", "\x00", "é", "\t", "publish", "upsert", "reqres", "message", "status", "event", "data", "summary", "command", "query"}

func mutateTokens(h *vh.H, text string) string {
	toks := tokRe.FindAllString(text, -1)
	if len(toks) == 0 {
		return vh.Pick(h, tokPool)
	}
	n := 1 + h.Rng.IntN(3)
	for k := 0; k < n && len(toks) > 0; k++ {
		i := h.Rng.IntN(len(toks))
		switch h.Rng.IntN(7) {
		case 6: // reorder the elements of a dotted name (foo.v1 -> v1.foo): the nearest dotted token at or after i
			for j := 0; j < len(toks); j++ {
				t := toks[(i+j)%len(toks)]
				if parts := strings.Split(t, "."); len(parts) > 1 && !strings.HasPrefix(t, "\"") {
					a, b := h.Rng.IntN(len(parts)), h.Rng.IntN(len(parts))
					parts[a], parts[b] = parts[b], parts[a]
					toks[(i+j)%len(toks)] = strings.Join(parts, ".")
					break
				}
			}
		case 0: // delete
			toks = append(toks[:i], toks[i+1:]...)
		case 1: // duplicate
			toks = append(toks[:i+1], append([]string{toks[i]}, toks[i+1:]...)...)
		case 2: // swap with neighbour
			if i+1 < len(toks) {
				toks[i], toks[i+1] = toks[i+1], toks[i]
			}
		case 3: // replace
			toks[i] = vh.Pick(h, tokPool)
		case 4: // insert
			toks = append(toks[:i], append([]string{vh.Pick(h, tokPool)}, toks[i:]...)...)
		case 5: // truncate
			toks = toks[:i]
		}
	}
	return strings.Join(toks, "")
}

// importShapeText: one file whose imports have arbitrary shapes (version element first / in the middle / missing,
// one element, sub-packages, aliases, file paths), used or not. None of the imported packages exists: the
// compiler has to answer with a positioned error (or accept the file when nothing is used), never crash.
func importShapeText(h *vh.H) string {
	elems := []string{"v1", "v2", "v10", "foo", "bar", "thing", "service", "v1beta", "V1"}
	var sb strings.Builder
	sb.WriteString("package foo.v1\n\n")
	var prefixes []string
	for k, n := 0, 1+h.Rng.IntN(3); k < n; k++ {
		var parts []string
		for j, m := 0, 1+h.Rng.IntN(4); j < m; j++ {
			parts = append(parts, vh.Pick(h, elems))
		}
		name := strings.Join(parts, ".")
		switch h.Rng.IntN(6) {
		case 0:
			sb.WriteString("import " + name + " : al" + fmt.Sprint(k) + "\n")
			prefixes = append(prefixes, "al"+fmt.Sprint(k))
		case 1:
			sb.WriteString("import \"" + strings.Join(parts, "/") + "/x.proto\"\n")
			prefixes = append(prefixes, name)
		default:
			sb.WriteString("import " + name + "\n")
			prefixes = append(prefixes, name)
			prefixes = append(prefixes, parts...)
		}
	}
	sb.WriteString("\nobject Foo {\n  field a string\n")
	for k, n := 0, h.Rng.IntN(3); k < n; k++ {
		sb.WriteString(fmt.Sprintf("  field r%d %s:%s.Thing\n", k, vh.Pick(h, []string{"object", "enum", "oneof"}), vh.Pick(h, prefixes)))
	}
	sb.WriteString("}\n")
	return sb.String()
}

func randomBytes(h *vh.H) string {
	n := h.Rng.IntN(120)
	b := make([]byte, n)
	switch h.Rng.IntN(3) {
	case 0:
		for i := range b {
			b[i] = byte(h.Rng.IntN(256))
		}
	case 1: // printable ASCII soup
		for i := range b {
			b[i] = byte(32 + h.Rng.IntN(95))
			if h.Rng.IntN(12) == 0 {
				b[i] = '\n'
			}
		}
	default: // token soup
		var sb strings.Builder
		for sb.Len() < n {
			sb.WriteString(vh.Pick(h, tokPool))
			if h.Chance(1, 2) {
				sb.WriteByte(' ')
			}
		}
		return sb.String()
	}
	return string(b)
}

func srcOp(kind, path, text string, rest *j5sgen.Bundle) string {
	return fmt.Sprintf("total.src %s %s %s %s", kind, j5sgen.S(path).String(), j5sgen.S(text).String(), rest.Sexp().String())
}

// The deterministic cases (matrix plain + required, semantic cases, file cycle) are dealt round-robin
// to the shards: the engine gives shard k the seed base+k, so seed mod 16 is the shard's residue.
const totalShards = 16

func genTotal(h *vh.H, i int) string {
	nDet := 2*len(matrix) + len(semCases) + 1 + len(negCases) + len(cutDetCases)
	if j := i*totalShards + int(h.Seed%totalShards); j < nDet {
		return genTotalDet(h, j)
	}
	return genTotalRandom(h)
}

func genTotalDet(h *vh.H, i int) string {
	if i < 2*len(matrix) {
		mc := matrix[i%len(matrix)]
		b := isolatedBundle(mc.field, i >= len(matrix))
		style := uint64(0)
		if i >= len(matrix) {
			style = uint64(i)
		}
		return fmt.Sprintf("total.ast %s %s %d", b.Sexp().String(), j5sgen.S("iso.v1").String(), style)
	}
	i -= 2 * len(matrix)
	if i < len(semCases) {
		sc := semCases[i]
		if strings.HasPrefix(sc.class, "VALID-") {
			return srcOp("valid-"+strings.TrimPrefix(sc.class, "VALID-"), "foo/v1/a.j5s", sc.text, &j5sgen.Bundle{})
		}
		return srcOp("sem-"+sc.class, "foo/v1/a.j5s", sc.text, &j5sgen.Bundle{})
	}
	i -= len(semCases)
	if i == 0 {
		rest := &j5sgen.Bundle{Pkgs: []*j5sgen.Pkg{{Name: "foo.v1"}}}
		_ = rest
		// the second file of the cycle travels as raw text too: encode it as a proto-less bundle is not
		// possible, so the op carries file b in the TEXT with a separator understood by execTotalSrc
		return srcOp("sem-file-cycle", "foo/v1/a.j5s", cycleA+"\x00FILE foo/v1/b.j5s\x00"+cycleB, &j5sgen.Bundle{})
	}
	i--
	if i < len(negCases) {
		return negOp(negCases[i], uint64(i))
	}
	i -= len(negCases)
	if i < len(cutDetCases) {
		// end of input inside every escape sequence / every third prefix of a file with comments (cut.go)
		return srcOp(cutDetCases[i].class, "foo/v1/a.j5s", cutDetCases[i].text, &j5sgen.Bundle{})
	}
	return genTotalRandom(h)
}

func genTotalRandom(h *vh.H) string {
	cfg := cfgFor(h, "skel")
	cfg.MaxPkgs, cfg.MaxFiles = 1, 2
	cfg.Rules = true
	g := j5sgen.New(h.Rng, cfg)
	switch h.Rng.IntN(13) {
	case 11, 12:
		// byte-level: escape material in string literals and / or end of input at an offset class (cut.go)
		if h.Chance(1, 2) {
			return srcOp("cut", "foo/v1/a.j5s", cutText(h, vh.Pick(h, cutTemplates)), &j5sgen.Bundle{})
		}
		if h.Chance(1, 3) {
			sc := vh.Pick(h, semCases)
			if !strings.Contains(sc.text, "\x00FILE ") && len(sc.text) > 0 {
				return srcOp("cut", "foo/v1/a.j5s", cutText(h, sc.text), &j5sgen.Bundle{})
			}
		}
		b := g.Bundle()
		p := b.Pkgs[0]
		var idx []int
		for fi, f := range p.Files {
			if !f.Proto {
				idx = append(idx, fi)
			}
		}
		fi := vh.Pick(h, idx)
		f := p.Files[fi]
		text := j5sgen.PrintFile(f, p.Name, 1+h.Rng.Uint64N(1000))
		p.Files = append(p.Files[:fi], p.Files[fi+1:]...)
		return srcOp("cut", f.Path, cutText(h, text), b)
	case 10:
		return negOp(breakBundle(h, g.Bundle()), 1+h.Rng.Uint64N(1<<30))
	case 0, 1:
		return srcOp("bytes", "foo/v1/a.j5s", randomBytes(h), &j5sgen.Bundle{})
	case 2, 3, 4, 5:
		b := g.Bundle()
		p := b.Pkgs[0]
		var idx []int
		for fi, f := range p.Files {
			if !f.Proto {
				idx = append(idx, fi)
			}
		}
		fi := vh.Pick(h, idx)
		f := p.Files[fi]
		text := j5sgen.PrintFile(f, p.Name, 1+h.Rng.Uint64N(1000))
		p.Files = append(p.Files[:fi], p.Files[fi+1:]...)
		return srcOp("tokmut", f.Path, mutateTokens(h, text), b)
	case 6, 7:
		if h.Chance(1, 4) {
			return srcOp("sem-import-shape", "foo/v1/a.j5s", importShapeText(h), &j5sgen.Bundle{})
		}
		// a hand-written semantic case, token-mutated once more (errors near errors)
		sc := vh.Pick(h, semCases)
		// only the text of the main file is mutated: the `\x00FILE <name>\x00` trailer that carries further
		// files of the case is harness syntax (a mutated file NAME is not a j5s source)
		text, trailer := sc.text, ""
		if i := strings.Index(text, "\x00FILE "); i >= 0 {
			text, trailer = text[:i], text[i:]
		}
		return srcOp("semmut", "foo/v1/a.j5s", mutateTokens(h, text)+trailer, &j5sgen.Bundle{})
	default:
		if h.Chance(1, 2) {
			// several packages: imports by name / alias / segment, same short type name in two packages
			cfg.MaxPkgs = 3
			g = j5sgen.New(h.Rng, cfg)
		}
		b := g.Bundle()
		style := 1 + h.Rng.Uint64N(1<<30)
		return fmt.Sprintf("total.ast %s %s %d", b.Sexp().String(), j5sgen.S(b.Pkgs[len(b.Pkgs)-1].Name).String(), style)
	}
}

// ---- execution

type posCheck struct {
	n, positioned, outside, virtual int
	first                       string
}

// collect walks the error tree and checks every positioned error against the source texts.
func collectPositions(err error, files map[string][]byte, defaultFile string, pc *posCheck, depth int) {
	if err == nil || depth > 50 {
		return
	}
	check := func(e *errpos.Err) {
		pc.n++
		if e.Pos == nil {
			return
		}
		inFile := func(src []byte) bool {
			lines := strings.Split(string(src), "\n")
			in := func(p errpos.Point) bool {
				if p.Line < 0 || p.Column < 0 || p.Line > len(lines) {
					return false
				}
				if p.Line == len(lines) {
					return p.Column == 0 // EOF on a virtual last line
				}
				return p.Column <= utf8.RuneCountInString(lines[p.Line])+1
			}
			return in(e.Pos.Start) && in(e.Pos.End)
		}
		if e.Pos.Filename == nil || *e.Pos.Filename == "" {
			// conversion errors carry no file name (the message names it): the position must lie inside
			// one of the bundle's source files
			for _, src := range files {
				if inFile(src) {
					pc.positioned++
					return
				}
			}
			pc.positioned++
			pc.outside++
			if pc.first == "" {
				pc.first = fmt.Sprintf("(no file name) %v-%v lies in no source file of the bundle", e.Pos.Start, e.Pos.End)
			}
			return
		}
		fn := *e.Pos.Filename
		src, ok := files[fn]
		if !ok {
			// a position in a file that is not a source of the bundle (a generated .j5s.proto)
			pc.virtual++
			if pc.first == "" {
				pc.first = fmt.Sprintf("%s:%v", fn, e.Pos.Start)
			}
			return
		}
		pc.positioned++
		if !inFile(src) {
			pc.outside++
			if pc.first == "" {
				pc.first = fmt.Sprintf("%s: %v-%v (file has %d lines)", fn, e.Pos.Start, e.Pos.End, len(strings.Split(string(src), "\n")))
			}
		}
	}
	switch t := err.(type) {
	case *errpos.Err:
		check(t)
		return
	case errpos.Errors:
		for _, e := range t {
			check(e)
		}
		return
	case *errpos.ErrorsWithSource:
		for _, e := range t.Errors {
			check(e)
		}
		return
	}
	switch u := err.(type) {
	case interface{ Unwrap() []error }:
		for _, e := range u.Unwrap() {
			collectPositions(e, files, defaultFile, pc, depth+1)
		}
		return
	case interface{ Unwrap() error }:
		collectPositions(u.Unwrap(), files, defaultFile, pc, depth+1)
		return
	}
	if hp, ok := err.(errpos.HasPosition); ok {
		check(&errpos.Err{Pos: hp.ErrorPosition(), Err: err})
	}
}

func classifyErr(err error, files map[string][]byte, defaultFile string) (string, string) {
	pc := &posCheck{}
	collectPositions(err, files, defaultFile, pc, 0)
	switch {
	case pc.outside > 0:
		return "err:outside", pc.first
	case pc.positioned > 0:
		return "err", ""
	case pc.virtual > 0:
		return "err:virtual", pc.first
	}
	return "err:nopos", ""
}

// guarded runs f with recover and a timeout.
func guarded(f func() (string, string)) (cls string, detail string) {
	type res struct{ c, d string }
	ch := make(chan res, 1)
	go func() {
		defer func() {
			if r := recover(); r != nil {
				ch <- res{"panic", fmt.Sprint(r)}
			}
		}()
		c, d := f()
		ch <- res{c, d}
	}()
	select {
	case r := <-ch:
		return r.c, r.d
	case <-time.After(30 * time.Second):
		return "hang", ""
	}
}

func execTotalAst(h *vh.H, op string, co *compileOp) string {
	mb := j5sreal.FromAST(co.b, co.style)
	iso := co.pkg == "iso.v1"
	cls, detail := guarded(func() (string, string) {
		r := j5sreal.Compile(mb, co.pkg)
		switch r.Class {
		case "panic":
			panic(r.Panic + "\n" + trimStack(r.Stack))
		case "err":
			return "err", r.Err.Error()
		}
		return "ok", ""
	})
	h.Count("total.ast." + cls)
	h.Nontrivial(op)
	tag := "valid"
	if iso {
		// findings are identified by the field type the rule sits on, not by the matrix cell
		tag = "isolated:" + isoBase(co)
		h.Count("total.cell." + isoName(co) + "." + cls)
	}
	switch cls {
	case "panic":
		h.Fail("c07-panic:"+tag+":"+classify(firstLine(detail)), op, detail+"\n"+dumpSources(mb))
	case "hang":
		h.Fail("c07-hang:"+tag, op, dumpSources(mb))
	case "err":
		h.Fail("c07-rejected:"+tag+":"+classify(detail), op, detail+"\n"+dumpSources(mb))
	}
	// the lint entry points on the same valid input: must not crash, must not report errors
	if cls == "ok" {
		for _, f := range co.b.Pkg(co.pkg).Files {
			if f.Proto {
				continue
			}
			lc, ld := lintFile(mb, f.Path)
			if lc == "panic" || lc == "hang" {
				h.Fail("c07-lint-"+lc+":"+tag+":"+classify(firstLine(ld)), op, ld+"\n"+dumpSources(mb))
			}
			h.Count("total.lintfile." + lc)
		}
		lc, ld := lintAll(mb)
		if lc == "panic" || lc == "hang" {
			h.Fail("c07-lintall-"+lc+":"+tag+":"+classify(firstLine(ld)), op, ld+"\n"+dumpSources(mb))
		}
		h.Count("total.lintall." + lc)
	}
	if cls == "hang" {
		return "panic"
	}
	return cls
}

// execTotalNeg: an abstract bundle outside the language. The result class is what the model is
// compared on; the oracle is the positional half of C07 (an error must carry a position inside a
// source file of the bundle).
func execTotalNeg(h *vh.H, op string, class string, co *compileOp) string {
	mb := j5sreal.FromAST(co.b, co.style)
	var compileErr error
	cls, detail := guarded(func() (string, string) {
		r := j5sreal.Compile(mb, co.pkg)
		switch r.Class {
		case "panic":
			panic(r.Panic + "\n" + trimStack(r.Stack))
		case "err":
			compileErr = r.Err
			c, d := classifyErr(r.Err, mb.Files, "")
			return c, d + "\n" + r.Err.Error()
		}
		return "ok", ""
	})
	h.Count("total.neg." + class + "." + cls)
	h.Nontrivial(op)
	switch cls {
	case "panic":
		h.Fail("c07-panic:neg-"+class+":"+classify(firstLine(detail)), op, detail+"\n"+dumpSources(mb))
	case "hang":
		h.Fail("c07-hang:neg-"+class, op, dumpSources(mb))
		return "panic"
	case "err:outside":
		h.Fail("c07-position-outside:neg-"+class+":"+classify(compileErr.Error()), op, detail+"\n"+dumpSources(mb))
	case "err:nopos", "err:virtual":
		h.Fail(noposSignature(mb, co.pkg, cls, compileErr), op, "[neg-"+class+"] ["+classify(compileErr.Error())+"] "+detail+"\n"+dumpSources(mb))
	}
	if strings.HasPrefix(cls, "err") {
		return "err"
	}
	return cls
}

// loadsAlone reports whether the load half of CompilePackage (PackageSet.LoadLocalPackage: parse, summaries,
// dependencies, j5convert) succeeds on a fresh PackageSet. When it does, an error of CompilePackage was produced
// by the link half (protobuild/linker.go resolveAll: protocompile's linker over the GENERATED descriptors, the
// import walk of searchLinker): the call site that returns errors without mapping them back to a .j5s position.
func loadsAlone(mb *j5sreal.MemBundle, pkg string) (ok bool) {
	defer func() {
		if recover() != nil {
			ok = false
		}
	}()
	ps, err := j5sreal.NewPackageSet(mb)
	if err != nil {
		return false
	}
	_, _, err = ps.LoadLocalPackage(context.Background(), pkg)
	return err == nil
}

// noposSignature: unpositioned (or generated-file positioned) errors of the link half share ONE root cause and
// one call site, whatever protocompile's message says; errors of the load half (j5parse, sourcewalk, j5convert,
// package loading) keep a narrow signature each.
func noposSignature(mb *j5sreal.MemBundle, pkg, cls string, err error) string {
	if loadsAlone(mb, pkg) {
		return "c07-nopos:link-stage"
	}
	return "c07-" + strings.TrimPrefix(cls, "err:") + ":" + classify(err.Error())
}

func firstLine(s string) string {
	if i := strings.IndexByte(s, '\n'); i >= 0 {
		return s[:i]
	}
	return s
}

// isoBase: the type that carries the rule (the container for array/map rules, else the innermost type).
func isoBase(co *compileOp) string {
	f := co.b.Pkg(co.pkg).Files[0].Elems[0].Object.Props[0].Field
	if f.Items != nil && len(f.Rules) == 0 {
		f = f.Items
	}
	if len(f.Rules) == 0 {
		return f.Kind + "-plain"
	}
	return f.Kind
}

func isoName(co *compileOp) string {
	// name the matrix cell by type and rules of the single field
	p := co.b.Pkg(co.pkg).Files[0].Elems[0].Object.Props[0]
	f := p.Field
	name := f.Kind
	if f.Items != nil {
		name += "-" + f.Items.Kind
		if f.Items.Fmt != "" {
			name += "-" + f.Items.Fmt
		}
		for _, r := range f.Items.Rules {
			name += "-item." + r.Name
		}
	}
	if f.Fmt != "" {
		name += "-" + f.Fmt
	}
	for _, r := range f.Rules {
		name += "-" + r.Name
	}
	if p.Req {
		name += "-required"
	}
	return name
}

func lintFile(mb *j5sreal.MemBundle, path string) (string, string) {
	return guarded(func() (string, string) {
		ps, err := j5sreal.NewPackageSet(mb)
		if err != nil {
			return "err", err.Error()
		}
		ews, err := protobuild.LintFile(context.Background(), ps, path, string(mb.Files[path]))
		if err != nil {
			c, d := classifyErr(err, mb.Files, path)
			return c, d + " " + err.Error()
		}
		if ews != nil {
			c, d := classifyErr(ews, mb.Files, path)
			return "reported-" + c, d
		}
		return "ok", ""
	})
}

func lintAll(mb *j5sreal.MemBundle) (string, string) {
	return guarded(func() (string, string) {
		ps, err := j5sreal.NewPackageSet(mb)
		if err != nil {
			return "err", err.Error()
		}
		ews, err := protobuild.LintAll(context.Background(), ps)
		if err != nil {
			return "err", err.Error()
		}
		if ews != nil {
			return "reported", ""
		}
		return "ok", ""
	})
}

func execTotalSrc(h *vh.H, op string, args []*j5sgen.Node) string {
	if len(args) != 4 || args[0].List {
		return "bad-op"
	}
	kind := args[0].Atom
	var path, text string
	ok := func() (ok bool) {
		defer func() {
			if recover() != nil {
				ok = false
			}
		}()
		path, text = args[1].Str(), args[2].Str()
		return true
	}()
	rest, err := j5sgen.DecodeBundle(args[3])
	if !ok || err != nil || !strings.Contains(path, "/") {
		return "bad-op"
	}
	mb := j5sreal.FromAST(rest, 0)
	parts := strings.Split(text, "\x00FILE ")
	mb.Add(path, parts[0])
	for _, extra := range parts[1:] {
		if i := strings.IndexByte(extra, 0); i > 0 {
			mb.Add(extra[:i], extra[i+1:])
		}
	}
	pkg := j5sreal.PackageOfFile(path)
	h.Nontrivial(kind + text)

	var compileErr error
	cls, detail := guarded(func() (string, string) {
		r := j5sreal.Compile(mb, pkg)
		switch r.Class {
		case "panic":
			panic(r.Panic + "\n" + trimStack(r.Stack))
		case "err":
			compileErr = r.Err
			c, d := classifyErr(r.Err, mb.Files, path)
			return c, d + "\n" + r.Err.Error()
		}
		return "ok", ""
	})
	h.Count("total." + kindClass(kind) + "." + cls)
	src := "\n--- " + path + "\n" + parts[0]
	if strings.HasPrefix(kind, "valid-") && strings.HasPrefix(cls, "err") {
		// written within the documented language: must be accepted
		h.Fail("c07-rejected:"+kind+":"+classify(compileErr.Error()), op, detail+src)
		cls = "err"
	}
	switch cls {
	case "panic":
		h.Fail("c07-panic:"+kind+":"+classify(firstLine(detail)), op, detail+src)
	case "hang":
		h.Fail("c07-hang:"+kind, op, src)
	case "err:outside":
		h.Fail("c07-position-outside:"+kindClass(kind)+":"+classify(compileErr.Error()), op, detail+src)
	case "err:nopos", "err:virtual":
		// identified by the error class alone: the same unpositioned error is reached from many inputs
		sig := noposSignature(mb, pkg, cls, compileErr)
		h.Count("total.nopos." + sig + "." + classify(compileErr.Error()))
		h.Fail(sig, op, "["+kind+"] ["+classify(compileErr.Error())+"] "+detail+src)
	}
	// lint entry points on the same input
	lc, ld := lintFile(mb, path)
	h.Count("total.lintfile." + lc)
	switch {
	case lc == "panic" || lc == "hang":
		h.Fail("c07-lint-"+lc+":"+kindClass(kind)+":"+classify(firstLine(ld)), op, ld+src)
	case strings.HasSuffix(lc, "err:outside"):
		h.Fail("c07-lint-position-outside:"+kindClass(kind), op, ld+src)
	}
	lc, ld = lintAll(mb)
	h.Count("total.lintall." + lc)
	if lc == "panic" || lc == "hang" {
		h.Fail("c07-lintall-"+lc+":"+kindClass(kind)+":"+classify(firstLine(ld)), op, ld+src)
	}
	if cls == "hang" {
		return "panic"
	}
	return cls
}

// kindClass keeps hand-written semantic classes apart and lumps the random kinds.
func kindClass(kind string) string { return kind }

var _ = errors.New
