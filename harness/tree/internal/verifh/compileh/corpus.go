//go:build verif

package main

// `compileh corpus <stream>` prints the hand-built regression ops (witnesses of repaired defects and
// other minimal cases) that live in /verif/corpus/compile.<stream>.ops and run before the seeded shards.

import (
	"fmt"

	"github.com/pentops/j5/internal/verifh/j5sgen"
)

func str(s string) *string { return &s }

func fld(kind string) *j5sgen.Field { return &j5sgen.Field{Kind: kind} }
func intf(f string) *j5sgen.Field   { return &j5sgen.Field{Kind: j5sgen.FInteger, Fmt: f} }
func keyf(f string, ek *j5sgen.EntKey) *j5sgen.Field {
	return &j5sgen.Field{Kind: j5sgen.FKey, Fmt: f, EntKey: ek}
}
func primary() *j5sgen.EntKey { return &j5sgen.EntKey{Kind: "primary", Primary: true} }
func prop(name string, f *j5sgen.Field) *j5sgen.Prop { return &j5sgen.Prop{Name: name, Field: f} }
func reqp(name string, f *j5sgen.Field) *j5sgen.Prop {
	return &j5sgen.Prop{Name: name, Req: true, Field: f}
}
func optp(name string, f *j5sgen.Field) *j5sgen.Prop {
	return &j5sgen.Prop{Name: name, Opt: true, Field: f}
}
func obj(name string, props ...*j5sgen.Prop) *j5sgen.Elem {
	return &j5sgen.Elem{Kind: j5sgen.KObject, Object: &j5sgen.Object{Name: name, Props: props}}
}
func inlObj(name string, props ...*j5sgen.Prop) *j5sgen.Field {
	return &j5sgen.Field{Kind: j5sgen.FObject, Ref: &j5sgen.TRef{Kind: j5sgen.RInlObj, Name: name, Props: props}}
}
func ref(kind, pkg, schema string) *j5sgen.Field {
	return &j5sgen.Field{Kind: kind, Ref: &j5sgen.TRef{Kind: j5sgen.RRef, Pkg: pkg, Schema: schema}}
}
func arr(f *j5sgen.Field) *j5sgen.Field { return &j5sgen.Field{Kind: j5sgen.FArray, Items: f} }
func mapf(f *j5sgen.Field) *j5sgen.Field { return &j5sgen.Field{Kind: j5sgen.FMap, Items: f} }
func enumEl(name, prefix string, opts ...string) *j5sgen.Elem {
	return &j5sgen.Elem{Kind: j5sgen.KEnum, Enum: &j5sgen.Enum{Name: name, Prefix: prefix, Opts: opts}}
}
func onePkg(name string, files ...*j5sgen.File) *j5sgen.Bundle {
	return &j5sgen.Bundle{Pkgs: []*j5sgen.Pkg{{Name: name, Files: files}}}
}
func j5sFile(path string, elems ...*j5sgen.Elem) *j5sgen.File {
	return &j5sgen.File{Path: path, Elems: elems}
}
func entityEl(e *j5sgen.Entity) *j5sgen.Elem { return &j5sgen.Elem{Kind: j5sgen.KEntity, Entity: e} }

func simpleEntity(name string) *j5sgen.Entity {
	return &j5sgen.Entity{Name: name,
		Keys:     []*j5sgen.EKey{{Prop: prop("fooId", keyf("id62", primary()))}},
		Data:     []*j5sgen.Prop{prop("name", fld(j5sgen.FString))},
		Statuses: []string{"ACTIVE", "INACTIVE"},
		Events:   []*j5sgen.Object{{Name: "Create", Props: []*j5sgen.Prop{prop("name", fld(j5sgen.FString))}}, {Name: "Archive"}},
	}
}

func compileOpLine(op string, b *j5sgen.Bundle, pkg string, extra string) string {
	if extra != "" {
		extra = " " + extra
	}
	return fmt.Sprintf("%s %s %s%s 0", op, b.Sexp().String(), j5sgen.S(pkg).String(), extra)
}

func corpusMain(stream string) {
	switch stream {
	case "skel":
		// README examples and the witnesses of repaired defects
		fmt.Println(compileOpLine("skel", onePkg("foo.v1", j5sFile("foo/v1/a.j5s",
			obj("Foo", prop("fooId", keyf("id62", nil)), reqp("name", fld(j5sgen.FString)), optp("opt", fld(j5sgen.FString)),
				prop("bar", inlObj("", prop("barId", keyf("id62", nil)))), prop("bars", arr(inlObj("Bar2", prop("x", fld(j5sgen.FBool))))),
				prop("names", arr(fld(j5sgen.FString))), prop("ages", mapf(intf("int32")))),
			enumEl("Status", "", "ACTIVE", "INACTIVE"), enumEl("WithZero", "", "UNSPECIFIED", "ACTIVE"))), "foo.v1", ""))
		// required map (089cff6)
		fmt.Println(compileOpLine("skel", onePkg("foo.v1", j5sFile("foo/v1/a.j5s", obj("Foo", reqp("m", mapf(fld(j5sgen.FString)))))), "foo.v1", ""))
		// first option merely ending in UNSPECIFIED (50e59b3), explicit zero written with the prefix
		fmt.Println(compileOpLine("skel", onePkg("foo.v1", j5sFile("foo/v1/a.j5s", enumEl("Bar", "", "X_UNSPECIFIED", "A"), enumEl("Baz", "", "BAZ_UNSPECIFIED", "A"), enumEl("Empty", ""))), "foo.v1", ""))
		// cross-file, cross-package by alias / last-but-one segment / full name, proto file in the package
		dep := &j5sgen.Pkg{Name: "baz.qux.v1", Files: []*j5sgen.File{j5sFile("baz/qux/v1/q.j5s", obj("Qux", prop("x", fld(j5sgen.FString))), enumEl("QEnum", "", "ONE"))}}
		main := &j5sgen.Pkg{Name: "foo.v1", Files: []*j5sgen.File{
			{Proto: true, Path: "foo/v1/l.proto", ProtoMsgs: []string{"Local"}},
			j5sFile("foo/v1/b.j5s", obj("Other", prop("x", fld(j5sgen.FString)))),
			{Path: "foo/v1/a.j5s", Imports: []j5sgen.Import{{Path: "baz.qux.v1"}}, Elems: []*j5sgen.Elem{
				obj("Foo", prop("a", ref(j5sgen.FObject, "qux", "Qux")), prop("b", ref(j5sgen.FEnum, "baz.qux.v1", "QEnum")),
					prop("c", ref(j5sgen.FObject, "", "Other")), prop("d", ref(j5sgen.FObject, "", "Local")), prop("self", ref(j5sgen.FObject, "", "Foo")))}},
		}}
		fmt.Println(compileOpLine("skel", &j5sgen.Bundle{Pkgs: []*j5sgen.Pkg{dep, main}}, "foo.v1", ""))
		// service with path parameters, method without response; topics
		bp := "/foo/v1"
		fmt.Println(compileOpLine("skel", onePkg("foo.v1", j5sFile("foo/v1/s.j5s",
			&j5sgen.Elem{Kind: j5sgen.KService, Service: &j5sgen.Service{Name: "Foo", BasePath: &bp, Methods: []*j5sgen.Method{
				{Name: "Bar", Verb: "get", Path: "/bar/:barId/x", Req: []*j5sgen.Prop{prop("barId", fld(j5sgen.FString))}, HasRes: true, Res: []*j5sgen.Prop{prop("name", fld(j5sgen.FString))}},
				{Name: "Post", Verb: "post", Path: "/post"}}}},
			&j5sgen.Elem{Kind: j5sgen.KTopic, Topic: &j5sgen.Topic{Name: "Pub", Kind: "publish", Msgs: []*j5sgen.TMsg{{Name: str("PostFoo"), Props: []*j5sgen.Prop{prop("fooId", keyf("id62", nil))}}}}},
			&j5sgen.Elem{Kind: j5sgen.KTopic, Topic: &j5sgen.Topic{Name: "Rr", Kind: "reqres", Reqs: []*j5sgen.TMsg{{Props: []*j5sgen.Prop{prop("a", fld(j5sgen.FString))}}}, Reps: []*j5sgen.TMsg{{}}}},
			&j5sgen.Elem{Kind: j5sgen.KTopic, Topic: &j5sgen.Topic{Name: "Up", Kind: "upsert", Msgs: []*j5sgen.TMsg{{Name: str("UpsertFoo")}}}},
		)), "foo.v1", ""))
	case "entity":
		for _, name := range []string{"Foo", "FooA", "fooID", "ACL", "ACLFooA", "orderX", "user_profile", "Plan9B"} {
			e := simpleEntity(name)
			fmt.Println(compileOpLine("entity", onePkg("foo.v1", j5sFile("foo/v1/e.j5s", entityEl(e))), "foo.v1", ""))
		}
		// status with digits + default status filter (9dcc874); shard / tenant / foreign keys; commands; summaries
		e := simpleEntity("Foo")
		e.Statuses = []string{"PENDINGB1", "DONE"}
		e.Query = &j5sgen.Query{EventsInGet: true, Filters: []string{"PENDINGB1"}}
		t := "account"
		e.Keys = append(e.Keys, &j5sgen.EKey{Prop: prop("accountId", keyf("id62", &j5sgen.EntKey{Kind: "plain", Tenant: &t})), Shard: true},
			&j5sgen.EKey{Prop: reqp("other", fld(j5sgen.FString))},
			&j5sgen.EKey{Prop: prop("fk", keyf("uuid", &j5sgen.EntKey{Kind: "foreign", FPkg: "bar.v1", FEntity: "Bar"}))})
		x := "x"
		e.Commands = []*j5sgen.Service{{Methods: []*j5sgen.Method{{Name: "DoIt", Verb: "post", Path: "/:fooId/doit", Req: []*j5sgen.Prop{prop("fooId", keyf("id62", nil))}, HasRes: true}}},
			{Name: "Extra", BasePath: &x, Methods: []*j5sgen.Method{{Name: "More", Verb: "put", Path: "/more"}}}}
		e.Summaries = []*j5sgen.Summary{{Props: []*j5sgen.Prop{prop("name", fld(j5sgen.FString))}}, {Name: "Brief", Props: []*j5sgen.Prop{prop("nm", fld(j5sgen.FString))}}}
		fmt.Println(compileOpLine("entity", onePkg("foo.v1", j5sFile("foo/v1/e.j5s", entityEl(e))), "foo.v1", ""))
		// a status written with the entity's status prefix, used as default status filter (findStatus must not
		// prefix it a second time)
		ep := simpleEntity("Foo")
		ep.Statuses = []string{"FOO_STATUS_ACTIVE", "DONE"}
		ep.Query = &j5sgen.Query{Filters: []string{"FOO_STATUS_ACTIVE", "DONE"}}
		fmt.Println(compileOpLine("entity", onePkg("foo.v1", j5sFile("foo/v1/e.j5s", entityEl(ep))), "foo.v1", ""))
		// statuses that state a number: numbered by position all the same (seeded change C17-m3)
		en := simpleEntity("Foo")
		en.Statuses = []string{"DRAFT", "ACTIVE", "DONE"}
		en.StatusNums = j5sgen.Nums{"DRAFT": 1, "ACTIVE": 5}
		fmt.Println(compileOpLine("entity", onePkg("foo.v1", j5sFile("foo/v1/e.j5s", entityEl(en))), "foo.v1", ""))
		en = simpleEntity("Foo")
		en.Statuses = []string{"ONLY"}
		en.StatusNums = j5sgen.Nums{"ONLY": 10}
		fmt.Println(compileOpLine("entity", onePkg("foo.v1", j5sFile("foo/v1/e.j5s", entityEl(en))), "foo.v1", ""))
	case "total":
		// inputs outside the language that must be rejected (b6c593a, cf01603)
		for _, nc := range negCases {
			fmt.Println(negOp(nc, 0))
		}
		// one witness per member of the link-stage family (c07-nopos:link-stage) and of the narrow
		// unpositioned load-stage errors
		members := map[string]bool{"dup-type": true, "dup-field": true, "dup-field-snake": true, "dup-enum-option": true, "dup-method": true,
			"entity-dup-event": true, "oneof-map-option": true, "name-with-dot": true, "type-named-like-subpackage": true,
			"unknown-import": true, "unused-import": true}
		for _, sc := range semCases {
			if members[sc.class] {
				fmt.Println(srcOp("sem-"+sc.class, "foo/v1/a.j5s", sc.text, &j5sgen.Bundle{}))
			}
		}
		fmt.Println(srcOp("sem-file-cycle", "foo/v1/a.j5s", cycleA+"\x00FILE foo/v1/b.j5s\x00"+cycleB, &j5sgen.Bundle{}))
	case "evolve":
		// empty enum + appended option ending in UNSPECIFIED (50e59b3)
		b := onePkg("foo.v1", j5sFile("foo/v1/a.j5s", enumEl("Bar", ""), obj("Foo", prop("a", fld(j5sgen.FString)))))
		edits := []*j5sgen.Edit{{Kind: "appendoption", FileIdx: 0, Path: []j5sgen.Step{{Kind: "el", Idx: 0}}, Option: "X_UNSPECIFIED"}}
		fmt.Println(compileOpLine("evolve", b, "foo.v1", j5sgen.EditsSexp(edits).String()))
		edits = []*j5sgen.Edit{{Kind: "appendfield", FileIdx: 0, Path: []j5sgen.Step{{Kind: "el", Idx: 1}}, Prop: prop("zzNew0", mapf(fld(j5sgen.FString)))},
			{Kind: "appenddecl", FileIdx: 0, Decl: obj("ZzNew1Object", prop("x", fld(j5sgen.FBool)))}}
		fmt.Println(compileOpLine("evolve", b, "foo.v1", j5sgen.EditsSexp(edits).String()))
		// OPEN c13-capture-append: `field foo object {…}` appended to object Foo makes Foo.Foo, which captures the
		// relative name Foo.Bar of the existing inline type: (1) the package no longer links, (2) with a twin
		// `bar` inside the new object the existing field is silently retargeted to Foo.Foo.Bar
		b = onePkg("foo.v1", j5sFile("foo/v1/a.j5s", obj("Foo", prop("bar", inlObj("", prop("x", fld(j5sgen.FString)))))))
		at0 := []j5sgen.Step{{Kind: "el", Idx: 0}}
		edits = []*j5sgen.Edit{{Kind: "appendfield", FileIdx: 0, Path: at0, Prop: prop("foo", inlObj("", prop("zzInner", fld(j5sgen.FString))))}}
		fmt.Println(compileOpLine("evolve", b, "foo.v1", j5sgen.EditsSexp(edits).String()))
		edits = []*j5sgen.Edit{{Kind: "appendfield", FileIdx: 0, Path: at0, Prop: prop("foo", inlObj("", prop("zzInner", fld(j5sgen.FString)),
			prop("bar", inlObj("", prop("zzTwin", fld(j5sgen.FBool))))))}}
		fmt.Println(compileOpLine("evolve", b, "foo.v1", j5sgen.EditsSexp(edits).String()))
		// numbers written on options are ignored: an appended option that claims a number already handed out by
		// position moves nothing (seeded changes C13-m4, C17-m3)
		b = onePkg("foo.v1", j5sFile("foo/v1/a.j5s", enumEl("Status", "", "ACTIVE", "INACTIVE"), obj("Foo", prop("a", fld(j5sgen.FString)))))
		edits = []*j5sgen.Edit{{Kind: "appendoption", FileIdx: 0, Path: at0, Option: "ARCHIVED", OptNum: 2}}
		fmt.Println(compileOpLine("evolve", b, "foo.v1", j5sgen.EditsSexp(edits).String()))
		edits = []*j5sgen.Edit{{Kind: "appendoption", FileIdx: 0, Path: at0, Option: "A"}, {Kind: "appendoption", FileIdx: 0, Path: at0, Option: "B"},
			{Kind: "appendoption", FileIdx: 0, Path: at0, Option: "LEGACY", OptNum: 1}}
		fmt.Println(compileOpLine("evolve", b, "foo.v1", j5sgen.EditsSexp(edits).String()))
		// a primary key appended to a hand-written KEYS object after a non-primary key keeps the order (C13-m3)
		keys := obj("WidgetKeys", prop("widgetId", keyf("id62", primary())), prop("tenantId", keyf("id62", nil)))
		keys.Object.PSM = &j5sgen.ObjPSM{Entity: "Widget", Part: "keys"}
		b = onePkg("foo.v1", j5sFile("foo/v1/a.j5s", keys))
		edits = []*j5sgen.Edit{{Kind: "appendfield", FileIdx: 0, Path: at0, Prop: prop("revision", keyf("id62", primary()))}}
		fmt.Println(compileOpLine("evolve", b, "foo.v1", j5sgen.EditsSexp(edits).String()))
	}
}
