//go:build verif

package main

import (
	"github.com/pentops/j5/internal/verifh/j5sgen"
	"github.com/pentops/j5/internal/verifh/vh"
)

func genDet(h *vh.H, i int) string     { return "" }
func genStrcase(h *vh.H, i int) string { return "" }

func execDet(h *vh.H, op string, args []*j5sgen.Node) string       { return "bad-op" }
func execStrcase(h *vh.H, op string, args []*j5sgen.Node) string   { return "bad-op" }
func childMain(args []string) {}
