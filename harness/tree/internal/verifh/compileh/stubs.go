//go:build verif

package main

import (
	"github.com/pentops/j5/internal/verifh/j5sgen"
	"github.com/pentops/j5/internal/verifh/j5sreal"
	"github.com/pentops/j5/internal/verifh/vh"
)

func genEvolve(h *vh.H, i int) string  { return "" }
func genTotal(h *vh.H, i int) string   { return "" }
func genDet(h *vh.H, i int) string     { return "" }
func genStrcase(h *vh.H, i int) string { return "" }

func execEvolve(h *vh.H, op string, co *compileOp) string          { return "bad-op" }
func execTotalAst(h *vh.H, op string, co *compileOp) string        { return "bad-op" }
func execTotalSrc(h *vh.H, op string, args []*j5sgen.Node) string  { return "bad-op" }
func execDet(h *vh.H, op string, args []*j5sgen.Node) string       { return "bad-op" }
func execStrcase(h *vh.H, op string, args []*j5sgen.Node) string   { return "bad-op" }
func oracleC02(h *vh.H, op, name string, co *compileOp, sk []*j5sreal.SFile) {}
func oracleC17(h *vh.H, op string, co *compileOp, sk []*j5sreal.SFile, res j5sreal.Result) {}
func childMain(args []string) {}
