//go:build verif

package main

import (
	"fmt"
	"sort"
	"strings"

	"github.com/pentops/j5/internal/verifh/j5sgen"
	"github.com/pentops/j5/internal/verifh/j5sreal"
	"github.com/pentops/j5/internal/verifh/vh"
)

type diff struct {
	sig    string
	detail string
}

type differ struct {
	prefix string
	diffs  []diff
	local  map[string]bool // output files of the bundle (for the import checks)
}

func (d *differ) add(sig, f string, a ...any) {
	d.diffs = append(d.diffs, diff{d.prefix + "-" + sig, fmt.Sprintf(f, a...)})
}

func (d *differ) files(exp []*expFile, act []*j5sreal.SFile) {
	am := map[string]*j5sreal.SFile{}
	for _, a := range act {
		am[a.Name] = a
	}
	em := map[string]bool{}
	for _, e := range exp {
		em[e.Name] = true
		a, ok := am[e.Name]
		if !ok {
			d.add("file-missing", "expected output file %s", e.Name)
			continue
		}
		if a.Package != e.Package {
			d.add("file-package", "%s: package %s, want %s", e.Name, a.Package, e.Package)
		}
		d.deps(e, a)
		d.msgs(e.Name, e.Msgs, a.Msgs)
		d.enums(e.Name, e.Enums, a.Enums)
		d.svcs(e.Name, e.Svcs, a.Svcs)
	}
	for _, a := range act {
		if !em[a.Name] {
			d.add("file-extra", "unexpected output file %s", a.Name)
		}
	}
}

func (d *differ) deps(e *expFile, a *j5sreal.SFile) {
	if !sort.StringsAreSorted(a.Deps) {
		d.add("dep-unsorted", "%s: %v", a.Name, a.Deps)
	}
	have := map[string]bool{}
	for _, dep := range a.Deps {
		if have[dep] {
			d.add("dep-duplicate", "%s: %s", a.Name, dep)
		}
		have[dep] = true
	}
	for need := range e.needs {
		if !have[need] {
			d.add("dep-missing", "%s references a type of %s but does not import it (deps %v)", a.Name, need, a.Deps)
		}
	}
	for _, dep := range a.Deps {
		if d.local[dep] && !e.needs[dep] {
			d.add("dep-extra", "%s imports %s without referencing any of its types", a.Name, dep)
		}
	}
}

func (d *differ) msgs(where string, exp, act []*j5sreal.SMsg) {
	am := map[string]*j5sreal.SMsg{}
	for _, a := range act {
		if _, dup := am[a.Name]; dup {
			d.add("msg-duplicate", "%s: message %s twice", where, a.Name)
		}
		am[a.Name] = a
	}
	em := map[string]bool{}
	for _, e := range exp {
		em[e.Name] = true
		a, ok := am[e.Name]
		if !ok {
			d.add("msg-missing", "%s: expected message %s (have %s)", where, e.Full, names(act))
			continue
		}
		d.msg(e, a)
	}
	for _, a := range act {
		if !em[a.Name] {
			d.add("msg-extra", "%s: undeclared message %s", where, a.Full)
		}
	}
}

func names(ms []*j5sreal.SMsg) string {
	var n []string
	for _, m := range ms {
		n = append(n, m.Name)
	}
	return strings.Join(n, ",")
}

func (d *differ) msg(e, a *j5sreal.SMsg) {
	if a.Kind != e.Kind {
		d.add("msg-kind", "%s: kind %s, want %s", e.Full, a.Kind, e.Kind)
	}
	if a.PSM != e.PSM {
		d.add("msg-psm", "%s: annotation %s, want %s", e.Full, a.PSM, e.PSM)
	}
	if strings.Join(a.Oneofs, ",") != strings.Join(e.Oneofs, ",") {
		d.add("msg-oneofs", "%s: oneofs %v, want %v", e.Full, a.Oneofs, e.Oneofs)
	}
	if len(a.Fields) != len(e.Fields) {
		d.add("field-count", "%s: %d fields, want %d", e.Full, len(a.Fields), len(e.Fields))
	}
	for i := 0; i < len(e.Fields) && i < len(a.Fields); i++ {
		d.field(e.Full, e.Kind == "mapentry", e.Fields[i], a.Fields[i])
	}
	d.msgs(e.Full, e.Msgs, a.Msgs)
	d.enums(e.Full, e.Enums, a.Enums)
}

func (d *differ) field(where string, entry bool, e, a *j5sreal.SField) {
	w := where + "." + e.Name
	if a.Name != e.Name {
		d.add("field-name", "%s: name %q, want %q (declared %q)", w, a.Name, e.Name, e.JSON)
	}
	if a.JSON != e.JSON {
		d.add("field-json", "%s: json name %q, want %q", w, a.JSON, e.JSON)
	}
	if a.Number != e.Number {
		d.add("field-number", "%s: number %d, want %d", w, a.Number, e.Number)
	}
	if a.Type != e.Type {
		d.add("field-type", "%s: type %s, want %s", w, a.Type, e.Type)
	}
	if a.Label != e.Label {
		d.add("field-label", "%s: label %s, want %s", w, a.Label, e.Label)
	}
	if a.P3Opt != e.P3Opt {
		d.add("field-optional", "%s: proto3_optional %v, want %v", w, a.P3Opt, e.P3Opt)
	}
	if a.TypeName != e.TypeName {
		d.add("field-typename", "%s: type name %s, want %s", w, a.TypeName, e.TypeName)
	}
	if a.Oneof != e.Oneof {
		d.add("field-oneof", "%s: oneof index %s, want %s", w, a.Oneof, e.Oneof)
	}
	if !entry && a.Req != e.Req {
		d.add("field-required", "%s: required %v, want %v", w, a.Req, e.Req)
	}
	// EXT (the j5 annotation) is part of the skeleton for the model correspondence but not of
	// the property statement; only the documented flatten flag is checked here.
	if strings.HasSuffix(e.Ext, "+flatten") != strings.HasSuffix(a.Ext, "+flatten") {
		d.add("field-flatten", "%s: ext %s, want %s", w, a.Ext, e.Ext)
	}
}

func (d *differ) enums(where string, exp, act []*j5sreal.SEnum) {
	am := map[string]*j5sreal.SEnum{}
	for _, a := range act {
		am[a.Name] = a
	}
	em := map[string]bool{}
	for _, e := range exp {
		em[e.Name] = true
		a, ok := am[e.Name]
		if !ok {
			d.add("enum-missing", "%s: expected enum %s", where, e.Full)
			continue
		}
		if a.String() != e.String() {
			d.add("enum-values", "%s: %s, want %s", e.Full, a.String(), e.String())
		}
	}
	for _, a := range act {
		if !em[a.Name] {
			d.add("enum-extra", "%s: undeclared enum %s", where, a.Full)
		}
	}
}

func (d *differ) svcs(where string, exp, act []*j5sreal.SSvc) {
	am := map[string]*j5sreal.SSvc{}
	for _, a := range act {
		am[a.Name] = a
	}
	em := map[string]bool{}
	for _, e := range exp {
		em[e.Name] = true
		a, ok := am[e.Name]
		if !ok {
			d.add("svc-missing", "%s: expected service %s", where, e.Name)
			continue
		}
		if a.Opt != e.Opt {
			d.add("svc-annotation", "%s: %s, want %s", e.Name, a.Opt, e.Opt)
		}
		if len(a.Methods) != len(e.Methods) {
			d.add("svc-method-count", "%s: %d methods, want %d", e.Name, len(a.Methods), len(e.Methods))
		}
		for i := 0; i < len(e.Methods) && i < len(a.Methods); i++ {
			em, amth := e.Methods[i], a.Methods[i]
			w := e.Name + "." + em.Name
			if amth.Name != em.Name {
				d.add("method-name", "%s: %s", w, amth.Name)
			}
			if amth.Input != em.Input {
				d.add("method-input", "%s: input %s, want %s", w, amth.Input, em.Input)
			}
			if amth.Output != em.Output {
				d.add("method-output", "%s: output %s, want %s", w, amth.Output, em.Output)
			}
			if amth.HTTP != em.HTTP {
				d.add("method-http", "%s: http %s, want %s", w, amth.HTTP, em.HTTP)
			}
			if amth.Opt != em.Opt {
				d.add("method-annotation", "%s: %s, want %s", w, amth.Opt, em.Opt)
			}
		}
	}
	for _, a := range act {
		if !em[a.Name] {
			d.add("svc-extra", "%s: undeclared service %s", where, a.Name)
		}
	}
}

// oracleC02: the compiled package equals the independent expectation.
func oracleC02(h *vh.H, op, name string, co *compileOp, sk []*j5sreal.SFile) {
	ex := expectedBundle(co.b)
	for _, n := range ex.notes {
		// the generator produced something the expectation cannot resolve: a harness bug, make it loud
		h.Fail("harness-expectation:"+classify(n), op, n)
	}
	d := &differ{prefix: "c02", local: map[string]bool{}}
	for _, fs := range ex.out {
		for _, f := range fs {
			d.local[f.Name] = true
		}
	}
	for _, p := range co.b.Pkgs {
		for _, f := range p.Files {
			if f.Proto {
				d.local[f.Path] = true
			}
		}
	}
	d.files(ex.out[co.pkg], sk)
	seen := map[string]bool{}
	for _, df := range d.diffs {
		if seen[df.sig] {
			continue
		}
		seen[df.sig] = true
		h.Fail(df.sig, op, df.detail+"\n"+dumpSources(j5sreal.FromAST(onlyPkg(co), co.style)))
	}
	if len(d.diffs) == 0 {
		h.Count(name + ".oracle-ok")
	}
}

func onlyPkg(co *compileOp) *j5sgen.Bundle {
	return &j5sgen.Bundle{Pkgs: []*j5sgen.Pkg{co.b.Pkg(co.pkg)}}
}
