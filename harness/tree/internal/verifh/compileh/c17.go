//go:build verif

package main

// Property C17 oracle, straight from the statement, evaluated on the real compiler's output:
// component list, names, annotation, State/Event shape, event oneof, primary keys required and in
// declaration order as Get/Events path parameters, status numbering — plus the client-API
// StateEntity derived from the descriptors (structure.APIFromImage + j5client.APIFromSource).

import (
	"fmt"
	"regexp"
	"strings"

	"github.com/iancoleman/strcase"
	"github.com/pentops/j5/gen/j5/client/v1/client_j5pb"
	"github.com/pentops/j5/gen/j5/source/v1/source_j5pb"
	"github.com/pentops/j5/internal/j5client"
	"github.com/pentops/j5/internal/structure"
	"github.com/pentops/j5/internal/verifh/j5sgen"
	"github.com/pentops/j5/internal/verifh/j5sreal"
	"github.com/pentops/j5/internal/verifh/vh"
	"google.golang.org/protobuf/reflect/protodesc"
	"google.golang.org/protobuf/reflect/protoreflect"
	"google.golang.org/protobuf/types/descriptorpb"
)

var pathParam = regexp.MustCompile(`\{([^}]*)\}`)

type c17 struct {
	h     *vh.H
	op    string
	fails map[string]string
}

func (c *c17) fail(sig, f string, a ...any) {
	if _, ok := c.fails[sig]; !ok {
		c.fails[sig] = fmt.Sprintf(f, a...)
	}
}

func findMsg(files []*j5sreal.SFile, pkg, name string) *j5sreal.SMsg {
	for _, f := range files {
		if f.Package != pkg {
			continue
		}
		for _, m := range f.Msgs {
			if m.Name == name {
				return m
			}
		}
	}
	return nil
}

func findSvc(files []*j5sreal.SFile, pkg, name string) *j5sreal.SSvc {
	for _, f := range files {
		if f.Package != pkg {
			continue
		}
		for _, s := range f.Svcs {
			if s.Name == name {
				return s
			}
		}
	}
	return nil
}

func findEnum(files []*j5sreal.SFile, pkg, name string) *j5sreal.SEnum {
	for _, f := range files {
		if f.Package != pkg {
			continue
		}
		for _, e := range f.Enums {
			if e.Name == name {
				return e
			}
		}
	}
	return nil
}

func fieldNames(m *j5sreal.SMsg) string {
	var n []string
	for _, f := range m.Fields {
		n = append(n, f.Name)
	}
	return strings.Join(n, ",")
}

func oracleC17(h *vh.H, op string, co *compileOp, sk []*j5sreal.SFile, res j5sreal.Result) {
	c := &c17{h: h, op: op, fails: map[string]string{}}
	pkg := co.b.Pkg(co.pkg)
	n := 0
	var ents []*j5sgen.Entity
	for _, f := range pkg.Files {
		for _, e := range f.Elems {
			if e.Kind == j5sgen.KEntity {
				c.entity(pkg.Name, e.Entity, sk)
				ents = append(ents, e.Entity)
				n++
			}
		}
	}
	if n > 0 {
		c.client(pkg.Name, ents, res)
		h.CountN("entity.checked", n)
	}
	for sig, detail := range c.fails {
		h.Fail(sig, op, detail+"\n"+dumpSources(j5sreal.FromAST(onlyPkg(co), co.style)))
	}
	if len(c.fails) == 0 && n > 0 {
		h.Count("entity.c17-ok")
	}
}

func (c *c17) entity(pkg string, e *j5sgen.Entity, sk []*j5sreal.SFile) {
	C := strcase.ToCamel(e.Name)
	s := strcase.ToSnake(e.Name)
	c.h.Count("entity.keys." + fmt.Sprint(len(e.Keys)))
	c.h.Count("entity.events." + fmt.Sprint(len(e.Events)))

	// 1. components
	get := func(name string) *j5sreal.SMsg {
		m := findMsg(sk, pkg, name)
		if m == nil {
			c.fail("c17-component-missing:"+strings.TrimPrefix(name, C), "entity %s: no schema %s.%s", e.Name, pkg, name)
		}
		return m
	}
	keys, data, state, evType, event := get(C+"Keys"), get(C+"Data"), get(C+"State"), get(C+"EventType"), get(C+"Event")
	status := findEnum(sk, pkg, C+"Status")
	if status == nil {
		c.fail("c17-component-missing:Status", "entity %s: no enum %sStatus", e.Name, C)
	}
	query := findSvc(sk, pkg+".service", C+"QueryService")
	if query == nil {
		c.fail("c17-component-missing:QueryService", "entity %s: no service %sQueryService in %s.service", e.Name, C, pkg)
	}
	// the publish topic and the summary topics are found by their annotation; their names must be
	// built on the same CamelCase(entity) prefix as every other component
	var publish *j5sreal.SSvc
	var summaries []*j5sreal.SSvc
	for _, f := range sk {
		if f.Package != pkg+".topic" {
			continue
		}
		for _, sv := range f.Svcs {
			if strings.HasSuffix(sv.Opt, ":event:"+pkg+"."+C) {
				publish = sv
			}
			if strings.HasSuffix(sv.Opt, ":upsert:"+pkg+"."+C) {
				summaries = append(summaries, sv)
			}
		}
	}
	if publish == nil {
		c.fail("c17-component-missing:PublishTopic", "entity %s: no publish topic for %s.%s in %s.topic", e.Name, pkg, C, pkg)
	} else if !strings.HasPrefix(publish.Name, C) || !strings.HasSuffix(publish.Name, "Topic") {
		c.fail("c17-name-prefix:PublishTopic", "entity %s: publish topic is named %s, the other components %s…", e.Name, publish.Name, C)
	}
	if len(summaries) != len(e.Summaries) {
		c.fail("c17-component-missing:SummaryTopic", "entity %s: %d upsert topics for %d summaries", e.Name, len(summaries), len(e.Summaries))
	}
	for _, sv := range summaries {
		if !strings.HasPrefix(sv.Name, C) || !strings.HasSuffix(sv.Name, "Topic") {
			c.fail("c17-name-prefix:SummaryTopic", "entity %s: summary topic is named %s, the other components %s…", e.Name, sv.Name, C)
		}
	}

	// 2. the same entity annotation everywhere
	for part, m := range map[string]*j5sreal.SMsg{"keys": keys, "data": data, "state": state, "event": event} {
		if m != nil && m.PSM != s+":"+part {
			c.fail("c17-annotation:"+part, "entity %s: %s carries %q, want %q", e.Name, m.Name, m.PSM, s+":"+part)
		}
	}
	if query != nil && query.Opt != "query:"+s {
		c.fail("c17-annotation:query", "entity %s: query service carries %q", e.Name, query.Opt)
	}

	// commands and summaries
	for i, cmd := range e.Commands {
		name := C + "Command"
		if cmd.Name != "" {
			name = cmd.Name
			if !strings.HasSuffix(name, "Command") {
				name += "Command"
			}
		}
		sv := findSvc(sk, pkg+".service", name+"Service")
		if sv == nil {
			c.fail("c17-component-missing:CommandService", "entity %s: command %d: no service %sService", e.Name, i, name)
			continue
		}
		if sv.Opt != "command:"+s {
			c.fail("c17-annotation:command", "entity %s: %s carries %q", e.Name, sv.Name, sv.Opt)
		}
		if len(sv.Methods) != len(cmd.Methods) {
			c.fail("c17-command-methods", "entity %s: %s has %d methods, declared %d", e.Name, sv.Name, len(sv.Methods), len(cmd.Methods))
		}
	}
	// 3. State and Event hold metadata plus the flattened keys (and data/status, or the event oneof)
	shape := func(m *j5sreal.SMsg, want []string, sig string) {
		if m == nil {
			return
		}
		if fieldNames(m) != strings.Join(want, ",") {
			c.fail(sig, "entity %s: %s fields [%s], want %v", e.Name, m.Name, fieldNames(m), want)
			return
		}
		kf := m.Fields[1]
		if kf.TypeName != "."+pkg+"."+C+"Keys" || !strings.HasSuffix(kf.Ext, "+flatten") {
			c.fail(sig, "entity %s: %s.keys is %s ext %s, want flattened %sKeys", e.Name, m.Name, kf.TypeName, kf.Ext, C)
		}
		if !strings.HasSuffix(m.Fields[0].TypeName, "Metadata") {
			c.fail(sig, "entity %s: %s.metadata is %s", e.Name, m.Name, m.Fields[0].TypeName)
		}
	}
	shape(state, []string{"metadata", "keys", "data", "status"}, "c17-state-shape")
	shape(event, []string{"metadata", "keys", "event"}, "c17-event-shape")
	if state != nil && len(state.Fields) == 4 {
		if state.Fields[2].TypeName != "."+pkg+"."+C+"Data" || state.Fields[3].TypeName != "."+pkg+"."+C+"Status" {
			c.fail("c17-state-shape", "entity %s: State data/status types %s %s", e.Name, state.Fields[2].TypeName, state.Fields[3].TypeName)
		}
	}
	if event != nil && len(event.Fields) == 3 && event.Fields[2].TypeName != "."+pkg+"."+C+"EventType" {
		c.fail("c17-event-shape", "entity %s: Event.event type %s", e.Name, event.Fields[2].TypeName)
	}

	// 4. the event oneof: exactly one option per declared event, pointing at a nested message of that name
	if evType != nil {
		if evType.Kind != "oneof" {
			c.fail("c17-event-oneof", "entity %s: %s is %s, want oneof", e.Name, evType.Name, evType.Kind)
		}
		if len(evType.Fields) != len(e.Events) || len(evType.Msgs) != len(e.Events) {
			c.fail("c17-event-oneof", "entity %s: %d options / %d nested messages for %d events", e.Name, len(evType.Fields), len(evType.Msgs), len(e.Events))
		} else {
			for i, ev := range e.Events {
				f := evType.Fields[i]
				if f.TypeName != "."+pkg+"."+C+"EventType."+ev.Name || f.Oneof != "0" || f.Number != int32(i+1) {
					c.fail("c17-event-oneof", "entity %s: option %d is %s=%d → %s (oneof %s), want → %sEventType.%s", e.Name, i, f.Name, f.Number, f.TypeName, f.Oneof, C, ev.Name)
				}
				if evType.Msgs[i].Name != ev.Name {
					c.fail("c17-event-oneof", "entity %s: nested message %d is %s, want %s", e.Name, i, evType.Msgs[i].Name, ev.Name)
				}
			}
		}
	}

	// 5. primary keys: required, and in declaration order as path parameters of Get and Events
	var primaries []string
	for _, k := range e.Keys {
		f := k.Prop.Field
		if f.Kind == j5sgen.FKey && f.EntKey != nil && f.EntKey.Kind == "primary" && f.EntKey.Primary {
			primaries = append(primaries, strcase.ToSnake(k.Prop.Name))
		}
	}
	c.h.Count("entity.primaries." + fmt.Sprint(len(primaries)))
	if keys != nil {
		if len(keys.Fields) != len(e.Keys) {
			c.fail("c17-keys-shape", "entity %s: Keys has %d fields for %d keys", e.Name, len(keys.Fields), len(e.Keys))
		}
		isPrimary := map[string]bool{}
		for _, p := range primaries {
			isPrimary[p] = true
		}
		for _, f := range keys.Fields {
			if isPrimary[f.Name] && !f.Req {
				c.fail("c17-primary-required", "entity %s: primary key %s is not required", e.Name, f.Name)
			}
		}
	}
	if query != nil {
		want := []string{C + "Get", C + "List", C + "Events"}
		var have []string
		for _, m := range query.Methods {
			have = append(have, m.Name)
		}
		if strings.Join(have, ",") != strings.Join(want, ",") {
			c.fail("c17-query-methods", "entity %s: query methods %v, want %v", e.Name, have, want)
		} else {
			for _, mi := range []int{0, 2} {
				m := query.Methods[mi]
				var params []string
				isP := map[string]bool{}
				for _, p := range primaries {
					isP[p] = true
				}
				for _, pm := range pathParam.FindAllStringSubmatch(m.HTTP, -1) {
					if isP[pm[1]] {
						params = append(params, pm[1])
					}
				}
				if strings.Join(params, ",") != strings.Join(primaries, ",") {
					c.fail("c17-primary-path", "entity %s: %s path %s has primary-key parameters %v, want %v", e.Name, m.Name, m.HTTP, params, primaries)
				}
				if !strings.HasPrefix(m.HTTP, "get:") {
					c.fail("c17-query-methods", "entity %s: %s is %s", e.Name, m.Name, m.HTTP)
				}
			}
			if !strings.HasSuffix(strings.Split(query.Methods[2].HTTP, ":")[1], "/events") {
				c.fail("c17-query-methods", "entity %s: Events path %s", e.Name, query.Methods[2].HTTP)
			}
			for i, o := range []string{"get", "list", "events"} {
				if query.Methods[i].Opt != o {
					c.fail("c17-annotation:query-method", "entity %s: %s carries %q", e.Name, query.Methods[i].Name, query.Methods[i].Opt)
				}
			}
		}
	}

	// 6. statuses numbered in declaration order after UNSPECIFIED
	if status != nil {
		pfx := strcase.ToScreamingSnake(e.Name) + "_STATUS_"
		ok := len(status.Values) == len(e.Statuses)+1 && status.Values[0].Number == 0 && status.Values[0].Name == pfx+"UNSPECIFIED"
		if ok {
			for i, st := range e.Statuses {
				v := status.Values[i+1]
				want := pfx + st
				if strings.HasPrefix(st, pfx) {
					want = st // enumBuilder.addValue keeps a name that already carries the prefix
				}
				if v.Number != int32(i+1) || v.Name != want {
					ok = false
				}
			}
		}
		if !ok {
			c.fail("c17-status-numbering", "entity %s: %s, declared %v", e.Name, status.String(), e.Statuses)
		}
	}
}

// allFiles collects the compiled files and everything they import.
func allFiles(res j5sreal.Result) []*descriptorpb.FileDescriptorProto {
	seen := map[string]bool{}
	var out []*descriptorpb.FileDescriptorProto
	var walk func(fd protoreflect.FileDescriptor)
	walk = func(fd protoreflect.FileDescriptor) {
		if seen[fd.Path()] {
			return
		}
		seen[fd.Path()] = true
		imps := fd.Imports()
		for i := 0; i < imps.Len(); i++ {
			walk(imps.Get(i).FileDescriptor)
		}
		out = append(out, protodesc.ToFileDescriptorProto(fd))
	}
	for _, f := range res.Files {
		walk(f)
	}
	return out
}

func (c *c17) client(pkg string, ents []*j5sgen.Entity, res j5sreal.Result) {
	var api *client_j5pb.API
	var err error
	func() {
		defer func() {
			if r := recover(); r != nil {
				err = fmt.Errorf("panic: %v", r)
			}
		}()
		img := &source_j5pb.SourceImage{File: allFiles(res), Packages: []*source_j5pb.PackageInfo{{Name: pkg}}}
		var src *source_j5pb.API
		src, err = structure.APIFromImage(img)
		if err != nil {
			return
		}
		api, err = j5client.APIFromSource(src)
	}()
	if err != nil {
		c.h.Count("entity.client-err")
		// an entity without events compiles to an EventType oneof without members, which protodesc refuses when
		// the image is read back: identified by the input class, not by the third-party message
		sig := "c17-client-api:" + classify(err.Error())
		for _, e := range ents {
			if len(e.Events) == 0 {
				sig = "c17-client-api:entity-without-events"
			}
		}
		c.fail(sig, "client API not derivable from the compiled entity package: %v", err)
		return
	}
	c.h.Count("entity.client-ok")
	var cp *client_j5pb.Package
	for _, p := range api.Packages {
		if p.Name == pkg {
			cp = p
		}
	}
	if cp == nil {
		c.fail("c17-client-package", "client API has no package %s", pkg)
		return
	}
	for _, e := range ents {
		s := strcase.ToSnake(e.Name)
		var se *client_j5pb.StateEntity
		for _, x := range cp.StateEntities {
			if x.Name == s {
				se = x
			}
		}
		if se == nil {
			c.fail("c17-client-entity-missing", "client API package %s has no state entity %q", pkg, s)
			continue
		}
		if se.QueryService == nil || len(se.QueryService.Methods) != 3 {
			c.fail("c17-client-query", "state entity %q: query service %v", s, se.QueryService)
		}
		if len(se.CommandServices) != len(e.Commands) {
			c.fail("c17-client-commands", "state entity %q: %d command services, declared %d", s, len(se.CommandServices), len(e.Commands))
		}
		if len(se.Events) != len(e.Events) {
			c.fail("c17-client-events", "state entity %q: %d events, declared %d", s, len(se.Events), len(e.Events))
		}
		var primaries []string
		for _, k := range e.Keys {
			f := k.Prop.Field
			if f.Kind == j5sgen.FKey && f.EntKey != nil && f.EntKey.Kind == "primary" && f.EntKey.Primary {
				primaries = append(primaries, k.Prop.Name)
			}
		}
		if strings.Join(se.PrimaryKey, ",") != strings.Join(primaries, ",") {
			c.fail("c17-client-primary", "state entity %q: primary key %v, declared %v", s, se.PrimaryKey, primaries)
		}
	}
}
