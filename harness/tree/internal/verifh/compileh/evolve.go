//go:build verif

package main

import (
	"fmt"
	"strings"

	"github.com/pentops/j5/internal/verifh/j5sgen"
	"github.com/pentops/j5/internal/verifh/j5sreal"
	"github.com/iancoleman/strcase"
	"github.com/pentops/j5/internal/verifh/vh"
)

func genEvolve(h *vh.H, i int) string {
	cfg := cfgFor(h, "skel")
	cfg.ListMethods = false // an appended array would break the list shape of such a response: not an append-safe container
	cfg.MaxPkgs = 2
	g := j5sgen.New(h.Rng, cfg)
	b := g.Bundle()
	pkg := b.Pkgs[len(b.Pkgs)-1]
	conts := j5sgen.Containers(pkg)
	nEdits := 1
	if h.Chance(1, 3) {
		nEdits = 2 + h.Rng.IntN(3)
	}
	var edits []*j5sgen.Edit
	// edit class `aliasShadow` (seeded change C13-m8): P refers to a type of another package through an import alias
	// that is spelled like a type name; the edit appends a top-level declaration of that very name
	if h.Chance(1, 6) {
		if ed := aliasShadow(h, b, pkg); ed != nil {
			edits = append(edits, ed)
			nEdits--
		}
	}
	for k := 0; k < nEdits; k++ {
		// prefer user-declared containers (the property's quantifier); entity parts are extra
		var c *j5sgen.Container
		if len(conts) > 0 && !h.Chance(1, 5) {
			for try := 0; try < 8; try++ {
				cand := conts[h.Rng.IntN(len(conts))]
				if cand.User || h.Chance(1, 4) {
					c = &cand
					break
				}
			}
		}
		if c == nil {
			// append a declaration at the end of a j5s file
			var idxs []int
			for fi, f := range pkg.Files {
				if !f.Proto {
					idxs = append(idxs, fi)
				}
			}
			edits = append(edits, &j5sgen.Edit{Kind: "appenddecl", FileIdx: vh.Pick(h, idxs), Decl: g.FreshDecl(i*10 + k)})
			continue
		}
		switch c.Kind {
		case "fields", "oneof":
			pr := g.FreshProp(c.Kind == "oneof", k)
			if cp := captureAppend(h, pkg, c); cp != nil && h.Chance(1, 4) {
				pr = cp
			}
			if c.Keys && h.Chance(1, 2) {
				// a further primary key appended to a hand-written KEYS object (after its non-primary keys)
				pr = &j5sgen.Prop{Name: fmt.Sprintf("zzPrimary%d", k), Field: &j5sgen.Field{Kind: j5sgen.FKey, Fmt: vh.Pick(h, []string{"none", "uuid", "id62"}),
					EntKey: &j5sgen.EntKey{Kind: "primary", Primary: true}}}
			}
			edits = append(edits, &j5sgen.Edit{Kind: "appendfield", FileIdx: c.FileIdx, Path: c.Path, Prop: pr})
		case "enum":
			opt := fmt.Sprintf("ZZ_NEW%d", k)
			if h.Chance(1, 6) {
				opt = fmt.Sprintf("ZZ%d_UNSPECIFIED", k) // appended to an empty enum this used to replace the implicit zero value
			}
			ed := &j5sgen.Edit{Kind: "appendoption", FileIdx: c.FileIdx, Path: c.Path, Option: opt}
			if !strings.HasSuffix(opt, "UNSPECIFIED") && h.Chance(1, 3) {
				// the new option states a number: one already handed out by position, the next one, or one far off
				ed.OptNum = vh.Pick(h, []int32{1, 1, 2, 2, 3, 4, 6, 30})
			}
			edits = append(edits, ed)
		}
	}
	style := uint64(0)
	if h.Chance(1, 2) {
		style = 1 + h.Rng.Uint64N(1<<30)
	}
	return fmt.Sprintf("evolve %s %s %s %d", b.Sexp().String(), j5sgen.S(pkg.Name).String(), j5sgen.EditsSexp(edits).String(), style)
}

// aliasShadow adds to P (package pkg of b, in place): `import <other>:<Alias>` with a capitalised alias and an object
// `ZzVia<Alias>` with a field `thing` = object `<Alias>.<T>`, T a top-level object (or proto message) of another package
// of the bundle. It returns the append edit `object <Alias> { …; object T { … } }` at the end of the same
// file: a root object spelled like the alias, with a nested object spelled like the referenced type. The
// field keeps pointing at the imported type (`expand` looks the alias up in the import map; local names are only
// consulted for an empty / own package part). nil when the bundle has no second package with a usable type.
func aliasShadow(h *vh.H, b *j5sgen.Bundle, pkg *j5sgen.Pkg) *j5sgen.Edit {
	if len(b.Pkgs) < 2 {
		return nil
	}
	type tgt struct{ pkg, name, kind string }
	var tgts []tgt
	for _, o := range b.Pkgs[:len(b.Pkgs)-1] {
		if o.Name == pkg.Name {
			continue
		}
		for _, f := range o.Files {
			if f.Proto {
				for _, m := range f.ProtoMsgs {
					tgts = append(tgts, tgt{o.Name, m, j5sgen.FObject})
				}
				continue
			}
			if f.DeclPkg != "" && f.DeclPkg != o.Name {
				continue
			}
			for _, e := range f.Elems {
				if e.Kind == j5sgen.KObject {
					tgts = append(tgts, tgt{o.Name, e.Object.Name, j5sgen.FObject})
				}
			}
		}
	}
	var idxs []int
	for fi, f := range pkg.Files {
		if !f.Proto {
			idxs = append(idxs, fi)
		}
	}
	if len(tgts) == 0 || len(idxs) == 0 {
		return nil
	}
	t := vh.Pick(h, tgts)
	fi := vh.Pick(h, idxs)
	f := pkg.Files[fi]
	alias := vh.Pick(h, []string{"ZzShared", "ZzCommon", "ZzTypes", "ZzExt"})
	for _, im := range f.Imports {
		if im.Alias == alias {
			return nil
		}
	}
	f.Imports = append(f.Imports, j5sgen.Import{Path: t.pkg, Alias: alias})
	f.Elems = append(f.Elems, &j5sgen.Elem{Kind: j5sgen.KObject, Object: &j5sgen.Object{Name: "ZzVia" + alias, Props: []*j5sgen.Prop{
		{Name: "zzId", Field: &j5sgen.Field{Kind: j5sgen.FString}},
		{Name: "thing", Field: &j5sgen.Field{Kind: t.kind, Ref: &j5sgen.TRef{Kind: j5sgen.RRef, Pkg: alias, Schema: t.name}}},
	}}})
	// (the j5s grammar nests objects in objects only)
	nested := &j5sgen.Elem{Kind: j5sgen.KObject, Object: &j5sgen.Object{Name: t.name, Props: []*j5sgen.Prop{
		{Name: "zzLabel", Field: &j5sgen.Field{Kind: j5sgen.FString}}}}}
	decl := &j5sgen.Elem{Kind: j5sgen.KObject, Object: &j5sgen.Object{Name: alias, Nested: []*j5sgen.Elem{nested},
		Props: []*j5sgen.Prop{{Name: "zzName", Field: &j5sgen.Field{Kind: j5sgen.FString}}}}}
	h.Count("evolve.alias-shadow")
	return &j5sgen.Edit{Kind: "appenddecl", FileIdx: fi, Decl: decl}
}

// captureAppend: a field appended to the top-level object Foo whose inline type takes the default name Foo
// (`field foo object { … }` gives the nested message Foo.Foo). Inside Foo, the relative names by which the other
// inline types of Foo are referred to (Foo.Bar) then start at the nested Foo. Half of the time the new inline
// object repeats an inline-typed field of Foo, so that Foo.Foo.Bar exists as well. nil when c is not such an object.
func captureAppend(h *vh.H, pkg *j5sgen.Pkg, c *j5sgen.Container) *j5sgen.Prop {
	if !c.User || c.Kind != "fields" || len(c.Path) != 1 || c.Path[0].Kind != "el" {
		return nil
	}
	o := pkg.Files[c.FileIdx].Elems[c.Path[0].Idx].Object
	if o == nil || o.Oneof {
		return nil
	}
	name := strcase.ToLowerCamel(o.Name)
	if strcase.ToCamel(name) != o.Name {
		return nil
	}
	var inl []*j5sgen.Prop
	for _, p := range o.Props {
		if strcase.ToSnake(p.Name) == strcase.ToSnake(name) {
			return nil
		}
		if r := p.Field.Ref; r != nil && r.Kind == j5sgen.RInlObj && r.Name == "" {
			inl = append(inl, p)
		}
	}
	for _, n := range o.Nested {
		if (n.Object != nil && n.Object.Name == o.Name) || (n.Enum != nil && n.Enum.Name == o.Name) {
			return nil
		}
	}
	if len(inl) == 0 {
		return nil
	}
	t := &j5sgen.TRef{Kind: j5sgen.RInlObj, Props: []*j5sgen.Prop{{Name: "zzInner", Field: &j5sgen.Field{Kind: j5sgen.FString}}}}
	if h.Chance(1, 2) {
		twin := vh.Pick(h, inl)
		t.Props = append(t.Props, &j5sgen.Prop{Name: twin.Name, Field: &j5sgen.Field{Kind: j5sgen.FObject,
			Ref: &j5sgen.TRef{Kind: j5sgen.RInlObj, Props: []*j5sgen.Prop{{Name: "zzTwin", Field: &j5sgen.Field{Kind: j5sgen.FBool}}}}}})
	}
	return &j5sgen.Prop{Name: name, Field: &j5sgen.Field{Kind: j5sgen.FObject, Ref: t}}
}

// isCaptureAppend recognises the class by the edit, not by the error it provokes.
func isCaptureAppend(b *j5sgen.Bundle, pkgName string, edits []*j5sgen.Edit) bool {
	p := b.Pkg(pkgName)
	if p == nil {
		return false
	}
	for _, e := range edits {
		if e.Kind != "appendfield" || len(e.Path) != 1 || e.Path[0].Kind != "el" || e.FileIdx < 0 || e.FileIdx >= len(p.Files) {
			continue
		}
		f := p.Files[e.FileIdx]
		if e.Path[0].Idx < 0 || e.Path[0].Idx >= len(f.Elems) || f.Elems[e.Path[0].Idx].Object == nil {
			continue
		}
		fld := e.Prop.Field
		if fld.Items != nil {
			fld = fld.Items
		}
		if r := fld.Ref; r != nil && r.Kind != j5sgen.RRef {
			eff := r.Name
			if eff == "" {
				eff = strcase.ToCamel(e.Prop.Name)
			}
			if eff == f.Elems[e.Path[0].Idx].Object.Name {
				return true
			}
		}
	}
	return false
}

// element table of a compiled package, per PROTOCOL §5
func elements(fs []*j5sreal.SFile) map[string]string {
	out := map[string]string{}
	var msg func(m *j5sreal.SMsg)
	enum := func(e *j5sreal.SEnum) {
		out["enum "+e.Full] = ""
		for _, v := range e.Values {
			out["value "+e.Full+" "+v.Name] = fmt.Sprint(v.Number)
		}
	}
	msg = func(m *j5sreal.SMsg) {
		out["msg "+m.Full] = ""
		for _, f := range m.Fields {
			out["field "+m.Full+" "+f.Name] = fmt.Sprintf("%d %s %s %v %s %s %s", f.Number, f.Type, f.Label, f.P3Opt, f.TypeName, f.JSON, f.Oneof)
		}
		for _, n := range m.Msgs {
			msg(n)
		}
		for _, e := range m.Enums {
			enum(e)
		}
	}
	for _, f := range fs {
		for _, m := range f.Msgs {
			msg(m)
		}
		for _, e := range f.Enums {
			enum(e)
		}
		for _, s := range f.Svcs {
			out["svc "+s.Full] = s.Opt
			for _, m := range s.Methods {
				out["method "+s.Full+" "+m.Name] = fmt.Sprintf("%s %s %s %s", m.Input, m.Output, m.HTTP, m.Opt)
			}
		}
	}
	return out
}

func execEvolve(h *vh.H, op string, co *compileOp) string {
	edits, err := j5sgen.DecodeEdits(co.rest[0])
	if err != nil {
		return "bad-op"
	}
	after := co.b.Clone()
	if err := j5sgen.Apply(after, co.pkg, edits); err != nil {
		return "bad-op"
	}
	r1 := j5sreal.Compile(j5sreal.FromAST(co.b, co.style), co.pkg)
	mb2 := j5sreal.FromAST(after, co.style)
	r2 := j5sreal.Compile(mb2, co.pkg)
	for _, e := range edits {
		h.Count("evolve.edit." + e.Kind)
	}
	if r1.Class == "panic" || r2.Class == "panic" {
		h.Fail("evolve-panic:"+panicSig(r1.Panic+r2.Panic), op, r1.Panic+r2.Panic+"\n"+trimStack(r1.Stack+r2.Stack))
		return "panic"
	}
	if r1.Class == "err" {
		h.Count("evolve.base-err")
		h.Fail("evolve-rejected:"+errSig(r1.Err), op, r1.Err.Error())
		return "err"
	}
	capture := isCaptureAppend(co.b, co.pkg, edits)
	if capture {
		h.Count("evolve.capture-append")
	}
	if r2.Class == "err" {
		// the edited package is still within the documented language
		h.Count("evolve.edited-err")
		if capture {
			// one root cause whatever the linker says: the appended inline type is named like the object it is in
			h.Count("evolve.capture-append.rejected")
			h.Fail("c13-capture-append:rejected", op, r2.Err.Error()+"\n"+dumpSources(mb2))
			return "err"
		}
		h.Fail("evolve-edited-rejected:"+errSig(r2.Err), op, r2.Err.Error()+"\n"+dumpSources(mb2))
		return "err"
	}
	s1, s2 := j5sreal.Skeletons(r1.Files), j5sreal.Skeletons(r2.Files)
	before, now := elements(s1), elements(s2)
	changed := 0
	var firstKey string
	for k, v := range before {
		nv, ok := now[k]
		if !ok || nv != v {
			changed++
			if firstKey == "" || k < firstKey {
				firstKey = k
			}
		}
	}
	h.Count("evolve.ok")
	out2 := j5sreal.SkeletonString(s2)
	if out2 != j5sreal.SkeletonString(s1) {
		h.Nontrivial(out2) // the edit changed the output
	}
	if changed > 0 && capture {
		h.Count("evolve.capture-append.retargeted")
		h.Fail("c13-capture-append:retargeted", op,
			fmt.Sprintf("%d elements of compile(P) changed, first: %s was [%s] now [%s]\n%s", changed, firstKey, before[firstKey], now[firstKey], dumpSources(mb2)))
	} else if changed > 0 {
		kind := strings.SplitN(firstKey, " ", 2)[0]
		h.Fail("c13-changed:"+kind+":"+edits[0].Kind, op,
			fmt.Sprintf("%d elements of compile(P) changed, first: %s was [%s] now [%s]", changed, firstKey, before[firstKey], now[firstKey]))
	}
	return fmt.Sprintf("ok changed=%d %s", changed, out2)
}
