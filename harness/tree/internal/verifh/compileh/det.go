//go:build verif

package main

// Stream compile.det (property C14): the same bundle compiled under permuted file / package
// listings, different CompilePackage call orders on one PackageSet, fresh vs reused sets, repeated
// in-process (map iteration order differs per range statement) and in fresh processes.

import (
	"bufio"
	"bytes"
	"context"
	"crypto/sha256"
	"encoding/hex"
	"fmt"
	"hash/fnv"
	"math/rand/v2"
	"os"
	"os/exec"
	"sort"
	"strings"

	"github.com/pentops/j5/internal/j5s/protobuild"
	"github.com/pentops/j5/internal/j5s/protoprint"
	"github.com/pentops/j5/internal/verifh/j5sgen"
	"github.com/pentops/j5/internal/verifh/j5sreal"
	"github.com/pentops/j5/internal/verifh/vh"
	"google.golang.org/protobuf/proto"
	"google.golang.org/protobuf/reflect/protodesc"
	"google.golang.org/protobuf/reflect/protoreflect"
	"google.golang.org/protobuf/reflect/protoregistry"
	"google.golang.org/protobuf/types/descriptorpb"
	"google.golang.org/protobuf/types/dynamicpb"
)

type variant struct {
	pkgs  []int
	files map[int][]int
	calls []int
	reuse bool
}

func (v *variant) sexp() *j5sgen.Node {
	pk := j5sgen.L("pkgs")
	for _, i := range v.pkgs {
		pk.Kids = append(pk.Kids, j5sgen.N(i))
	}
	fl := j5sgen.L("files")
	var keys []int
	for k := range v.files {
		keys = append(keys, k)
	}
	sort.Ints(keys)
	for _, k := range keys {
		fo := j5sgen.L("fo", j5sgen.N(k))
		for _, i := range v.files[k] {
			fo.Kids = append(fo.Kids, j5sgen.N(i))
		}
		fl.Kids = append(fl.Kids, fo)
	}
	cl := j5sgen.L("calls")
	for _, i := range v.calls {
		cl.Kids = append(cl.Kids, j5sgen.N(i))
	}
	return j5sgen.L("variant", pk, fl, cl, j5sgen.B(v.reuse))
}

func isPerm(xs []int, n int) bool {
	if len(xs) != n {
		return false
	}
	seen := make([]bool, n)
	for _, x := range xs {
		if x < 0 || x >= n || seen[x] {
			return false
		}
		seen[x] = true
	}
	return true
}

func decodeVariant(n *j5sgen.Node, b *j5sgen.Bundle) (v *variant, ok bool) {
	defer func() {
		if recover() != nil {
			v, ok = nil, false
		}
	}()
	if !n.List || len(n.Kids) != 5 || n.Kids[0].Atom != "variant" {
		return nil, false
	}
	ints := func(x *j5sgen.Node, head string, skip int) []int {
		if !x.List || len(x.Kids) < 1+skip || x.Kids[0].Atom != head {
			panic("bad")
		}
		var out []int
		for _, k := range x.Kids[1+skip:] {
			out = append(out, k.Int())
		}
		return out
	}
	v = &variant{files: map[int][]int{}}
	v.pkgs = ints(n.Kids[1], "pkgs", 0)
	if !isPerm(v.pkgs, len(b.Pkgs)) {
		return nil, false
	}
	if !n.Kids[2].List || n.Kids[2].Kids[0].Atom != "files" {
		return nil, false
	}
	for _, fo := range n.Kids[2].Kids[1:] {
		pi := fo.Kids[1].Int()
		if pi < 0 || pi >= len(b.Pkgs) {
			return nil, false
		}
		perm := ints(fo, "fo", 1)
		if !isPerm(perm, len(b.Pkgs[pi].Files)) {
			return nil, false
		}
		v.files[pi] = perm
	}
	v.calls = ints(n.Kids[3], "calls", 0)
	for _, c := range v.calls {
		if c < 0 || c >= len(b.Pkgs) {
			return nil, false
		}
	}
	v.reuse = n.Kids[4].Bool()
	return v, true
}

func randomVariant(r *rand.Rand, b *j5sgen.Bundle) *variant {
	v := &variant{files: map[int][]int{}}
	v.pkgs = r.Perm(len(b.Pkgs))
	for pi, p := range b.Pkgs {
		if r.IntN(3) > 0 {
			v.files[pi] = r.Perm(len(p.Files))
		}
	}
	v.calls = r.Perm(len(b.Pkgs))
	if r.IntN(3) == 0 { // repeated / partial call sequences
		v.calls = append(v.calls, r.IntN(len(b.Pkgs)))
	}
	v.reuse = r.IntN(2) == 0
	return v
}

func identityVariant(b *j5sgen.Bundle) *variant {
	v := &variant{files: map[int][]int{}}
	for i := range b.Pkgs {
		v.pkgs = append(v.pkgs, i)
		v.calls = append(v.calls, i)
	}
	return v
}

func genDet(h *vh.H, i int) string {
	cfg := cfgFor(h, "skel")
	cfg.MaxPkgs, cfg.MaxFiles = 4, 4
	cfg.NestedPkgs = true
	// enum in / notIn rules with a repeated option (bare + prefixed): a list built from a Go map would change order
	cfg.EnumInRules = h.Chance(2, 3)
	// validation rules on scalar fields: (buf.validate.field) options in the descriptors and in the printed text
	cfg.Rules = h.Chance(1, 2)
	g := j5sgen.New(h.Rng, cfg)
	b := g.Bundle()
	if h.Chance(1, 6) {
		g.AddImpliedClash(b)
	}
	if h.Chance(1, 8) {
		g.AddFileImportClash(b)
	}
	if g.EnumInRuleCount > 0 {
		h.Count("det.gen.enum-in-repeat")
	}
	v := randomVariant(h.Rng, b)
	style := uint64(0)
	if h.Chance(1, 2) {
		style = 1 + h.Rng.Uint64N(1<<30)
	}
	return fmt.Sprintf("det %s %s %d", b.Sexp().String(), v.sexp().String(), style)
}

// hasImpliedClash: some file has two un-aliased package imports that imply the same short name (the later
// statement owns it). Whether the result is stable is a question of map iteration order: such bundles are
// compiled many more times, in this process and in fresh ones.
func hasImpliedClash(b *j5sgen.Bundle) bool {
	for _, p := range b.Pkgs {
		for _, f := range p.Files {
			seen := map[string]bool{}
			for _, im := range f.Imports {
				if im.Alias != "" || strings.Contains(im.Path, "/") {
					continue
				}
				parts := strings.Split(im.Path, ".")
				if len(parts) < 2 {
					continue
				}
				if seen[parts[len(parts)-2]] {
					return true
				}
				seen[parts[len(parts)-2]] = true
			}
		}
	}
	return false
}

// printAllMessageOptions: the printer on descriptors WITHOUT source info (as every compiled j5s file) whose
// messages carry every message-level option known to the process, among them options of different files that share
// their declaration index and their short name ((buf.validate.message) and (j5.list.v1.message)). One descriptor
// per package of the bundle, one message per declared top-level name; the text must be the same every time.
func printAllMessageOptions(b *j5sgen.Bundle) map[string]string {
	out := map[string]string{}
	var exts []protoreflect.ExtensionType
	protoregistry.GlobalTypes.RangeExtensionsByMessage("google.protobuf.MessageOptions", func(xt protoreflect.ExtensionType) bool {
		if d := xt.TypeDescriptor(); d.Kind() == protoreflect.MessageKind && !d.IsList() && !d.IsMap() {
			exts = append(exts, xt)
		}
		return true
	})
	sort.Slice(exts, func(i, j int) bool { return exts[i].TypeDescriptor().FullName() < exts[j].TypeDescriptor().FullName() })
	for _, p := range b.Pkgs {
		deps := map[string]bool{}
		mkOpts := func(skip int) *descriptorpb.MessageOptions {
			mo := &descriptorpb.MessageOptions{}
			for i, xt := range exts {
				if skip >= 0 && i%3 == skip {
					continue
				}
				proto.SetExtension(mo, xt, dynamicOrTyped(xt))
				deps[xt.TypeDescriptor().ParentFile().Path()] = true
			}
			return mo
		}
		fd := &descriptorpb.FileDescriptorProto{
			Name:    proto.String(strings.ReplaceAll(p.Name, ".", "/") + "/zz_all_options.proto"),
			Syntax:  proto.String("proto3"),
			Package: proto.String(p.Name),
		}
		names := []string{"Only"}
		for _, f := range p.Files {
			for _, e := range f.Elems {
				if e.Object != nil {
					names = append(names, e.Object.Name)
				}
			}
		}
		for i, n := range names {
			fd.MessageType = append(fd.MessageType, &descriptorpb.DescriptorProto{
				Name:    proto.String("Zz" + n),
				Options: mkOpts(i%4 - 1),
				Field: []*descriptorpb.FieldDescriptorProto{{Name: proto.String("name"), Number: proto.Int32(1), JsonName: proto.String("name"),
					Type: descriptorpb.FieldDescriptorProto_TYPE_STRING.Enum(), Label: descriptorpb.FieldDescriptorProto_LABEL_OPTIONAL.Enum()}},
			})
		}
		fd.Dependency = j5sreal.SortedKeys(deps)
		file, err := protodesc.NewFile(fd, protoregistry.GlobalFiles)
		if err != nil {
			out[p.Name] = "newfile-error:" + err.Error()
			continue
		}
		txt, err := protoprint.PrintFile(context.Background(), file, "")
		if err != nil {
			txt = "print-error:" + err.Error()
		}
		out[p.Name] = sha([]byte(txt))
	}
	return out
}

// an empty value of the extension's message type
func dynamicOrTyped(xt protoreflect.ExtensionType) any {
	v := xt.New()
	if m, ok := v.Interface().(protoreflect.Message); ok {
		return m.Interface()
	}
	_ = dynamicpb.NewMessage
	return xt.InterfaceOf(v)
}

type detOut struct {
	allopts map[string]string // package -> sha(printed text) of the all-message-options descriptor
	class  map[string]string            // package -> ok | err | panic
	hashes map[string]map[string]string // package -> file -> sha(bytes)+sha(text)
	skel   map[string]string
	order  map[string]string // package -> file paths in the order CompilePackage returned them
	detail string
}

func sha(b []byte) string {
	s := sha256.Sum256(b)
	return hex.EncodeToString(s[:8])
}

// compileVariant compiles every package once (the last result of a repeated call wins) under v.
func compileVariant(b *j5sgen.Bundle, style uint64, v *variant) *detOut {
	mb := j5sreal.FromAST(b, style)
	mb.Packages = nil
	for _, pi := range v.pkgs {
		mb.Packages = append(mb.Packages, b.Pkgs[pi].Name)
	}
	for pi, perm := range v.files {
		p := b.Pkgs[pi]
		root := strings.ReplaceAll(p.Name, ".", "/")
		var order []string
		for _, fi := range perm {
			order = append(order, p.Files[fi].Path)
		}
		mb.Order[root] = order
	}
	out := &detOut{class: map[string]string{}, hashes: map[string]map[string]string{}, skel: map[string]string{}, order: map[string]string{}}
	var ps *protobuild.PackageSet
	calls := append([]int{}, v.calls...)
	// every package is compiled at least once: append the ones the call list leaves out
	called := map[int]bool{}
	for _, c := range calls {
		called[c] = true
	}
	for i := range b.Pkgs {
		if !called[i] {
			calls = append(calls, i)
		}
	}
	for _, ci := range calls {
		name := b.Pkgs[ci].Name
		if ps == nil || !v.reuse {
			var err error
			ps, err = j5sreal.NewPackageSet(mb)
			if err != nil {
				out.class[name] = "err"
				continue
			}
		}
		res := j5sreal.CompileOn(ps, name)
		out.class[name] = res.Class
		if res.Class != "ok" {
			if res.Err != nil {
				out.detail = res.Err.Error()
			} else {
				out.detail = res.Panic
			}
			continue
		}
		hs := map[string]string{}
		var paths []string
		for _, f := range res.Files {
			paths = append(paths, f.Path())
		}
		out.order[name] = strings.Join(paths, ",")
		for _, f := range res.Files {
			bts, err := proto.MarshalOptions{Deterministic: true}.Marshal(protodesc.ToFileDescriptorProto(f))
			if err != nil {
				hs[f.Path()] = "marshal-error"
				continue
			}
			txt, err := protoprint.PrintFile(context.Background(), f, "")
			if err != nil {
				txt = "print-error:" + err.Error()
			}
			hs[f.Path()] = sha(bts) + ":" + sha([]byte(txt))
		}
		out.hashes[name] = hs
		out.skel[name] = j5sreal.SkeletonOfFiles(res.Files)
	}
	return out
}

func (a *detOut) diffAllOpts(b *detOut) (string, string) {
	for _, p := range j5sreal.SortedKeys(a.allopts) {
		if a.allopts[p] != b.allopts[p] {
			return "printed-options-without-source", fmt.Sprintf("package %s: the descriptor carrying every message option prints as %s, then as %s", p, a.allopts[p], b.allopts[p])
		}
	}
	return "", ""
}

func (a *detOut) diff(b *detOut) (string, string) {
	for _, p := range j5sreal.SortedKeys(a.class) {
		if a.class[p] != b.class[p] {
			return "outcome", fmt.Sprintf("package %s: %s vs %s (%s %s)", p, a.class[p], b.class[p], a.detail, b.detail)
		}
		if a.order[p] != b.order[p] {
			return "file-order", fmt.Sprintf("package %s: files returned as %s vs %s", p, a.order[p], b.order[p])
		}
		ha, hb := a.hashes[p], b.hashes[p]
		if len(ha) != len(hb) {
			return "file-set", fmt.Sprintf("package %s: files %v vs %v", p, j5sreal.SortedKeys(ha), j5sreal.SortedKeys(hb))
		}
		for _, f := range j5sreal.SortedKeys(ha) {
			x, y := strings.Split(ha[f], ":"), strings.Split(hb[f], ":")
			if len(x) != 2 || len(y) != 2 {
				if ha[f] != hb[f] {
					return "file-set", fmt.Sprintf("package %s file %s: %s vs %s", p, f, ha[f], hb[f])
				}
				continue
			}
			if x[0] != y[0] {
				return "descriptor-bytes", fmt.Sprintf("package %s file %s: descriptor bytes differ", p, f)
			}
			if x[1] != y[1] {
				return "printed-text", fmt.Sprintf("package %s file %s: printed text differs", p, f)
			}
		}
	}
	return "", ""
}

func (o *detOut) lines() []string {
	var out []string
	for _, p := range j5sreal.SortedKeys(o.class) {
		out = append(out, "class "+p+" "+o.class[p])
		out = append(out, "order "+p+" "+o.order[p])
		for _, f := range j5sreal.SortedKeys(o.hashes[p]) {
			out = append(out, "hash "+p+" "+f+" "+o.hashes[p][f])
		}
	}
	for _, p := range j5sreal.SortedKeys(o.allopts) {
		out = append(out, "allopts "+p+" "+o.allopts[p])
	}
	return out
}

func execDet(h *vh.H, op string, args []*j5sgen.Node) string {
	if len(args) != 3 || args[2].List {
		return "bad-op"
	}
	b, err := j5sgen.DecodeBundle(args[0])
	if err != nil || len(b.Pkgs) == 0 {
		return "bad-op"
	}
	v, ok := decodeVariant(args[1], b)
	if !ok {
		return "bad-op"
	}
	var style uint64
	if _, err := fmt.Sscan(args[2].Atom, &style); err != nil {
		return "bad-op"
	}
	ref := compileVariant(b, style, identityVariant(b))
	ref.allopts = printAllMessageOptions(b)
	got := compileVariant(b, style, v)
	h.Count("det.ops")
	report := func(kind, what, detail string) {
		h.Fail("c14-"+kind+"-differs:"+what, op, detail)
	}
	// the same listing again in this process (every range over a map starts somewhere else)
	clash := hasImpliedClash(b)
	repeats := 1
	if clash {
		repeats = 6
		h.Count("det.implied-name-clash")
	}
	for k := 0; k < repeats; k++ {
		again := compileVariant(b, style, identityVariant(b))
		h.Count("det.repeats")
		if what, detail := ref.diff(again); what != "" {
			report("repeat", what, detail)
			break
		}
	}
	for k := 0; k < 6; k++ {
		again := &detOut{allopts: printAllMessageOptions(b)}
		if what, detail := ref.diffAllOpts(again); what != "" {
			report("repeat", what, detail)
			break
		}
	}
	if what, detail := ref.diff(got); what != "" {
		report("variant", what, detail+"\nvariant "+v.sexp().String())
	}
	// more variants, derived from the op so that the op replays exactly
	hs := fnv.New64a()
	hs.Write([]byte(op))
	r := rand.New(rand.NewPCG(hs.Sum64(), 14))
	extra := 3
	if h.Tier == "thorough" {
		extra = 5
	}
	for k := 0; k < extra; k++ {
		ev := randomVariant(r, b)
		eo := compileVariant(b, style, ev)
		h.Count("det.variants")
		if what, detail := ref.diff(eo); what != "" {
			report("variant", what, detail+"\nvariant "+ev.sexp().String())
			break
		}
	}
	// fresh processes (a different map hash seed each)
	procs := 2
	if h.Tier == "thorough" {
		procs = 3
	}
	if clash {
		procs = 20
	}
	want := strings.Join(ref.lines(), "\n")
	for k := 0; k < procs; k++ {
		// /proc/self/exe stays valid when a concurrent check rebuilds (unlinks) the harness binary
		self := "/proc/self/exe"
		if _, err := os.Stat(self); err != nil {
			self = os.Args[0]
		}
		cmd := exec.Command(self, "child", "det")
		cmd.Stdin = strings.NewReader(op + "\n")
		cmd.Env = append(os.Environ(), "COMPILEH_CHILD=1")
		outb, err := cmd.Output()
		h.Count("det.processes")
		if err != nil {
			report("process", "child-failed", err.Error())
			break
		}
		if strings.TrimRight(string(outb), "\n") != want {
			report("process", "hashes", firstDiffLine(want, strings.TrimRight(string(outb), "\n")))
			break
		}
	}
	nOK := 0
	var parts []string
	for _, p := range j5sreal.SortedKeys(got.class) {
		if got.class[p] == "ok" {
			nOK++
			parts = append(parts, got.skel[p])
		} else {
			parts = append(parts, got.class[p])
			h.Fail("det-rejected:"+classify(got.detail), op, got.detail)
		}
	}
	if nOK > 0 {
		h.Nontrivial(strings.Join(parts, ";"))
	}
	h.CountN("det.packages", len(got.class))
	return "ok " + strings.Join(parts, " ; ")
}

func firstDiffLine(a, b string) string {
	la, lb := strings.Split(a, "\n"), strings.Split(b, "\n")
	for i := 0; i < len(la) || i < len(lb); i++ {
		var x, y string
		if i < len(la) {
			x = la[i]
		}
		if i < len(lb) {
			y = lb[i]
		}
		if x != y {
			return fmt.Sprintf("this process: %q\nfresh process: %q", x, y)
		}
	}
	return ""
}

// childMain: `compileh child det` reads one det op from stdin and prints the reference hashes.
func childMain(args []string) {
	sc := bufio.NewScanner(os.Stdin)
	sc.Buffer(make([]byte, 1<<20), 1<<28)
	if !sc.Scan() {
		os.Exit(2)
	}
	_, a, err := j5sgen.ParseLine(strings.TrimSpace(sc.Text()))
	if err != nil || len(a) != 3 {
		os.Exit(2)
	}
	b, err := j5sgen.DecodeBundle(a[0])
	if err != nil {
		os.Exit(2)
	}
	var style uint64
	fmt.Sscan(a[2].Atom, &style)
	out := compileVariant(b, style, identityVariant(b))
	out.allopts = printAllMessageOptions(b)
	var buf bytes.Buffer
	buf.WriteString(strings.Join(out.lines(), "\n"))
	buf.WriteByte('\n')
	os.Stdout.Write(buf.Bytes())
}
