//go:build verif

package main

// Independent expected-output computation for C02 / C17: from the abstract package straight to
// the skeleton the documentation promises (README.md "Schemas", "Services", "Topics", "Entities"
// and the property statements). Deliberately simple: no source walk, no visitor, no import
// bookkeeping — names and numbers are computed by position.

import (
	"fmt"
	"path"
	"sort"
	"strings"

	"github.com/iancoleman/strcase"
	"github.com/pentops/j5/internal/verifh/j5sgen"
	"github.com/pentops/j5/internal/verifh/j5sreal"
)

type pendingRef struct {
	f    *j5sreal.SField
	ref  *j5sgen.TRef
	file *j5sgen.File
	pkg  *j5sgen.Pkg
	out  *expFile
	kind string // object | oneof | enum
}

type expFile struct {
	*j5sreal.SFile
	needs map[string]bool // files that must be imported because a type reference points there
}

type expecter struct {
	b       *j5sgen.Bundle
	index   map[string]string // fully-qualified type name (no leading dot) -> defining output file
	tkind   map[string]string // fqn -> msg | enum
	pending []pendingRef
	out     map[string][]*expFile // package -> files
	notes   []string
}

func snake(s string) string { return strcase.ToSnake(s) }
func camel(s string) string { return strcase.ToCamel(s) }

func expectedBundle(b *j5sgen.Bundle) *expecter {
	ex := &expecter{b: b, index: map[string]string{}, tkind: map[string]string{}, out: map[string][]*expFile{}}
	for _, bi := range []struct{ pkg, name, file string }{
		{"j5.state.v1", "StateMetadata", "j5/state/v1/metadata.proto"},
		{"j5.state.v1", "EventMetadata", "j5/state/v1/metadata.proto"},
		{"j5.state.v1", "EventPublishMetadata", "j5/state/v1/metadata.proto"},
		{"j5.list.v1", "PageRequest", "j5/list/v1/page.proto"},
		{"j5.list.v1", "PageResponse", "j5/list/v1/page.proto"},
		{"j5.list.v1", "QueryRequest", "j5/list/v1/query.proto"},
		{"j5.messaging.v1", "UpsertMetadata", "j5/messaging/v1/upsert.proto"},
		{"j5.messaging.v1", "RequestMetadata", "j5/messaging/v1/reqres.proto"},
	} {
		ex.index[bi.pkg+"."+bi.name] = bi.file
		ex.tkind[bi.pkg+"."+bi.name] = "msg"
	}
	for _, p := range b.Pkgs {
		for _, f := range p.Files {
			if f.Proto {
				for _, m := range f.ProtoMsgs {
					ex.index[p.Name+"."+m] = f.Path
					ex.tkind[p.Name+"."+m] = "msg"
				}
				for _, e := range f.ProtoEnums {
					ex.index[p.Name+"."+e.Name] = f.Path
					ex.tkind[p.Name+"."+e.Name] = "enum"
				}
				continue
			}
			ex.file(p, f)
		}
	}
	ex.resolve()
	for _, fs := range ex.out {
		sort.Slice(fs, func(i, j int) bool { return fs[i].Name < fs[j].Name })
	}
	return ex
}

func newExpFile(name, pkg string) *expFile {
	return &expFile{SFile: &j5sreal.SFile{Name: name, Package: pkg}, needs: map[string]bool{}}
}

func (ex *expecter) file(p *j5sgen.Pkg, f *j5sgen.File) {
	dir, base := path.Split(f.Path)
	stem := strings.TrimSuffix(base, ".j5s")
	main := newExpFile(f.Path+".proto", p.Name)
	var svc, top *expFile
	svcFile := func() *expFile {
		if svc == nil {
			svc = newExpFile(dir+"service/"+stem+".p.j5s.proto", p.Name+".service")
		}
		return svc
	}
	topFile := func() *expFile {
		if top == nil {
			top = newExpFile(dir+"topic/"+stem+".p.j5s.proto", p.Name+".topic")
		}
		return top
	}
	ctx := &fctx{ex: ex, pkg: p, file: f}
	for _, e := range f.Elems {
		switch e.Kind {
		case j5sgen.KObject, j5sgen.KOneof:
			main.Msgs = append(main.Msgs, ctx.msg(main, p.Name, e.Object.Name, e.Object.Oneof, nil, e.Object.Props, e.Object.Nested, psmOf(e.Object)))
		case j5sgen.KEnum:
			main.Enums = append(main.Enums, ctx.enum(main, p.Name, e.Enum.Name, e.Enum.Prefix, e.Enum.Opts))
		case j5sgen.KService:
			ctx.service(svcFile(), e.Service, e.Service.Name, e.Service.BasePath, "-", nil)
		case j5sgen.KTopic:
			ctx.topic(topFile(), e.Topic)
		case j5sgen.KEntity:
			ctx.entity(main, svcFile, topFile, e.Entity)
		}
	}
	ex.out[p.Name] = append(ex.out[p.Name], main)
	if svc != nil {
		ex.out[p.Name] = append(ex.out[p.Name], svc)
	}
	if top != nil {
		ex.out[p.Name] = append(ex.out[p.Name], top)
	}
}

type fctx struct {
	ex   *expecter
	pkg  *j5sgen.Pkg
	file *j5sgen.File
}

func (c *fctx) enum(out *expFile, scope, name, prefix string, opts []string) *j5sreal.SEnum {
	if prefix == "" {
		prefix = strcase.ToScreamingSnake(name) + "_"
	}
	e := &j5sreal.SEnum{Name: name, Full: scope + "." + name}
	e.Values = append(e.Values, j5sreal.SVal{Name: prefix + "UNSPECIFIED", Number: 0})
	k := int32(0)
	for i, o := range opts {
		full := o
		if !strings.HasPrefix(o, prefix) {
			full = prefix + o
		}
		if i == 0 && strings.TrimPrefix(o, prefix) == "UNSPECIFIED" {
			// the zero value may be declared explicitly (README: "explicitly included (as UNSPECIFIED)")
			e.Values[0].Name = full
			continue
		}
		k++
		e.Values = append(e.Values, j5sreal.SVal{Name: full, Number: k})
	}
	c.ex.index[e.Full] = out.Name
	c.ex.tkind[e.Full] = "enum"
	return e
}

func protoMapEntry(snakeName string) string {
	var sb strings.Builder
	up := true
	for _, r := range snakeName {
		if r == '_' {
			up = true
			continue
		}
		if up && r >= 'a' && r <= 'z' {
			r -= 32
		}
		up = false
		sb.WriteRune(r)
	}
	return sb.String() + "Entry"
}

// msg builds the expected message for an object / oneof with optional implicit leading fields.
// psmOf: the (j5.ext.v1.psm) option of a hand-written object with an entity annotation
func psmOf(o *j5sgen.Object) string {
	if o.PSM == nil {
		return "-"
	}
	return o.PSM.Entity + ":" + o.PSM.Part
}

func (c *fctx) msg(out *expFile, scope, name string, oneof bool, prepend, props []*j5sgen.Prop, nested []*j5sgen.Elem, psm string) *j5sreal.SMsg {
	m := &j5sreal.SMsg{Name: name, Full: scope + "." + name, Kind: "object", PSM: psm}
	if oneof {
		m.Kind = "oneof"
		m.Oneofs = []string{"type"}
	}
	c.ex.index[m.Full] = out.Name
	c.ex.tkind[m.Full] = "msg"
	all := append(append([]*j5sgen.Prop{}, prepend...), props...)
	for i, p := range all {
		f := &j5sreal.SField{Name: snake(p.Name), JSON: p.Name, Number: int32(i + 1), Label: "optional", P3Opt: p.Opt, TypeName: "-", Oneof: "-", Req: p.Req, Ext: "-"}
		if oneof {
			f.Oneof = "0"
		}
		fld := p.Field
		switch fld.Kind {
		case j5sgen.FArray:
			f.Label = "repeated"
			c.scalarOrTyped(out, m, f, p.Name, fld.Items)
			f.Ext = "array"
		case j5sgen.FMap:
			f.Label = "repeated"
			val := &j5sreal.SField{Name: "value", JSON: "-", Number: 2, Label: "optional", TypeName: "-", Oneof: "-", Ext: "-"}
			c.scalarOrTyped(out, m, val, p.Name, fld.Items)
			entry := &j5sreal.SMsg{Name: protoMapEntry(f.Name), Kind: "mapentry", PSM: "-"}
			entry.Full = m.Full + "." + entry.Name
			entry.Fields = []*j5sreal.SField{
				{Name: "key", JSON: "-", Number: 1, Type: "string", Label: "optional", TypeName: "-", Oneof: "-", Ext: "-"},
				val,
			}
			m.Msgs = append(m.Msgs, entry)
			f.Type = "message"
			f.TypeName = "." + entry.Full
			f.Ext = "map" // d9448b1: the map field carries (j5.ext.v1.field).map
		default:
			c.scalarOrTyped(out, m, f, p.Name, fld)
		}
		if fld.Kind == j5sgen.FKey && fld.EntKey != nil && fld.EntKey.Kind == "primary" && fld.EntKey.Primary {
			f.Req = true // primary keys are always required
		}
		m.Fields = append(m.Fields, f)
	}
	for _, n := range nested {
		switch n.Kind {
		case j5sgen.KObject, j5sgen.KOneof:
			m.Msgs = append(m.Msgs, c.msg(out, m.Full, n.Object.Name, n.Object.Oneof, nil, n.Object.Props, n.Object.Nested, psmOf(n.Object)))
		case j5sgen.KEnum:
			m.Enums = append(m.Enums, c.enum(out, m.Full, n.Enum.Name, n.Enum.Prefix, n.Enum.Opts))
		}
	}
	return m
}

var scalarTypes = map[string][3]string{ // kind -> proto type, type name, ext
	j5sgen.FString:    {"string", "-", "string"},
	j5sgen.FBool:      {"bool", "-", "bool"},
	j5sgen.FBytes:     {"bytes", "-", "bytes"},
	j5sgen.FKey:       {"string", "-", "key"},
	j5sgen.FDate:      {"message", ".j5.types.date.v1.Date", "-"},
	j5sgen.FDecimal:   {"message", ".j5.types.decimal.v1.Decimal", "-"},
	j5sgen.FTimestamp: {"message", ".google.protobuf.Timestamp", "timestamp"},
	j5sgen.FAny:       {"message", ".j5.types.any.v1.Any", "any"},
}

func (c *fctx) scalarOrTyped(out *expFile, parent *j5sreal.SMsg, f *j5sreal.SField, propName string, fld *j5sgen.Field) {
	if st, ok := scalarTypes[fld.Kind]; ok {
		f.Type, f.TypeName, f.Ext = st[0], st[1], st[2]
		return
	}
	switch fld.Kind {
	case j5sgen.FInteger:
		f.Type, f.Ext = fld.Fmt, "integer" // int32 int64 uint32 uint64
		return
	case j5sgen.FFloat:
		f.Type, f.Ext = map[string]string{"float32": "float", "float64": "double"}[fld.Fmt], "float"
		return
	}
	// object / oneof / enum
	f.Ext = fld.Kind
	if fld.Flatten {
		f.Ext += "+flatten"
	}
	f.Type = "message"
	if fld.Kind == j5sgen.FEnum {
		f.Type = "enum"
	}
	t := fld.Ref
	switch t.Kind {
	case j5sgen.RRef:
		c.ex.pending = append(c.ex.pending, pendingRef{f: f, ref: t, file: c.file, pkg: c.pkg, out: out, kind: fld.Kind})
	case j5sgen.RInlObj, j5sgen.RInlOneof:
		name := t.Name
		if name == "" {
			name = camel(propName)
		}
		child := c.msg(out, parent.Full, name, t.Kind == j5sgen.RInlOneof, nil, t.Props, nil, "-")
		parent.Msgs = append(parent.Msgs, child)
		f.TypeName = "." + child.Full
	case j5sgen.RInlEnum:
		name := t.Name
		if name == "" {
			name = camel(propName)
		}
		child := c.enum(out, parent.Full, name, t.Prefix, t.Opts)
		parent.Enums = append(parent.Enums, child)
		f.TypeName = "." + child.Full
	}
}

// resolvePkg maps the package part of a reference, as written, to a full package name.
func resolvePkg(spec string, p *j5sgen.Pkg, f *j5sgen.File) (string, bool) {
	if spec == "" || spec == p.Name {
		return p.Name, true
	}
	// the import statements write one map in program order: the LAST statement that gives a name wins
	// (import foo.bar.v1 + import baz.bar.v1: `bar` is baz.bar.v1)
	for i := len(f.Imports) - 1; i >= 0; i-- {
		im := f.Imports[i]
		if strings.Contains(im.Path, "/") {
			dir := strings.TrimSuffix(path.Dir(im.Path), "/")
			if strings.ReplaceAll(dir, "/", ".") == spec {
				return spec, true
			}
			continue
		}
		if im.Alias != "" {
			if im.Alias == spec {
				return im.Path, true
			}
			continue
		}
		parts := strings.Split(im.Path, ".")
		if spec == im.Path || (len(parts) >= 2 && parts[len(parts)-2] == spec) {
			return im.Path, true
		}
	}
	// the built-in packages are always in scope
	switch spec {
	case "j5.state.v1", "j5.list.v1", "j5.messaging.v1":
		return spec, true
	}
	return "", false
}

func (ex *expecter) resolve() {
	for _, pr := range ex.pending {
		pkg, ok := resolvePkg(pr.ref.Pkg, pr.pkg, pr.file)
		if !ok {
			ex.notes = append(ex.notes, fmt.Sprintf("unresolvable package %q in %s", pr.ref.Pkg, pr.file.Path))
			pr.f.TypeName = "?"
			continue
		}
		fq := pkg + "." + pr.ref.Schema
		file, ok := ex.index[fq]
		if !ok {
			ex.notes = append(ex.notes, fmt.Sprintf("reference to undeclared type %s in %s", fq, pr.file.Path))
			pr.f.TypeName = "?"
			continue
		}
		pr.f.TypeName = "." + fq
		if file != pr.out.Name {
			pr.out.needs[file] = true
		}
	}
}

// ---- services and topics

func httpPath(base *string, p string) string {
	full := p
	if base != nil {
		full = path.Join(*base, p)
	}
	parts := strings.Split(full, "/")
	for i, s := range parts {
		if strings.HasPrefix(s, ":") {
			parts[i] = "{" + snake(s[1:]) + "}"
		}
	}
	return strings.Join(parts, "/")
}

func (c *fctx) service(out *expFile, s *j5sgen.Service, name string, base *string, sopt string, mopts []string) {
	svc := &j5sreal.SSvc{Name: name + "Service", Full: out.Package + "." + name + "Service", Opt: sopt}
	for i, m := range s.Methods {
		req := c.msg(out, out.Package, m.Name+"Request", false, nil, m.Req, nil, "-")
		out.Msgs = append(out.Msgs, req)
		output := ".google.api.HttpBody"
		if m.HasRes {
			res := c.msg(out, out.Package, m.Name+"Response", false, nil, m.Res, nil, "-")
			out.Msgs = append(out.Msgs, res)
			output = "." + res.Full
		}
		body := "*"
		if m.Verb == "get" {
			body = "-"
		}
		sm := &j5sreal.SMethod{Name: m.Name, Input: "." + req.Full, Output: output,
			HTTP: m.Verb + ":" + httpPath(base, m.Path) + ":" + body, Opt: "-"}
		if mopts != nil {
			sm.Opt = mopts[i]
		}
		svc.Methods = append(svc.Methods, sm)
	}
	out.Svcs = append(out.Svcs, svc)
}

func builtinRef(pkg, name string) *j5sgen.Field {
	return &j5sgen.Field{Kind: j5sgen.FObject, Ref: &j5sgen.TRef{Kind: j5sgen.RRef, Pkg: pkg, Schema: name}}
}

func (c *fctx) topicService(out *expFile, svcBase, topicName, role, entity string, msgs []*j5sgen.TMsg, prepend []*j5sgen.Prop) {
	svc := &j5sreal.SSvc{Name: camel(svcBase) + "Topic", Opt: "topic:" + snake(topicName) + ":" + role}
	svc.Full = out.Package + "." + svc.Name
	if entity != "" {
		svc.Opt += ":" + entity
	}
	for _, m := range msgs {
		name := svcBase
		if m.Name != nil {
			name = *m.Name
		}
		msg := c.msg(out, out.Package, name+"Message", false, prepend, m.Props, nil, "-")
		out.Msgs = append(out.Msgs, msg)
		svc.Methods = append(svc.Methods, &j5sreal.SMethod{Name: name, Input: "." + msg.Full, Output: ".google.protobuf.Empty", HTTP: "-", Opt: "-"})
	}
	out.Svcs = append(out.Svcs, svc)
}

func (c *fctx) topic(out *expFile, t *j5sgen.Topic) {
	switch t.Kind {
	case "publish":
		c.topicService(out, t.Name, t.Name, "publish", "", t.Msgs, nil)
	case "upsert":
		pre := []*j5sgen.Prop{{Name: "upsert", Req: true, Field: builtinRef("j5.messaging.v1", "UpsertMetadata")}}
		c.topicService(out, t.Name, t.Name, "upsert", "", t.Msgs, pre)
	case "reqres":
		pre := []*j5sgen.Prop{{Name: "request", Req: true, Field: builtinRef("j5.messaging.v1", "RequestMetadata")}}
		c.topicService(out, t.Name+"Request", t.Name, "request", "", t.Reqs, pre)
		c.topicService(out, t.Name+"Reply", t.Name, "reply", "", t.Reps, pre)
	}
}

// ---- entity (README "Entities" + property C17)

func localRef(kind, name string) *j5sgen.Field {
	return &j5sgen.Field{Kind: kind, Ref: &j5sgen.TRef{Kind: j5sgen.RRef, Schema: name}}
}

type entityExpect struct {
	camel, snake, base string
	getKeys, listKeys  []*j5sgen.Prop
}

func entityNames(pkg string, e *j5sgen.Entity) entityExpect {
	ee := entityExpect{camel: camel(e.Name), snake: snake(e.Name)}
	ee.base = e.BaseURL
	if ee.base == "" {
		ee.base = strings.Join(append(strings.Split(pkg, "."), ee.snake), "/")
	}
	for _, k := range e.Keys {
		f := k.Prop.Field
		if f.Kind != j5sgen.FKey {
			continue
		}
		primary := f.EntKey != nil && f.EntKey.Kind == "primary" && f.EntKey.Primary
		if primary || k.Shard {
			ee.getKeys = append(ee.getKeys, k.Prop)
		}
		if k.Shard {
			ee.listKeys = append(ee.listKeys, k.Prop)
		}
	}
	return ee
}

func (c *fctx) entity(main *expFile, svcFile, topFile func() *expFile, e *j5sgen.Entity) {
	ee := entityNames(c.pkg.Name, e)
	C := ee.camel
	pkg := c.pkg.Name
	var keyProps []*j5sgen.Prop
	for _, k := range e.Keys {
		keyProps = append(keyProps, k.Prop)
	}
	req := func(name string, f *j5sgen.Field) *j5sgen.Prop { return &j5sgen.Prop{Name: name, Req: true, Field: f} }
	flat := func(f *j5sgen.Field) *j5sgen.Field { f.Flatten = true; return f }

	main.Msgs = append(main.Msgs, c.msg(main, pkg, C+"Keys", false, nil, keyProps, nil, ee.snake+":keys"))
	main.Msgs = append(main.Msgs, c.msg(main, pkg, C+"Data", false, nil, e.Data, nil, ee.snake+":data"))
	main.Enums = append(main.Enums, c.enum(main, pkg, C+"Status", strcase.ToScreamingSnake(e.Name)+"_STATUS_", e.Statuses))
	main.Msgs = append(main.Msgs, c.msg(main, pkg, C+"State", false, nil, []*j5sgen.Prop{
		req("metadata", builtinRef("j5.state.v1", "StateMetadata")),
		req("keys", flat(localRef(j5sgen.FObject, C+"Keys"))),
		req("data", localRef(j5sgen.FObject, C+"Data")),
		req("status", localRef(j5sgen.FEnum, C+"Status")),
	}, nil, ee.snake+":state"))
	var evProps []*j5sgen.Prop
	var evNested []*j5sgen.Elem
	for _, ev := range e.Events {
		evProps = append(evProps, &j5sgen.Prop{Name: strcase.ToLowerCamel(ev.Name), Field: localRef(j5sgen.FObject, C+"EventType."+ev.Name)})
		evNested = append(evNested, &j5sgen.Elem{Kind: j5sgen.KObject, Object: ev})
	}
	main.Msgs = append(main.Msgs, c.msg(main, pkg, C+"EventType", true, nil, evProps, evNested, "-"))
	main.Msgs = append(main.Msgs, c.msg(main, pkg, C+"Event", false, nil, []*j5sgen.Prop{
		req("metadata", builtinRef("j5.state.v1", "EventMetadata")),
		req("keys", flat(localRef(j5sgen.FObject, C+"Keys"))),
		req("event", localRef(j5sgen.FOneof, C+"EventType")),
	}, nil, ee.snake+":event"))
	for _, n := range e.Nested {
		switch n.Kind {
		case j5sgen.KObject, j5sgen.KOneof:
			main.Msgs = append(main.Msgs, c.msg(main, pkg, n.Object.Name, n.Object.Oneof, nil, n.Object.Props, n.Object.Nested, psmOf(n.Object)))
		case j5sgen.KEnum:
			main.Enums = append(main.Enums, c.enum(main, pkg, n.Enum.Name, n.Enum.Prefix, n.Enum.Opts))
		}
	}

	// query service
	page := func() []*j5sgen.Prop {
		return []*j5sgen.Prop{
			{Name: "page", Field: builtinRef("j5.list.v1", "PageRequest")},
			{Name: "query", Field: builtinRef("j5.list.v1", "QueryRequest")},
		}
	}
	pathOf := func(keys []*j5sgen.Prop, tail ...string) string {
		var parts []string
		for _, k := range keys {
			parts = append(parts, ":"+k.Name)
		}
		return strings.Join(append(parts, tail...), "/")
	}
	arr := func(f *j5sgen.Field) *j5sgen.Field { return &j5sgen.Field{Kind: j5sgen.FArray, Items: f} }
	lower := strcase.ToLowerCamel(ee.snake)
	getRes := []*j5sgen.Prop{req(lower, localRefPkg(pkg, j5sgen.FObject, C+"State"))}
	if e.Query != nil && e.Query.EventsInGet {
		getRes = append(getRes, &j5sgen.Prop{Name: "events", Field: arr(localRefPkg(pkg, j5sgen.FObject, C+"Event"))})
	}
	q := &j5sgen.Service{Methods: []*j5sgen.Method{
		{Name: C + "Get", Verb: "get", Path: pathOf(ee.getKeys), Req: ee.getKeys, HasRes: true, Res: getRes},
		{Name: C + "List", Verb: "get", Path: pathOf(ee.listKeys), Req: append(append([]*j5sgen.Prop{}, ee.listKeys...), page()...), HasRes: true,
			Res: []*j5sgen.Prop{req(lower, arr(localRefPkg(pkg, j5sgen.FObject, C+"State"))), {Name: "page", Field: builtinRef("j5.list.v1", "PageResponse")}}},
		{Name: C + "Events", Verb: "get", Path: pathOf(ee.getKeys, "events"), Req: append(append([]*j5sgen.Prop{}, ee.getKeys...), page()...), HasRes: true,
			Res: []*j5sgen.Prop{{Name: "events", Field: arr(localRefPkg(pkg, j5sgen.FObject, C+"Event"))}, {Name: "page", Field: builtinRef("j5.list.v1", "PageResponse")}}},
	}}
	qbase := "/" + ee.base + "/q"
	c.service(svcFile(), q, C+"Query", &qbase, "query:"+ee.snake, []string{"get", "list", "events"})
	for _, cmd := range e.Commands {
		name := C + "Command"
		if cmd.Name != "" {
			name = cmd.Name
			if !strings.HasSuffix(name, "Command") {
				name += "Command"
			}
		}
		cbase := "/" + ee.base + "/c"
		if cmd.BasePath != nil {
			cbase = "/" + ee.base + "/" + *cmd.BasePath
		}
		c.service(svcFile(), cmd, name, &cbase, "command:"+ee.snake, nil)
	}

	// publish topic
	evName := C + "Event"
	c.topicService(topFile(), C+"Publish", C+"Publish", "event", pkg+"."+C, []*j5sgen.TMsg{{Name: &evName, Props: []*j5sgen.Prop{
		req("metadata", builtinRef("j5.state.v1", "EventPublishMetadata")),
		req("keys", localRefPkg(pkg, j5sgen.FObject, C+"Keys")),
		req("event", localRefPkg(pkg, j5sgen.FOneof, C+"EventType")),
		req("data", localRefPkg(pkg, j5sgen.FObject, C+"Data")),
		req("status", localRefPkg(pkg, j5sgen.FEnum, C+"Status")),
	}}}, nil)
	pre := []*j5sgen.Prop{{Name: "upsert", Req: true, Field: builtinRef("j5.messaging.v1", "UpsertMetadata")}}
	for _, s := range e.Summaries {
		name := C + "Summary"
		if s.Name != "" {
			name = C + camel(s.Name)
		}
		n := name
		c.topicService(topFile(), name, name, "upsert", pkg+"."+C, []*j5sgen.TMsg{{Name: &n, Props: s.Props}}, pre)
	}
}

// localRefPkg: a reference from a sub-package file to a type of the main package.
func localRefPkg(pkg, kind, name string) *j5sgen.Field {
	return &j5sgen.Field{Kind: kind, Ref: &j5sgen.TRef{Kind: j5sgen.RRef, Pkg: pkg, Schema: name}}
}
