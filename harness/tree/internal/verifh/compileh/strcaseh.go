//go:build verif

package main

import (
	"github.com/iancoleman/strcase"
	"github.com/pentops/j5/internal/verifh/j5sgen"
	"github.com/pentops/j5/internal/verifh/vh"
)

var caseFns = []string{"camel", "lowercamel", "snake", "screamingsnake"}

func genStrcase(h *vh.H, i int) string {
	var b []byte
	n := h.Rng.IntN(14)
	switch h.Rng.IntN(6) {
	case 0: // arbitrary ASCII
		for k := 0; k < n; k++ {
			b = append(b, byte(h.Rng.IntN(128)))
		}
	case 1: // identifier-like with separators
		al := []byte("abcxyzABCXYZ0189_-. ")
		for k := 0; k < n; k++ {
			b = append(b, vh.Pick(h, al))
		}
	case 2: // words glued in different casings
		words := []string{"foo", "Foo", "FOO", "id", "ID", "Id", "http", "HTTP", "x", "X", "1", "22", "a1", "A1B", "_", "__", "-", ".", " "}
		for k := 0; k < 1+h.Rng.IntN(5); k++ {
			b = append(b, vh.Pick(h, words)...)
		}
	case 3: // entity-name + suffix shapes (C17 naming routes)
		words := []string{"Foo", "FooA", "fooID", "ACL", "orderX", "user_profile", "Plan9B", "x", "ABc"}
		b = append(b, vh.Pick(h, words)...)
		b = append(b, vh.Pick(h, []string{"", "State", "Event", "EventType", "Publish", "Keys", "_status"})...)
	case 4: // leading / trailing space and separators (ToCamel trims)
		al := []byte("aZ9_ -.")
		b = append(b, vh.Pick(h, []byte(" _-.")))
		for k := 0; k < n; k++ {
			b = append(b, vh.Pick(h, al))
		}
		b = append(b, vh.Pick(h, []byte(" _-.")))
	default: // letters and digits only
		al := []byte("abcdefgXYZQ0123456789")
		for k := 0; k < n; k++ {
			b = append(b, vh.Pick(h, al))
		}
	}
	return "strcase " + vh.Pick(h, caseFns) + " " + j5sgen.S(string(b)).String()
}

func execStrcase(h *vh.H, op string, args []*j5sgen.Node) string {
	if len(args) != 2 || args[0].List || args[1].List {
		return "bad-op"
	}
	var in string
	ok := func() (ok bool) {
		defer func() {
			if recover() != nil {
				ok = false
			}
		}()
		in = args[1].Str()
		return true
	}()
	if !ok {
		return "bad-op"
	}
	var out string
	switch args[0].Atom {
	case "camel":
		out = strcase.ToCamel(in)
	case "lowercamel":
		out = strcase.ToLowerCamel(in)
	case "snake":
		out = strcase.ToSnake(in)
	case "screamingsnake":
		out = strcase.ToScreamingSnake(in)
	default:
		return "bad-op"
	}
	h.Count("strcase." + args[0].Atom)
	h.Nontrivial(op)
	return "ok " + j5sgen.S(out).String()
}
