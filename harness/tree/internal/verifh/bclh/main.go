//go:build verif

// bclh: correspondence streams + property oracles for the BCL cluster
// (C11 bcl.parse, C09 bcl.fmt, C19 bcl.diff). Protocol: /verif/harness/PROTOCOL-bcl.md.
// The stream is selected by the environment variable BCL_STREAM (parse | fmt | diff).
package main

import (
	"fmt"
	"os"
	"strconv"
	"strings"
	"sync/atomic"
	"time"

	"github.com/pentops/j5/internal/bcl/verifbcl"
	"github.com/pentops/j5/internal/verifh/vh"
)

type impl struct {
	stream string
	shards int
	g      *gen
}

var (
	busySince atomic.Int64 // unix nano of the start of the running op, 0 when idle
	busyOp    atomic.Value
)

func main() {
	if len(os.Args) > 1 && os.Args[1] == "dump-unicode" {
		path := verifbcl.UnicodeTablePath()
		if len(os.Args) > 2 {
			path = os.Args[2]
		}
		if err := verifbcl.EnsureUnicodeTable(path); err != nil {
			fmt.Fprintln(os.Stderr, err)
			os.Exit(2)
		}
		fmt.Println(path)
		return
	}
	stream := os.Getenv("BCL_STREAM")
	if stream == "" {
		stream = "parse"
	}
	if stream != "parse" && stream != "fmt" && stream != "diff" {
		fmt.Fprintln(os.Stderr, "BCL_STREAM must be parse, fmt or diff")
		os.Exit(2)
	}
	if err := verifbcl.EnsureUnicodeTable(verifbcl.UnicodeTablePath()); err != nil {
		fmt.Fprintln(os.Stderr, "cannot write the unicode table:", err)
		os.Exit(2)
	}
	shards := 16
	if s, err := strconv.Atoi(os.Getenv("BCL_SHARDS")); err == nil && s > 0 {
		shards = s
	}
	// watchdog: "always terminates" — an op that runs longer than the limit (generous: the
	// machine may be loaded and a few stress inputs take seconds) kills the process; with
	// -flush the engine attributes the crash to the op that has no result line.
	limit := 120 * time.Second
	if s, err := strconv.Atoi(os.Getenv("BCL_OP_TIMEOUT_S")); err == nil && s > 0 {
		limit = time.Duration(s) * time.Second
	}
	go func() {
		for {
			time.Sleep(500 * time.Millisecond)
			if t := busySince.Load(); t != 0 && time.Since(time.Unix(0, t)) > limit {
				op, _ := busyOp.Load().(string)
				if len(op) > 400 {
					op = op[:400] + "…"
				}
				fmt.Fprintf(os.Stderr, "TIMEOUT: op did not terminate within %s: %s\n", limit, op)
				os.Exit(3)
			}
		}
	}()
	vh.Main("bcl."+stream, &impl{stream: stream, shards: shards})
}

func (im *impl) Gen(h *vh.H, i int) string {
	if im.g == nil {
		im.g = newGen(h, im.stream, im.shards)
	}
	return im.g.next(i)
}

func (im *impl) Exec(h *vh.H, op string) string {
	busyOp.Store(op)
	busySince.Store(time.Now().UnixNano())
	defer busySince.Store(0)

	f := strings.Split(op, " ")
	var r *verifbcl.Result
	switch {
	case f[0] == "parse" && len(f) == 2:
		b, ok := vh.UnHex(f[1])
		if !ok {
			return "bad-op"
		}
		r = verifbcl.Parse(string(b))
	case f[0] == "render" && len(f) == 7:
		var n [5]int
		for k := 0; k < 5; k++ {
			v, err := strconv.Atoi(f[1+k])
			if err != nil {
				return "bad-op"
			}
			n[k] = v
		}
		b, ok := vh.UnHex(f[6])
		if !ok {
			return "bad-op"
		}
		r = verifbcl.Render(n[0], n[1], n[2], n[3], n[4], string(b))
	case f[0] == "fmt" && len(f) == 2:
		b, ok := vh.UnHex(f[1])
		if !ok {
			return "bad-op"
		}
		r = verifbcl.Fmt(string(b))
	case f[0] == "diff" && len(f) == 2:
		b, ok := vh.UnHex(f[1])
		if !ok {
			return "bad-op"
		}
		r = verifbcl.Diff(string(b))
	default:
		return "bad-op"
	}
	for _, k := range r.Stats {
		h.Count(k)
	}
	for _, fl := range r.Fails {
		h.Fail(fl.Sig, op, fl.Detail)
	}
	if r.Nontrivial {
		h.Nontrivial(op)
	}
	h.Count("op." + f[0])
	return r.Line
}
