//go:build verif

package main

import (
	"fmt"
	"os"
	"path/filepath"
	"sort"
	"strings"
	"unicode"
	"unicode/utf8"

	"github.com/pentops/j5/internal/verifh/vh"
)

// ---------------------------------------------------------------------------------------------
// Generators. Every random choice comes from h.Rng. Ops are self-contained (`<op> <hex>`).

type gen struct {
	h      *vh.H
	stream string
	shards int
	shard  int
	search bool
	exhLen int
	exhN   int // number of exhaustive ops this shard emits first
	repo   []string
}

type piece struct {
	text string
	tok  bool
}

type doc struct {
	g      *gen
	pieces []piece
}

func (d *doc) tok(s string)  { d.pieces = append(d.pieces, piece{s, true}) }
func (d *doc) raw(s string)  { d.pieces = append(d.pieces, piece{s, false}) }
func (d *doc) String() string {
	var b strings.Builder
	for _, p := range d.pieces {
		b.WriteString(p.text)
	}
	return b.String()
}

var kindsAlphabet = []string{"IDENT", "STRING", "REGEX", "INT", "DECIMAL", "BOOL", "COMMENT", "BLOCK_COMMENT", "DESCRIPTION",
	"=", "{", "}", "[", "]", ".", ",", ":", "+", "!", "?", "EOL"}

func pow(b, e int) int {
	r := 1
	for ; e > 0; e-- {
		r *= b
	}
	return r
}

func newGen(h *vh.H, stream string, shards int) *gen {
	g := &gen{h: h, stream: stream, shards: shards}
	k := int(h.Seed % 1000003)
	if k >= 7919 {
		g.search = true
		k -= 7919
	}
	g.shard = k % shards
	if stream == "parse" && !g.search {
		g.exhLen = 4
		if h.Tier == "thorough" {
			g.exhLen = 5
		}
		total := 0
		for l := 0; l <= g.exhLen; l++ {
			total += pow(len(kindsAlphabet), l)
		}
		if total > g.shard {
			g.exhN = (total - g.shard + shards - 1) / shards
		}
	}
	g.loadRepo()
	return g
}

func (g *gen) loadRepo() {
	root := os.Getenv("VERIF_REPO")
	if root == "" {
		root = "/repo"
	}
	var files []string
	filepath.WalkDir(root, func(p string, d os.DirEntry, err error) error {
		if err != nil {
			return nil
		}
		if d.IsDir() {
			n := d.Name()
			if n == ".git" || n == "node_modules" {
				return filepath.SkipDir
			}
			return nil
		}
		if strings.HasSuffix(p, ".j5s") || strings.HasSuffix(p, ".bcl") ||
			(strings.Contains(p, "internal/bcl/internal/parser/testdata") && strings.HasSuffix(p, ".txt")) {
			files = append(files, p)
		}
		return nil
	})
	sort.Strings(files)
	for _, f := range files {
		if b, err := os.ReadFile(f); err == nil && len(b) > 0 {
			g.repo = append(g.repo, string(b))
		}
	}
	if len(g.repo) == 0 {
		g.repo = []string{"package foo.v1\n\nobject Foo {\n\t| desc\n\tfield bar string {\n\t\trequired = true\n\t}\n}\n"}
	}
}

func (g *gen) next(i int) string {
	h := g.h
	switch g.stream {
	case "parse":
		if i < g.exhN {
			h.Count("gen.exhaustive")
			return "parse " + vh.Hex([]byte(g.exhaustive(g.shard+i*g.shards)))
		}
		if h.Rng.IntN(1500) == 0 {
			h.Count("gen.stress")
			return "parse " + vh.Hex([]byte(g.stress()))
		}
		switch c := h.Rng.IntN(20); {
		case c < 4:
			h.Count("gen.valid")
			return "parse " + vh.Hex([]byte(g.validDoc(30).String()))
		case c < 10:
			h.Count("gen.tokmut")
			return "parse " + vh.Hex([]byte(g.tokenMutation()))
		case c < 13:
			h.Count("gen.repomut")
			return "parse " + vh.Hex([]byte(g.repoMutation(40)))
		case c < 15:
			h.Count("gen.unicode")
			return "parse " + vh.Hex([]byte(g.unicodeString(1+h.Rng.IntN(24))))
		case c < 16:
			h.Count("gen.bytes")
			b := make([]byte, h.Rng.IntN(24))
			for k := range b {
				b[k] = g.interestingByte()
			}
			return "parse " + vh.Hex(b)
		case c < 18:
			h.Count("gen.randtok")
			return "parse " + vh.Hex([]byte(g.randomTokens(1+h.Rng.IntN(9))))
		default:
			h.Count("gen.render")
			return g.renderOp()
		}
	case "fmt", "diff":
		op := g.stream + " "
		if os.Getenv("BCL_ONLY") == "shapes" { // development: only the shapes generator
			h.Count("gen.shapes")
			return op + vh.Hex([]byte(g.shapes()))
		}
		switch c := h.Rng.IntN(20); {
		case c < 11:
			h.Count("gen.valid")
			return op + vh.Hex([]byte(g.validDoc(4+h.Rng.IntN(40)).String()))
		case c < 13:
			h.Count("gen.shapes")
			return op + vh.Hex([]byte(g.shapes()))
		case c < 16:
			h.Count("gen.repomut")
			return op + vh.Hex([]byte(g.repoMutation(60)))
		case c < 18:
			h.Count("gen.small")
			return op + vh.Hex([]byte(g.validDoc(1+h.Rng.IntN(3)).String()))
		case c < 19:
			h.Count("gen.tokmut")
			return op + vh.Hex([]byte(g.tokenMutation()))
		default:
			h.Count("gen.randtok")
			return op + vh.Hex([]byte(g.randomTokens(1+h.Rng.IntN(9))))
		}
	}
	return ""
}

// ------------------------------------------------------------------ bounded-exhaustive sequences

// exhaustive renders the j-th token-kind sequence (ordered by length, then lexicographically over
// kindsAlphabet) with spelling and spacing variants chosen from a hash of j.
func (g *gen) exhaustive(j int) string {
	n := len(kindsAlphabet)
	l := 0
	for ; ; l++ {
		c := pow(n, l)
		if j < c {
			break
		}
		j -= c
	}
	seq := make([]int, l)
	x := j
	for k := l - 1; k >= 0; k-- {
		seq[k] = x % n
		x /= n
	}
	hsh := uint64(j)*0x9e3779b97f4a7c15 + uint64(l)*0x632be59bd9b4e019
	pick := func(m int) int {
		hsh ^= hsh >> 29
		hsh *= 0xbf58476d1ce4e5b9
		hsh ^= hsh >> 32
		return int(hsh % uint64(m))
	}
	var b strings.Builder
	b.WriteString([]string{"", "", " ", "\t", "\n"}[pick(5)])
	prev := ""
	for _, kidx := range seq {
		var s string
		switch kindsAlphabet[kidx] {
		case "IDENT":
			s = []string{"foo", "a", "é", "x_1", "B2"}[pick(5)]
		case "STRING":
			s = []string{`"s"`, `""`, `"a\"b"`, `"é\\"`, "\"a\\\nb\""}[pick(5)]
		case "REGEX":
			s = []string{"/r/", "/a//b/", `/\d+/`, "/ /"}[pick(4)]
		case "INT":
			s = []string{"1", "42", "007", "٣"}[pick(4)]
		case "DECIMAL":
			s = []string{"1.5", "0.0", "3."}[pick(3)]
		case "BOOL":
			s = []string{"true", "false"}[pick(2)]
		case "COMMENT":
			s = []string{"//c", "// c ", "//"}[pick(3)]
		case "BLOCK_COMMENT":
			s = []string{"/*b*/", "/* a\nb */", "/**/"}[pick(3)]
		case "DESCRIPTION":
			s = []string{"|d", "| two words", "|"}[pick(3)]
		case "EOL":
			s = "\n"
		default:
			s = kindsAlphabet[kidx]
		}
		sep := []string{" ", " ", "", "\t", "  "}[pick(5)]
		if sep == "" && glue(prev, s) {
			sep = " "
		}
		if prev != "" {
			b.WriteString(sep)
		}
		b.WriteString(s)
		prev = s
	}
	b.WriteString([]string{"", "", "\n", " ", "\n\n"}[pick(5)])
	return b.String()
}

func wordy(r rune) bool { return r == '_' || unicode.IsLetter(r) || unicode.IsDigit(r) }

// glue reports whether writing b directly after a would merge or re-split tokens.
func glue(a, b string) bool {
	if a == "" || b == "" {
		return false
	}
	la, _ := utf8.DecodeLastRuneInString(a)
	fb, _ := utf8.DecodeRuneInString(b)
	switch {
	case wordy(la) && wordy(fb):
		return true
	case unicode.IsDigit(la) && fb == '.', la == '.' && unicode.IsDigit(fb):
		return true
	case la == '/' && (fb == '/' || fb == '*'):
		return true
	}
	return false
}

// ------------------------------------------------------------------ spelling of literals

func (g *gen) ident() string {
	h := g.h
	first := []string{"a", "b", "foo", "bar", "x", "Obj", "field", "é", "λ", "名", "true", "false", "package", "z"}
	s := vh.Pick(h, first)
	for k := h.Rng.IntN(3); k > 0; k-- {
		s += vh.Pick(h, []string{"a", "1", "_", "Z", "9", "é", "٣", "_x"})
	}
	return s
}

func (g *gen) reference() []string {
	n := 1
	if g.h.Chance(1, 3) {
		n += 1 + g.h.Rng.IntN(2)
	}
	var out []string
	for k := 0; k < n; k++ {
		if k > 0 {
			out = append(out, ".")
		}
		out = append(out, g.ident())
	}
	return out
}

func (g *gen) randRune() rune {
	h := g.h
	for {
		var r rune
		switch c := h.Rng.IntN(10); {
		case c < 4:
			r = rune(h.Rng.IntN(0x80))
		case c < 6:
			r = rune(0x80 + h.Rng.IntN(0x800-0x80))
		case c < 9:
			r = rune(0x800 + h.Rng.IntN(0x10000-0x800))
		default:
			r = rune(0x10000 + h.Rng.IntN(0x110000-0x10000))
		}
		if r >= 0xd800 && r <= 0xdfff {
			continue
		}
		return r
	}
}

var specialRunes = []rune{'\t', ' ', 0xa0, 0x200b, 0x2028, 0x2029, 0x85, 0x3000, 0x7f, 0x01, 0x00, 0xfffd, 0xfeff, 0x1f600, 0xe9,
	0x4e16, 0x301, 0x660, 0xff11, 0x1d7ce, 0x2160, 0xaa, 0x1680, 0x180e, 0x0b, 0x0c, 0x1c, 0x1f}

func (g *gen) stringLit() string {
	h := g.h
	var b strings.Builder
	b.WriteByte('"')
	for k := h.Rng.IntN(7); k > 0; k-- {
		switch c := h.Rng.IntN(16); {
		case c < 5:
			b.WriteString(vh.Pick(h, []string{"a", "value", "foo bar", "x", "1", "A-Z", "it's", "{", "}", "=", "|", "#", "%d", "\\\\n"}))
		case c < 6:
			b.WriteString(`\\`)
		case c < 7:
			b.WriteString(`\"`)
		case c < 8:
			b.WriteString("\\\n")
		case c < 9:
			b.WriteString(vh.Pick(h, []string{"/", "//", "/*", "*/", "// x"}))
		case c < 12:
			r := vh.Pick(h, specialRunes)
			if g.stream != "parse" && r == '\r' {
				r = ' '
			}
			b.WriteRune(r)
		default:
			r := g.randRune()
			if r == '"' || r == '\\' || r == '\n' || r == '\r' {
				r = 'q'
			}
			b.WriteRune(r)
		}
	}
	b.WriteByte('"')
	return b.String()
}

func (g *gen) regexLit() string {
	h := g.h
	var b strings.Builder
	b.WriteByte('/')
	b.WriteString(vh.Pick(h, []string{"a", "^", "[a-z]", "\\d", "x", " ", "é", "\"", "\\\\", ".", "(", "|"}))
	for k := h.Rng.IntN(5); k > 0; k-- {
		switch c := h.Rng.IntN(12); {
		case c < 5:
			b.WriteString(vh.Pick(h, []string{"a", "+", "*", "$", "[0-9]{2}", "\\/", "\\", "\"", " ", "b|c", "\t", "\\n"}))
		case c < 8:
			b.WriteString("//")
		case c < 10:
			b.WriteRune(vh.Pick(h, specialRunes))
		default:
			r := g.randRune()
			if r == '/' || r == '\n' || r == '\r' {
				r = 'r'
			}
			b.WriteRune(r)
		}
	}
	b.WriteByte('/')
	return b.String()
}

func (g *gen) number() string {
	h := g.h
	d := func() string {
		s := ""
		for k := 1 + h.Rng.IntN(4); k > 0; k-- {
			if h.Chance(1, 12) {
				s += vh.Pick(h, []string{"٣", "１", "𝟎"})
			} else {
				s += string(rune('0' + h.Rng.IntN(10)))
			}
		}
		return s
	}
	switch h.Rng.IntN(4) {
	case 0:
		return d() + "." + d()
	case 1:
		if h.Chance(1, 3) {
			return d() + "."
		}
	}
	return d()
}

func (g *gen) commentText() string {
	h := g.h
	s := vh.Pick(h, []string{"", " ", " comment", "comment", " a  b ", "/", "/ doc", " \"q\"", " é λ", "\t tab", " trailing   ", " | x", " }", " /* x */"})
	if h.Chance(1, 6) {
		s += string(vh.Pick(h, specialRunes))
	}
	return s
}

func (g *gen) blockComment() string {
	h := g.h
	var b strings.Builder
	b.WriteString("/*")
	for k := h.Rng.IntN(4); k > 0; k-- {
		b.WriteString(vh.Pick(h, []string{" a", "b ", "\n", "\n\t", "\n   ", "*", "/", " * ", "**", "\n\n", "é", " x = 1", "//", "\t"}))
	}
	if !h.Chance(1, 25) { // rarely unterminated
		b.WriteString("*/")
	}
	return b.String()
}

func (g *gen) descText() string {
	h := g.h
	var words []string
	for k := h.Rng.IntN(9); k > 0; k-- {
		switch c := h.Rng.IntN(14); {
		case c < 8:
			words = append(words, vh.Pick(h, []string{"a", "the", "description", "of", "Something", "long-ish-word-with-hyphens", "x.", "é", "1", "|", "//", "\"q\"", "{", "}"}))
		case c < 9:
			words = append(words, "") // double space
		case c < 10:
			words = append(words, strings.Repeat("w", 10+h.Rng.IntN(75)))
		case c < 11:
			words = append(words, "tab\there")
		case c < 12:
			words = append(words, string(vh.Pick(h, specialRunes)))
		default:
			words = append(words, strings.Repeat("ab ", 1+h.Rng.IntN(12))+"c")
		}
	}
	s := strings.Join(words, " ")
	if h.Chance(1, 5) {
		s += vh.Pick(h, []string{" ", "  ", "\t"})
	}
	return s
}

// ------------------------------------------------------------------ grammar-directed documents

func (d *doc) ws(optional bool) {
	h := d.g.h
	if optional && h.Chance(1, 3) {
		return
	}
	d.raw(vh.Pick(h, []string{" ", " ", " ", " ", "  ", "\t", "   ", " \t"}))
}

// sep writes whitespace between two tokens; it may be empty only when the tokens do not glue.
func (d *doc) sepTok(next string) {
	prev := ""
	if n := len(d.pieces); n > 0 && d.pieces[n-1].tok {
		prev = d.pieces[n-1].text
	}
	d.ws(!glue(prev, next))
	d.tok(next)
}

func (d *doc) indent(depth int) {
	h := d.g.h
	switch c := h.Rng.IntN(10); {
	case c < 6:
		d.raw(strings.Repeat("\t", depth))
	case c < 7:
	case c < 8:
		d.raw(strings.Repeat("  ", depth+h.Rng.IntN(2)))
	case c < 9:
		d.raw(strings.Repeat("\t", h.Rng.IntN(4)))
	default:
		d.raw(vh.Pick(h, []string{" ", "\t ", "    ", " \t"}))
	}
}

func (d *doc) eol() {
	h := d.g.h
	if h.Chance(1, 6) {
		d.raw(vh.Pick(h, []string{" ", "  ", "\t"}))
	}
	d.tok("\n")
}

func (d *doc) value(depth int) {
	g, h := d.g, d.g.h
	switch c := h.Rng.IntN(20); {
	case c < 6:
		d.sepTok(g.stringLit())
	case c < 8:
		d.sepTok(g.number())
	case c < 10:
		d.sepTok(vh.Pick(h, []string{"true", "false"}))
	case c < 12:
		d.sepTok(g.regexLit())
	case c < 14:
		for k, p := range g.reference() {
			if k == 0 {
				d.sepTok(p)
			} else {
				d.tok(p)
			}
		}
	case c < 18 && depth < 3:
		d.sepTok("[")
		n := h.Rng.IntN(4)
		for k := 0; k < n; k++ {
			if k > 0 {
				d.sepTok(",")
			}
			d.value(depth + 1)
		}
		d.sepTok("]")
	case c < 19:
		d.sepTok(g.stringLit())
	default:
		// comment / description tokens are literals too
		switch h.Rng.IntN(3) {
		case 0:
			d.sepTok(g.blockComment())
		default:
			d.sepTok(g.stringLit())
		}
	}
}

func (d *doc) trailingComment() bool {
	h := d.g.h
	if h.Chance(1, 4) {
		d.sepTok("//" + d.g.commentText())
		return true
	}
	return false
}

func (d *doc) tag() {
	g, h := d.g, d.g.h
	if h.Chance(1, 6) {
		d.sepTok(vh.Pick(h, []string{"!", "?"}))
	}
	if h.Chance(1, 4) {
		d.sepTok(g.stringLit())
		return
	}
	for k, p := range g.reference() {
		if k == 0 {
			d.sepTok(p)
		} else {
			d.tok(p)
		}
	}
}

func (d *doc) assignment() {
	g, h := d.g, d.g.h
	for k, p := range g.reference() {
		if k == 0 {
			d.tok(p)
		} else {
			d.tok(p)
		}
	}
	if h.Chance(1, 5) {
		d.sepTok("+")
		if h.Chance(1, 2) {
			d.tok("=")
		} else {
			d.sepTok("=")
		}
	} else {
		d.sepTok("=")
	}
	if h.Chance(1, 40) {
		// a comment or a description is lexically a literal: `a = // c`, `a = | text`
		if h.Chance(1, 2) {
			d.sepTok("//" + g.commentText())
		} else {
			d.sepTok("|" + g.descText())
		}
		return
	}
	d.value(0)
	d.trailingComment()
}

// header writes a block header; returns true if it opened a block.
func (d *doc) header(allowOpen bool) bool {
	g, h := d.g, d.g.h
	for _, p := range g.reference() {
		d.tok(p)
	}
	for k := h.Rng.IntN(3); k > 0; k-- {
		d.tag()
	}
	for k := h.Rng.IntN(6) - 3; k > 0; k-- {
		d.sepTok(":")
		d.tag()
	}
	switch c := h.Rng.IntN(10); {
	case c < 5 && allowOpen:
		d.sepTok("{")
		d.trailingComment()
		return true
	case c < 7:
		d.sepTok("|" + g.descText())
	case c < 9:
		d.trailingComment()
	}
	return false
}

func (d *doc) blank() {
	h := d.g.h
	for k := 1 + h.Rng.IntN(3); k > 0; k-- {
		if h.Chance(1, 4) {
			d.raw(vh.Pick(h, []string{" ", "\t", "  ", "\t\t "}))
		}
		d.tok("\n")
	}
}

func (d *doc) statements(depth int, budget *int) {
	g, h := d.g, d.g.h
	for *budget > 0 {
		*budget--
		if depth > 0 && h.Chance(1, 4) {
			return
		}
		switch c := h.Rng.IntN(24); {
		case c < 7:
			d.indent(depth)
			d.assignment()
			d.eol()
		case c < 12:
			d.indent(depth)
			if d.header(depth < 4) {
				d.eol()
				d.statements(depth+1, budget)
				d.indent(depth)
				d.tok("}")
				// something else on the closing line
				switch h.Rng.IntN(12) {
				case 0:
					d.sepTok("//" + g.commentText())
				case 1:
					d.ws(true)
					d.assignment()
				case 2:
					d.sepTok(g.blockComment())
				case 3:
					d.ws(true)
					d.header(false)
				}
				d.eol()
			} else {
				d.eol()
			}
		case c < 15:
			// description block
			for k := 1 + h.Rng.IntN(4); k > 0; k-- {
				d.indent(depth)
				if h.Chance(1, 5) {
					d.tok("|")
				} else {
					d.tok("|" + vh.Pick(h, []string{" ", "", "  ", "\t"}) + g.descText())
				}
				d.tok("\n")
			}
		case c < 18:
			d.indent(depth)
			d.tok("//" + g.commentText())
			d.tok("\n")
		case c < 20:
			d.indent(depth)
			d.tok(g.blockComment())
			switch h.Rng.IntN(8) {
			case 0:
				d.ws(true)
				d.assignment()
			case 1:
				d.sepTok(g.blockComment())
			case 2:
				d.sepTok("//" + g.commentText())
			}
			d.eol()
		default:
			d.blank()
		}
	}
}

func (g *gen) validDoc(budget int) *doc {
	h := g.h
	d := &doc{g: g}
	if h.Chance(1, 6) {
		d.blank()
	}
	b := budget
	d.statements(0, &b)
	// end of file variants
	switch h.Rng.IntN(8) {
	case 0:
		if n := len(d.pieces); n > 0 && d.pieces[n-1].text == "\n" {
			d.pieces = d.pieces[:n-1]
		}
	case 1:
		d.blank()
	case 2:
		d.raw(vh.Pick(h, []string{" ", "\t", "  \n  "}))
	}
	return d
}

// uniSpaces are the runes other than ' ', tab and newline for which unicode.IsSpace holds (no '\r': the
// property is about CRLF-free text): the lexer skips them between tokens, the formatter prints ' '.
var uniSpaces = []string{"\v", "\f", "\u0085", "\u00a0", "\u1680", "\u2003", "\u2028", "\u2029", "\u202f", "\u3000"}

// sp is white space between two tokens of a shape: mostly ' ' / tab, sometimes a Unicode space.
func (g *gen) sp() string {
	h := g.h
	switch c := h.Rng.IntN(10); {
	case c < 5:
		return " "
	case c < 6:
		return "\t"
	case c < 7:
		return "  "
	case c < 9:
		return vh.Pick(h, uniSpaces)
	default:
		return " " + vh.Pick(h, uniSpaces) + "\t"
	}
}

// blankish is the content of a line that holds no token.
func (g *gen) blankish() string {
	h := g.h
	switch c := h.Rng.IntN(8); {
	case c < 4:
		return ""
	case c < 5:
		return " "
	case c < 6:
		return "\t\t"
	default:
		return vh.Pick(h, uniSpaces) + vh.Pick(h, []string{"", " ", "\t"})
	}
}

func (g *gen) descLine() string {
	h := g.h
	switch c := h.Rng.IntN(12); {
	case c < 1:
		return "|"
	case c < 2:
		return "|" + g.sp()
	case c < 3:
		return "|" + vh.Pick(h, uniSpaces) + g.descText()
	case c < 4: // very long words, also with token-like content
		return "| " + strings.Repeat(vh.Pick(h, []string{"w", "é", "|", "/", "ab"}), 60+h.Rng.IntN(200)) + " " + vh.Pick(h, []string{"x", "//c", "/*c*/", "}", "| y"})
	default:
		return "|" + vh.Pick(h, []string{" ", "", "  ", "\t"}) + g.descText()
	}
}

// shapes: documents built around the constructions the whole-file proof of C09 has to treat one by one
// (what follows a fragment on its line, what separates two fragments, which white space separates tokens).
func (g *gen) shapes() string {
	h := g.h
	var b strings.Builder
	ref := func() string { return strings.Join(g.reference(), "") }
	tag := func() string {
		s := ""
		if h.Chance(1, 3) {
			s = vh.Pick(h, []string{"!", "?"}) + vh.Pick(h, []string{"", " ", g.sp()})
		}
		if h.Chance(1, 3) {
			return s + g.stringLit()
		}
		return s + ref()
	}
	hdr := func() string {
		s := ref()
		for k := h.Rng.IntN(3); k > 0; k-- {
			s += g.sp() + tag()
		}
		for k := h.Rng.IntN(3); k > 0; k-- {
			s += vh.Pick(h, []string{":", " : ", ":" + g.sp(), g.sp() + ":"}) + tag()
		}
		return s
	}
	scalar := func() string {
		switch h.Rng.IntN(7) {
		case 0:
			return g.stringLit()
		case 1:
			return g.number()
		case 2:
			return vh.Pick(h, []string{"true", "false"})
		case 3:
			return g.regexLit()
		case 4:
			return ref()
		case 5:
			return g.blockComment()
		default:
			return "\"a\\\nb\"" // a string over two lines
		}
	}
	assign := func() string {
		s := ref() + vh.Pick(h, []string{" = ", "=", " += ", "+=", g.sp() + "=" + g.sp(), " +" + g.sp() + "= "})
		switch c := h.Rng.IntN(10); {
		case c < 1:
			return s + "//" + g.commentText()
		case c < 2:
			return s + g.descLine()
		case c < 4:
			n := h.Rng.IntN(4)
			var es []string
			for k := 0; k < n; k++ {
				es = append(es, scalar())
			}
			s += "[" + vh.Pick(h, []string{"", " ", g.sp()}) + strings.Join(es, vh.Pick(h, []string{",", ", ", " , ", "," + g.sp()})) + "]"
		default:
			s += scalar()
		}
		if h.Chance(1, 3) {
			s += vh.Pick(h, []string{" ", "", g.sp()}) + "//" + g.commentText()
		}
		return s
	}
	indent := func(depth int) string {
		switch c := h.Rng.IntN(8); {
		case c < 4:
			return strings.Repeat("\t", depth)
		case c < 5:
			return ""
		case c < 6:
			return strings.Repeat(" ", h.Rng.IntN(9))
		default:
			return vh.Pick(h, uniSpaces) + strings.Repeat("\t", h.Rng.IntN(3))
		}
	}
	depth := 0
	for n := 1 + h.Rng.IntN(10); n > 0; n-- {
		switch c := h.Rng.IntN(16); {
		case c < 2: // description blocks separated by one line without token, or by a comment
			b.WriteString(indent(depth) + g.descLine() + "\n")
			if h.Chance(1, 2) {
				b.WriteString(indent(depth) + g.descLine() + "\n")
			}
			switch h.Rng.IntN(4) {
			case 0:
				b.WriteString(g.blankish() + "\n")
			case 1:
				b.WriteString(g.blankish() + "\n" + g.blankish() + "\n")
			case 2:
				b.WriteString(indent(depth) + "//" + g.commentText() + "\n")
			}
			b.WriteString(indent(depth) + g.descLine() + "\n")
		case c < 4: // header with a description, a description block right after it
			b.WriteString(indent(depth) + hdr() + g.sp() + g.descLine() + "\n")
			if h.Chance(2, 3) {
				b.WriteString(indent(depth) + g.descLine() + "\n")
			}
		case c < 6: // open header, trailing comment or not
			b.WriteString(indent(depth) + hdr() + vh.Pick(h, []string{" {", "{", g.sp() + "{"}))
			if h.Chance(1, 3) {
				b.WriteString(vh.Pick(h, []string{" ", "", g.sp()}) + "//" + g.commentText())
			}
			b.WriteString(vh.Pick(h, []string{"", " ", "\t"}) + "\n")
			depth++
		case c < 8: // closing braces, several on a line, followed by other fragments
			if depth == 0 && !h.Chance(1, 8) {
				b.WriteString(indent(depth) + assign() + "\n")
				break
			}
			b.WriteString(indent(depth) + "}")
			if depth > 0 {
				depth--
			}
			for depth > 0 && h.Chance(1, 3) {
				b.WriteString(vh.Pick(h, []string{" ", "", g.sp()}) + "}")
				depth--
			}
			switch h.Rng.IntN(8) {
			case 0:
				b.WriteString(g.sp() + "//" + g.commentText())
			case 1:
				b.WriteString(g.sp() + g.descLine())
			case 2:
				b.WriteString(g.sp() + g.blockComment() + vh.Pick(h, []string{"", " }", " " + assign()}))
			case 3:
				b.WriteString(g.sp() + assign())
			case 4:
				b.WriteString(g.sp() + hdr())
			}
			b.WriteString("\n")
		case c < 10:
			b.WriteString(indent(depth) + assign() + "\n")
		case c < 11: // block comments followed by other fragments on their last line
			b.WriteString(indent(depth) + g.blockComment())
			switch h.Rng.IntN(5) {
			case 0:
				b.WriteString(g.sp() + assign())
			case 1:
				b.WriteString(g.sp() + "//" + g.commentText())
			case 2:
				b.WriteString(g.sp() + g.descLine())
			case 3:
				b.WriteString(g.sp() + g.blockComment() + g.sp() + hdr())
			}
			b.WriteString("\n")
		case c < 12: // plain header
			b.WriteString(indent(depth) + hdr())
			if h.Chance(1, 2) {
				b.WriteString(vh.Pick(h, []string{" ", "", g.sp()}) + "//" + g.commentText())
			}
			b.WriteString(g.blankish() + "\n")
		case c < 13: // deep nesting: the description width becomes small, zero, negative
			k := 14 + h.Rng.IntN(12)
			for j := 0; j < k; j++ {
				b.WriteString("b {\n")
			}
			b.WriteString(g.descLine() + "\n" + g.descLine() + "\n")
			if h.Chance(1, 2) {
				b.WriteString(strings.Repeat("}\n", k))
			} else {
				b.WriteString(strings.Repeat("} ", k) + "\n")
			}
		case c < 14:
			b.WriteString(indent(depth) + "//" + g.commentText() + "\n")
		default:
			for k := 1 + h.Rng.IntN(3); k > 0; k-- {
				b.WriteString(g.blankish() + "\n")
			}
		}
	}
	for ; depth > 0; depth-- {
		b.WriteString(vh.Pick(h, []string{"}\n", "} ", "}", "\t}\n"}))
	}
	switch h.Rng.IntN(6) {
	case 0:
		return strings.TrimRight(b.String(), "\n")
	case 1:
		return b.String() + "/* open" + vh.Pick(h, []string{"", " *", "\n x"})
	case 2:
		return b.String() + g.blankish()
	}
	return b.String()
}

// stress: deep nesting, long tokens, many statements, many diagnostics.
func (g *gen) stress() string {
	h := g.h
	size := 40 + h.Rng.IntN(260)
	if h.Tier == "thorough" {
		size = 300 + h.Rng.IntN(2700)
	}
	// rendering n diagnostics against one long line costs n × len(line) string operations in errpos (and
	// in the model): keep the quadratic cases small so that no op comes near the watchdog limit
	small := min(size, 400)
	switch h.Rng.IntN(7) {
	case 0: // deeply nested array, closed or not
		s := "a = " + strings.Repeat("[", size) + "1"
		if h.Chance(1, 2) {
			s += strings.Repeat("]", size-h.Rng.IntN(2))
		}
		return s + "\n"
	case 1: // deeply nested blocks
		var b strings.Builder
		for k := 0; k < size; k++ {
			b.WriteString("b t {\n")
		}
		for k := size - h.Rng.IntN(3); k > 0; k-- {
			b.WriteString("}\n")
		}
		return b.String()
	case 2: // long tokens
		return strings.Repeat("x", size) + " = \"" + strings.Repeat("é", size) + "\" //" + strings.Repeat("c", size) + "\n|" + strings.Repeat(" w", size) + "\n"
	case 3: // long reference / many tags / qualifiers
		return "a" + strings.Repeat(".b", size) + strings.Repeat(" t", size/4) + strings.Repeat(":q", size/4) + " {\n}\n"
	case 4: // many diagnostics in collect-all mode
		return strings.Repeat("= 1\n", size)
	case 5: // many lexer errors
		return strings.Repeat("# ", small) + "\n" + strings.Repeat("\"\n", small/4)
	default: // many lines
		var b strings.Builder
		for k := 0; k < size; k++ {
			fmt.Fprintf(&b, "k%d = %d\n", k, k)
		}
		return b.String()
	}
}

// tokenMutation: a valid document with one token deleted, inserted or two swapped.
func (g *gen) tokenMutation() string {
	h := g.h
	d := g.validDoc(1 + h.Rng.IntN(8))
	var idx []int
	for i, p := range d.pieces {
		if p.tok {
			idx = append(idx, i)
		}
	}
	if len(idx) == 0 {
		return g.randomTokens(3)
	}
	ps := d.pieces
	switch h.Rng.IntN(4) {
	case 0: // delete
		k := vh.Pick(h, idx)
		ps = append(append([]piece{}, ps[:k]...), ps[k+1:]...)
		h.Count("gen.tokmut.delete")
	case 1: // insert
		k := vh.Pick(h, idx)
		ins := piece{g.anyToken(), true}
		ps = append(append(append([]piece{}, ps[:k]...), ins, piece{vh.Pick(h, []string{"", " ", " "}), false}), ps[k:]...)
		h.Count("gen.tokmut.insert")
	case 2: // swap
		a, b := vh.Pick(h, idx), vh.Pick(h, idx)
		ps = append([]piece{}, ps...)
		ps[a], ps[b] = ps[b], ps[a]
		h.Count("gen.tokmut.swap")
	default: // replace
		k := vh.Pick(h, idx)
		ps = append([]piece{}, ps...)
		ps[k] = piece{g.anyToken(), true}
		h.Count("gen.tokmut.replace")
	}
	var b strings.Builder
	for _, p := range ps {
		b.WriteString(p.text)
	}
	return b.String()
}

func (g *gen) anyToken() string {
	h := g.h
	switch h.Rng.IntN(22) {
	case 0:
		return g.ident()
	case 1:
		return g.stringLit()
	case 2:
		return g.regexLit()
	case 3:
		return g.number()
	case 4:
		return vh.Pick(h, []string{"true", "false"})
	case 5:
		return "//" + g.commentText()
	case 6:
		return g.blockComment()
	case 7:
		return "|" + g.descText()
	case 8:
		return "\n"
	case 9:
		return vh.Pick(h, []string{"\"", "/", "\\", "/*", "\"abc", "/re", "1.2.3", "_", "-", "#", "\"\\x\"", "'", ";", "(", "@"})
	default:
		return vh.Pick(h, []string{"=", "{", "}", "[", "]", ".", ",", ":", "+", "!", "?"})
	}
}

func (g *gen) randomTokens(n int) string {
	h := g.h
	var b strings.Builder
	prev := ""
	for k := 0; k < n; k++ {
		t := g.anyToken()
		sep := vh.Pick(h, []string{" ", " ", "", "\t", "\n"})
		if sep == "" && glue(prev, t) && h.Chance(3, 4) {
			sep = " "
		}
		if k > 0 {
			b.WriteString(sep)
		}
		b.WriteString(t)
		prev = t
	}
	if h.Chance(1, 2) {
		b.WriteString("\n")
	}
	return b.String()
}

// repoMutation: a window of one of /repo's BCL / j5s files with a few character- or word-level edits.
func (g *gen) repoMutation(maxLines int) string {
	h := g.h
	lines := strings.Split(vh.Pick(h, g.repo), "\n")
	if len(lines) > maxLines {
		start := h.Rng.IntN(len(lines) - maxLines + 1)
		if h.Chance(1, 2) {
			// start at a top-level line to keep braces balanced more often
			for start > 0 && (strings.HasPrefix(lines[start], "\t") || strings.HasPrefix(lines[start], " ") || lines[start] == "}") {
				start--
			}
		}
		end := start + 1 + h.Rng.IntN(maxLines)
		if end > len(lines) {
			end = len(lines)
		}
		lines = lines[start:end]
	}
	s := strings.Join(lines, "\n")
	rs := []rune(s)
	for k := h.Rng.IntN(4); k > 0 && len(rs) > 0; k-- {
		p := h.Rng.IntN(len(rs))
		switch h.Rng.IntN(6) {
		case 0: // delete a rune
			rs = append(rs[:p:p], rs[p+1:]...)
		case 1: // insert an interesting rune
			ins := vh.Pick(h, []rune{'"', '\\', '/', '|', '{', '}', '\n', '\t', ' ', 'é', '=', '[', ']', ',', '.', ':', '!', '?', '+', '*', 0x200b, 0xa0, '1', 'x'})
			rs = append(rs[:p:p], append([]rune{ins}, rs[p:]...)...)
		case 2: // duplicate a line
			ls := strings.Split(string(rs), "\n")
			q := h.Rng.IntN(len(ls))
			ls = append(ls[:q+1:q+1], ls[q:]...)
			rs = []rune(strings.Join(ls, "\n"))
		case 3: // delete a line
			ls := strings.Split(string(rs), "\n")
			q := h.Rng.IntN(len(ls))
			ls = append(ls[:q:q], ls[q+1:]...)
			rs = []rune(strings.Join(ls, "\n"))
		case 4: // join with next line
			ls := strings.Split(string(rs), "\n")
			if len(ls) > 1 {
				q := h.Rng.IntN(len(ls) - 1)
				ls[q] = ls[q] + " " + strings.TrimLeft(ls[q+1], " \t")
				ls = append(ls[:q+1:q+1], ls[q+2:]...)
				rs = []rune(strings.Join(ls, "\n"))
			}
		default: // mess with indentation / trailing space
			ls := strings.Split(string(rs), "\n")
			q := h.Rng.IntN(len(ls))
			ls[q] = vh.Pick(h, []string{"", " ", "\t\t", "   "}) + strings.TrimLeft(ls[q], " \t") + vh.Pick(h, []string{"", " ", "\t", " // c"})
			rs = []rune(strings.Join(ls, "\n"))
		}
	}
	return string(rs)
}

func (g *gen) unicodeString(n int) string {
	h := g.h
	var b strings.Builder
	for k := 0; k < n; k++ {
		switch c := h.Rng.IntN(10); {
		case c < 3:
			b.WriteRune(g.randRune())
		case c < 5:
			b.WriteRune(vh.Pick(h, specialRunes))
		case c < 8:
			b.WriteString(vh.Pick(h, []string{"a", "=", "\"", "/", "|", "\n", " ", "{", "}", "1", ".", "\\", "*", "[", "]", ",", ":", "é", "_"}))
		default:
			b.WriteString(g.anyToken())
		}
	}
	return b.String()
}

func (g *gen) interestingByte() byte {
	h := g.h
	switch h.Rng.IntN(4) {
	case 0:
		return byte(h.Rng.IntN(256))
	case 1:
		return vh.Pick(h, []byte{0xc0, 0xc3, 0xe2, 0xed, 0xf0, 0xf4, 0xff, 0x80, 0xa0, 0xbf, 0xa9, 0x82, 0xac})
	default:
		return vh.Pick(h, []byte("a1 =\"/|\n{}.\\*"))
	}
}

func (g *gen) renderOp() string {
	h := g.h
	var src string
	switch h.Rng.IntN(4) {
	case 0:
		src = g.unicodeString(h.Rng.IntN(16))
	case 1:
		b := make([]byte, h.Rng.IntN(16))
		for k := range b {
			b[k] = g.interestingByte()
		}
		src = string(b)
	default:
		src = g.validDoc(1 + h.Rng.IntN(5)).String()
	}
	lines := strings.Split(src, "\n")
	pt := func() (int, int) {
		l := h.Rng.IntN(len(lines)+4) - 2
		w := 0
		if l >= 0 && l < len(lines) {
			w = len(lines[l])
		}
		c := h.Rng.IntN(w+5) - 2
		return l, c
	}
	l1, c1 := pt()
	l2, c2 := pt()
	if h.Chance(1, 2) {
		l2, c2 = l1, c1+h.Rng.IntN(3)
	}
	return fmt.Sprintf("render %d %d %d %d %d %s", l1, c1, l2, c2, h.Rng.IntN(6), vh.Hex([]byte(src)))
}
