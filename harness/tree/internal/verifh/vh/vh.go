//go:build verif

// Package vh is the shared runtime of the verification harnesses: seeded RNG, line-protocol
// output, property-oracle failure records, distinct/non-trivial counters and statistics.
// It is compiled into /repo's module through `go build -overlay` and only with `-tags verif`.
package vh

import (
	"bufio"
	"crypto/sha256"
	"encoding/hex"
	"encoding/json"
	"flag"
	"fmt"
	"math/rand/v2"
	"os"
	"path/filepath"
	"runtime/debug"
	"sort"
	"strings"
	"time"
)

type Failure struct {
	Stream    string `json:"stream"`
	Signature string `json:"signature"`
	Op        string `json:"op"`
	Detail    string `json:"detail"`
}

type H struct {
	Stream  string
	Seed    uint64
	N       int
	Tier    string
	OutDir  string
	OpsFile string
	Flush   bool
	Rng     *rand.Rand

	ops, res  *bufio.Writer
	opsF, resF *os.File
	fails     []Failure
	failSeen  map[string]int
	stats     map[string]int
	distinct  map[[16]byte]struct{}
	samples   []string
	evals     int
	start     time.Time
}

// Impl is what each stream provides.
type Impl interface {
	// Gen produces the i-th op line (without newline).
	Gen(h *H, i int) string
	// Exec runs one op against the real code and returns the canonical result line.
	// It records oracle failures through h.Fail and statistics through h.Count / h.Nontrivial.
	Exec(h *H, op string) string
}

func Main(stream string, impl Impl) {
	h := &H{Stream: stream, failSeen: map[string]int{}, stats: map[string]int{}, distinct: map[[16]byte]struct{}{}}
	flag.Uint64Var(&h.Seed, "seed", 1, "seed")
	flag.IntVar(&h.N, "n", 1000, "number of generated ops")
	flag.StringVar(&h.Tier, "tier", "quick", "tier")
	flag.StringVar(&h.OutDir, "out", "", "output directory")
	flag.StringVar(&h.OpsFile, "ops", "", "read ops from this file instead of generating")
	flag.BoolVar(&h.Flush, "flush", false, "write and flush each op before executing it (crash attribution)")
	flag.Parse()
	if h.OutDir == "" {
		fmt.Fprintln(os.Stderr, "need -out")
		os.Exit(2)
	}
	h.start = time.Now()
	h.Rng = rand.New(rand.NewPCG(h.Seed, 0x6a35763a5eed^uint64(len(stream))))
	must(os.MkdirAll(h.OutDir, 0o755))
	var err error
	h.opsF, err = os.Create(filepath.Join(h.OutDir, "ops.txt"))
	must(err)
	h.resF, err = os.Create(filepath.Join(h.OutDir, "go.out"))
	must(err)
	h.ops = bufio.NewWriterSize(h.opsF, 1<<20)
	h.res = bufio.NewWriterSize(h.resF, 1<<20)

	if h.OpsFile != "" {
		f, err := os.Open(h.OpsFile)
		must(err)
		sc := bufio.NewScanner(f)
		sc.Buffer(make([]byte, 1<<20), 1<<28)
		for sc.Scan() {
			line := strings.TrimRight(sc.Text(), "\r\n")
			if line == "" {
				continue
			}
			h.run(impl, line)
		}
		f.Close()
	} else {
		for i := 0; i < h.N; i++ {
			op := impl.Gen(h, i)
			if op == "" {
				continue
			}
			h.run(impl, op)
		}
	}
	h.finish()
}

func (h *H) run(impl Impl, op string) {
	h.evals++
	if len(h.samples) < 8 || (h.evals%997 == 0 && len(h.samples) < 24) {
		s := op
		if len(s) > 300 {
			s = s[:300] + "…"
		}
		h.samples = append(h.samples, s)
	}
	h.ops.WriteString(op)
	h.ops.WriteByte('\n')
	if h.Flush {
		h.ops.Flush()
	}
	res := h.Guard(op, func() string { return impl.Exec(h, op) })
	res = strings.ReplaceAll(res, "\n", "\\n")
	h.res.WriteString(res)
	h.res.WriteByte('\n')
	if h.Flush {
		h.res.Flush()
	}
}

// Guard runs f under recover; a panic becomes the canonical result "panic".
func (h *H) Guard(op string, f func() string) (res string) {
	defer func() {
		if r := recover(); r != nil {
			h.Count("go.panic")
			h.stats["_lastpanic"] = 0
			res = "panic"
			if os.Getenv("VERIF_PANIC_TRACE") != "" {
				fmt.Fprintf(os.Stderr, "PANIC in %s: %v\n%s\n", op, r, debug.Stack())
			}
		}
	}()
	return f()
}

// Fail records a violation of the property oracle on the real code.
func (h *H) Fail(signature, op, detail string) {
	h.failSeen[signature]++
	if h.failSeen[signature] > 5 {
		return
	}
	if len(detail) > 2000 {
		detail = detail[:2000] + "…"
	}
	h.fails = append(h.fails, Failure{Stream: h.Stream, Signature: signature, Op: op, Detail: detail})
}

func (h *H) Count(key string) { h.stats[key]++ }
func (h *H) CountN(key string, n int) { h.stats[key] += n }

// Nontrivial registers a case that is non-trivial by the stream's rule; key identifies it
// up to the canonical form used for distinctness.
func (h *H) Nontrivial(key string) {
	s := sha256.Sum256([]byte(key))
	var k [16]byte
	copy(k[:], s[:16])
	h.distinct[k] = struct{}{}
}

func (h *H) finish() {
	must(h.ops.Flush())
	must(h.res.Flush())
	h.opsF.Close()
	h.resF.Close()
	delete(h.stats, "_lastpanic")
	keys := make([]string, 0, len(h.stats))
	for k := range h.stats {
		keys = append(keys, k)
	}
	sort.Strings(keys)
	st := map[string]any{
		"stream":              h.Stream,
		"seed":                h.Seed,
		"evaluations":         h.evals,
		"distinct_nontrivial": len(h.distinct),
		"samples":             h.samples,
		"counters":            h.stats,
		"failure_signatures":  h.failSeen,
		"wall_s":              time.Since(h.start).Seconds(),
	}
	writeJSON(filepath.Join(h.OutDir, "stats.json"), st)
	if h.fails == nil {
		h.fails = []Failure{}
	}
	writeJSON(filepath.Join(h.OutDir, "oracle.json"), h.fails)
}

func writeJSON(path string, v any) {
	b, err := json.MarshalIndent(v, "", " ")
	must(err)
	must(os.WriteFile(path, b, 0o644))
}

func must(err error) {
	if err != nil {
		fmt.Fprintln(os.Stderr, "harness error:", err)
		os.Exit(2)
	}
}

// Hex encodes bytes for the wire; "-" is the empty string.
func Hex(b []byte) string {
	if len(b) == 0 {
		return "-"
	}
	return hex.EncodeToString(b)
}

func UnHex(s string) ([]byte, bool) {
	if s == "-" {
		return []byte{}, true
	}
	b, err := hex.DecodeString(s)
	return b, err == nil
}

// Pick returns a uniformly chosen element.
func Pick[T any](h *H, xs []T) T { return xs[h.Rng.IntN(len(xs))] }

// Chance returns true with probability num/den.
func (h *H) Chance(num, den int) bool { return h.Rng.IntN(den) < num }
