//go:build verif

package main

import (
	"fmt"
	"os"
	"strings"

	"github.com/pentops/j5/internal/verifh/j5sgen"
	"github.com/pentops/j5/internal/verifh/vh"
)

// ---------------------------------------------------------------------------------------------
// Stream walker.print (WALKER_STREAM=print). PROTOCOL-walker.md §8.
//
//   op      print HEX(filename) HEX(text) SEXP
//   result  tree=<0|1> walk=<ok:DUMP|err:POS|perr|panic> msg=<DUMP|?> same=<0|1> text=<0|1>
//
// SEXP is the abstract file (j5sgen AST, `(*File).Sexp()` with the package declaration made
// explicit), text its rendering by j5sgen.PrintFile in the plain style (style 0). The Go side
// computes the line from the real code: `tree` = the text IS the plain print of the decoded SEXP
// (the op is consistent), `walk` = the real walk of the text, `msg` = the same dump, `same` = the
// walk succeeded. The Lean side computes `tree` by comparing the model's parse of the text with
// `toBcl ast`, `walk` by walking `toBcl ast` in the model, `msg` = dump of `toMsg ast`.
// `text` = the shipped text IS the printer's text (Go: the same comparison as `tree`; Lean: the bytes of the
// model's printer `printJ5s ast` equal the shipped text), so equal lines on a consistent op say that the
// model's text equals the Go printer's text byte for byte.

const printStream = "print"

func streamName() string {
	if os.Getenv("WALKER_STREAM") == printStream {
		return "walker.print"
	}
	return "walker.parse"
}

func printOp(name string, f *j5sgen.File, pkgName string) string {
	c := *f
	if c.DeclPkg == "" {
		c.DeclPkg = pkgName
	}
	text := j5sgen.PrintFile(&c, pkgName, 0)
	return "print " + vh.Hex([]byte(name)) + " " + vh.Hex([]byte(text)) + " " + c.Sexp().String()
}

// decodePrintFile: SEXP -> file (through the bundle decoder, the only exported one for files).
func decodePrintFile(sexp string) (*j5sgen.File, error) {
	_, args, err := j5sgen.ParseLine("x (bundle (pkg 78 " + sexp + "))")
	if err != nil {
		return nil, err
	}
	if len(args) != 1 {
		return nil, fmt.Errorf("expected one s-expression")
	}
	b, err := j5sgen.DecodeBundle(args[0])
	if err != nil {
		return nil, err
	}
	if len(b.Pkgs) != 1 || len(b.Pkgs[0].Files) != 1 {
		return nil, fmt.Errorf("expected one file")
	}
	f := b.Pkgs[0].Files[0]
	if f.Proto || f.DeclPkg == "" {
		return nil, fmt.Errorf("expected a j5s file with (decl …)")
	}
	return f, nil
}

func (im *impl) execPrint(h *vh.H, op string) string {
	f := strings.SplitN(op, " ", 4)
	if len(f) != 4 {
		return "bad-op"
	}
	name, ok1 := vh.UnHex(f[1])
	src, ok2 := vh.UnHex(f[2])
	if !ok1 || !ok2 {
		return "bad-op"
	}
	file, err := decodePrintFile(f[3])
	if err != nil {
		h.Count("print.bad-sexp")
		return "bad-op"
	}
	if !supportedFile(file) {
		// outside the fragment: the verdict is the result. The real walk still runs (oracles, statistics).
		h.Count("print.unsupported")
		r := im.r.Walk(string(name), string(src))
		h.Count("print.unsupported.real-walk." + strings.SplitN(r.Line, " ", 2)[0])
		for _, fl := range r.Fails {
			h.Fail(fl.Sig, op, fl.Detail)
		}
		return "unsupported"
	}
	h.Count("print.supported")
	tree := "1"
	if j5sgen.PrintFile(file, file.DeclPkg, 0) != string(src) {
		h.Count("print.text-is-not-the-plain-print")
		tree = "0"
	}
	r := im.r.Walk(string(name), string(src))
	for _, k := range r.Stats {
		h.Count(k)
	}
	for _, fl := range r.Fails {
		h.Fail(fl.Sig, op, fl.Detail)
	}
	h.Nontrivial(op)
	if os.Getenv("WALKER_TRACE") != "" {
		fmt.Fprintf(os.Stderr, "---- %s\n%s\n=> %s\n   %s\n", name, src, r.Line, r.Debug)
	}
	walk := strings.Replace(r.Line, " ", ":", 1)
	if !strings.HasPrefix(r.Line, "ok ") {
		h.Fail("print-rejected", op, "the real parser does not accept the printed file: "+r.Line+" "+r.Debug)
		return "tree=" + tree + " walk=" + walk + " msg=? same=0 text=" + tree
	}
	return "tree=" + tree + " walk=" + walk + " msg=" + strings.TrimPrefix(r.Line, "ok ") + " same=1 text=" + tree
}

// ---------------------------------------------------------------------------------------------
// generator

type pgen struct {
	h *vh.H
}

var printNames = []string{"", "a.j5s", "foo/bar/v1/x.j5s", "dir/", "a//b/c.j5s", "/abs/v1/f.j5s", "é/v1/ü.j5s", "\xff\xfe/v1/a.j5s"}

func (g *pgen) next(i int) string {
	h := g.h
	c := h.Rng.IntN(100)
	var f *j5sgen.File
	var pkg string
	origin := "tiny"
	switch {
	case c < 55:
		origin = "j5sgen"
		f, pkg = g.generated()
	default:
		f, pkg = g.tiny()
	}
	h.Count("gen.print." + origin)
	name := f.Path
	if h.Chance(1, 10) {
		name = vh.Pick(h, printNames)
	}
	if h.Chance(1, 8) {
		// a near miss: one change that leaves the fragment (both sides must answer `unsupported`)
		if what := g.breakFile(f); what != "" {
			h.Count("gen.print.near-miss." + what)
			origin += "+near-miss"
		}
	}
	// which share of each origin is inside the fragment (the coverage figure of notes/walker.md)
	c2 := *f
	if c2.DeclPkg == "" {
		c2.DeclPkg = pkg
	}
	if supportedFile(&c2) {
		h.Count("gen.print.supported." + origin)
	} else {
		h.Count("gen.print.unsupported." + origin)
	}
	for _, e := range f.Elems {
		h.Count("gen.print.elem." + e.Kind)
	}
	return printOp(name, f, pkg)
}

// generated: one file of a bundle of the compile cluster's generator, every element kind on.
func (g *pgen) generated() (*j5sgen.File, string) {
	h := g.h
	for {
		cfg := j5sgen.DefaultConfig()
		cfg.MaxPkgs = 1 + h.Rng.IntN(2)
		cfg.MaxFiles = 1 + h.Rng.IntN(2)
		cfg.MaxElems = 1 + h.Rng.IntN(4)
		cfg.MaxProps = 1 + h.Rng.IntN(6)
		cfg.MaxDepth = 1 + h.Rng.IntN(3)
		cfg.ProtoFiles = false
		cfg.Rules = h.Chance(1, 2)
		cfg.OddEntNames = h.Chance(1, 8)
		cfg.ListMethods = h.Chance(1, 4)
		cfg.Capture = h.Chance(1, 8)
		cfg.EntityOnly = h.Chance(1, 10)
		b := j5sgen.New(h.Rng, cfg).Bundle()
		pkg := b.Pkgs[h.Rng.IntN(len(b.Pkgs))]
		var files []*j5sgen.File
		for _, f := range pkg.Files {
			if !f.Proto {
				files = append(files, f)
			}
		}
		if len(files) > 0 {
			f := vh.Pick(h, files)
			stripExtras(f)
			return f, pkg.Name
		}
	}
}

// ---- tiny single-feature files: one field of each type / qualifier / rule kind

func sp(s string) *string { return &s }

var tinyNames = []string{"a", "fooId", "bar_baz", "x1", "name", "type", "object", "field", "ref", "true", "false", "string", "required"}
var tinyTypes = []string{"Foo", "Bar", "Q", "Abc1Def", "HTTPThing", "object"}
var tinyStrings = []string{"", "x", "^[a-z]+$", "a b", "with \"quote\"", "back\\slash", "a.b", "2020-01-01", "10.5", "{}", "// no comment", "| no description", "tab\there", "cr\rhere", "nul\x00.", "\\\"", "\\n"}
var tinyPkgs = []string{"", "foo.v1", "other", "a.b.v2", "j5.list.v1"}

func (g *pgen) str() string { return vh.Pick(g.h, tinyStrings) }

func (g *pgen) num() uint64 {
	h := g.h
	switch h.Rng.IntN(6) {
	case 0:
		return 0
	case 1:
		return uint64(h.Rng.IntN(10))
	case 2:
		return uint64(h.Rng.IntN(100000))
	case 3:
		return 9223372036854775807
	case 4:
		return 4294967296
	}
	return uint64(h.Rng.IntN(1000))
}

type ruleSpec struct {
	name string
	kind string // target of the conversion: u64 i64 f64 b s strs
}

// the rule properties of every field type with the type the walker converts the literal to (the
// `Rules` schemas of j5.schema.v1; the Lean side reads the same from the schema facts). Timestamp
// minimum / maximum are left out (the walker has no conversion for timestamps); key, oneof and any
// fields have no rule properties.
var rulesOf = map[string][]ruleSpec{
	j5sgen.FString:    {{"pattern", "s"}, {"minLength", "u64"}, {"maxLength", "u64"}},
	j5sgen.FInteger:   {{"exclusiveMaximum", "b"}, {"exclusiveMinimum", "b"}, {"minimum", "i64"}, {"maximum", "i64"}, {"multipleOf", "i64"}},
	j5sgen.FFloat:     {{"exclusiveMaximum", "b"}, {"exclusiveMinimum", "b"}, {"minimum", "f64"}, {"maximum", "f64"}, {"multipleOf", "f64"}},
	j5sgen.FBool:      {{"const", "b"}},
	j5sgen.FBytes:     {{"minLength", "u64"}, {"maxLength", "u64"}},
	j5sgen.FDecimal:   {{"minimum", "s"}, {"maximum", "s"}, {"exclusiveMinimum", "b"}, {"exclusiveMaximum", "b"}},
	j5sgen.FDate:      {{"minimum", "s"}, {"maximum", "s"}, {"exclusiveMinimum", "b"}, {"exclusiveMaximum", "b"}},
	j5sgen.FTimestamp: {{"exclusiveMinimum", "b"}, {"exclusiveMaximum", "b"}},
	j5sgen.FEnum:      {{"in", "strs"}, {"notIn", "strs"}},
	j5sgen.FArray:     {{"minItems", "u64"}, {"maxItems", "u64"}, {"uniqueItems", "b"}},
	j5sgen.FMap:       {{"minPairs", "u64"}, {"maxPairs", "u64"}},
	j5sgen.FObject:    {{"minProperties", "u64"}, {"maxProperties", "u64"}},
}

func (g *pgen) rules(kind string) []j5sgen.Rule {
	h := g.h
	specs := rulesOf[kind]
	if len(specs) == 0 || h.Chance(1, 2) {
		return nil
	}
	var out []j5sgen.Rule
	perm := h.Rng.Perm(len(specs))
	n := 1 + h.Rng.IntN(len(specs))
	for _, i := range perm[:n] {
		s := specs[i]
		r := j5sgen.Rule{Name: s.name}
		switch s.kind {
		case "u64", "f64":
			r.Lit = j5sgen.Lit{Kind: "i", N: g.num()}
			if h.Chance(1, 8) {
				r.Lit.N = 18446744073709551615
			}
		case "i64":
			r.Lit = j5sgen.Lit{Kind: "i", N: g.num()}
		case "s":
			r.Lit = j5sgen.Lit{Kind: "s", S: g.str()}
		case "b":
			r.Lit = j5sgen.Lit{Kind: "b", B: h.Chance(1, 2)}
		case "strs":
			r.Lit = j5sgen.Lit{Kind: "strs"}
			// never empty: `rules.in = []` is a scalar for the walker ("bad type: want Scalar") - an empty
			// list has no accepted spelling in the printer's form
			for k := 1 + h.Rng.IntN(3); k > 0; k-- {
				r.Lit.Strs = append(r.Lit.Strs, g.str())
			}
		}
		out = append(out, r)
	}
	return out
}

func (g *pgen) tinyEntKey() *j5sgen.EntKey {
	h := g.h
	var ek *j5sgen.EntKey
	switch h.Rng.IntN(5) {
	case 0:
		return nil
	case 1:
		ek = &j5sgen.EntKey{Kind: "plain"}
	case 2:
		ek = &j5sgen.EntKey{Kind: "primary", Primary: h.Chance(2, 3)}
	default:
		ek = &j5sgen.EntKey{Kind: "foreign", FPkg: vh.Pick(h, []string{"other.v1", "a.b.v2", "x"}), FEntity: vh.Pick(h, []string{"Thing", "acct"})}
	}
	if h.Chance(1, 2) {
		ek.Tenant = sp(vh.Pick(h, []string{"account", "org", ""}))
	}
	return ek
}

func (g *pgen) tinyProps(oneof bool, depth int) []*j5sgen.Prop {
	h := g.h
	n := h.Rng.IntN(3)
	if oneof && n == 0 {
		n = 1
	}
	var out []*j5sgen.Prop
	for i := 0; i < n; i++ {
		p := &j5sgen.Prop{Name: fmt.Sprintf("%s%d", vh.Pick(h, tinyNames), i), Field: g.tinyField(depth+1, oneof)}
		if !oneof {
			g.marks(p)
		}
		out = append(out, p)
	}
	return out
}

func (g *pgen) marks(p *j5sgen.Prop) {
	switch g.h.Rng.IntN(6) {
	case 0:
		p.Req = true
	case 1:
		p.Opt = true
	case 2:
		p.Req, p.Opt = true, true
	}
}

func (g *pgen) tinyRef(kind string, depth int) *j5sgen.TRef {
	h := g.h
	c := h.Rng.IntN(4)
	if depth >= 3 && c >= 2 {
		c = h.Rng.IntN(2)
	}
	switch c {
	case 0: // reference, plain
		return &j5sgen.TRef{Kind: j5sgen.RRef, Pkg: vh.Pick(h, tinyPkgs), Schema: vh.Pick(h, tinyTypes)}
	case 1: // reference with a dotted schema name: written as ref.schema / ref.package attributes
		return &j5sgen.TRef{Kind: j5sgen.RRef, Pkg: vh.Pick(h, tinyPkgs), Schema: vh.Pick(h, tinyTypes) + "." + vh.Pick(h, tinyTypes)}
	}
	name := ""
	if h.Chance(1, 2) {
		name = vh.Pick(h, tinyTypes)
	}
	switch kind {
	case j5sgen.FObject:
		return &j5sgen.TRef{Kind: j5sgen.RInlObj, Name: name, Props: g.tinyProps(false, depth)}
	case j5sgen.FOneof:
		return &j5sgen.TRef{Kind: j5sgen.RInlOneof, Name: name, Props: g.tinyProps(true, depth)}
	}
	t := &j5sgen.TRef{Kind: j5sgen.RInlEnum, Name: name}
	if h.Chance(1, 2) {
		t.Prefix = vh.Pick(h, []string{"IN_", "K_", "x"})
	}
	for k := h.Rng.IntN(4); k > 0; k-- {
		t.Opts = append(t.Opts, vh.Pick(h, []string{"A", "B1", "FOO_BAR", "UNSPECIFIED", "IN_A", "true"}))
	}
	return t
}

var tinyKinds = []string{j5sgen.FString, j5sgen.FBool, j5sgen.FBytes, j5sgen.FDate, j5sgen.FDecimal, j5sgen.FTimestamp, j5sgen.FAny,
	j5sgen.FInteger, j5sgen.FFloat, j5sgen.FKey, j5sgen.FObject, j5sgen.FOneof, j5sgen.FEnum, j5sgen.FArray, j5sgen.FMap}

func (g *pgen) tinyField(depth int, objectOnly bool) *j5sgen.Field {
	h := g.h
	kind := vh.Pick(h, tinyKinds)
	if objectOnly && h.Chance(3, 4) {
		kind = j5sgen.FObject
	}
	if depth >= 4 && (kind == j5sgen.FArray || kind == j5sgen.FMap) {
		kind = j5sgen.FString
	}
	f := &j5sgen.Field{Kind: kind, Rules: g.rules(kind)}
	switch kind {
	case j5sgen.FInteger:
		f.Fmt = vh.Pick(h, []string{"int32", "int64", "uint32", "uint64"})
		// keep the literals inside the narrowest target (int64 rules for every format)
	case j5sgen.FFloat:
		f.Fmt = vh.Pick(h, []string{"float32", "float64"})
	case j5sgen.FKey:
		f.Fmt = vh.Pick(h, []string{"none", "informal", "uuid", "id62", "custom"})
		if f.Fmt == "custom" {
			f.Pattern = g.str()
		}
		f.EntKey = g.tinyEntKey()
	case j5sgen.FObject:
		f.Ref = g.tinyRef(kind, depth)
		f.Flatten = h.Chance(1, 4)
	case j5sgen.FOneof:
		f.Ref = g.tinyRef(kind, depth)
	case j5sgen.FEnum:
		f.Ref = g.tinyRef(kind, depth)
		if h.Chance(1, 3) {
			f.HasList = true
			for k := h.Rng.IntN(3); k > 0; k-- {
				f.ListFilters = append(f.ListFilters, vh.Pick(h, []string{"A", "IN_A", "x y"}))
			}
		}
	case j5sgen.FArray, j5sgen.FMap:
		for {
			f.Items = g.tinyField(depth+1, false)
			// the abstract syntax has no collection of collections (j5sgen's decoder refuses them;
			// array of array / map of map cannot be written in j5s at all: notes/walker.md, Go side, candidate 2)
			if f.Items.Kind != j5sgen.FArray && f.Items.Kind != j5sgen.FMap {
				break
			}
		}
	}
	return f
}

func (g *pgen) tinyEnum() *j5sgen.Enum {
	h := g.h
	e := &j5sgen.Enum{Name: vh.Pick(h, tinyTypes)}
	if h.Chance(1, 2) {
		e.Prefix = vh.Pick(h, []string{"PX_", "KIND_", "lower"})
	}
	for k := h.Rng.IntN(4); k > 0; k-- {
		e.Opts = append(e.Opts, vh.Pick(h, []string{"A", "B1", "FOO_BAR", "UNSPECIFIED", "PX_A", "false"}))
	}
	return e
}

// tinyObject: nested schemas only where the real parser has a block for them: `object` inside an
// object (j5.sourcedef.v1.Object has the alias `object` only; `enum` / `oneof` inside an object and
// anything inside a top-level oneof are refused: "has no field enum"), all three inside an entity.
func (g *pgen) tinyObject(oneof bool, depth int) *j5sgen.Object {
	h := g.h
	o := &j5sgen.Object{Oneof: oneof, Name: vh.Pick(h, tinyTypes), Props: g.tinyProps(oneof, 0)}
	if !oneof && depth < 2 && h.Chance(1, 3) {
		for k := 1 + h.Rng.IntN(2); k > 0; k-- {
			o.Nested = append(o.Nested, &j5sgen.Elem{Kind: j5sgen.KObject, Object: g.tinyObject(false, depth+1)})
		}
	}
	return o
}

func (g *pgen) tinyNested() []*j5sgen.Elem {
	h := g.h
	var out []*j5sgen.Elem
	for k := 1 + h.Rng.IntN(3); k > 0; k-- {
		switch h.Rng.IntN(3) {
		case 0:
			out = append(out, &j5sgen.Elem{Kind: j5sgen.KObject, Object: g.tinyObject(false, 1)})
		case 1:
			out = append(out, &j5sgen.Elem{Kind: j5sgen.KOneof, Object: g.tinyObject(true, 1)})
		default:
			out = append(out, &j5sgen.Elem{Kind: j5sgen.KEnum, Enum: g.tinyEnum()})
		}
	}
	return out
}

func (g *pgen) tinyService(named bool) *j5sgen.Service {
	h := g.h
	s := &j5sgen.Service{}
	if named || h.Chance(1, 2) {
		s.Name = vh.Pick(h, tinyTypes)
	}
	if h.Chance(1, 2) {
		s.BasePath = sp(vh.Pick(h, []string{"", "/x/v1", "cmd/sub"}))
	}
	for k := h.Rng.IntN(3); k > 0; k-- {
		m := &j5sgen.Method{Name: vh.Pick(h, tinyTypes), Verb: vh.Pick(h, []string{"get", "post", "put", "patch", "delete"}),
			Path: vh.Pick(h, []string{"", "/", "/a/:b", "x"}), Req: g.tinyProps(false, 1)}
		if h.Chance(1, 2) {
			m.HasRes = true
			m.Res = g.tinyProps(false, 1)
		}
		s.Methods = append(s.Methods, m)
	}
	return s
}

func (g *pgen) tinyMsgs(n int) []*j5sgen.TMsg {
	h := g.h
	var out []*j5sgen.TMsg
	for ; n > 0; n-- {
		m := &j5sgen.TMsg{Props: g.tinyProps(false, 1)}
		if h.Chance(2, 3) {
			m.Name = sp(vh.Pick(h, tinyTypes))
		}
		out = append(out, m)
	}
	return out
}

func (g *pgen) tinyTopic() *j5sgen.Topic {
	h := g.h
	t := &j5sgen.Topic{Name: vh.Pick(h, tinyTypes), Kind: vh.Pick(h, []string{"publish", "reqres", "upsert"})}
	switch t.Kind {
	case "publish":
		t.Msgs = g.tinyMsgs(h.Rng.IntN(3))
	case "upsert":
		t.Msgs = g.tinyMsgs(1)
	default:
		t.Reqs = g.tinyMsgs(h.Rng.IntN(3))
		t.Reps = g.tinyMsgs(h.Rng.IntN(3))
	}
	return t
}

func (g *pgen) tinyEntity() *j5sgen.Entity {
	h := g.h
	e := &j5sgen.Entity{Name: vh.Pick(h, []string{"Acct", "ticket", "user_profile"})}
	if h.Chance(1, 2) {
		e.BaseURL = vh.Pick(h, []string{"custom/path", "x"})
	}
	for k := h.Rng.IntN(3); k > 0; k-- {
		p := &j5sgen.Prop{Name: fmt.Sprintf("k%d", k), Field: g.tinyField(2, false)}
		g.marks(p)
		e.Keys = append(e.Keys, &j5sgen.EKey{Prop: p, Shard: h.Chance(1, 3)})
	}
	e.Data = g.tinyProps(false, 1)
	for k := h.Rng.IntN(3); k > 0; k-- {
		e.Statuses = append(e.Statuses, vh.Pick(h, []string{"ACTIVE", "A", "true", "B1"}))
	}
	for k := h.Rng.IntN(3); k > 0; k-- {
		ev := g.tinyObject(false, 1)
		e.Events = append(e.Events, ev)
	}
	for k := h.Rng.IntN(3); k > 0; k-- {
		e.Commands = append(e.Commands, g.tinyService(false))
	}
	for k := h.Rng.IntN(3); k > 0; k-- {
		s := &j5sgen.Summary{Props: g.tinyProps(false, 1)}
		if h.Chance(1, 2) {
			s.Name = vh.Pick(h, tinyTypes)
		}
		e.Summaries = append(e.Summaries, s)
	}
	if h.Chance(1, 2) {
		e.Query = &j5sgen.Query{EventsInGet: h.Chance(1, 2)}
		for k := h.Rng.IntN(3); k > 0; k-- {
			e.Query.Filters = append(e.Query.Filters, vh.Pick(h, []string{"ACTIVE", "A", "x y"}))
		}
	}
	if h.Chance(1, 3) {
		e.Nested = g.tinyNested()
	}
	return e
}

func (g *pgen) tiny() (*j5sgen.File, string) {
	h := g.h
	pkg := vh.Pick(h, []string{"foo.v1", "foo.v1", "a.b.v2", "x", "true.v1"})
	f := &j5sgen.File{Path: strings.ReplaceAll(pkg, ".", "/") + "/" + vh.Pick(h, []string{"a", "b", "x_y"}) + ".j5s"}
	if h.Chance(1, 4) {
		f.DeclPkg = vh.Pick(h, []string{"other.v1", "p"})
	}
	for k := h.Rng.IntN(3); k > 0 && h.Chance(1, 2); k-- {
		im := j5sgen.Import{Path: vh.Pick(h, []string{"other.v1", "a.b.v2", "x", "dir/file.proto", "a/b"})}
		if h.Chance(1, 3) {
			// with a path string the printer drops the alias: it must not show up in the message either
			im.Alias = vh.Pick(h, []string{"al", "dep0", "x"})
		}
		f.Imports = append(f.Imports, im)
	}
	n := 1
	if h.Chance(1, 4) {
		n = h.Rng.IntN(4)
	}
	for ; n > 0; n-- {
		var e *j5sgen.Elem
		switch c := h.Rng.IntN(20); {
		case c < 10:
			// one object holding one field: the field-type × qualifier × rule matrix
			p := &j5sgen.Prop{Name: vh.Pick(h, tinyNames), Field: g.tinyField(0, false)}
			g.marks(p)
			e = &j5sgen.Elem{Kind: j5sgen.KObject, Object: &j5sgen.Object{Name: vh.Pick(h, tinyTypes), Props: []*j5sgen.Prop{p}}}
		case c < 12:
			e = &j5sgen.Elem{Kind: j5sgen.KObject, Object: g.tinyObject(false, 0)}
		case c < 14:
			e = &j5sgen.Elem{Kind: j5sgen.KOneof, Object: g.tinyObject(true, 0)}
		case c < 15:
			e = &j5sgen.Elem{Kind: j5sgen.KEnum, Enum: g.tinyEnum()}
		case c < 17:
			e = &j5sgen.Elem{Kind: j5sgen.KService, Service: g.tinyService(true)}
		case c < 18:
			e = &j5sgen.Elem{Kind: j5sgen.KTopic, Topic: g.tinyTopic()}
		default:
			e = &j5sgen.Elem{Kind: j5sgen.KEntity, Entity: g.tinyEntity()}
		}
		f.Elems = append(f.Elems, e)
	}
	return f, pkg
}


// stripExtras removes the members of the generator's AST that the walker's abstract syntax (J5V.Compile.SrcFile as
// Walker/Print.lean reads it) does not carry: written enum option numbers (`option X { number = 5 }`, `Nums`,
// `StatusNums`) and the entity annotation of hand-written objects (`PSM`). The generator package belongs to the
// compile cluster and grows; the print stream stays inside the fragment `supported` describes.
func stripExtras(f *j5sgen.File) {
	for _, e := range f.Elems {
		stripElem(e)
	}
}

func stripElem(e *j5sgen.Elem) {
	if e == nil {
		return
	}
	if e.Object != nil {
		stripObject(e.Object)
	}
	if e.Enum != nil {
		e.Enum.Nums = nil
	}
	if e.Service != nil {
		stripService(e.Service)
	}
	if e.Topic != nil {
		for _, ms := range [][]*j5sgen.TMsg{e.Topic.Msgs, e.Topic.Reqs, e.Topic.Reps} {
			for _, m := range ms {
				stripProps(m.Props)
			}
		}
	}
	if e.Entity != nil {
		en := e.Entity
		en.StatusNums = nil
		for _, k := range en.Keys {
			stripProp(k.Prop)
		}
		stripProps(en.Data)
		for _, o := range en.Events {
			stripObject(o)
		}
		for _, c := range en.Commands {
			stripService(c)
		}
		for _, sm := range en.Summaries {
			stripProps(sm.Props)
		}
		for _, n := range en.Nested {
			stripElem(n)
		}
	}
}

func stripObject(o *j5sgen.Object) {
	o.PSM = nil
	stripProps(o.Props)
	for _, n := range o.Nested {
		stripElem(n)
	}
}

func stripService(s *j5sgen.Service) {
	for _, m := range s.Methods {
		stripProps(m.Req)
		stripProps(m.Res)
	}
}

func stripProps(ps []*j5sgen.Prop) {
	for _, p := range ps {
		stripProp(p)
	}
}

func stripProp(p *j5sgen.Prop) {
	if p != nil {
		stripField(p.Field)
	}
}

func stripField(f *j5sgen.Field) {
	if f == nil {
		return
	}
	if f.Ref != nil {
		f.Ref.Nums = nil
		stripProps(f.Ref.Props)
	}
	stripField(f.Items)
}
